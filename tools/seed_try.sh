#!/bin/bash
# seed_try.sh <name> <patch.diff> <check ids...>
# Runs the checks against a seeded change WITHOUT touching /repo or /verif:
# a scratch worktree of /repo gets the patch, a scratch copy of /verif (without
# build/, evidence/, .git) is pointed at it through VERIF_REPO. Everything is
# removed at the end. TIER=quick|thorough, VERIF_SEED as usual.
set -u
name=$1; patch=$(readlink -f "$2"); shift 2
root=/tmp/seedtry/$name
rm -rf "$root"; mkdir -p "$root"
cleanup() {
  if [ -n "${KEEP_FOUND:-}" ] && [ -d "$root/verif/replays-found" ]; then rm -rf "$KEEP_FOUND"; cp -r "$root/verif/replays-found" "$KEEP_FOUND"; fi
  git -C /repo worktree remove --force "$root/repo" >/dev/null 2>&1
  rm -rf "$root"
  git -C /repo worktree prune
}
trap cleanup EXIT
git -C /repo worktree add -q --detach "$root/repo" HEAD || exit 2
git -C "$root/repo" apply "$patch" || { echo "patch does not apply"; exit 2; }
rsync -a --exclude .git --exclude build --exclude evidence --exclude replays-found --exclude 'seeded' /verif/ "$root/verif/"
for id in "$@"; do
  start=$(date +%s)
  out=$(cd "$root/verif" && VERIF_REPO="$root/repo" VERIF_SEED=${VERIF_SEED:-1} ./check $id --tier ${TIER:-quick} 2>&1)
  rc=$?
  echo "=== $name $id rc=$rc ($(( $(date +%s)-start ))s)"
  echo "$out" | grep -E "VIOLATION|key=|\[check\] C|build failed" | head -${LINES_MAX:-12}
  echo "   ($(echo "$out" | grep -c KNOWN-FINDING) KNOWN-FINDING lines)"
  if [ $rc -ne 0 ] && [ -n "${KEEP_OUT:-}" ]; then echo "$out" > "$KEEP_OUT.$id.log"; fi
done
