#!/usr/bin/env python3
"""Generate harness/go.mod from /repo/go.mod (same go line, require/replace/exclude blocks) so that the
harness builds with the repository's own build list, offline."""
import re, sys, os, shutil
REPO = os.environ.get("VERIF_REPO", "/repo")
def main(dst):
    src = open(os.path.join(REPO, "go.mod")).read()
    out = []
    out.append("module verifharness\n")
    skip_tool = False
    for line in src.splitlines():
        if line.startswith("module "):
            continue
        if line.startswith("tool ") or line.startswith("tool("):
            # tool directives refer to packages needed only by the repo's own tooling
            if line.rstrip().endswith("("):
                skip_tool = True
            continue
        if skip_tool:
            if line.startswith(")"):
                skip_tool = False
            continue
        out.append(line)
    out.append("")
    out.append("require github.com/conduitio/conduit v0.0.0")
    out.append("require pgregory.net/rapid v1.3.0")
    out.append("replace github.com/conduitio/conduit => " + REPO)
    text = "\n".join(out) + "\n"
    p = os.path.join(dst, "go.mod")
    old = open(p).read() if os.path.exists(p) else None
    if old != text:
        open(p, "w").write(text)
    # go.sum: repo's + rapid lines
    sums = open(os.path.join(REPO, "go.sum")).read()
    extra = open(os.path.join(os.path.dirname(os.path.abspath(__file__)), "rapid.sum")).read()
    s = sums + extra
    ps = os.path.join(dst, "go.sum")
    olds = open(ps).read() if os.path.exists(ps) else None
    if olds != s:
        open(ps, "w").write(s)
if __name__ == "__main__":
    main(sys.argv[1])
