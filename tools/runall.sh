#!/bin/bash
# runall.sh <tier> <seed> [ids...] : run the checks one after the other, print one summary line per check
tier=${1:-quick}; seed=${2:-1}; shift 2
ids=${@:-C01 C02 C03 C04 C05 C06 C07 C08 C09 C10 C11 C12 C13 C14 C15 C16 C17 C18 C19 C20}
cd /verif
for id in $ids; do
  start=$(date +%s)
  out=$(VERIF_SEED=$seed ./check $id --tier $tier 2>&1); rc=$?
  echo "$id rc=$rc $(( $(date +%s)-start ))s :: $(echo "$out" | grep -E "^\[check\] $id " | tail -1)"
  echo "$out" | grep -E "VIOLATION|  key=|note:" | head -6
done
