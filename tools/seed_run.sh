#!/bin/bash
# seed_run.sh <patch.diff> <check ids...> : apply a seeded change to /repo, run the quick checks, undo it.
set -u
patch=$1; shift
git -C /repo status --short | grep -q . && { echo "/repo not clean"; exit 2; }
git -C /repo apply "$patch" || { echo "patch does not apply to /repo"; exit 2; }
trap 'git -C /repo checkout -q -- . ; git -C /repo status --short' EXIT
for id in "$@"; do
  start=$(date +%s)
  out=$(cd /verif && VERIF_SEED=${VERIF_SEED:-1} ./check $id --tier ${TIER:-quick} 2>&1)
  rc=$?
  echo "=== $id rc=$rc ($(( $(date +%s)-start ))s)"
  echo "$out" | grep -E "VIOLATION|key=|\[check\] C" | head -8
done
