#!/bin/bash
# seed_intake.sh <worktree-name e.g. C02b> <check ids...>: verify a delivered seed, store it under seeded/<ID>-<letter>, run checks against it
wt=$1; shift
id=${wt:0:3}; letter=${wt:3:1}; name=$id-$letter
mkdir -p /tmp/seedv
/verif/tools/seed_verify.sh /tmp/seed/$wt > /tmp/seedv/$wt.out 2>&1
grep RESULT /tmp/seedv/$wt.out
mkdir -p /verif/seeded/$name && cp -r /tmp/seed/$wt/_seed/* /verif/seeded/$name/
/verif/tools/seed_try.sh $name /verif/seeded/$name/patch.diff "$@"
