#!/usr/bin/env python3
"""Generate MANIFEST.json from checks.json (single source of truth for per-property metadata)."""
import json, os, subprocess
V = os.path.dirname(os.path.dirname(os.path.abspath(__file__)))
cfg = json.load(open(os.path.join(V, "checks.json")))
props = [json.loads(l) for l in open(os.path.join(V, "properties.jsonl"))]
ids = [p["id"] for p in props]
hooks_commits = cfg.get("hook_commits", [])
checks = []
na = []
for pid in ids:
    c = cfg["properties"].get(pid)
    if c is None or c.get("disabled"):
        reason = (c or {}).get("disabled") or cfg.get("not_applicable", {}).get(pid, "check not built yet in this session")
        na.append({"property_id": pid, "reason": reason})
        continue
    checks.append({
        "property_id": pid,
        "quick_cmd": "./check %s --tier quick" % pid,
        "thorough_cmd": "./check %s --tier thorough" % pid,
        "evidence_file": "/verif/evidence/%s.json" % pid,
        "replay_cmd_template": "./check %s --replay {path}" % pid,
        "engine": c.get("engine", "engine-lab" if "lab" in c.get("design_ref", "") or "§5" in c.get("design_ref", "") else "harness"),
        "level_claimed": {"category": c["level"], "text": c.get("level_text", c["rule"][:600]), "design_ref": c.get("design_ref", "DESIGN.md")},
        "level_note": "; ".join(c.get("assumptions", [])) or "none",
        "technique": c["technique"],
    })
m = {
    "version": 1,
    "setup_cmd": "./check --build",
    "hooks": {
        "guard": "verif",
        "enable": "checks build /repo with `go test -c -tags verif` (pkg/foundation/verifhook yield points); without the tag verifhook.Yield is an empty function",
        "baseline_off_cmd": "cd /repo && go test -mod=mod -json -vet=off -count=1 -timeout 25m ./...",
        "source_commits": hooks_commits,
        "add_only": True,
    },
    "engines": [
        {"name": "engine-lab", "path": "harness/lab", "kind_free_text": "real Conduit services and both lifecycle engines around scripted fake plugins, a fault-injecting store, a global event log and a boundary scheduler whose choices are rapid draws",
         "serves_properties": [p for p in ids if p in cfg["properties"] and "lab" in json.dumps(cfg["properties"][p].get("parts", []))]},
        {"name": "harness", "path": "harness/props", "kind_free_text": "rapid property tests and native Go fuzz targets against exported Conduit packages",
         "serves_properties": [p for p in ids if p in cfg["properties"]]},
    ],
    "checks": checks,
    "not_applicable": na,
    "notes": "All checks are property-based tests / fuzzing (pgregory.net/rapid v1.3.0, go test -fuzz). ./check <ID> rebuilds the harness test binary from /repo's working tree on every invocation. known_findings.json lists fixed defects (suppress nothing) and recorded findings.",
}
json.dump(m, open(os.path.join(V, "MANIFEST.json"), "w"), indent=1)
print("MANIFEST.json: %d checks, %d not_applicable" % (len(checks), len(na)))
