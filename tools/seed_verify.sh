#!/bin/bash
# seed_verify.sh <worktree> : confirm a seeded change in its scratch worktree:
#  patch applies + builds + existing tests of touched packages pass + demo fails with it and passes without it.
set -u
export GOFLAGS=-mod=mod GOPROXY=off
wt=$1
cd "$wt" || exit 2
meta=_seed/meta.json
demo_cmd=$(python3 -c "import json;print(json.load(open('$meta'))['demo_cmd'])")
touched=$(git apply --numstat _seed/patch.diff | awk '{print $3}' | xargs -n1 dirname | sort -u | sed 's#^#./#' | tr '\n' ' ')
echo "touched packages: $touched"
git checkout -q -- . 2>/dev/null
# make sure demo files are in place
python3 - <<PY
import json,os,shutil,glob
m=json.load(open('$meta'))
for f in m.get('demo_files',[]):
    base=os.path.basename(f)
    src=os.path.join('_seed',base)
    if os.path.exists(src) and not os.path.exists(f) and not f.startswith('_seed'):
        os.makedirs(os.path.dirname(f) or '.',exist_ok=True); shutil.copy(src,f)
PY
echo "== unchanged tree: demo (expect PASS)"
bash -c "$demo_cmd" > /tmp/seedv/$(basename $wt).clean.log 2>&1; rc_clean=$?
tail -3 /tmp/seedv/$(basename $wt).clean.log
git apply _seed/patch.diff || { echo "PATCH DOES NOT APPLY"; exit 1; }
echo "== changed tree: build"
go build ./... > /tmp/seedv/$(basename $wt).build.log 2>&1; rc_build=$?
echo "== changed tree: existing tests of touched packages (demo tests skipped by -skip 'Seed|Demo')"
go test $touched -count=1 -skip 'Seed|Demo' > /tmp/seedv/$(basename $wt).tests.log 2>&1; rc_tests=$?
grep -v "^ok\|no test files" /tmp/seedv/$(basename $wt).tests.log | head -5
echo "== changed tree: demo (expect FAIL)"
bash -c "$demo_cmd" > /tmp/seedv/$(basename $wt).mut.log 2>&1; rc_mut=$?
tail -3 /tmp/seedv/$(basename $wt).mut.log
git checkout -q -- .
echo "RESULT clean_demo_rc=$rc_clean build_rc=$rc_build tests_rc=$rc_tests mutated_demo_rc=$rc_mut"
