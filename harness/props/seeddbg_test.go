package props

import (
	"os"
	"testing"

	"verifharness/lab"
)

func TestDebugSeedC01(t *testing.T) {
	if os.Getenv("VERIF_DEBUG") == "" {
		t.Skip()
	}
	c := &lab.Case{
		Engine: "v2", PersistDelayMs: 1, PersistBundle: 1,
		Recovery: lab.RecoverySpec{MinMs: 3, MaxMs: 9, Factor: 2, MaxRetries: 0, WindowMs: 60000},
		Sources:  []lab.SourceSpec{{ID: "src0", N: 6, Batches: []int{5}, ReadFaultAfter: -1, EmptyPosAt: -1, DupPosAt: -1}},
		Dests:    []lab.DestSpec{{ID: "dst0", PerPiece: map[string]lab.Outcome{lab.Key(0, 1, 0): lab.OutNack, lab.Key(0, 2, 0): lab.OutNack, lab.Key(0, 3, 0): lab.OutNack}}},
		DLQ:      lab.DLQSpec{WindowSize: 0, Threshold: 0, PerRecord: map[string]lab.Outcome{lab.Key(0, 1, 0): lab.OutNack}},
	}
	k := 0
	res := lab.RunCase(c, func(n int) int { k++; return k % n })
	m := lab.BuildModel(c)
	h := lab.NewHistory(c, m, res.Events)
	t.Logf("final=%s err=%.200s", res.FinalStatus, res.FinalErr)
	for _, v := range h.CheckC01() {
		t.Logf("VIOLATION %s", v.String())
	}
	t.Log("\n" + lab.Format(res.Events, 0))
}
