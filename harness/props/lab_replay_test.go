package props

import (
	"encoding/json"
	"os"
	"testing"

	"verifharness/lab"
)

// labOracle returns the violations of one property on a finished lab case.
func labOracle(prop string, res *lab.Result, m *lab.Model, h *lab.History) []lab.Violation {
	switch prop {
	case "C01":
		return h.CheckC01()
	case "C04":
		return h.CheckC04()
	case "C05":
		return h.CheckC05()
	case "C11":
		vs := h.CheckC11Control(res)
		if !res.Case.HasHold() {
			vs = append(vs, lab.CheckWedge(res)...)
		}
		return vs
	}
	if f, ok := extraLabOracles[prop]; ok {
		return f(res, m, h)
	}
	return nil
}

// extraLabOracles is filled by the per-property files.
var extraLabOracles = map[string]func(*lab.Result, *lab.Model, *lab.History) []lab.Violation{}

// replayLab re-executes a saved lab case (5 runs with the recorded scheduler
// choices; the schedule between boundary events is not reproducible, R6) and
// fails if the property's oracle reports a violation in any of them.
func replayLab(t *testing.T, prop string) {
	f := os.Getenv("VERIF_REPLAY_FILE")
	if f == "" {
		t.Skip("VERIF_REPLAY_FILE not set")
	}
	raw, err := os.ReadFile(f)
	if err != nil {
		t.Fatal(err)
	}
	var doc replayDoc
	if err := json.Unmarshal(raw, &doc); err != nil {
		t.Fatal(err)
	}
	if doc.Replay.Case == nil {
		t.Skip("not a lab replay")
	}
	for i := 0; i < 5; i++ {
		var c lab.Case
		b, _ := json.Marshal(doc.Replay.Case)
		_ = json.Unmarshal(b, &c)
		res := lab.RunCase(&c, lab.ReplayPick(c.Choices))
		m := lab.BuildModel(&c)
		h := lab.NewHistory(&c, m, res.Events)
		vs := labOracle(prop, res, m, h)
		for _, v := range vs {
			t.Errorf("run %d: %s", i, v.String())
		}
		if len(vs) > 0 {
			t.Logf("history:\n%s", lab.Format(res.Events, 120))
			return
		}
	}
}

func TestReplayC01(t *testing.T) { replayLab(t, "C01") }
func TestReplayC04(t *testing.T) { replayLab(t, "C04") }
func TestReplayC05(t *testing.T) { replayLab(t, "C05") }
func TestReplayC11(t *testing.T) { replayLab(t, "C11") }

// loadReplay reads VERIF_REPLAY_FILE into doc; false (and Skip) if unset.
func loadReplay(t *testing.T, doc any) bool {
	f := os.Getenv("VERIF_REPLAY_FILE")
	if f == "" {
		t.Skip("VERIF_REPLAY_FILE not set")
		return false
	}
	raw, err := os.ReadFile(f)
	if err != nil {
		t.Fatal(err)
	}
	if err := json.Unmarshal(raw, doc); err != nil {
		t.Fatal(err)
	}
	return true
}
