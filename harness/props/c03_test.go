package props

import (
	"encoding/json"
	"fmt"
	"strings"
	"testing"

	"pgregory.net/rapid"
	"verifharness/lab"
	"verifharness/pbt"
)

func c03Opts() lab.GenOpts {
	return lab.GenOpts{
		Engines: []string{"v1", "v2"}, MaxSources: 3, MaxDests: 3, MaxRecords: 14, MaxProcs: 2,
		Nacks: true, ProcErrors: true, Filters: true, Splits: true, Conditions: true, Workers: true,
		ReadFaults: true, GateCommits: true, GateAcks: true, UnlimitedDLQ: true, DLQFaults: true, StoreFaults: true,
		ClientKinds: []string{"stop", "stopandwait"}, ClientProb: 0.3,
		MaxRetries: []int64{0, 1, 2},
	}
}

type c03Replay struct {
	labReplay
	CrashAt      int      `json:"crash_at"`
	RestartStore []string `json:"restart_store_keys,omitempty"`
	RestartHist  []string `json:"restart_history,omitempty"`
}

// crashAndRestart boots a fresh world from the store as of prefix p of res and drains it.
// It returns the combined history (prefix + restart run) and the restart result.
func crashAndRestart(c *lab.Case, res *lab.Result, p int, pick func(int) int) ([]lab.Event, *lab.Result, map[string][]byte) {
	snapNo := 0
	maxAcked := map[string]int{}
	for _, e := range res.Events[:p] {
		if (e.Kind == lab.EvDBCommit || e.Kind == lab.EvDBSet) && e.OK && e.Snap != 0 {
			snapNo = e.Snap
		}
		if e.Kind == lab.EvSrcAck && e.Src >= 0 {
			if q, ok := maxAcked[e.Comp]; !ok || e.Seq > q {
				maxAcked[e.Comp] = e.Seq
			}
		}
	}
	snap := res.World.DB.Snap(snapNo)
	// the restarted server sees the same external systems, but no scripted faults or control calls
	var c2 lab.Case
	b, _ := json.Marshal(c)
	_ = json.Unmarshal(b, &c2)
	c2.Client = nil
	c2.StoreFaults = nil
	c2.GateCommits, c2.GateCallbacks = false, false
	for i := range c2.Sources {
		c2.Sources[i].ReadFaultAfter = -1
	}
	c2.Choices = nil
	r2 := lab.RunCaseOpts(&c2, pick, lab.RunOpts{Restart: snap, MaxAcked: maxAcked})
	combined := append([]lab.Event(nil), res.Events[:p]...)
	combined = append(combined, lab.Event{Kind: lab.EvNote, Src: -1, Seq: -1, Info: fmt.Sprintf("CRASH at prefix %d, restart on snapshot %d", p, snapNo)})
	for _, e := range r2.Events {
		if e.Inst != 0 {
			e.Inst += 1000 // plugin instances of the restarted process are different objects
		}
		combined = append(combined, e)
	}
	for i := range combined {
		combined[i].I = i
	}
	return combined, r2, snap
}

// c03Restart checks one crash point dynamically.
func c03Restart(c *lab.Case, m *lab.Model, res *lab.Result, p int, pick func(int) int) ([]lab.Violation, []lab.Event, *lab.Result) {
	combined, r2, snap := crashAndRestart(c, res, p, pick)
	if r2.ProvisionErr != nil {
		return []lab.Violation{{Prop: "C03", Key: "C03/restart/services-do-not-load-the-store", Detail: r2.ProvisionErr.Error(), Index: p}}, combined, r2
	}
	var vs []lab.Violation
	h := lab.NewHistory(c, m, combined)
	vs = append(vs, h.CheckResume("C03")...)
	// the position a source is reopened with is the stored one
	first := map[string]bool{}
	for i := p + 1; i < len(combined); i++ {
		e := combined[i]
		if e.Kind != lab.EvSrcOpen || e.Info != "" || first[e.Comp] {
			continue
		}
		first[e.Comp] = true
		want, ok := lab.StoredPosition(snap, e.Comp)
		if ok && e.Pos != want {
			vs = append(vs, lab.Violation{Prop: "C03", Key: "C03/restart/reopened-with-other-than-stored-position/" + c.Engine, Index: i,
				Detail: fmt.Sprintf("source %s reopened with %q but the store held %q at the crash", e.Comp, e.Pos, want)})
		}
	}
	// Nothing is skipped: what the restarted run acks is handled (across both runs) and
	// continues exactly behind the position it was opened with. Records that were read but not
	// yet handled when the run ends stay unacked and are simply read again later.
	for _, v := range h.CheckC01() {
		v.Prop, v.Key = "C03", "C03/restart/acked-unhandled/"+v.Key
		vs = append(vs, v)
	}
	for _, v := range h.CheckC04() {
		v.Prop, v.Key = "C03", "C03/restart/ack-order/"+v.Key
		vs = append(vs, v)
	}
	return vs, combined, r2
}

// TestC03: a crash at any instant loses no record.
func TestC03(t *testing.T) {
	st := pbt.For("C03")
	defer st.Finish(t)
	opts := c03Opts()
	rapid.Check(t, func(t *rapid.T) {
		c := lab.GenCase(t, opts)
		res, m, h := runLab(t, "C03", c)
		if res.ProvisionErr != nil {
			t.Fatalf("provision: %v", res.ProvisionErr)
		}
		// static part: every prefix (the quantities only change at commits and acks)
		var vs []lab.Violation
		for _, v := range h.CheckC02(res.World.DB.Snap) {
			switch {
			case strings.HasPrefix(v.Key, "C02/position-stored-before-handled"):
				v.Prop, v.Key = "C03", "C03/prefix/stored-position-past-unhandled-record/"+c.Engine
			case v.Key == "C02/ack-without-durable-position":
				v.Prop, v.Key = "C03", "C03/prefix/upstream-told-to-discard-beyond-store"
			default:
				continue
			}
			vs = append(vs, v)
		}
		// crash points worth restarting from: around commits and acks, after the pipeline runs
		running := -1
		var cand []int
		for i, e := range res.Events {
			if running < 0 && e.Kind == lab.EvStatus && strings.HasPrefix(e.Info, "Running") {
				running = i
			}
			if running < 0 {
				continue
			}
			switch e.Kind {
			case lab.EvDBCommit:
				cand = append(cand, i, i+1)
			case lab.EvSrcAck, lab.EvDstAck:
				cand = append(cand, i, i+1)
			}
		}
		// a crash only matters while the pipeline is stored as running
		end := len(res.Events)
		for i, e := range res.Events {
			if i > running && running >= 0 && e.Kind == lab.EvStatus && !strings.HasPrefix(e.Info, "Running") && !strings.HasPrefix(e.Info, "Recovering") {
				end = i
				break
			}
		}
		var pts []int
		for _, p := range cand {
			if p > running && p <= end && p <= len(res.Events) {
				pts = append(pts, p)
			}
		}
		nRestarts := 0
		interesting := false
		if len(vs) == 0 && len(pts) > 0 && !res.Wedged {
			k := pbt.Scale(2, 4)
			for j := 0; j < k && j < len(pts); j++ {
				p := pts[lab.Uniform(t, "crashpoint", len(pts))]
				// between a destination confirmation and the commit covering it, or between commit and ack
				if p > 0 && p < len(res.Events) {
					prev, next := res.Events[p-1].Kind, res.Events[p].Kind
					if (prev == lab.EvDstAck && next != lab.EvDstAck) || (prev == lab.EvDBCommit) || next == lab.EvSrcAck {
						interesting = true
					}
				}
				rv, combined, r2 := c03Restart(c, m, res, p, rapidPick(t))
				nRestarts++
				if r2.Wedged {
					st.Class("restart-wedged", 1)
				}
				if len(rv) > 0 {
					res2 := *res
					res2.Events = combined
					failOn(t, st, &res2, rv)
				}
			}
		}
		f := factsOf(res, m)
		nontrivial := nRestarts > 0 && interesting && f.Acks > 0
		cls := labClasses(res)
		cls = append(cls, fmt.Sprintf("restarts=%d", nRestarts))
		for _, s := range c.Sources {
			if s.Pruning {
				cls = append(cls, "pruning-upstream")
				break
			}
		}
		if res.Inconclusive != "" {
			st.Inconcl(res.Inconclusive)
		}
		st.Case(pbt.Hash(c), nontrivial, cls...)
		st.Class("crash-points-restarted", nRestarts)
		if nontrivial && st.WantSample() {
			st.Sample(map[string]any{"case": c, "crash_points_available": len(pts), "history_tail": historyLines(tail(res.Events, 30))})
		}
		failOn(t, st, res, vs)
	})
}

func TestReplayC03(t *testing.T) { replayLab(t, "C03") }

func init() {
	extraLabOracles["C03"] = func(res *lab.Result, m *lab.Model, h *lab.History) []lab.Violation {
		var vs []lab.Violation
		for _, v := range h.CheckC02(res.World.DB.Snap) {
			if strings.HasPrefix(v.Key, "C02/position-stored-before-handled") || v.Key == "C02/ack-without-durable-position" {
				v.Prop = "C03"
				vs = append(vs, v)
			}
		}
		// a replayed history that already contains a CRASH marker is judged as a whole
		vs = append(vs, h.CheckResume("C03")...)
		return vs
	}
}
