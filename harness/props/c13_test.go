package props

import (
	"context"
	"encoding/json"
	"fmt"
	"strconv"
	"strings"
	"sync"
	"testing"
	"time"

	"github.com/conduitio/conduit/pkg/foundation/cerrors"
	"github.com/conduitio/conduit/pkg/lifecycle"
	"github.com/conduitio/conduit/pkg/processor"
	"pgregory.net/rapid"
	"verifharness/lab"
	"verifharness/pbt"
)

// c13Req is one scripted live-reconfigure request.
type c13Req struct {
	AtStep   int    `json:"at_step"`
	Proc     string `json:"proc"`
	Gen      int    `json:"gen"`
	OpenFail bool   `json:"open_fail,omitempty"`
	Cancel   bool   `json:"cancel,omitempty"`   // the request's context is already cancelled
	Parallel bool   `json:"parallel,omitempty"` // a second request for the same processor is issued at the same time
	// CancelInOpen: the caller gives up while the node is inside the (slow) Open of this request's
	// processor; once the call has returned a follow-up request for generation FollowGen is
	// issued, still before that Open answers.
	CancelInOpen bool `json:"cancel_in_open,omitempty"`
	FollowGen    int  `json:"follow_gen,omitempty"`
	follow       bool // this is such a follow-up request
}

type c13Replay struct {
	labReplay
	Reqs []c13Req `json:"requests"`
}

type c13Result struct {
	req     c13Req
	ctl     *lab.CtlResult
	twin    *lab.CtlResult
	probeOK bool // a normal-API Update after the swap was refused with ErrProcessorRunning
	probed  bool
	probeEr string
}

func c13Opts() lab.GenOpts {
	return lab.GenOpts{
		Engines: []string{"v1"}, MaxSources: 2, MaxDests: 2, MaxRecords: 16, MaxProcs: 2,
		Filters: true, Conditions: true, UnlimitedDLQ: true, ProcErrors: true,
	}
}

func genC13(t *rapid.T) (*lab.Case, []c13Req) {
	c := lab.GenCase(t, c13Opts())
	// make sure there is at least one single-worker processor
	if len(c.Procs) == 0 {
		c.Procs = append(c.Procs, lab.ProcSpec{ID: "proc0", Parent: "", Workers: 1, Gen: 1, PerRecord: map[string]string{}})
	}
	for i := range c.Procs {
		c.Procs[i].Workers = 1
	}
	total := c.TotalRecords()
	n := rapid.IntRange(1, 3).Draw(t, "nreq")
	var reqs []c13Req
	gen := 1
	failGens := map[string]int{}
	for i := 0; i < n; i++ {
		gen++
		p := c.Procs[lab.Uniform(t, "reqproc", len(c.Procs))].ID
		r := c13Req{AtStep: rapid.IntRange(0, 2*total+6).Draw(t, "reqat"), Proc: p, Gen: gen}
		switch {
		case lab.Chance(t, "openfail", 25) && failGens[p] == 0:
			r.OpenFail = true
			failGens[p] = gen
		case lab.Chance(t, "cancel", 12):
			r.Cancel = true
		case lab.Chance(t, "cancelinopen", 25):
			r.Cancel, r.CancelInOpen = true, true
			gen++
			r.FollowGen = gen
			if lab.Chance(t, "cancelinopen-fails", 30) && failGens[p] == 0 {
				// the abandoned request's Open fails: the follow-up must not inherit that error
				r.OpenFail = true
				failGens[p] = r.Gen
			}
		case lab.Chance(t, "parallel", 20):
			r.Parallel = true
		}
		reqs = append(reqs, r)
	}
	for i := range c.Procs {
		if g := failGens[c.Procs[i].ID]; g != 0 {
			c.Procs[i].OpenFailGen = g
		}
	}
	// requests are issued in step order
	for i := 1; i < len(reqs); i++ {
		if reqs[i].AtStep < reqs[i-1].AtStep {
			reqs[i].AtStep = reqs[i-1].AtStep
		}
	}
	return c, reqs
}

// runC13 runs the case and issues the reconfigure requests at their steps.
func runC13(c *lab.Case, reqs []c13Req, pick func(int) int) (*lab.Result, []*c13Result) {
	var results []*c13Result
	steps := 0
	next := 0
	var w *lab.World
	var runner *lab.Runner
	var reqMu, resMu sync.Mutex
	type inOpen struct {
		cancel   context.CancelFunc
		returned chan struct{}
		follow   c13Req
	}
	pendingOpen := map[string]*inOpen{} // proc + "/" + gen
	var issue func(rq c13Req)
	issue = func(rq c13Req) {
		cr := &c13Result{req: rq}
		resMu.Lock()
		results = append(results, cr)
		resMu.Unlock()
		var io *inOpen
		if rq.CancelInOpen {
			io = &inOpen{returned: make(chan struct{}), follow: c13Req{AtStep: rq.AtStep, Proc: rq.Proc, Gen: rq.FollowGen, follow: true}}
			resMu.Lock()
			pendingOpen[rq.Proc+"/"+strconv.Itoa(rq.Gen)] = io
			resMu.Unlock()
		}
		do := func(tag string) *lab.CtlResult {
			return runner.Call(tag, func(ctx context.Context) error {
				inst, err := w.Processors.Get(ctx, rq.Proc)
				if err != nil {
					return err
				}
				cfg := processor.Config{Settings: map[string]string{"gen": strconv.Itoa(rq.Gen)}, Workers: inst.Config.Workers}
				if tag == "reconfigure" {
					// "update the stored config, then swap the node" is one step for real callers
					// (provisioning holds a per-pipeline lock around it); only the twin request
					// deliberately races the swap itself
					reqMu.Lock()
					defer reqMu.Unlock()
					if _, err := w.Processors.UpdateWhileRunning(ctx, rq.Proc, lab.PluginProc, cfg); err != nil {
						return fmt.Errorf("update-while-running: %w", err)
					}
				}
				rctx := ctx
				if rq.CancelInOpen {
					cctx, cancel := context.WithCancel(ctx)
					resMu.Lock()
					io.cancel = cancel
					resMu.Unlock()
					defer close(io.returned)
					rctx = cctx
				} else if rq.Cancel {
					cctx, cancel := context.WithCancel(ctx)
					cancel()
					rctx = cctx
				}
				var err2 error
				if c.Engine == "v2" {
					err2 = w.V2.ReconfigureProcessor(rctx, lab.PipelineID, rq.Proc)
				} else {
					err2 = w.V1.ReconfigureProcessor(rctx, lab.PipelineID, rq.Proc)
				}
				if !rq.Cancel && tag == "reconfigure" {
					// the instance must still be guarded as running (normal API update refused)
					_, perr := w.Processors.Update(ctx, rq.Proc, lab.PluginProc, cfg)
					cr.probed = true
					cr.probeOK = perr != nil && cerrors.Is(perr, processor.ErrProcessorRunning)
					if perr != nil {
						cr.probeEr = perr.Error()
					}
				}
				return err2
			})
		}
		cr.ctl = do("reconfigure")
		if rq.Parallel {
			cr.twin = do("reconfigure-twin")
		}
	}
	// a slow Open: the caller of the request being opened gives up, returns, and the next request
	// arrives while the node is still inside Open
	onProcOpen := func(comp, gen string) {
		resMu.Lock()
		io := pendingOpen[comp+"/"+gen]
		delete(pendingOpen, comp+"/"+gen)
		var cancel context.CancelFunc
		if io != nil {
			cancel = io.cancel
		}
		resMu.Unlock()
		if io == nil || cancel == nil {
			return
		}
		cancel()
		select {
		case <-io.returned:
		case <-time.After(500 * time.Millisecond):
			return
		}
		issue(io.follow)
		time.Sleep(3 * time.Millisecond) // let the follow-up stage its request
	}
	res := lab.RunCaseWith(c, func(n int) int {
		steps++
		for next < len(reqs) && reqs[next].AtStep <= steps {
			issue(reqs[next])
			next++
		}
		return pick(n)
	}, func(world *lab.World, r *lab.Runner) {
		w, runner = world, r
		w.Hooks.OnProcOpen = onProcOpen
	})
	resMu.Lock()
	defer resMu.Unlock()
	return res, results
}

// stampOf extracts the generation processor id stamped on a written record ("" if none).
func stampOf(gens, id string) (gen string, count int) {
	for _, part := range strings.Split(gens, ";") {
		if strings.HasPrefix(part, id+"=") {
			gen = strings.TrimPrefix(part, id+"=")
			count++
		}
	}
	return gen, count
}

func c13Oracle(c *lab.Case, res *lab.Result, results []*c13Result, h *lab.History) []lab.Violation {
	var vs []lab.Violation
	add := func(key, detail string, idx int) {
		vs = append(vs, lab.Violation{Prop: "C13", Key: "C13/" + key, Detail: detail, Index: idx})
	}
	if res.Wedged {
		return nil
	}
	if c.Engine == "v2" {
		for _, r := range results {
			if r.ctl.Returned && (r.ctl.Error() == nil || !cerrors.Is(r.ctl.Error(), lifecycle.ErrProcessorNotLiveReconfigurable)) {
				add("v2-did-not-refuse-live-reconfigure", "arch-v2 has no live swap and must answer ErrProcessorNotLiveReconfigurable, got: "+r.ctl.Err, r.ctl.RetIdx)
			}
		}
		return vs
	}
	// order, acks and positions are unaffected
	for _, v := range h.CheckC04() {
		v.Prop, v.Key = "C13", "C13/acks-affected/"+v.Key
		vs = append(vs, v)
	}
	for _, v := range h.CheckC05() {
		v.Prop, v.Key = "C13", "C13/order-affected/"+v.Key
		vs = append(vs, v)
	}
	for _, v := range h.CheckC01() {
		v.Prop, v.Key = "C13", "C13/acks-affected/"+v.Key
		vs = append(vs, v)
	}
	// per processor: the order in which configurations were switched in is the order of the
	// successful Open calls of its instances (concurrent requests are applied in either order)
	genRank := map[string]map[string]int{} // proc -> gen -> instance number that runs it
	for _, p := range c.Procs {
		instOfGen := map[string]int{}
		failedInst := map[int]bool{}
		for _, e := range res.Events {
			if e.Kind != lab.EvProcOpen || e.Comp != p.ID {
				continue
			}
			if e.Info != "" {
				failedInst[e.Inst] = true
				continue
			}
			if _, dup := instOfGen[e.Gen]; !dup {
				instOfGen[e.Gen] = e.Inst
			}
		}
		genRank[p.ID] = instOfGen
		type win struct{ call, ret, inst int }
		var applied []win
		for _, r := range results {
			if r.req.Proc != p.ID {
				continue
			}
			g := strconv.Itoa(r.req.Gen)
			if r.twin != nil && r.twin.Returned && r.twin.Err != "" && h.Healthy() &&
				!strings.Contains(r.twin.Err, "already in progress") && !strings.Contains(r.twin.Err, lab.Marker) &&
				!strings.Contains(r.twin.Err, "is not running") {
				add("concurrent-request-failed-unexpectedly", fmt.Sprintf("a second concurrent reconfigure of %s must be serialised, refused as 'already in progress' or fail like a single request would, got: %s", p.ID, r.twin.Err), r.twin.RetIdx)
			}
			// the twin swaps in whatever configuration is stored at that moment, so only the main
			// request is tied to its generation
			for _, cr := range []*lab.CtlResult{r.ctl} {
				if cr == nil || !cr.Returned {
					continue
				}
				if cr.Err == "" {
					if x, ok := instOfGen[g]; ok {
						applied = append(applied, win{cr.CallIdx, cr.RetIdx, x})
					} else if !r.req.Cancel {
						add("request-succeeded-but-nothing-was-opened", fmt.Sprintf("processor %s: request for gen %s returned nil but no instance with that configuration was opened", p.ID, g), cr.RetIdx)
					}
				}
			}
			if r.req.follow && r.ctl.Returned && r.ctl.Err != "" && strings.Contains(r.ctl.Err, lab.Marker) && p.OpenFailGen != r.req.Gen {
				add("request-answered-with-another-requests-error", fmt.Sprintf("processor %s: the request for gen %d (whose Open does not fail) returned the Open error of another request: %s", p.ID, r.req.Gen, r.ctl.Err), r.ctl.RetIdx)
			}
			if r.req.OpenFail && !r.req.CancelInOpen && r.ctl.Returned && r.ctl.Err == "" {
				add("failed-open-reported-as-success", fmt.Sprintf("processor %s: opening gen %d fails but the request returned nil", p.ID, r.req.Gen), r.ctl.RetIdx)
			}
			if r.probed && !r.probeOK && r.ctl.Returned && h.Healthy() {
				// only while the pipeline was running for sure when the probe ran: the run never
				// failed and the first stop request came after the probe
				firstStop := len(res.Events)
				for i, e := range res.Events {
					if e.Kind == lab.EvCtlCall && strings.HasPrefix(e.Comp, "stop") {
						firstStop = i
						break
					}
				}
				if r.ctl.RetIdx < firstStop {
					add("running-guard-lost-after-swap", fmt.Sprintf("normal API Update of %s right after a live reconfigure was not refused with ErrProcessorRunning (got %q)", p.ID, r.probeEr), r.ctl.RetIdx)
				}
			}
		}
		// application order = order of the successful Open calls
		openRank := map[int]int{}
		for _, e := range res.Events {
			if e.Kind == lab.EvProcOpen && e.Comp == p.ID && e.Info == "" {
				if _, dup := openRank[e.Inst]; !dup {
					openRank[e.Inst] = len(openRank) + 1
				}
			}
		}
		for i := range applied {
			applied[i].inst = openRank[applied[i].inst]
		}
		for g, x := range instOfGen {
			instOfGen[g] = openRank[x]
		}
		lastInst := 0
		for i, e := range res.Events {
			if e.Kind != lab.EvProcCall || e.Comp != p.ID || e.Inst <= 1 {
				continue
			}
			if failedInst[e.Inst] {
				add("record-processed-by-configuration-that-failed-to-open", fmt.Sprintf("processor %s processed s%d:%d with instance %d (gen %s) whose open failed", p.ID, e.Src, e.Seq, e.Inst, e.Gen), i)
				continue
			}
			rk := openRank[e.Inst]
			if rk < lastInst {
				add("old-configuration-used-after-the-switch", fmt.Sprintf("processor %s processed s%d:%d with the configuration opened %d-th (gen %s) after the one opened %d-th had already been used", p.ID, e.Src, e.Seq, rk, e.Gen, lastInst), i)
			}
			if rk > lastInst {
				lastInst = rk
			}
			for _, a := range applied {
				if i > a.ret && rk < a.inst {
					add("record-after-switch-processed-by-old-configuration", fmt.Sprintf("processor %s processed s%d:%d with instance %d at #%d although the switch to instance %d had returned at #%d", p.ID, e.Src, e.Seq, e.Inst, i, a.inst, a.ret), i)
				}
				if i < a.call && rk == a.inst {
					add("new-configuration-used-before-the-request", fmt.Sprintf("processor %s used instance %d at #%d before the request was issued at #%d", p.ID, a.inst, i, a.call), i)
				}
			}
		}
	}
	// (2) every written record carries exactly one stamp of every processor on its path that handled it
	for i, e := range res.Events {
		if e.Kind != lab.EvDstWrite || lab.IsDLQ(e.Comp) || e.Src < 0 {
			continue
		}
		for _, p := range c.Procs {
			if _, n := stampOf(e.Gen, p.ID); n > 1 {
				add("record-processed-twice", fmt.Sprintf("record s%d:%d at %s carries %d stamps of processor %s", e.Src, e.Seq, e.Comp, n, p.ID), i)
			}
		}
	}
	// (3) per (destination instance, source) the stamps of a processor never go back to an older generation
	type dk struct {
		comp string
		inst int
		src  int
		proc string
	}
	lastGen := map[dk]int{}
	for i, e := range res.Events {
		if e.Kind != lab.EvDstWrite || lab.IsDLQ(e.Comp) || e.Src < 0 {
			continue
		}
		for _, p := range c.Procs {
			g, n := stampOf(e.Gen, p.ID)
			if n != 1 {
				continue
			}
			gi, known := genRank[p.ID][g]
			if !known {
				continue
			}
			k := dk{e.Comp, e.Inst, e.Src, p.ID}
			if prev, ok := lastGen[k]; ok && gi < prev {
				add("destination-sees-old-configuration-after-new", fmt.Sprintf("%s: record s%d:%d processed by %s instance %d (gen %s) after a record of instance %d", e.Comp, e.Src, e.Seq, p.ID, gi, g, prev), i)
			}
			if gi > lastGen[k] {
				lastGen[k] = gi
			}
		}
	}
	return vs
}

// TestC13: live processor reconfiguration never drops, duplicates or reorders records.
func TestC13(t *testing.T) {
	st := pbt.For("C13")
	defer st.Finish(t)
	rapid.Check(t, func(t *rapid.T) {
		c, reqs := genC13(t)
		if lab.Chance(t, "v2", 6) {
			c.Engine = "v2"
		}
		pbt.MarkCurrent("C13", map[string]any{"case": c, "requests": reqs})
		res, results := runC13(c, reqs, rapidPick(t))
		if res.ProvisionErr != nil {
			t.Fatalf("provision: %v", res.ProvisionErr)
		}
		m := lab.BuildModel(c)
		h := lab.NewHistory(c, m, res.Events)
		// non-trivial: a swap was applied while records were in flight upstream of the node
		inflight := false
		applied := 0
		for _, r := range results {
			if r.ctl.Returned && r.ctl.Err == "" {
				applied++
				emitted, acked := 0, 0
				for _, e := range res.Events[:r.ctl.CallIdx] {
					if e.Kind == lab.EvSrcEmit {
						emitted++
					}
					if e.Kind == lab.EvSrcAck {
						acked++
					}
				}
				if emitted > acked {
					inflight = true
				}
			}
		}
		nontrivial := applied > 0 && inflight && c.Engine == "v1"
		cls := []string{"engine=" + c.Engine, fmt.Sprintf("applied=%d", applied), "final=" + res.FinalStatus.String()}
		for _, r := range results {
			switch {
			case r.req.follow:
				cls = append(cls, "req:follow-up-issued-during-abandoned-open")
			case r.req.CancelInOpen:
				cls = append(cls, "req:cancelled-during-open")
			case r.req.OpenFail:
				cls = append(cls, "req:open-fails")
			case r.req.Cancel:
				cls = append(cls, "req:cancelled-context")
			case r.req.Parallel:
				cls = append(cls, "req:two-concurrent")
			default:
				cls = append(cls, "req:plain")
			}
		}
		if inflight {
			cls = append(cls, "swap-with-records-in-flight")
		}
		if res.Inconclusive != "" {
			st.Inconcl(res.Inconclusive)
		}
		st.Case(pbt.Hash(map[string]any{"c": c, "r": reqs}), nontrivial, cls...)
		if nontrivial && st.WantSample() {
			st.Sample(map[string]any{"case": c, "requests": reqs, "history_tail": historyLines(tail(res.Events, 30))})
		}
		vs := c13Oracle(c, res, results, h)
		fatal := false
		var first lab.Violation
		for _, v := range vs {
			rp := c13Replay{labReplay: labReplay{Case: c, History: historyLines(res.Events), Violations: vs, Status: res.FinalStatus.String()}, Reqs: reqs}
			if st.Report(v.Key, v.Detail, c.TotalRecords()*1000+len(res.Events), rp) {
				if !fatal {
					first = v
				}
				fatal = true
			}
		}
		if fatal {
			t.Fatalf("%s", first.String())
		}
	})
}

// TestReplayC13 / TestReplayC10 re-run a saved case; the schedule between boundary events is not reproducible (R6),
// so the case is repeated a few times.
func TestReplayC13(t *testing.T) {
	var doc struct {
		Replay c13Replay `json:"replay"`
	}
	if !loadReplay(t, &doc) {
		return
	}
	for i := 0; i < 5; i++ {
		var c lab.Case
		b, _ := json.Marshal(doc.Replay.Case)
		_ = json.Unmarshal(b, &c)
		res, results := runC13(&c, doc.Replay.Reqs, lab.ReplayPick(c.Choices))
		m := lab.BuildModel(&c)
		vs := c13Oracle(&c, res, results, lab.NewHistory(&c, m, res.Events))
		for _, v := range vs {
			t.Errorf("run %d: %s", i, v.String())
		}
		if len(vs) > 0 {
			return
		}
	}
}
