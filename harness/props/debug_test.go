package props

import (
	"encoding/json"
	"os"
	"testing"
	"time"

	"pgregory.net/rapid"
	"verifharness/lab"
)

// TestDebugWedge is a development aid: prints wedged / inconclusive cases.
func TestDebugWedge(t *testing.T) {
	if os.Getenv("VERIF_DEBUG") == "" {
		t.Skip("development aid")
	}
	lab.Quiet = 2 * time.Second
	opts := c01Opts()
	n := 0
	rapid.Check(t, func(rt *rapid.T) {
		c := lab.GenCase(rt, opts)
		res := lab.RunCase(c, rapidPick(rt))
		if res.Wedged || res.Inconclusive != "" {
			n++
			b, _ := json.Marshal(c)
			t.Logf("WEDGE %s | %s\ncase=%s\n%s", res.WedgeInfo, res.Inconclusive, b, lab.Format(res.Events, 60))
		}
	})
}
