package props

import (
	"encoding/json"
	"fmt"
	"sort"
	"strings"
	"testing"

	"github.com/conduitio/conduit/pkg/pipeline"
	"pgregory.net/rapid"
	"verifharness/lab"
	"verifharness/pbt"
)

// genC07 draws a single-source case: rejections by a destination or a pipeline processor, a DLQ
// window configuration, optionally one failing DLQ write, one or two destinations, no recovery.
func genC07(t *rapid.T) *lab.Case {
	engine := []string{"v1", "v2"}[lab.Uniform(t, "engine", 2)]
	n := rapid.IntRange(3, 12).Draw(t, "n")
	ndst := 1
	if lab.Chance(t, "fanout", 40) {
		ndst = 2
	}
	c := &lab.Case{
		Engine: engine, PersistDelayMs: 1, PersistBundle: []int{1, 2, 1000}[lab.Uniform(t, "bundle", 3)],
		Recovery: lab.RecoverySpec{MinMs: 2, MaxMs: 4, Factor: 2, MaxRetries: 0, WindowMs: 60000},
		Sources: []lab.SourceSpec{{ID: "src0", N: n, Batches: []int{rapid.IntRange(1, 5).Draw(t, "b0"), rapid.IntRange(1, 5).Draw(t, "b1")},
			ReadFaultAfter: -1, EmptyPosAt: -1, DupPosAt: -1}},
		DLQ: lab.DLQSpec{PerRecord: map[string]lab.Outcome{}},
	}
	for d := 0; d < ndst; d++ {
		c.Dests = append(c.Dests, lab.DestSpec{ID: fmt.Sprintf("dst%d", d), PerPiece: map[string]lab.Outcome{}, Group: []int{rapid.IntRange(1, 3).Draw(t, "g")}})
	}
	byProc := lab.Chance(t, "byproc", 30)
	if byProc {
		c.Procs = []lab.ProcSpec{{ID: "proc0", Parent: "", Workers: 1, Gen: 1, PerRecord: map[string]string{}}}
	}
	pct := []int{15, 35, 60}[lab.Uniform(t, "density", 3)]
	for q := 0; q < n; q++ {
		if !lab.Chance(t, "reject", pct) {
			continue
		}
		if byProc {
			c.Procs[0].PerRecord[lab.Key(0, q, 0)] = lab.KError
		} else {
			c.Dests[lab.Uniform(t, "rejdst", ndst)].PerPiece[lab.Key(0, q, 0)] = lab.OutNack
		}
	}
	// valid window configurations only (pipeline.Service.UpdateDLQ): size 0, or threshold < size
	c.DLQ.WindowSize = rapid.IntRange(0, 5).Draw(t, "win")
	if c.DLQ.WindowSize == 0 {
		c.DLQ.Threshold = rapid.IntRange(0, 3).Draw(t, "thr")
	} else {
		c.DLQ.Threshold = rapid.IntRange(0, c.DLQ.WindowSize-1).Draw(t, "thr")
	}
	if lab.Chance(t, "dlqfault", 30) {
		q := lab.Uniform(t, "dlqfaultat", n)
		c.DLQ.PerRecord[lab.Key(0, q, 0)] = []lab.Outcome{lab.OutNack, lab.OutErr}[lab.Uniform(t, "dlqout", 2)]
		c.DLQ.ErrEOF = lab.Chance(t, "dlqeof", 40)
	}
	return c
}

// c07Decisions applies the statement's window rule to the scripted outcome sequence (source
// order): 0 = confirmed, 1 = tolerated rejection, 2 = refused rejection (everything behind the
// first refusal is moot: the pipeline stops there).
func c07Decisions(c *lab.Case, m *lab.Model) (dec []int, firstRefused int) {
	n := c.Sources[0].N
	dec = make([]int, n)
	firstRefused = -1
	var hist []bool
	for q := 0; q < n; q++ {
		f := m.Fate(0, q)
		rej := f != nil && f.Rejected()
		if !rej {
			hist = append(hist, false)
			continue
		}
		tolerated := true
		if c.DLQ.WindowSize > 0 {
			cnt := 1
			prev := c.DLQ.WindowSize - 1
			for i := len(hist) - 1; i >= 0 && prev > 0; i, prev = i-1, prev-1 {
				if hist[i] {
					cnt++
				}
			}
			tolerated = cnt <= c.DLQ.Threshold
		}
		hist = append(hist, true)
		if tolerated {
			dec[q] = 1
		} else {
			dec[q] = 2
			firstRefused = q
			break
		}
	}
	return dec, firstRefused
}

type c07Facts struct {
	Acked     []int // source positions acked in the first run
	DLQd      []int // records the DLQ confirmed in the first run
	Threshold bool  // the pipeline stopped because the nack threshold was exceeded
	Final     string
}

func c07Oracle(c *lab.Case, res *lab.Result, m *lab.Model, h *lab.History) ([]lab.Violation, c07Facts) {
	var vs []lab.Violation
	var facts c07Facts
	eng := c.Engine
	add := func(key, detail string, idx int) {
		vs = append(vs, lab.Violation{Prop: "C07", Key: "C07/" + key + "/" + eng, Detail: detail, Index: idx})
	}
	if res.Wedged {
		return nil, facts
	}
	_, firstRefused := c07Decisions(c, m)
	type ik struct{ inst, seq int }
	dlqOK := map[ik]int{}    // positive DLQ confirmations per (DLQ instance, record)
	dlqFail := map[int]int{} // record -> index of a failed DLQ write (first run of the source)
	lastDLQSeq := map[int]int{}
	acked := map[int]int{}
	for i, e := range res.Events {
		switch {
		case e.Kind == lab.EvDstWrite && lab.IsDLQ(e.Comp):
			if e.Src != 0 {
				add("dlq-record-not-the-original", fmt.Sprintf("the DLQ received a record that does not carry an original source record: %s", e.Info), i)
				continue
			}
			if p, ok := lastDLQSeq[e.Inst]; ok && e.Seq < p {
				add("dlq-order", fmt.Sprintf("the DLQ received s0:%d after s0:%d", e.Seq, p), i)
			}
			lastDLQSeq[e.Inst] = e.Seq
			if !strings.Contains(e.Info, "nackerr=") || strings.Contains(e.Info, "nackerr= node=") || strings.HasSuffix(strings.TrimSpace(e.Info), "node=") {
				add("dlq-record-incomplete", fmt.Sprintf("the dead-letter record of s0:%d lacks the error or the failing component: %q", e.Seq, e.Info), i)
			}
		case e.Kind == lab.EvDstAck && lab.IsDLQ(e.Comp) && e.Src == 0:
			if e.OK {
				dlqOK[ik{e.Inst, e.Seq}]++
				if dlqOK[ik{e.Inst, e.Seq}] > 1 {
					add("dead-lettered-twice", fmt.Sprintf("s0:%d was confirmed by the DLQ %d times in one run", e.Seq, dlqOK[ik{e.Inst, e.Seq}]), i)
				}
				if e.Inst == 1 {
					facts.DLQd = append(facts.DLQd, e.Seq)
				}
			} else if _, ok := dlqFail[e.Seq]; !ok && e.Inst == 1 {
				dlqFail[e.Seq] = i
			}
		case e.Kind == lab.EvDstErr && lab.IsDLQ(e.Comp) && e.Src == 0 && e.Inst == 1:
			if _, ok := dlqFail[e.Seq]; !ok {
				dlqFail[e.Seq] = i
			}
		case e.Kind == lab.EvSrcAck && e.Src == 0 && e.Inst == 1:
			if _, ok := acked[e.Seq]; !ok {
				acked[e.Seq] = i
				facts.Acked = append(facts.Acked, e.Seq)
			}
		}
	}
	sort.Ints(facts.Acked)
	sort.Ints(facts.DLQd)
	// a failed DLQ write never results in an ack (of that record or of anything behind it)
	for q, fi := range dlqFail {
		for a, ai := range acked {
			if a >= q && ai > fi {
				add("acked-after-failed-dlq-write", fmt.Sprintf("the DLQ write of s0:%d failed at #%d but s0:%d was acked to the source at #%d", q, fi, a, ai), ai)
				break
			}
		}
	}
	// ... and never in a stored position at or past that record (the engine-level ack moves the
	// durable position before the plugin is told)
	if pos, ok := lab.StoredPosition(res.FinalStore, "src0"); ok && pos != "" {
		if _, sq, ok := lab.ParsePos(pos); ok {
			for q, fi := range dlqFail {
				if sq >= q && dlqOK[ik{1, q}] == 0 && restartsOf(res) == 0 {
					add("position-stored-past-failed-dlq-write", fmt.Sprintf("the DLQ write of s0:%d failed at #%d but the stored position of the source is s0:%d", q, fi, sq), len(res.Events))
					break
				}
			}
		}
	}
	// a rejection the window does not tolerate is not absorbed: not dead-lettered, nothing from it on acked
	if firstRefused >= 0 {
		if n := dlqOK[ik{1, firstRefused}]; n > 0 {
			add("rejection-beyond-threshold-dead-lettered", fmt.Sprintf("s0:%d exceeds the nack window (size %d, threshold %d) but was written to the DLQ", firstRefused, c.DLQ.WindowSize, c.DLQ.Threshold), len(res.Events))
		}
		for a, ai := range acked {
			if a >= firstRefused {
				add("acked-beyond-refused-rejection", fmt.Sprintf("s0:%d exceeds the nack window (size %d, threshold %d) but s0:%d was acked", firstRefused, c.DLQ.WindowSize, c.DLQ.Threshold, a), ai)
				break
			}
		}
	}
	// a rejected record is acked only after the DLQ confirmed it (C01's clause on this domain)
	for _, v := range h.CheckC01() {
		v.Prop, v.Key = "C07", "C07/"+strings.TrimPrefix(v.Key, "C01/")
		vs = append(vs, v)
	}
	// the pipeline stops "because of the threshold" only if the window really refuses a rejection
	final, finalErr := "", ""
	for _, e := range res.Events {
		if e.Kind == lab.EvStatus {
			final, finalErr = statusKind(e), e.Pos
		}
	}
	facts.Final = final
	if strings.Contains(finalErr, "nack threshold exceeded") {
		facts.Threshold = true
		// (with a scripted DLQ failure the fatal error of arch-v2 can carry a follow-up threshold
		// message for the record whose dead-letter write failed; only judged without one)
		if firstRefused < 0 && len(c.DLQ.PerRecord) == 0 {
			add("tolerated-rejection-stopped-pipeline", fmt.Sprintf("the pipeline stopped with %q although the window (size %d, threshold %d) tolerates every scripted rejection", truncateStr(finalErr, 160), c.DLQ.WindowSize, c.DLQ.Threshold), len(res.Events))
		}
	}
	// ... and if it does refuse one that was met (its rejection happened), the pipeline does not end cleanly
	if firstRefused >= 0 && (final == "UserStopped" || final == "SystemStopped") {
		met := false
		for _, e := range res.Events {
			if e.Inst > 2 {
				continue
			}
			if (e.Kind == lab.EvDstAck && !e.OK && !lab.IsDLQ(e.Comp) && e.Src == 0 && e.Seq == firstRefused) ||
				(e.Kind == lab.EvProcCall && e.Src == 0 && e.Seq == firstRefused && len(c.Procs) > 0 && c.Procs[0].PerRecord[lab.Key(0, firstRefused, 0)] == lab.KError) {
				met = true
			}
		}
		if met {
			add("refused-rejection-did-not-stop-pipeline", fmt.Sprintf("s0:%d exceeds the nack window but the pipeline ended %s", firstRefused, final), len(res.Events))
		}
	}
	return vs, facts
}

// TestC07Lab: engine runs of single-source pipelines with rejection scripts, DLQ window
// configurations and DLQ write failures; per-engine clauses plus v1/v2 parity for one destination.
func TestC07Lab(t *testing.T) {
	st := pbt.For("C07")
	defer st.Finish(t)
	rapid.Check(t, func(t *rapid.T) {
		c := genC07(t)
		pbt.MarkCurrent("C07", map[string]any{"case": c})
		ready := lab.RunOpts{Ready: func(w *lab.World, _ pipelineStatus) bool { return c07AllEmitted(w, c) }}
		res := lab.RunCaseOpts(c, rapidPick(t), ready)
		if res.ProvisionErr != nil {
			t.Fatalf("provision: %v", res.ProvisionErr)
		}
		m := lab.BuildModel(c)
		h := lab.NewHistory(c, m, res.Events)
		vs, facts := c07Oracle(c, res, m, h)
		dec, firstRefused := c07Decisions(c, m)
		tolerated := 0
		for _, d := range dec {
			if d == 1 {
				tolerated++
			}
		}
		cls := []string{"part=lab", "engine=" + c.Engine, fmt.Sprintf("dests=%d", len(c.Dests)), "final=" + facts.Final}
		if firstRefused >= 0 {
			cls = append(cls, "window-refuses-a-rejection")
		}
		if tolerated > 0 {
			cls = append(cls, "tolerated-rejections")
		}
		if len(c.DLQ.PerRecord) > 0 {
			cls = append(cls, "dlq-write-fails")
		}
		if len(c.Procs) > 0 {
			cls = append(cls, "rejected-by-processor")
		}
		// parity: one destination, same script on the other engine
		parity := len(c.Dests) == 1 && !res.Wedged && res.Inconclusive == ""
		if parity {
			var c2 lab.Case
			cloneCase(c, &c2)
			c2.Engine = map[string]string{"v1": "v2", "v2": "v1"}[c.Engine]
			c2.Choices = nil
			res2 := lab.RunCaseOpts(&c2, rapidPick(t), lab.RunOpts{Ready: func(w *lab.World, _ pipelineStatus) bool { return c07AllEmitted(w, &c2) }})
			if res2.ProvisionErr == nil && !res2.Wedged && res2.Inconclusive == "" {
				m2 := lab.BuildModel(&c2)
				vs2, facts2 := c07Oracle(&c2, res2, m2, lab.NewHistory(&c2, m2, res2.Events))
				vs = append(vs, vs2...)
				cls = append(cls, "parity-compared")
				// the decisions must agree: which rejections were dead-lettered and whether the window
				// stopped the pipeline. (Which confirmed records were already acked to the plugin when a
				// fatal stop hits differs by design: arch-v2 acks per batch, the default engine per record.)
				// Only the records in front of the first fatal point are compared: arch-v2 hands a whole
				// batch of rejections to the DLQ at once, so what is written behind a failed DLQ write
				// (and not acked) differs by design.
				stopSeq := c.Sources[0].N
				if firstRefused >= 0 {
					stopSeq = firstRefused
				}
				for q := 0; q < stopSeq; q++ {
					if o, ok := c.DLQ.PerRecord[lab.Key(0, q, 0)]; ok && o != lab.OutAck && dec[q] == 1 {
						stopSeq = q
					}
				}
				front := func(xs []int) []int {
					var out []int
					for _, x := range xs {
						if x < stopSeq {
							out = append(out, x)
						}
					}
					return out
				}
				if fmt.Sprint(front(facts.DLQd)) != fmt.Sprint(front(facts2.DLQd)) || facts.Threshold != facts2.Threshold {
					vs = append(vs, lab.Violation{Prop: "C07", Key: "C07/engines-disagree", Index: len(res.Events),
						Detail: fmt.Sprintf("same script: %s acked %v, dead-lettered %v, stopped by threshold %v (final %s); %s acked %v, dead-lettered %v, stopped by threshold %v (final %s)",
							c.Engine, facts.Acked, facts.DLQd, facts.Threshold, facts.Final, c2.Engine, facts2.Acked, facts2.DLQd, facts2.Threshold, facts2.Final)})
				}
			}
		}
		nontrivial := tolerated > 0 || firstRefused >= 0 || len(c.DLQ.PerRecord) > 0
		if res.Inconclusive != "" {
			st.Inconcl(res.Inconclusive)
		}
		st.Case(pbt.Hash(c), nontrivial, cls...)
		if nontrivial && st.WantSample() {
			st.Sample(map[string]any{"case": c, "history_tail": historyLines(tail(res.Events, 30))})
		}
		failOn(t, st, res, vs)
	})
}

type pipelineStatus = pipeline.Status

// c07AllEmitted: the runner's final stop waits until the source handed every record to the engine
// (or the pipeline ended by itself), so that a loaded machine cannot cut the outcome sequence short.
// A script with a fatal point (a rejection the window refuses, a failing DLQ write of a tolerated
// rejection) must end the pipeline by itself: the final stop is then only the fall-back after
// lab.Quiet of silence (a user stop racing a transient failure legitimately ends as stopped).
func c07AllEmitted(w *lab.World, c *lab.Case) bool {
	dec, firstRefused := c07Decisions(c, lab.BuildModel(c))
	if firstRefused >= 0 {
		return false
	}
	for q, d := range dec {
		if o, ok := c.DLQ.PerRecord[lab.Key(0, q, 0)]; ok && o != lab.OutAck && d == 1 {
			return false
		}
	}
	// no fatal point: every record ends acked (confirmed or dead-lettered); wait for that, so that
	// the final stop does not make arch-v2 drop a batch it has read but not started
	acked := map[int]bool{}
	for _, e := range w.Log.Snapshot() {
		if e.Kind == lab.EvSrcAck && e.Src == 0 {
			acked[e.Seq] = true
		}
	}
	return len(acked) >= c.Sources[0].N
}

func cloneCase(src *lab.Case, dst *lab.Case) {
	b, _ := json.Marshal(src)
	_ = json.Unmarshal(b, dst)
}


// restartsOf counts automatic restarts (source opens after the first).
func restartsOf(res *lab.Result) int {
	n := 0
	for _, e := range res.Events {
		if e.Kind == lab.EvSrcOpen && e.Info == "" {
			n++
		}
	}
	if n == 0 {
		return 0
	}
	return n - 1
}


// TestReplayLabC07 re-executes a replay written by the lab part (the window part has its own in p07).
func TestReplayLabC07(t *testing.T) {
	var doc replayDoc
	if !loadReplay(t, &doc) {
		return
	}
	if doc.Replay.Case == nil {
		t.Skip("not a lab replay")
	}
	for i := 0; i < 5; i++ {
		var c lab.Case
		cloneCase(doc.Replay.Case, &c)
		res := lab.RunCaseOpts(&c, lab.ReplayPick(c.Choices), lab.RunOpts{Ready: func(w *lab.World, _ pipelineStatus) bool { return c07AllEmitted(w, &c) }})
		m := lab.BuildModel(&c)
		vs, _ := c07Oracle(&c, res, m, lab.NewHistory(&c, m, res.Events))
		for _, v := range vs {
			t.Errorf("run %d: %s", i, v.String())
		}
		if len(vs) > 0 {
			t.Logf("history:\n%s", lab.Format(res.Events, 120))
			return
		}
	}
}
