package props

import (
	"context"
	"encoding/json"
	"fmt"
	"os"
	"strings"
	"sync"
	"testing"
	"time"

	"github.com/conduitio/conduit-commons/opencdc"
	"github.com/conduitio/conduit/pkg/connector"
	"pgregory.net/rapid"
	"verifharness/lab"
	"verifharness/pbt"
)

func init() {
	extraLabOracles["C02"] = func(res *lab.Result, m *lab.Model, h *lab.History) []lab.Violation {
		return h.CheckC02(res.World.DB.Snap)
	}
}

func c02Opts() lab.GenOpts {
	o := c01Opts()
	o.StoreFaults = true
	o.GateCommits = true
	o.AckSendFaults = 30
	o.MaxRecords = 16
	return o
}

// TestC02Lab: durability-before-ack and forward-only stored positions on full engine runs.
func TestC02Lab(t *testing.T) {
	st := pbt.For("C02")
	defer st.Finish(t)
	opts := c02Opts()
	rapid.Check(t, func(t *rapid.T) {
		c := lab.GenCase(t, opts)
		res, m, h := runLab(t, "C02", c)
		if res.ProvisionErr != nil {
			t.Fatalf("provision: %v", res.ProvisionErr)
		}
		f := factsOf(res, m)
		failedStore := 0
		for _, e := range res.Events {
			if (e.Kind == lab.EvDBCommit || e.Kind == lab.EvDBSet) && !e.OK {
				failedStore++
			}
		}
		nontrivial := f.Acks > 0 && (failedStore > 0 || c.GateCommits || f.Restarts > 0)
		cls := append(labClasses(res), "part=lab")
		if failedStore > 0 {
			cls = append(cls, "store-fault-fired")
		}
		if c.GateCommits {
			cls = append(cls, "commits-gated")
		}
		if res.Inconclusive != "" {
			st.Inconcl(res.Inconclusive)
		}
		st.Case(pbt.Hash(c), nontrivial, cls...)
		if nontrivial && st.WantSample() {
			st.Sample(map[string]any{"case": c, "history_tail": historyLines(tail(res.Events, 40))})
		}
		failOn(t, st, res, h.CheckC02(res.World.DB.Snap))
	})
}

// ---- direct state machine over connector.Source + Persister + fault store

type c02Op struct {
	Op  string `json:"op"`
	Arg int    `json:"arg,omitempty"`
	// Src: which of the two sources an "ack" is for. Target: "" = a "failset" counts the writes of
	// every connector, "src0"/"src1" = only the writes of that connector's document (the other
	// connector of the same flush is written successfully).
	Src    int    `json:"src,omitempty"`
	Target string `json:"target,omitempty"`
}

type c02Replay struct {
	DelayMs int      `json:"delay_ms"`
	Bundle  int      `json:"bundle"`
	Ops     []c02Op  `json:"ops"`
	// SendFail: attempt indices of the host's ack Send that fail without delivering (transient
	// failures of the plugin stream; bursts shorter than the engine's retry bound).
	SendFail []int    `json:"send_fail,omitempty"`
	History  []string `json:"history,omitempty"`
}

// runC02Direct executes an op list against a real connector.Source and returns the world log + violations.
func runC02Direct(delayMs, bundle int, ops []c02Op, sendFail ...int) ([]lab.Event, []lab.Violation, map[string]int) {
	const total = 400
	const nSrc = 2
	c := &lab.Case{
		Engine: "v1", PersistDelayMs: delayMs, PersistBundle: bundle,
		Recovery: lab.RecoverySpec{MinMs: 1, MaxMs: 2, Factor: 2},
		Sources: []lab.SourceSpec{
			{ID: "src0", N: total, Batches: []int{total}, ReadFaultAfter: -1, EmptyPosAt: -1, DupPosAt: -1, AckSendFail: sendFail},
			{ID: "src1", N: total, Batches: []int{total}, ReadFaultAfter: -1, EmptyPosAt: -1, DupPosAt: -1}},
		Dests: []lab.DestSpec{{ID: "dst0"}},
	}
	w := lab.NewWorld(c, nil, nil)
	w.Sched.SetFree()
	ctx := context.Background()
	stats := map[string]int{}
	if err := w.Provision(ctx); err != nil {
		return w.Log.Snapshot(), []lab.Violation{{Prop: "C02", Key: "C02/harness/provision", Detail: err.Error()}}, stats
	}
	var (
		srcs    [nSrc]*connector.Source
		errMu   sync.Mutex
		errs    []error
		stopErr chan struct{}
		next    [nSrc]int // next seq to ack, per source
		open    = false
	)
	openSrc := func() error {
		stopErr = make(chan struct{})
		for i := 0; i < nSrc; i++ {
			id := fmt.Sprintf("src%d", i)
			inst, _ := w.Connectors.Get(ctx, id)
			conn, err := inst.Connector(ctx, w.Plugins)
			if err != nil {
				return err
			}
			srcs[i] = conn.(*connector.Source)
			if err := srcs[i].Open(ctx); err != nil {
				return err
			}
			go func(s *connector.Source, stop chan struct{}, id string) {
				for {
					select {
					case e := <-s.Errors():
						errMu.Lock()
						errs = append(errs, e)
						errMu.Unlock()
						w.Log.Add(lab.Event{Kind: lab.EvNote, Comp: id, Src: -1, Seq: -1, Info: "source-error: " + e.Error()})
					case <-stop:
						return
					}
				}
			}(srcs[i], stopErr, id)
		}
		open = true
		// The connector instance keeps its in-memory state across a reopen (that is what a
		// recovery restart in the same process sees), so acks continue where the last
		// successful Ack call left off.
		return nil
	}
	closeSrc := func() {
		if !open {
			return
		}
		for i := 0; i < nSrc; i++ {
			_ = srcs[i].Teardown(ctx)
		}
		close(stopErr)
		open = false
	}
	if err := openSrc(); err != nil {
		return w.Log.Snapshot(), []lab.Violation{{Prop: "C02", Key: "C02/harness/open", Detail: err.Error()}}, stats
	}
	delay := time.Duration(delayMs) * time.Millisecond
	var (
		gateMu sync.Mutex
		gateCh chan struct{}
	)
	w.DB.CommitGate = func(int) {
		gateMu.Lock()
		ch := gateCh
		gateMu.Unlock()
		if ch != nil {
			<-ch
		}
	}
	release := func() {
		gateMu.Lock()
		if gateCh != nil {
			close(gateCh)
			gateCh = nil
		}
		gateMu.Unlock()
	}
	// "gatetxn": the NEXT transaction is slow to start (the store takes Arg ms to respond), later
	// ones are served at once.
	var (
		txnGateMu sync.Mutex
		txnStall  time.Duration
	)
	w.DB.NewTxnGate = func() {
		txnGateMu.Lock()
		d := txnStall
		txnStall = 0
		txnGateMu.Unlock()
		if d > 0 {
			time.Sleep(d)
		}
	}
	for _, op := range ops {
		stats[op.Op]++
		switch op.Op {
		case "gatetxn":
			txnGateMu.Lock()
			txnStall = time.Duration(op.Arg) * time.Millisecond
			txnGateMu.Unlock()
		case "ack":
			si := op.Src
			if si < 0 || si >= nSrc {
				si = 0
			}
			if !open || next[si]+op.Arg > total {
				continue
			}
			id := fmt.Sprintf("src%d", si)
			ps := make([]opencdc.Position, op.Arg)
			for i := range ps {
				ps[i] = opencdc.Position(lab.PosOf(si, next[si]+i))
			}
			w.Log.Add(lab.Event{Kind: lab.EvNote, Comp: id, Src: si, Seq: next[si] + op.Arg - 1, Info: fmt.Sprintf("engine-ack n=%d", op.Arg)})
			if err := srcs[si].Ack(ctx, ps); err == nil {
				next[si] += op.Arg
			} else {
				w.Log.Add(lab.Event{Kind: lab.EvNote, Comp: id, Src: -1, Seq: -1, Info: "engine-ack-error: " + err.Error()})
			}
		case "sleepshort":
			time.Sleep(delay / 4)
		case "sleeplong":
			time.Sleep(2*delay + time.Millisecond)
		case "flush":
			w.Persister.Flush(ctx)
		case "failset":
			w.DB.Arm(lab.Fault{Kind: lab.FaultSet, Index: op.Arg, KeyPrefix: "connector:instance:" + op.Target})
		case "failcommit":
			w.DB.Arm(lab.Fault{Kind: lab.FaultCommit, Index: op.Arg})
		case "failnewtxn":
			w.DB.Arm(lab.Fault{Kind: lab.FaultNewTxn, Index: op.Arg})
		case "gate":
			// Commits block until released. The persister serialises flushes while holding its
			// lock, so a later Ack could block behind a gated commit forever in this
			// single-threaded machine: the gate therefore also opens by itself after Arg ms.
			gateMu.Lock()
			if gateCh == nil {
				gateCh = make(chan struct{})
				time.AfterFunc(time.Duration(op.Arg)*time.Millisecond, release)
			}
			gateMu.Unlock()
		case "release":
			release()
		case "teardown":
			release() // a blocked store would only exercise the 10 s teardown budget
			closeSrc()
		case "reopen":
			if !open {
				if err := openSrc(); err != nil {
					return w.Log.Snapshot(), []lab.Violation{{Prop: "C02", Key: "C02/harness/reopen", Detail: err.Error()}}, stats
				}
			}
		}
	}
	release()
	txnGateMu.Lock()
	txnStall = 0
	txnGateMu.Unlock()
	w.DB.Disarm()
	closeSrc()
	done := make(chan struct{})
	go func() { w.Persister.WaitPendingWrites(); close(done) }()
	select {
	case <-done:
	case <-time.After(time.Second):
		stats["wait-pending-timeout"]++
	}
	events := w.Log.Snapshot()
	m := lab.BuildModel(c)
	h := lab.NewHistory(c, m, events)
	// In the direct machine nothing is "handled downstream": clause 4 is not applicable, so only keep the other clauses.
	var vs []lab.Violation
	for _, v := range h.CheckC02(w.DB.Snap) {
		if v.Key == "C02/position-stored-before-handled/v1" {
			continue
		}
		vs = append(vs, v)
	}
	// acks must reach the plugin in Ack-call order without repeats (clause 5). The machine acks
	// positions the fake source never emitted, so only the ordering clauses of C04 apply here.
	for _, v := range h.CheckC04() {
		if v.Key == "C04/ack-not-emitted" {
			continue
		}
		v.Prop = "C02"
		v.Key = "C02/direct/" + v.Key
		vs = append(vs, v)
	}
	errMu.Lock()
	stats["source-errors"] = len(errs)
	errMu.Unlock()
	return events, vs, stats
}

func genC02Ops(t *rapid.T) []c02Op {
	return genC02OpsN(t, rapid.IntRange(5, 60).Draw(t, "nops"), true)
}

func genC02OpsN(t *rapid.T, n int, allowLong bool) []c02Op {
	ops := make([]c02Op, 0, n)
	for i := 0; i < n; i++ {
		k := rapid.IntRange(0, 99).Draw(t, "op")
		switch {
		case k < 45:
			ops = append(ops, c02Op{Op: "ack", Arg: rapid.IntRange(1, 4).Draw(t, "k"), Src: rapid.IntRange(0, 1).Draw(t, "acksrc")})
		case k < 55:
			ops = append(ops, c02Op{Op: "sleepshort"})
		case k < 65:
			ops = append(ops, c02Op{Op: "sleeplong"})
		case k < 72:
			ops = append(ops, c02Op{Op: "flush"})
		case k < 78:
			ops = append(ops, c02Op{Op: "failset", Arg: rapid.IntRange(0, 2).Draw(t, "idx"),
				Target: []string{"", "src0", "src1", "src0"}[rapid.IntRange(0, 3).Draw(t, "failtarget")]})
		case k < 84:
			ops = append(ops, c02Op{Op: "failcommit", Arg: rapid.IntRange(0, 2).Draw(t, "idx")})
		case k < 87:
			ops = append(ops, c02Op{Op: "failnewtxn", Arg: rapid.IntRange(0, 1).Draw(t, "idx")})
		case k < 90:
			ms := rapid.IntRange(1, 6).Draw(t, "gatems")
			// rarely a store that stalls for seconds (time-bounded fall-backs in the engine only
			// show with a stall longer than their bound); costs real time, hence rare
			if allowLong && pbt.Tier() == "thorough" && lab.Uniform(t, "longstall", 40) == 0 {
				ms = 5500
			}
			if rapid.Bool().Draw(t, "attxn") {
				ops = append(ops, c02Op{Op: "gatetxn", Arg: ms})
			} else {
				ops = append(ops, c02Op{Op: "gate", Arg: ms})
			}
		case k < 94:
			ops = append(ops, c02Op{Op: "release"})
		case k < 97:
			ops = append(ops, c02Op{Op: "teardown"})
		default:
			ops = append(ops, c02Op{Op: "reopen"})
		}
	}
	return ops
}

// TestC02Direct drives connector.Source.Ack / Persister / the store with faults directly.
func TestC02Direct(t *testing.T) {
	st := pbt.For("C02")
	defer st.Finish(t)
	rapid.Check(t, func(t *rapid.T) {
		delay := []int{1, 2, 5}[rapid.IntRange(0, 2).Draw(t, "delay")]
		bundle := []int{1, 2, 5, 1000}[rapid.IntRange(0, 3).Draw(t, "bundle")]
		ops := genC02Ops(t)
		rp := c02Replay{DelayMs: delay, Bundle: bundle, Ops: ops}
		if lab.Chance(t, "sendfail", 35) {
			var ss lab.SourceSpec
			lab.GenAckSendFaults(t, &ss)
			rp.SendFail = ss.AckSendFail
		}
		pbt.MarkCurrent("C02", rp)
		events, vs, stats := runC02Direct(delay, bundle, ops, rp.SendFail...)
		faults := stats["failset"] + stats["failcommit"] + stats["failnewtxn"]
		sendFailed := 0
		for _, e := range events {
			if e.Kind == lab.EvNote && strings.HasPrefix(e.Info, "ack-send-failed") {
				sendFailed++
			}
		}
		nontrivial := stats["ack"] >= 2 && (faults > 0 || stats["gate"] > 0 || stats["teardown"] > 0 || sendFailed > 0)
		cls := []string{"part=direct"}
		if sendFailed > 0 {
			cls = append(cls, "direct:ack-send-failed")
		}
		for _, k := range []string{"failset", "failcommit", "failnewtxn", "gate", "teardown", "reopen", "source-errors", "wait-pending-timeout"} {
			if stats[k] > 0 {
				cls = append(cls, "direct:"+k)
			}
		}
		st.Case(pbt.Hash(rp), nontrivial, cls...)
		if nontrivial && st.WantSample() {
			st.Sample(map[string]any{"direct": rp, "history_tail": historyLines(tail(events, 30))})
		}
		fatal := false
		var first lab.Violation
		for _, v := range vs {
			rp.History = historyLines(events)
			if st.Report(v.Key, v.Detail, len(ops), rp) {
				if !fatal {
					first = v
				}
				fatal = true
			}
		}
		if fatal {
			t.Fatalf("%s", first.String())
		}
	})
}

// TestC02Stall: every case contains one store stall longer than any time-bounded fall-back
// around the persister (seconds of wall time), immediately followed by work that needs the
// next flush. A bounded wait that gives up on a store that is merely slow shows as a stored
// position that moves backwards or as a plugin ack for a position that is not durable.
func TestC02Stall(t *testing.T) {
	st := pbt.For("C02")
	defer st.Finish(t)
	rapid.Check(t, func(t *rapid.T) {
		delay := []int{1, 2, 5}[rapid.IntRange(0, 2).Draw(t, "delay")]
		bundle := []int{1, 2, 5, 1000}[lab.Uniform(t, "bundle", 4)]
		pre := genC02OpsN(t, rapid.IntRange(0, 8).Draw(t, "npre"), false)
		post := genC02OpsN(t, rapid.IntRange(0, 10).Draw(t, "npost"), false)
		stall := c02Op{Op: "gate", Arg: 5500}
		if rapid.Bool().Draw(t, "attxn") {
			stall.Op = "gatetxn"
		}
		ops := append([]c02Op{}, pre...)
		ops = append(ops, stall)
		// the work behind the stall: acks and explicit flushes, at least two
		nw := 2 + lab.Uniform(t, "nwork", 4)
		for i := 0; i < nw; i++ {
			switch lab.Uniform(t, "work", 4) {
			case 0:
				ops = append(ops, c02Op{Op: "flush"})
			case 1:
				ops = append(ops, c02Op{Op: "sleeplong"})
			default:
				ops = append(ops, c02Op{Op: "ack", Arg: rapid.IntRange(1, 4).Draw(t, "k"), Src: rapid.IntRange(0, 1).Draw(t, "acksrc")})
			}
		}
		ops = append(ops, post...)
		rp := c02Replay{DelayMs: delay, Bundle: bundle, Ops: ops}
		pbt.MarkCurrent("C02", rp)
		events, vs, stats := runC02Direct(delay, bundle, ops)
		nontrivial := stats["ack"] >= 2
		cls := []string{"part=stall", "stall:" + stall.Op}
		st.Case(pbt.Hash(rp), nontrivial, cls...)
		if nontrivial && st.WantSample() {
			st.Sample(map[string]any{"direct": rp, "history_tail": historyLines(tail(events, 30))})
		}
		fatal := false
		var first lab.Violation
		for _, v := range vs {
			rp.History = historyLines(events)
			if st.Report(v.Key, v.Detail, len(ops), rp) {
				if !fatal {
					first = v
				}
				fatal = true
			}
		}
		if fatal {
			t.Fatalf("%s", first.String())
		}
	})
}

// TestReplayC02 re-executes a saved C02 case (lab case or direct op list).
func TestReplayC02(t *testing.T) {
	f := os.Getenv("VERIF_REPLAY_FILE")
	if f == "" {
		t.Skip("VERIF_REPLAY_FILE not set")
	}
	raw, err := os.ReadFile(f)
	if err != nil {
		t.Fatal(err)
	}
	var doc struct {
		Key    string          `json:"key"`
		Replay json.RawMessage `json:"replay"`
	}
	if err := json.Unmarshal(raw, &doc); err != nil {
		t.Fatal(err)
	}
	var rp c02Replay
	if err := json.Unmarshal(doc.Replay, &rp); err == nil && len(rp.Ops) > 0 {
		for i := 0; i < 3; i++ {
			events, vs, _ := runC02Direct(rp.DelayMs, rp.Bundle, rp.Ops, rp.SendFail...)
			for _, v := range vs {
				t.Errorf("run %d: %s", i, v.String())
			}
			if len(vs) > 0 {
				t.Logf("history tail:\n%s", lab.Format(tail(events, 60), 0))
				return
			}
		}
		return
	}
	replayLab(t, "C02")
}
