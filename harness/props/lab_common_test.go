package props

import (
	"fmt"
	"strings"
	"testing"

	"pgregory.net/rapid"
	"verifharness/lab"
	"verifharness/pbt"
)

// labReplay is what a lab replay file stores (DESIGN §11.1).
type labReplay struct {
	Case       *lab.Case       `json:"case"`
	History    []string        `json:"history"`
	Violations []lab.Violation `json:"violations"`
	Status     string          `json:"final_status"`
	StatusErr  string          `json:"final_error,omitempty"`
}

func historyLines(ev []lab.Event) []string {
	out := make([]string, len(ev))
	for i, e := range ev {
		out[i] = e.String()
	}
	return out
}

// rapidPick draws the scheduler's choices from rapid on the test goroutine (R8).
func rapidPick(t *rapid.T) func(n int) int {
	return func(n int) int {
		if n <= 1 {
			return 0
		}
		return rapid.IntRange(0, n-1).Draw(t, "pick")
	}
}

// labClasses derives the generic class labels of a finished lab case.
func labClasses(res *lab.Result) []string {
	c := res.Case
	cls := []string{"engine=" + c.Engine, fmt.Sprintf("sources=%d", len(c.Sources)), fmt.Sprintf("dests=%d", len(c.Dests)),
		"final=" + res.FinalStatus.String()}
	if len(c.Procs) > 0 {
		cls = append(cls, "has-procs")
	}
	for _, p := range c.Procs {
		if p.Workers > 1 {
			cls = append(cls, "parallel-proc")
			break
		}
	}
	for _, p := range c.Procs {
		if p.CondMod > 1 {
			cls = append(cls, "conditional-proc")
			break
		}
	}
	if len(c.Client) > 0 {
		cls = append(cls, "client="+c.Client[0].Kind)
	}
	for _, e := range res.Events {
		if e.Kind == lab.EvNote && strings.HasPrefix(e.Info, "ack-send-failed") {
			cls = append(cls, "ack-send-failed")
			break
		}
	}
	if res.Wedged {
		cls = append(cls, "wedged")
	}
	if c.Faultless() {
		cls = append(cls, "faultless-script")
	}
	if c.FreeSched {
		cls = append(cls, "free-running-plugins")
	}
	if c.GatePluginCalls {
		cls = append(cls, "plugin-calls-answer-at-scheduled-instants")
	}
	if c.GateSrcAcks {
		cls = append(cls, "acks-taken-at-scheduled-instants")
	}
	// the DLQ refused a record and accepted a later one (partial dead-letter write)
	refused := map[int]bool{}
	for _, e := range res.Events {
		if e.Kind == lab.EvDstAck && lab.IsDLQ(e.Comp) {
			if !e.OK {
				refused[e.Inst] = true
			} else if refused[e.Inst] {
				cls = append(cls, "dlq-accepts-after-refusing")
				break
			}
		}
	}
	return cls
}

// outOfOrderConfirms reports whether two positive destination confirmations were
// released in non-emission order (across destinations), and other per-history facts.
type labFacts struct {
	OutOfOrder   bool // confirmations of different destinations interleaved against emission order
	DLQd         int
	Nacks        int
	Acks         int
	Filtered     int
	Restarts     int
	StopInFlight bool
	Splits       int
}

func factsOf(res *lab.Result, m *lab.Model) labFacts {
	var f labFacts
	lastSeq := map[int]int{}
	lastDest := ""
	opens := map[string]int{}
	emitted, acked := 0, 0
	for _, e := range res.Events {
		switch e.Kind {
		case lab.EvDstAck:
			if lab.IsDLQ(e.Comp) {
				if e.OK {
					f.DLQd++
				}
				continue
			}
			if !e.OK {
				f.Nacks++
			}
			if p, ok := lastSeq[e.Src]; ok && lastDest != e.Comp && e.Seq < p {
				f.OutOfOrder = true
			}
			if e.Seq > lastSeq[e.Src] {
				lastSeq[e.Src] = e.Seq
			}
			lastDest = e.Comp
		case lab.EvSrcAck:
			f.Acks++
			acked++
		case lab.EvSrcEmit:
			emitted++
		case lab.EvSrcOpen:
			opens[e.Comp]++
			if opens[e.Comp] > 1 {
				f.Restarts++
			}
		case lab.EvCtlCall:
			if e.Comp != "start" && emitted > acked {
				f.StopInFlight = true
			}
		}
	}
	for _, ft := range m.Fates {
		if ft.FilteredAll {
			f.Filtered++
		}
		for _, d := range ft.Dests {
			if len(d.Pieces) > 1 {
				f.Splits++
				break
			}
		}
	}
	return f
}

// runLab executes one lab case and returns result, model and history. A wedge or
// an inconclusive run is reported through the returned flags, never as a violation here.
func runLab(t *rapid.T, prop string, c *lab.Case) (*lab.Result, *lab.Model, *lab.History) {
	pbt.MarkCurrent(prop, c)
	res := lab.RunCase(c, rapidPick(t))
	m := lab.BuildModel(c)
	h := lab.NewHistory(c, m, res.Events)
	return res, m, h
}

// failOn reports violations through the stats object; it fails the rapid case if
// at least one of them is not a known finding.
func failOn(t *rapid.T, st *pbt.Stats, res *lab.Result, vs []lab.Violation) {
	if len(vs) == 0 {
		return
	}
	fatal := false
	var first lab.Violation
	for _, v := range vs {
		rp := labReplay{Case: res.Case, History: historyLines(res.Events), Violations: vs,
			Status: res.FinalStatus.String(), StatusErr: res.FinalErr}
		if st.Report(v.Key, v.Detail, res.Case.TotalRecords()*1000+len(res.Events), rp) {
			if !fatal {
				first = v
			}
			fatal = true
		}
	}
	if fatal {
		t.Fatalf("%s", first.String())
	}
}

func checksFor(def, thorough int) int { return pbt.Scale(def, thorough) }

var _ = testing.Short

// replayDoc is the on-disk format of a replay file written by pbt.Stats.Report.
type replayDoc struct {
	Property string    `json:"property"`
	Key      string    `json:"key"`
	Detail   string    `json:"detail"`
	Replay   labReplay `json:"replay"`
}
