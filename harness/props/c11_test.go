package props

import (
	"testing"

	"pgregory.net/rapid"
	"verifharness/lab"
	"verifharness/pbt"
)

func c11Opts() lab.GenOpts {
	return lab.GenOpts{
		Engines: []string{"v1", "v2"}, MaxSources: 3, MaxDests: 3, MaxRecords: 12, MaxProcs: 2,
		Nacks: true, ProcErrors: true, Filters: true, Conditions: true, Workers: true,
		ReadFaults: true, StreamErrs: true, DLQFaults: true,
		ClientKinds: []string{"stop", "stopandwait", "forcestop", "stopall", "stopwait"}, ClientProb: 0.8,
		MaxRetries: []int64{0, 1, 2},
	}
}

// TestC11Wedge: no sequence of control calls and failures wedges a pipeline while plugins respond.
func TestC11Wedge(t *testing.T) {
	st := pbt.For("C11")
	defer st.Finish(t)
	opts := c11Opts()
	rapid.Check(t, func(t *rapid.T) {
		c := lab.GenCase(t, opts)
		res, m, _ := runLab(t, "C11", c)
		if res.ProvisionErr != nil {
			t.Fatalf("provision: %v", res.ProvisionErr)
		}
		f := factsOf(res, m)
		failed := false
		for _, e := range res.Events {
			if e.Kind == lab.EvStatus && (e.Info == "Degraded" || e.Info == "Recovering") {
				failed = true
			}
		}
		// a control call was issued while the run was failing / recovering / records were in flight
		nontrivial := len(c.Client) > 0 && (failed || f.StopInFlight)
		cls := labClasses(res)
		if failed {
			cls = append(cls, "run-failed")
		}
		if f.Restarts > 0 {
			cls = append(cls, "recovery-restart")
		}
		if res.Inconclusive != "" {
			st.Inconcl(res.Inconclusive)
		}
		st.Case(pbt.Hash(c), nontrivial, cls...)
		if nontrivial && st.WantSample() {
			st.Sample(map[string]any{"case": c, "history_tail": historyLines(tail(res.Events, 40))})
		}
		if !c.HasHold() {
			vs := lab.CheckWedge(res)
			if len(vs) > 0 {
				// the stacks are the witness of where the run is stuck
				res.Events = append(res.Events, lab.Event{Kind: lab.EvNote, Src: -1, Seq: -1, Info: "STACKS:\n" + res.Stacks})
			}
			failOn(t, st, res, vs)
		}
	})
}
