package props

import (
	"testing"

	"pgregory.net/rapid"
	"verifharness/lab"
	"verifharness/pbt"
)

func c11Opts() lab.GenOpts {
	return lab.GenOpts{
		Engines: []string{"v1", "v2"}, MaxSources: 3, MaxDests: 3, MaxRecords: 12, MaxProcs: 2,
		Nacks: true, ProcErrors: true, Filters: true, Conditions: true, Workers: true,
		ReadFaults: true, StreamErrs: true, DLQFaults: true,
		ClientKinds: []string{"stop", "stopandwait", "forcestop", "stopall", "stopwait"}, ClientProb: 0.8,
		MaxRetries: []int64{0, 1, 2},
	}
}

// TestC11Wedge: no sequence of control calls and failures wedges a pipeline while plugins respond.
func TestC11Wedge(t *testing.T) {
	st := pbt.For("C11")
	defer st.Finish(t)
	opts := c11Opts()
	rapid.Check(t, func(t *rapid.T) {
		c := lab.GenCase(t, opts)
		res, m, _ := runLab(t, "C11", c)
		if res.ProvisionErr != nil {
			t.Fatalf("provision: %v", res.ProvisionErr)
		}
		f := factsOf(res, m)
		failed := false
		for _, e := range res.Events {
			if e.Kind == lab.EvStatus && (e.Info == "Degraded" || e.Info == "Recovering") {
				failed = true
			}
		}
		// a control call was issued while the run was failing / recovering / records were in flight
		nontrivial := len(c.Client) > 0 && (failed || f.StopInFlight)
		cls := labClasses(res)
		if failed {
			cls = append(cls, "run-failed")
		}
		if f.Restarts > 0 {
			cls = append(cls, "recovery-restart")
		}
		if res.Inconclusive != "" {
			st.Inconcl(res.Inconclusive)
		}
		st.Case(pbt.Hash(c), nontrivial, cls...)
		if nontrivial && st.WantSample() {
			st.Sample(map[string]any{"case": c, "history_tail": historyLines(tail(res.Events, 40))})
		}
		if !c.HasHold() {
			vs := lab.CheckWedge(res)
			if len(vs) > 0 {
				// the stacks are the witness of where the run is stuck
				res.Events = append(res.Events, lab.Event{Kind: lab.EvNote, Src: -1, Seq: -1, Info: "STACKS:\n" + res.Stacks})
			}
			failOn(t, st, res, vs)
		}
	})
}

func c11HistoryOpts() lab.GenOpts {
	return lab.GenOpts{
		Engines: []string{"v1", "v2"}, MaxSources: 2, MaxDests: 2, MaxRecords: 10, MaxProcs: 1,
		Filters: true, ProcErrors: true, UnlimitedDLQ: true, ReadFaults: true, StreamErrs: true,
		MaxRetries: []int64{0, 1, 2},
	}
}

// TestC11History: histories of Start/Stop/StopAndWait/StopAll/Wait/force stop, one call at a time per pipeline
// (waits may overlap), with every status write's return scheduled like a plugin completion.
func TestC11History(t *testing.T) {
	st := pbt.For("C11")
	defer st.Finish(t)
	opts := c11HistoryOpts()
	kinds := []string{"stop", "stop", "stopandwait", "stopwait", "start", "start", "start", "wait", "stopall", "forcestop"}
	rapid.Check(t, func(t *rapid.T) {
		c := lab.GenCase(t, opts)
		c.GateStatus = lab.Chance(t, "gatestatus", 75)
		if lab.Chance(t, "statusfault", 30) {
			// the store write of one of the first status updates fails
			c.StatusFailAt = []int{lab.Uniform(t, "statusfaultat", 5)}
		}
		n := rapid.IntRange(2, 6).Draw(t, "ncalls")
		step := 0
		total := c.TotalRecords()
		for i := 0; i < n; i++ {
			step += rapid.IntRange(0, total/2+4).Draw(t, "gap")
			c.Client = append(c.Client, lab.ClientAction{Kind: kinds[lab.Uniform(t, "call", len(kinds))], AtStep: step})
		}
		if lab.Chance(t, "failed-recovery-restart", 20) && len(c.Sources) > 0 && c.Sources[0].N > 0 {
			// a transient source failure, then the recovery restart cannot announce itself as
			// running (its status write fails), then somebody waits for the pipeline
			c.Sources[0].ReadFaultAfter = lab.Uniform(t, "rfat", c.Sources[0].N)
			c.Sources[0].ReadFaultKind, c.Sources[0].ReadFaultInst, c.Sources[0].ReadFaultUpTo = "plain", 1, 0
			if c.Recovery.MaxRetries == 0 {
				c.Recovery.MaxRetries = 1
			}
			c.StatusFailAt = []int{2} // Running, Recovering, Running
			c.Client = nil
			if rapid.Bool().Draw(t, "early-wait") {
				c.Client = append(c.Client, lab.ClientAction{Kind: "wait", AtStep: rapid.IntRange(0, 12).Draw(t, "waitat")})
			}
		}
		// a waiter that arrives after everything is over
		c.WaitAtEnd = lab.Chance(t, "wait-at-end", 60)
		if c.Engine == "v2" && st.IsKnown("C11/plugin-left-open-after-run-ended/v2/start-during-recovery") {
			// known finding: a user Start issued while arch-v2 reports Recovering races the old
			// run's recovery decision, which then marks the pipeline Degraded over the live run;
			// keep the search going behind it
			for i := range c.Client {
				if c.Client[i].Kind == "start" {
					c.HoldStartInRecovery = true
				}
			}
			if c.HoldStartInRecovery {
				st.Exclude("C11/plugin-left-open-after-run-ended/v2/start-during-recovery")
			}
		}
		if c.Engine == "v1" && st.IsKnown("C11/two-live-runs/v1/start-during-recovery") {
			// known finding: a user Start during the default engine's recovery back-off races the
			// recovery's own restart; keep the search going behind it (the start is held back while
			// the pipeline reports Recovering)
			for i := range c.Client {
				if c.Client[i].Kind == "start" {
					c.HoldStartInRecovery = true
				}
			}
			if c.HoldStartInRecovery {
				st.Exclude("C11/two-live-runs/v1/start-during-recovery")
			}
		}
		res, m, h := runLab(t, "C11", c)
		if res.ProvisionErr != nil {
			t.Fatalf("provision: %v", res.ProvisionErr)
		}
		// non-trivial: a control call was issued while a status write of some run was in flight
		// (between status.begin and the release of its return), or during recovery
		inWindow := false
		pendingStatus := 0
		for _, e := range res.Events {
			switch e.Kind {
			case lab.EvStatusBegin:
				pendingStatus++
			case lab.EvStatus:
				// the write returned to the engine only when the scheduler released it; approximated by the log
				pendingStatus--
			case lab.EvCtlCall:
				if pendingStatus > 0 {
					inWindow = true
				}
			}
		}
		f := factsOf(res, m)
		nontrivial := len(res.Ctl) >= 3 && (inWindow || f.Restarts > 0 || c.GateStatus)
		cls := append(labClasses(res), "part=history")
		if c.GateStatus {
			cls = append(cls, "status-writes-gated")
		}
		for _, e := range res.Events {
			if e.Kind == lab.EvStatus && !e.OK {
				cls = append(cls, "status-write-failed")
				break
			}
		}
		if inWindow {
			cls = append(cls, "call-during-status-write")
		}
		for _, cr := range res.Ctl {
			if cr.Kind != "start" || cr != res.Ctl[0] {
				ok := "ok"
				if cr.Err != "" {
					ok = "err"
				}
				cls = append(cls, "ctl:"+cr.Kind+"="+ok)
			}
		}
		if res.Inconclusive != "" {
			st.Inconcl(res.Inconclusive)
		}
		st.Case(pbt.Hash(c), nontrivial, cls...)
		if nontrivial && st.WantSample() {
			st.Sample(map[string]any{"case": c, "history_tail": historyLines(tail(res.Events, 40))})
		}
		vs := h.CheckC11Control(res)
		if !c.HasHold() {
			w := lab.CheckWedge(res)
			if len(w) > 0 {
				res.Events = append(res.Events, lab.Event{Kind: lab.EvNote, Src: -1, Seq: -1, Info: "STACKS:\n" + res.Stacks})
			}
			vs = append(vs, w...)
		}
		failOn(t, st, res, vs)
	})
}
