package props

import (
	"encoding/json"
	"fmt"
	"github.com/conduitio/conduit/pkg/pipeline"
	"strings"
	"testing"
	"time"

	"pgregory.net/rapid"
	"verifharness/lab"
	"verifharness/pbt"
)

// c10Scenario is one generated failure scenario with its expected classification
// (the table is taken from the statement of C10 and docs/design-documents/20240812-recover-from-pipeline-errors.md).
type c10Scenario struct {
	Kind   string `json:"kind"`
	Expect string `json:"expect"` // fatal | transient-recovers | transient-exhausts | user-stopped | system-stopped
	Cause  string `json:"cause"`  // substring the recorded error must contain ("" = not asserted)
}

func genC10(t *rapid.T, st *pbt.Stats) (*lab.Case, c10Scenario) {
	engine := []string{"v1", "v2"}[lab.Uniform(t, "engine", 2)]
	kinds := []string{"dlq-threshold", "dlq-write-failure", "proc-error-not-absorbed", "nack-threshold-0", "read-fault", "dst-stream-error",
		"stop-during-backoff", "stopall-during-backoff", "stop-healthy", "stopall-healthy", "fatal-during-stop"}
	if engine == "v2" {
		kinds = append(kinds, "non-converging-processor")
	}
	kind := kinds[lab.Uniform(t, "kind", len(kinds))]
	if kind == "stopall-during-backoff" && engine == "v1" && st.IsKnown("C10/restarted-after-stopall/stopall-during-backoff/v1") {
		// known finding: the default engine ignores a shutdown during the recovery back-off
		st.Exclude("C10/restarted-after-stopall/stopall-during-backoff/v1")
		kind = "stop-during-backoff"
	}
	n := rapid.IntRange(4, 12).Draw(t, "n")
	maxRetries := int64(rapid.IntRange(0, 3).Draw(t, "maxretries"))
	c := &lab.Case{
		Engine: engine, PersistDelayMs: 1, PersistBundle: []int{1, 2, 1000}[lab.Uniform(t, "bundle", 3)],
		Recovery: lab.RecoverySpec{MinMs: 3, MaxMs: 9, Factor: 2, MaxRetries: maxRetries, WindowMs: 60000},
		Sources:  []lab.SourceSpec{{ID: "src0", N: n, Batches: []int{rapid.IntRange(1, 4).Draw(t, "b0"), rapid.IntRange(1, 4).Draw(t, "b1")}, ReadFaultAfter: -1, EmptyPosAt: -1, DupPosAt: -1, Pruning: lab.Chance(t, "pruning", 50)}},
		Dests:    []lab.DestSpec{{ID: "dst0", PerPiece: map[string]lab.Outcome{}, Group: []int{rapid.IntRange(1, 3).Draw(t, "g")}}},
		DLQ:      lab.DLQSpec{PerRecord: map[string]lab.Outcome{}},
	}
	// a second destination only where it cannot create secondary failures (v1 errors the sibling
	// branch of a partially rejected record, which is a different cause than the scripted one)
	sc := c10Scenario{Kind: kind}
	at := rapid.IntRange(0, n-1).Draw(t, "at")
	switch kind {
	case "dlq-threshold":
		w := rapid.IntRange(2, 5).Draw(t, "w")
		th := rapid.IntRange(1, w-1).Draw(t, "th")
		c.DLQ.WindowSize, c.DLQ.Threshold = w, th
		if at+th+1 > n {
			at = 0
		}
		if th+1 > n {
			c.Sources[0].N = th + 2
			n = th + 2
		}
		for i := 0; i <= th; i++ { // th+1 consecutive rejections: the last one exceeds the threshold
			c.Dests[0].PerPiece[lab.Key(0, at+i, 0)] = lab.OutNack
		}
		sc.Expect, sc.Cause = "fatal", "threshold"
	case "dlq-write-failure":
		c.DLQ.WindowSize, c.DLQ.Threshold = 0, 0
		c.Dests[0].PerPiece[lab.Key(0, at, 0)] = lab.OutNack
		c.DLQ.PerRecord[lab.Key(0, at, 0)] = []lab.Outcome{lab.OutNack, lab.OutErr}[lab.Uniform(t, "dlqout", 2)]
		c.DLQ.ErrEOF = lab.Chance(t, "dlqeof", 40)
		sc.Expect, sc.Cause = "fatal", ""
	case "proc-error-not-absorbed":
		c.DLQ.WindowSize, c.DLQ.Threshold = 1, 0
		c.Procs = []lab.ProcSpec{{ID: "proc0", Parent: "", Workers: 1, Gen: 1, PerRecord: map[string]string{lab.Key(0, at, 0): lab.KError}}}
		sc.Expect, sc.Cause = "fatal", lab.Marker
	case "nack-threshold-0":
		c.DLQ.WindowSize, c.DLQ.Threshold = 1, 0
		c.Dests[0].PerPiece[lab.Key(0, at, 0)] = lab.OutNack
		sc.Expect, sc.Cause = "transient-exhausts", ""
	case "read-fault":
		c.DLQ.WindowSize, c.DLQ.Threshold = 0, 0
		c.Sources[0].ReadFaultAfter = at
		c.Sources[0].ReadFaultKind = "plain"
		k := rapid.IntRange(1, 4).Draw(t, "faulty-instances")
		c.Sources[0].ReadFaultUpTo = k
		if int64(k) <= maxRetries {
			sc.Expect = "transient-recovers"
		} else {
			// a later plugin instance only fails again if it still has a record to read, so
			// whether the retries are exhausted depends on how far the earlier runs got
			sc.Expect = "transient"
		}
	case "dst-stream-error":
		c.DLQ.WindowSize, c.DLQ.Threshold = 0, 0
		c.Dests[0].PerPiece[lab.Key(0, at, 0)] = lab.OutErr
		c.Dests[0].ErrEOF = lab.Chance(t, "dsteof", 40)
		k := rapid.IntRange(1, 4).Draw(t, "faulty-instances")
		c.Dests[0].ErrInstMax = k
		// Whether the failure recurs after a restart depends on the engine (the default engine
		// dead-letters the records the failing destination left unanswered, so the restart does
		// not meet them again): only the clauses common to every transient failure are asserted.
		sc.Expect = "transient"
	case "stop-during-backoff", "stopall-during-backoff":
		c.DLQ.WindowSize, c.DLQ.Threshold = 0, 0
		c.Recovery.MinMs, c.Recovery.MaxMs = 60, 120 // a back-off long enough to place the call inside it
		if c.Recovery.MaxRetries == 0 {
			c.Recovery.MaxRetries = 2
		}
		c.Sources[0].ReadFaultAfter = at
		c.Sources[0].ReadFaultKind = "plain"
		c.Sources[0].ReadFaultUpTo = 1
		if kind == "stop-during-backoff" {
			sc.Expect = "user-stopped"
		} else {
			sc.Expect = "system-stopped"
		}
	case "stop-healthy":
		c.DLQ.WindowSize, c.DLQ.Threshold = 0, 0
		c.Client = []lab.ClientAction{{Kind: "stop", AtStep: rapid.IntRange(0, 2*n).Draw(t, "stopat")}}
		sc.Expect = "user-stopped"
	case "stopall-healthy":
		c.DLQ.WindowSize, c.DLQ.Threshold = 0, 0
		c.Client = []lab.ClientAction{{Kind: "stopall", AtStep: rapid.IntRange(0, 2*n).Draw(t, "stopat")}}
		sc.Expect = "system-stopped"
	case "non-converging-processor":
		c.DLQ.WindowSize, c.DLQ.Threshold = 0, 0
		c.Procs = []lab.ProcSpec{{ID: "proc0", Parent: "", Workers: 1, Gen: 1, PerRecord: map[string]string{lab.Key(0, at, 0): lab.KNil}}}
		sc.Expect, sc.Cause = "fatal", "retry"
	case "fatal-during-stop":
		// a fatal cause and a user's graceful stop at a drawn instant: whichever the run meets
		// first decides (the oracle reads from the history whether the cause occurred in the run)
		if rapid.Bool().Draw(t, "cause-proc") {
			c.DLQ.WindowSize, c.DLQ.Threshold = 1, 0
			c.Procs = []lab.ProcSpec{{ID: "proc0", Parent: "", Workers: 1, Gen: 1, PerRecord: map[string]string{lab.Key(0, at, 0): lab.KError}}}
			sc.Cause = lab.Marker
		} else {
			c.DLQ.WindowSize, c.DLQ.Threshold = 0, 0
			c.Dests[0].PerPiece[lab.Key(0, at, 0)] = lab.OutNack
			c.DLQ.PerRecord[lab.Key(0, at, 0)] = []lab.Outcome{lab.OutNack, lab.OutErr}[lab.Uniform(t, "dlqout", 2)]
		}
		c.Client = []lab.ClientAction{{Kind: "stop", AtStep: rapid.IntRange(0, 2*n).Draw(t, "stopat")}}
		// the engine logs between its steps; a slow sink widens those windows
		c.LogDelayMs = []int{0, 1, 3}[lab.Uniform(t, "logdelay", 3)]
		sc.Expect = "fatal-if-met"
	}
	return c, sc
}

type c10Replay struct {
	labReplay
	Scenario c10Scenario `json:"scenario"`
}

func statusKind(e lab.Event) string {
	i := strings.IndexAny(e.Info, " ")
	if i < 0 {
		return e.Info
	}
	return e.Info[:i]
}

// c10Oracle judges a finished run against the scenario's expected classification.
func c10Oracle(c *lab.Case, sc c10Scenario, res *lab.Result, h *lab.History) []lab.Violation {
	var vs []lab.Violation
	eng := c.Engine
	add := func(key, detail string, idx int) {
		vs = append(vs, lab.Violation{Prop: "C10", Key: "C10/" + key + "/" + sc.Kind + "/" + eng, Detail: detail, Index: idx})
	}
	if res.Wedged {
		return nil // C11's concern
	}
	// status history and restarts
	var statuses []lab.Event
	var statusIdx []int
	for i, e := range res.Events {
		if e.Kind == lab.EvStatus {
			statuses = append(statuses, e)
			statusIdx = append(statusIdx, i)
		}
	}
	if len(statuses) == 0 || statusKind(statuses[0]) != "Running" {
		return nil // never ran: not this property's domain
	}
	opens := 0
	var openIdx []int
	for i, e := range res.Events {
		if e.Kind == lab.EvSrcOpen && e.Info == "" {
			opens++
			openIdx = append(openIdx, i)
		}
	}
	restarts := opens - 1
	final := statusKind(statuses[len(statuses)-1])
	finalErr := statuses[len(statuses)-1].Pos

	// the documented automaton: Running -> {UserStopped, SystemStopped, Degraded, Recovering}; Recovering -> {Running, Degraded, UserStopped, SystemStopped}
	for i := 1; i < len(statuses); i++ {
		a, b := statusKind(statuses[i-1]), statusKind(statuses[i])
		ok := false
		switch a {
		case "Running":
			ok = b == "UserStopped" || b == "SystemStopped" || b == "Degraded" || b == "Recovering"
		case "Recovering":
			ok = b == "Running" || b == "Degraded" || b == "UserStopped" || b == "SystemStopped"
		case "UserStopped", "SystemStopped", "Degraded":
			ok = b == "Running" // only through a start
		}
		if !ok {
			add("status-history-not-a-path-of-the-automaton", fmt.Sprintf("status went %s -> %s", a, b), statusIdx[i])
		}
	}
	// lower bound on every back-off: the next source open after a Recovering status is at least MinDelay later
	minDelay := time.Duration(c.Recovery.MinMs) * time.Millisecond
	for i, e := range statuses {
		if statusKind(e) != "Recovering" {
			continue
		}
		for _, oi := range openIdx {
			if oi > statusIdx[i] {
				if d := time.Duration(res.Events[oi].T - e.T); d < minDelay {
					add("restart-before-min-backoff", fmt.Sprintf("source reopened %s after the pipeline went into recovery, configured minimum back-off is %s", d, minDelay), oi)
				}
				break
			}
		}
	}
	if c.Recovery.MaxRetries >= 0 && int64(restarts) > c.Recovery.MaxRetries && sc.Expect != "user-stopped" && sc.Expect != "system-stopped" {
		add("more-restarts-than-max-retries", fmt.Sprintf("%d automatic restarts with MaxRetries=%d", restarts, c.Recovery.MaxRetries), len(res.Events))
	}
	// automatic restarts resume at a position that is not past an unhandled record
	for _, v := range h.CheckResume("C10") {
		v.Key = strings.Replace(v.Key, "C10/", "C10/restart-", 1) + "/" + sc.Kind
		vs = append(vs, v)
	}

	expect := sc.Expect
	if expect == "fatal-if-met" {
		// did the first run meet the fatal cause? the processor was handed the record it fails,
		// or the DLQ was handed the record it refuses
		met := false
		for _, e := range res.Events {
			if e.Kind == lab.EvProcCall && len(c.Procs) > 0 && c.Procs[0].PerRecord[lab.Key(e.Src, e.Seq, 0)] == lab.KError {
				met = true
			}
			if e.Kind == lab.EvDstWrite && lab.IsDLQ(e.Comp) {
				if _, refuses := c.DLQ.PerRecord[lab.Key(e.Src, e.Seq, 0)]; refuses {
					met = true
				}
			}
		}
		if met {
			expect = "fatal"
		} else {
			expect = "user-stopped"
		}
	}
	switch expect {
	case "fatal":
		if final != "Degraded" {
			add("fatal-cause-not-degraded", fmt.Sprintf("final status %s, expected Degraded", final), len(res.Events))
		}
		if restarts > 0 {
			add("fatal-cause-restarted", fmt.Sprintf("%d automatic restart(s) after a fatal cause", restarts), openIdx[1])
		}
		if final == "Degraded" && finalErr == "" {
			add("degraded-without-cause", "status error is empty", len(res.Events))
		}
		if final == "Degraded" && sc.Cause != "" && !strings.Contains(strings.ToLower(finalErr), strings.ToLower(sc.Cause)) {
			add("degraded-cause-not-recorded", fmt.Sprintf("status error %q does not mention %q", truncateStr(finalErr, 200), sc.Cause), len(res.Events))
		}
	case "transient-recovers":
		if restarts == 0 {
			add("transient-cause-not-restarted", fmt.Sprintf("no automatic restart, final status %s (%s)", final, truncateStr(finalErr, 160)), len(res.Events))
		}
		if final == "Degraded" {
			add("transient-cause-degraded", fmt.Sprintf("degraded although the cause disappears within MaxRetries: %s", truncateStr(finalErr, 200)), len(res.Events))
		}
	case "transient":
		if c.Recovery.MaxRetries >= 1 && restarts == 0 {
			add("transient-cause-not-restarted", fmt.Sprintf("no automatic restart, final status %s (%s)", final, truncateStr(finalErr, 160)), len(res.Events))
		}
		if final == "Degraded" && int64(restarts) != c.Recovery.MaxRetries {
			add("degraded-before-retries-exhausted", fmt.Sprintf("degraded after %d automatic restarts, MaxRetries=%d: %s", restarts, c.Recovery.MaxRetries, truncateStr(finalErr, 160)), len(res.Events))
		}
	case "transient-exhausts":
		if int64(restarts) != c.Recovery.MaxRetries {
			add("transient-restart-count", fmt.Sprintf("%d automatic restarts, expected exactly MaxRetries=%d before giving up", restarts, c.Recovery.MaxRetries), len(res.Events))
		}
		if final != "Degraded" {
			add("exhausted-retries-not-degraded", fmt.Sprintf("final status %s", final), len(res.Events))
		}
	case "user-stopped", "system-stopped":
		want := "UserStopped"
		kindCtl := "stop"
		if expect == "system-stopped" {
			want, kindCtl = "SystemStopped", "stopall"
		}
		// only a stop that was accepted counts
		var call *lab.CtlResult
		for _, cr := range res.Ctl {
			if cr.Kind == kindCtl && cr.Returned && cr.Err == "" {
				call = cr
				break
			}
		}
		if call == nil {
			return vs
		}
		// was the pipeline running or recovering when it was issued?
		cur := ""
		for i, e := range statuses {
			if statusIdx[i] < call.CallIdx {
				cur = statusKind(e)
			}
		}
		if cur != "Running" && cur != "Recovering" {
			return vs
		}
		// Had the recovery restart already begun to build its run when the call returned (a plugin
		// of the next run was dispensed or opened before)? Then the call met the window between the
		// end of the back-off wait and the publication of the new run; keyed separately.
		shape := ""
		for i, e := range res.Events {
			if i >= call.RetIdx {
				break
			}
			if e.Inst > 1 && (e.Kind == lab.EvSrcNew || e.Kind == lab.EvSrcOpen || e.Kind == lab.EvDstOpen) {
				shape = "/restart-already-starting"
				break
			}
		}
		for _, oi := range openIdx {
			if oi > call.RetIdx {
				// a restart may already have been under way when the call was issued; it counts only
				// if the pipeline reports Running/Recovering again after the stop completed
				add("restarted-after-"+kindCtl+shape, fmt.Sprintf("source reopened at #%d after %s returned at #%d", oi, kindCtl, call.RetIdx), oi)
				break
			}
		}
		if final != want {
			add("wrong-final-status-after-"+kindCtl+shape, fmt.Sprintf("final status %s (%s), expected %s", final, truncateStr(finalErr, 120), want), len(res.Events))
		}
	}
	return vs
}

func truncateStr(s string, n int) string {
	if len(s) > n {
		return s[:n]
	}
	return s
}

// c10Run runs one scenario. The runner's final graceful stop must not cut the scenario short:
// a scenario whose expectation speaks about how the pipeline ends by itself is only "ready" for
// the final stop once that happened (or after lab.Quiet of silence).
func c10Run(c *lab.Case, sc c10Scenario, pick func(int) int) *lab.Result {
	o := lab.RunOpts{}
	if sc.Kind == "stop-during-backoff" || sc.Kind == "stopall-during-backoff" {
		// the call is issued as soon as the pipeline reports Recovering (inside the back-off)
		o.Prepare = func(w *lab.World, r *lab.Runner) {
			fired := false
			w.Hooks.OnStatus = func(id string, s pipeline.Status, after bool) {
				if after && !fired && s.String() == "Recovering" {
					fired = true
					kind := "stop"
					if sc.Kind == "stopall-during-backoff" {
						kind = "stopall"
					}
					go r.Issue(lab.ClientAction{Kind: kind})
				}
			}
		}
	}
	switch sc.Expect {
	case "fatal", "transient-exhausts":
		// these end in a terminal status by themselves
		o.Ready = func(*lab.World, pipeline.Status) bool { return false }
	case "transient-recovers", "transient":
		// ready once the pipeline was restarted at least once and runs again
		o.Ready = func(w *lab.World, st pipeline.Status) bool {
			opens := 0
			for _, e := range w.Log.Snapshot() {
				if e.Kind == lab.EvSrcOpen && e.Info == "" {
					opens++
				}
			}
			return opens >= 2 && st == pipeline.StatusRunning
		}
	}
	return lab.RunCaseOpts(c, pick, o)
}

// TestC10: fatal causes degrade, transient ones recover (bounded), stopped stays stopped.
func TestC10(t *testing.T) {
	st := pbt.For("C10")
	defer st.Finish(t)
	rapid.Check(t, func(t *rapid.T) {
		c, sc := genC10(t, st)
		pbt.MarkCurrent("C10", map[string]any{"case": c, "scenario": sc})
		res := c10Run(c, sc, rapidPick(t))
		if res.ProvisionErr != nil {
			t.Fatalf("provision: %v", res.ProvisionErr)
		}
		m := lab.BuildModel(c)
		h := lab.NewHistory(c, m, res.Events)
		f := factsOf(res, m)
		nontrivial := f.Restarts > 0 || strings.Contains(sc.Kind, "backoff") || sc.Expect == "transient-exhausts" || ((sc.Expect == "fatal" || sc.Expect == "fatal-if-met") && res.FinalStatus.String() == "Degraded")
		cls := []string{"engine=" + c.Engine, "kind=" + sc.Kind, "expect=" + sc.Expect, "final=" + res.FinalStatus.String(), fmt.Sprintf("restarts=%d", f.Restarts)}
		if res.Wedged {
			cls = append(cls, "wedged")
		}
		if res.Inconclusive != "" {
			st.Inconcl(res.Inconclusive)
		}
		st.Case(pbt.Hash(map[string]any{"c": c, "s": sc}), nontrivial, cls...)
		if nontrivial && st.WantSample() {
			st.Sample(map[string]any{"scenario": sc, "case": c, "history_tail": historyLines(tail(res.Events, 30))})
		}
		vs := c10Oracle(c, sc, res, h)
		if len(vs) > 0 {
			fatal := false
			var first lab.Violation
			for _, v := range vs {
				rp := c10Replay{labReplay: labReplay{Case: c, History: historyLines(res.Events), Violations: vs, Status: res.FinalStatus.String(), StatusErr: res.FinalErr}, Scenario: sc}
				if st.Report(v.Key, v.Detail, c.TotalRecords()*1000+len(res.Events), rp) {
					if !fatal {
						first = v
					}
					fatal = true
				}
			}
			if fatal {
				t.Fatalf("%s", first.String())
			}
		}
	})
}

func TestReplayC10(t *testing.T) {
	var doc struct {
		Replay c10Replay `json:"replay"`
	}
	if !loadReplay(t, &doc) {
		return
	}
	for i := 0; i < 5; i++ {
		var c lab.Case
		b, _ := json.Marshal(doc.Replay.Case)
		_ = json.Unmarshal(b, &c)
		sc := doc.Replay.Scenario
		res := c10Run(&c, sc, lab.ReplayPick(c.Choices))
		m := lab.BuildModel(&c)
		vs := c10Oracle(&c, sc, res, lab.NewHistory(&c, m, res.Events))
		for _, v := range vs {
			t.Errorf("run %d: %s", i, v.String())
		}
		if len(vs) > 0 {
			return
		}
	}
}
