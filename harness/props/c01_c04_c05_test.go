package props

import (
	"testing"

	"pgregory.net/rapid"
	"verifharness/lab"
	"verifharness/pbt"
)

func c01Opts() lab.GenOpts {
	return lab.GenOpts{
		Engines: []string{"v1", "v2"}, MaxSources: 3, MaxDests: 3, MaxRecords: 14, MaxProcs: 2,
		Nacks: true, ProcErrors: true, Filters: true, Splits: true, Conditions: true, Workers: true,
		ReadFaults: true, StreamErrs: true, DLQFaults: true, GateCommits: true, GateAcks: true, FreeSched: 15,
		ClientKinds: []string{"stop", "stopandwait", "forcestop", "stopall"}, ClientProb: 0.5,
		MaxRetries: []int64{0, 1, 2},
	}
}

// TestC01: for every ack a source plugin observes, every destination (or the DLQ)
// confirmed the record before, or it was filtered.
func TestC01(t *testing.T) {
	st := pbt.For("C01")
	defer st.Finish(t)
	opts := c01Opts()
	rapid.Check(t, func(t *rapid.T) {
		c := lab.GenCase(t, opts)
		res, m, h := runLab(t, "C01", c)
		if res.ProvisionErr != nil {
			t.Fatalf("provision: %v", res.ProvisionErr)
		}
		f := factsOf(res, m)
		nontrivial := (len(c.Dests) >= 2 || f.DLQd > 0) && f.OutOfOrder && f.Acks > 0
		cls := labClasses(res)
		if f.DLQd > 0 {
			cls = append(cls, "dlq-used")
		}
		if f.OutOfOrder {
			cls = append(cls, "confirmations-out-of-emission-order")
		}
		if f.Restarts > 0 {
			cls = append(cls, "recovery-restart")
		}
		if f.StopInFlight {
			cls = append(cls, "stop-with-records-in-flight")
		}
		if res.Inconclusive != "" {
			st.Inconcl(res.Inconclusive)
		}
		st.Case(pbt.Hash(c), nontrivial, cls...)
		if nontrivial && st.WantSample() {
			st.Sample(map[string]any{"case": c, "history_tail": historyLines(tail(res.Events, 40))})
		}
		failOn(t, st, res, h.CheckC01())
	})
}

func tail(ev []lab.Event, n int) []lab.Event {
	if len(ev) > n {
		return ev[len(ev)-n:]
	}
	return ev
}

// TestC04: acks reach each source in exactly read order, no gaps, no repeats.
func TestC04(t *testing.T) {
	st := pbt.For("C04")
	defer st.Finish(t)
	opts := c01Opts()
	opts.MaxDests = 3
	opts.MaxRecords = 18
	opts.AckSendFaults = 30
	opts.DLQDeath = 20
	rapid.Check(t, func(t *rapid.T) {
		c := lab.GenCase(t, opts)
		res, m, h := runLab(t, "C04", c)
		if res.ProvisionErr != nil {
			t.Fatalf("provision: %v", res.ProvisionErr)
		}
		f := factsOf(res, m)
		par := false
		for _, p := range c.Procs {
			if p.Workers > 1 {
				par = true
			}
		}
		// ≥2 completion sources (branches / workers / DLQ) finished out of order
		nontrivial := f.Acks >= 2 && (f.OutOfOrder || (par && f.Acks > 3) || (f.DLQd > 0 && f.Acks > f.DLQd))
		cls := labClasses(res)
		if f.DLQd > 0 {
			cls = append(cls, "dlq-used")
		}
		if f.OutOfOrder {
			cls = append(cls, "confirmations-out-of-emission-order")
		}
		if f.Filtered > 0 {
			cls = append(cls, "filtered-records")
		}
		if res.Inconclusive != "" {
			st.Inconcl(res.Inconclusive)
		}
		st.Case(pbt.Hash(c), nontrivial, cls...)
		if nontrivial && st.WantSample() {
			st.Sample(map[string]any{"case": c, "history_tail": historyLines(tail(res.Events, 40))})
		}
		failOn(t, st, res, h.CheckC04())
	})
}

// TestC05: every destination sees each source's records in read order, once per run.
func TestC05(t *testing.T) {
	st := pbt.For("C05")
	defer st.Finish(t)
	opts := c01Opts()
	opts.MaxRecords = 18
	rapid.Check(t, func(t *rapid.T) {
		c := lab.GenCase(t, opts)
		res, m, h := runLab(t, "C05", c)
		if res.ProvisionErr != nil {
			t.Fatalf("provision: %v", res.ProvisionErr)
		}
		f := factsOf(res, m)
		par := false
		for _, p := range c.Procs {
			if p.Workers > 1 {
				par = true
			}
		}
		writes := 0
		for _, e := range res.Events {
			if e.Kind == lab.EvDstWrite && !lab.IsDLQ(e.Comp) {
				writes++
			}
		}
		nontrivial := writes >= 3 && (par || len(c.Sources) >= 2 || (len(c.Dests) >= 2 && len(c.Procs) > 0))
		cls := labClasses(res)
		if f.Filtered > 0 {
			cls = append(cls, "filtered-records")
		}
		if f.Splits > 0 {
			cls = append(cls, "split-records")
		}
		if res.Inconclusive != "" {
			st.Inconcl(res.Inconclusive)
		}
		st.Case(pbt.Hash(c), nontrivial, cls...)
		if nontrivial && st.WantSample() {
			st.Sample(map[string]any{"case": c, "history_tail": historyLines(tail(res.Events, 40))})
		}
		failOn(t, st, res, h.CheckC05())
	})
}
