package props

import (
	"encoding/json"
	"os"
	"testing"
	"time"

	"verifharness/lab"
)

// TestDebugReplay replays a case JSON given in VERIF_CASE_FILE (development aid).
func TestDebugReplay(t *testing.T) {
	f := os.Getenv("VERIF_CASE_FILE")
	if f == "" {
		t.Skip("development aid")
	}
	raw, err := os.ReadFile(f)
	if err != nil {
		t.Fatal(err)
	}
	lab.Quiet = 2 * time.Second
	for i := 0; i < 5; i++ {
		var c lab.Case
		if err := json.Unmarshal(raw, &c); err != nil {
			t.Fatal(err)
		}
		res := lab.RunCase(&c, lab.ReplayPick(c.Choices))
		t.Logf("run %d: status=%s wedged=%v %s inconclusive=%q", i, res.FinalStatus, res.Wedged, res.WedgeInfo, res.Inconclusive)
		if res.Wedged || res.Inconclusive != "" {
			t.Logf("%s\n\nSTACKS:\n%s", lab.Format(res.Events, 50), res.Stacks)
			return
		}
	}
}
