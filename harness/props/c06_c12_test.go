package props

import (
	"strings"
	"testing"

	"pgregory.net/rapid"
	"verifharness/lab"
	"verifharness/pbt"
)

func init() {
	extraLabOracles["C06"] = func(res *lab.Result, m *lab.Model, h *lab.History) []lab.Violation {
		vs := h.CheckC06(res.World.DB.Snap, res.Ctl)
		vs = append(vs, lab.CheckStopWedge(res, h)...)
		if h.Healthy() {
			for _, v := range h.CheckC04() {
				v.Prop, v.Key = "C06", "C06/acked-not-a-prefix/"+v.Key
				vs = append(vs, v)
			}
		}
		// a pipeline whose script contains nothing that can fail must not fail because it is
		// being stopped gracefully, and the stop must report success
		if res.Case.Faultless() && !res.Wedged {
			eng := res.Case.Engine
			for i, e := range res.Events {
				if e.Kind == lab.EvStatus && (strings.HasPrefix(e.Info, "Degraded") || strings.HasPrefix(e.Info, "Recovering")) {
					vs = append(vs, lab.Violation{Prop: "C06", Key: "C06/faultless-pipeline-failed-during-graceful-stop/" + eng, Index: i,
						Detail: "every plugin answers and confirms everything, yet the pipeline went " + e.Info + ": " + truncateStr(e.Pos, 300)})
					break
				}
			}
			for _, cr := range res.Ctl {
				if (cr.Kind == "stopandwait" || cr.Kind == "stopwait" || cr.Kind == "stopallwait") && cr.Returned && cr.Err != "" && cr == firstStop(res) {
					vs = append(vs, lab.Violation{Prop: "C06", Key: "C06/graceful-stop-of-faultless-pipeline-returned-error/" + eng, Index: cr.RetIdx,
						Detail: cr.Kind + " returned: " + truncateStr(cr.Err, 300)})
				}
			}
		}
		return vs
	}
	extraLabOracles["C12"] = c12Oracle
}

func c06Opts() lab.GenOpts {
	return lab.GenOpts{
		Engines: []string{"v1", "v2"}, MaxSources: 3, MaxDests: 3, MaxRecords: 14, MaxProcs: 2,
		Nacks: true, ProcErrors: true, Filters: true, Splits: true, Conditions: true, Workers: true,
		UnlimitedDLQ: true, GateCommits: true, GateAcks: true, FreeSched: 15,
		AckSendFaults: 25, AckSendNoBreak: true,
		ClientKinds: []string{"stopandwait", "stopwait", "stopallwait"}, ClientProb: 1.0,
	}
}

// TestC06: a graceful stop of a healthy pipeline drains.
func TestC06(t *testing.T) {
	st := pbt.For("C06")
	defer st.Finish(t)
	opts := c06Opts()
	rapid.Check(t, func(t *rapid.T) {
		c := lab.GenCase(t, opts)
		if lab.Chance(t, "faultless", 40) {
			c.MakeFaultless()
		}
		res, m, h := runLab(t, "C06", c)
		if res.ProvisionErr != nil {
			t.Fatalf("provision: %v", res.ProvisionErr)
		}
		f := factsOf(res, m)
		healthy := h.Healthy()
		returnedOK := false
		for _, cr := range res.Ctl {
			if (cr.Kind == "stopandwait" || cr.Kind == "stopwait" || cr.Kind == "stopallwait") && cr.Returned && cr.Err == "" {
				returnedOK = true
			}
		}
		nontrivial := healthy && returnedOK && f.StopInFlight
		cls := labClasses(res)
		if healthy {
			cls = append(cls, "healthy")
		}
		if returnedOK {
			cls = append(cls, "stop-returned-nil")
		}
		if f.StopInFlight {
			cls = append(cls, "stop-with-records-in-flight")
		}
		if f.DLQd > 0 {
			cls = append(cls, "dlq-used")
		}
		if res.Inconclusive != "" {
			st.Inconcl(res.Inconclusive)
		}
		st.Case(pbt.Hash(c), nontrivial, cls...)
		if nontrivial && st.WantSample() {
			st.Sample(map[string]any{"case": c, "history_tail": historyLines(tail(res.Events, 40))})
		}
		failOn(t, st, res, labOracle("C06", res, m, h))
	})
}

func c12Opts() lab.GenOpts {
	return lab.GenOpts{
		Engines: []string{"v1", "v2"}, MaxSources: 2, MaxDests: 3, MaxRecords: 12, MaxProcs: 2,
		// (no destination rejections here: with a fan-out a rejection makes the default engine's run
		// fail by itself with a recoverable error, and a force stop that lands in that recovery
		// window is the known finding force-stop-lost/v1/run-already-ended, which the history can
		// only tell apart by the order of the logged call and the status write - not reliable on a
		// loaded machine; C01/C07 cover rejections, C10/C11 the recovery window)
		ProcErrors: true, Filters: true, Conditions: true, Workers: true,
		UnlimitedDLQ: true, Holds: true, GateCalls: 35,
	}
}

func c12Oracle(res *lab.Result, m *lab.Model, h *lab.History) []lab.Violation {
	vs := h.CheckC12(res)
	if res.Wedged {
		return vs
	}
	for _, v := range h.CheckC01() {
		v.Prop, v.Key = "C12", "C12/acked-unhandled/"+v.Key
		vs = append(vs, v)
	}
	for _, v := range h.CheckC04() {
		v.Prop, v.Key = "C12", "C12/ack-order/"+v.Key
		vs = append(vs, v)
	}
	vs = append(vs, h.CheckResume("C12")...)
	// "without a gap": CheckResume (no reopen past an unhandled record) plus the C01/C04 clauses
	// above on the whole log, which includes the restarted run
	if forceOK(res) && !restartOK(res) && !res.Wedged {
		forceRet := 0
		for _, cr := range res.Ctl {
			if cr.Kind == "forcestop" && cr.Returned && cr.Err == "" {
				forceRet = cr.RetIdx
				break
			}
		}
		for _, cr := range res.Ctl {
			if cr.Kind == "start" && cr != res.Ctl[0] && cr.CallIdx > forceRet && cr.Returned && cr.Err != "" {
				vs = append(vs, lab.Violation{Prop: "C12", Key: "C12/cannot-start-after-force-stop/" + res.Case.Engine, Index: cr.RetIdx,
					Detail: "start after a force stop failed: " + cr.Err})
			}
		}
	}
	return vs
}

func forceOK(res *lab.Result) bool {
	for _, cr := range res.Ctl {
		if cr.Kind == "forcestop" && cr.Returned && cr.Err == "" {
			return true
		}
	}
	return false
}

func restartOK(res *lab.Result) bool {
	forceRet := -1
	for _, cr := range res.Ctl {
		if cr.Kind == "forcestop" && cr.Returned && cr.Err == "" {
			forceRet = cr.RetIdx
			break
		}
	}
	for _, cr := range res.Ctl {
		if cr.Kind == "start" && cr != res.Ctl[0] && forceRet >= 0 && cr.CallIdx > forceRet && cr.Returned && cr.Err == "" {
			return true
		}
	}
	return false
}

// TestC12: force stop at any instant ends the run, degrades, acks nothing unhandled, and the pipeline restarts without a gap.
func TestC12(t *testing.T) {
	st := pbt.For("C12")
	defer st.Finish(t)
	opts := c12Opts()
	rapid.Check(t, func(t *rapid.T) {
		c := lab.GenCase(t, opts)
		total := c.TotalRecords()
		at := rapid.IntRange(0, 2*total+8).Draw(t, "forceat")
		if lab.Chance(t, "gracefulfirst", 35) {
			// a user's graceful stop, or the server's shutdown (StopAll), is pending when the force stop lands
			kind := []string{"stop", "stopall"}[lab.Uniform(t, "gracefulkind", 2)]
			if c.Engine == "v1" {
				// the default engine's shutdown + force stop combination is left to C10/C11 (see DESIGN
				// 12.5: one unexplained, not reproduced v1 alarm while this was generated for both engines)
				kind = "stop"
			}
			c.Client = append(c.Client, lab.ClientAction{Kind: kind, AtStep: rapid.IntRange(0, at).Draw(t, "stopat")})
		}
		c.Client = append(c.Client, lab.ClientAction{Kind: "forcestop", AtStep: at})
		c.Client = append(c.Client, lab.ClientAction{Kind: "start", AtStep: 1 << 30})
		res, m, h := runLab(t, "C12", c)
		if res.ProvisionErr != nil {
			t.Fatalf("provision: %v", res.ProvisionErr)
		}
		blocked := false
		for _, e := range res.Events {
			if e.Kind == lab.EvNote && e.Info == "hold" {
				blocked = true
			}
		}
		startup := false
		for _, cr := range res.Ctl {
			if cr.Kind == "forcestop" {
				opens, expected := 0, len(c.Sources)+len(c.Dests)
				for _, e := range res.Events[:cr.CallIdx] {
					if e.Kind == lab.EvSrcOpen || (e.Kind == lab.EvDstOpen && !lab.IsDLQ(e.Comp)) {
						opens++
					}
				}
				startup = opens < expected
			}
		}
		nontrivial := forceOK(res) && (blocked || startup)
		cls := labClasses(res)
		if forceOK(res) {
			cls = append(cls, "force-stop-accepted")
		}
		if blocked {
			cls = append(cls, "plugin-blocked-at-force-stop")
		}
		if startup {
			cls = append(cls, "force-stop-during-startup")
		}
		if restartOK(res) {
			cls = append(cls, "restarted-after-force-stop")
		}
		if res.Inconclusive != "" {
			st.Inconcl(res.Inconclusive)
		}
		st.Case(pbt.Hash(c), nontrivial, cls...)
		if nontrivial && st.WantSample() {
			st.Sample(map[string]any{"case": c, "history_tail": historyLines(tail(res.Events, 40))})
		}
		failOn(t, st, res, c12Oracle(res, m, h))
	})
}

func TestReplayC06(t *testing.T) { replayLab(t, "C06") }
func TestReplayC12(t *testing.T) { replayLab(t, "C12") }


// firstStop returns the first stop-like control call of a run (later ones meet a pipeline that
// is already stopping or stopped and may legitimately be refused).
func firstStop(res *lab.Result) *lab.CtlResult {
	for _, cr := range res.Ctl {
		if strings.HasPrefix(cr.Kind, "stop") || cr.Kind == "forcestop" {
			return cr
		}
	}
	return nil
}
