package props

import (
	"context"
	"fmt"
	"sync"
	"testing"
	"time"

	"github.com/conduitio/conduit-commons/opencdc"
	"github.com/conduitio/conduit-connector-protocol/pconnector"
	"github.com/conduitio/conduit/pkg/foundation/log"
	"github.com/conduitio/conduit/pkg/plugin"
	"github.com/conduitio/conduit/pkg/plugin/connector/builtin"
	"github.com/rs/zerolog"
	"pgregory.net/rapid"
	"verifharness/lab"
	"verifharness/pbt"
)

// slowSrc is a built-in source plugin whose calls answer when the test says so. A call whose
// context is cancelled while it waits still answers afterwards (a plugin that honours its
// context answers right away, one that does not answers when it is released).
type slowSrc struct {
	mu      sync.Mutex
	entered chan string // a call entered the plugin (its tag)
	gates   map[string]chan struct{}
	honour  map[string]bool
}

func (p *slowSrc) wait(ctx context.Context, tag string) {
	p.mu.Lock()
	g := p.gates[tag]
	hon := p.honour[tag]
	p.mu.Unlock()
	p.entered <- tag
	if g == nil {
		return
	}
	if hon {
		select {
		case <-g:
		case <-ctx.Done():
		}
		return
	}
	<-g
}

func tagOf(ctx context.Context) string { s, _ := ctx.Value(tagKey{}).(string); return s }

type tagKey struct{}

func (p *slowSrc) Configure(ctx context.Context, _ pconnector.SourceConfigureRequest) (pconnector.SourceConfigureResponse, error) {
	p.wait(ctx, tagOf(ctx))
	return pconnector.SourceConfigureResponse{}, nil
}
func (p *slowSrc) Open(ctx context.Context, _ pconnector.SourceOpenRequest) (pconnector.SourceOpenResponse, error) {
	p.wait(ctx, tagOf(ctx))
	return pconnector.SourceOpenResponse{}, nil
}
func (p *slowSrc) Run(ctx context.Context, _ pconnector.SourceRunStream) error {
	<-ctx.Done()
	return ctx.Err()
}
func (p *slowSrc) Stop(ctx context.Context, _ pconnector.SourceStopRequest) (pconnector.SourceStopResponse, error) {
	tag := tagOf(ctx)
	p.wait(ctx, tag)
	// the reply names the call it answers
	return pconnector.SourceStopResponse{LastPosition: opencdc.Position(tag)}, nil
}
func (p *slowSrc) Teardown(ctx context.Context, _ pconnector.SourceTeardownRequest) (pconnector.SourceTeardownResponse, error) {
	p.wait(ctx, tagOf(ctx))
	return pconnector.SourceTeardownResponse{}, nil
}
func (p *slowSrc) LifecycleOnCreated(ctx context.Context, _ pconnector.SourceLifecycleOnCreatedRequest) (pconnector.SourceLifecycleOnCreatedResponse, error) {
	p.wait(ctx, tagOf(ctx))
	return pconnector.SourceLifecycleOnCreatedResponse{}, nil
}
func (p *slowSrc) LifecycleOnUpdated(ctx context.Context, _ pconnector.SourceLifecycleOnUpdatedRequest) (pconnector.SourceLifecycleOnUpdatedResponse, error) {
	p.wait(ctx, tagOf(ctx))
	return pconnector.SourceLifecycleOnUpdatedResponse{}, nil
}
func (p *slowSrc) LifecycleOnDeleted(ctx context.Context, _ pconnector.SourceLifecycleOnDeletedRequest) (pconnector.SourceLifecycleOnDeletedResponse, error) {
	p.wait(ctx, tagOf(ctx))
	return pconnector.SourceLifecycleOnDeletedResponse{}, nil
}

type sbCall struct {
	Kind    string `json:"kind"`    // stop | teardown | open | configure | created
	Abandon bool   `json:"abandon"` // the caller's context is cancelled while the plugin is still busy
	Honour  bool   `json:"honour"`  // the plugin returns as soon as its context is cancelled
	// ReleaseAfter: an abandoned call that does not honour its context answers after this many
	// later calls have entered the plugin (0 = before the next call starts)
	ReleaseAfter int `json:"release_after,omitempty"`
}

type sbOutcome struct {
	returned bool
	panicked any
	err      error
	stopPos  string
}

// TestC09Sandbox: sequences of built-in connector calls (through the real dispenser and its panic
// sandbox) in which the engine abandons some calls (context cancelled while the plugin is busy)
// and the plugin's late reply arrives while a later call is waiting for its own. No call may
// panic the calling goroutine, hang, or be answered with another call's reply.
func TestC09Sandbox(t *testing.T) {
	st := pbt.For("C09")
	defer st.Finish(t)
	kinds := []string{"stop", "stop", "teardown", "open", "configure", "created"}
	rapid.Check(t, func(t *rapid.T) {
		n := rapid.IntRange(2, 6).Draw(t, "ncalls")
		calls := make([]sbCall, n)
		abandoned := 0
		for i := range calls {
			calls[i].Kind = kinds[lab.Uniform(t, "kind", len(kinds))]
			if i < n-1 && lab.Chance(t, "abandon", 60) {
				calls[i].Abandon = true
				calls[i].Honour = rapid.Bool().Draw(t, "honour")
				calls[i].ReleaseAfter = lab.Uniform(t, "releaseafter", 3)
				abandoned++
			}
		}
		pbt.MarkCurrent("C09", map[string]any{"sandbox_calls": calls})
		vs, err := runSandboxCalls(calls)
		if err != nil {
			t.Fatalf("dispense: %v", err)
		}
		cls := []string{"part=sandbox", fmt.Sprintf("abandoned=%d", abandoned)}
		st.Case(pbt.Hash(calls), abandoned > 0, cls...)
		if abandoned > 0 && st.WantSample() {
			st.Sample(map[string]any{"sandbox_calls": calls})
		}
		fatal := false
		var first lab.Violation
		for _, v := range vs {
			if st.Report(v.Key, v.Detail, len(calls), map[string]any{"sandbox_calls": calls}) {
				if !fatal {
					first = v
				}
				fatal = true
			}
		}
		if fatal {
			t.Fatalf("%s", first.String())
		}
	})
}

// runSandboxCalls executes one call sequence against a fresh built-in source adapter.
func runSandboxCalls(calls []sbCall) ([]lab.Violation, error) {
	logger := log.New(zerolog.Nop())
	p := &slowSrc{entered: make(chan string, 64), gates: map[string]chan struct{}{}, honour: map[string]bool{}}
	d := builtin.NewDispenser(plugin.FullName("builtin:c09-sandbox"), logger, nil, func() pconnector.SourcePlugin { return p }, nil)
	src, err := d.DispenseSource()
	if err != nil {
		return nil, err
	}
	type pending struct {
		tag   string
		after int
	}
	var late []pending // abandoned calls whose plugin side has not answered yet
	var vs []lab.Violation
	add := func(key, detail string, idx int) {
		vs = append(vs, lab.Violation{Prop: "C09", Key: "C09/sandbox/" + key, Detail: detail, Index: idx})
	}
	for i, c := range calls {
		tag := fmt.Sprintf("call-%d-%s", i, c.Kind)
		gate := make(chan struct{})
		p.mu.Lock()
		p.gates[tag] = gate
		p.honour[tag] = c.Honour
		p.mu.Unlock()
		ctx, cancel := context.WithCancel(context.WithValue(context.Background(), tagKey{}, tag))
		out := &sbOutcome{}
		done := make(chan struct{})
		go func() {
			defer close(done)
			defer func() {
				if r := recover(); r != nil {
					out.panicked = r
				}
			}()
			switch c.Kind {
			case "stop":
				var res pconnector.SourceStopResponse
				res, out.err = src.Stop(ctx, pconnector.SourceStopRequest{})
				out.stopPos = string(res.LastPosition)
			case "teardown":
				_, out.err = src.Teardown(ctx, pconnector.SourceTeardownRequest{})
			case "open":
				_, out.err = src.Open(ctx, pconnector.SourceOpenRequest{})
			case "configure":
				_, out.err = src.Configure(ctx, pconnector.SourceConfigureRequest{})
			case "created":
				_, out.err = src.LifecycleOnCreated(ctx, pconnector.SourceLifecycleOnCreatedRequest{})
			}
			out.returned = true
		}()
		// the plugin is busy with this call
		select {
		case <-p.entered:
		case <-time.After(5 * time.Second):
			add("call-never-reached-the-plugin", tag, i)
		}
		// late replies of earlier abandoned calls arrive while this call waits for its own
		keep := late[:0]
		for _, l := range late {
			if l.after <= 0 {
				p.mu.Lock()
				g := p.gates[l.tag]
				p.mu.Unlock()
				close(g)
			} else {
				l.after--
				keep = append(keep, l)
			}
		}
		late = keep
		time.Sleep(200 * time.Microsecond) // let a late reply travel
		if c.Abandon {
			cancel()
			if !c.Honour {
				late = append(late, pending{tag, c.ReleaseAfter})
			}
		} else {
			close(gate)
		}
		select {
		case <-done:
		case <-time.After(5 * time.Second):
			add("call-never-returns/"+c.Kind, fmt.Sprintf("%s did not return within 5 s (abandoned=%v)", tag, c.Abandon), i)
		}
		cancel()
		if out.panicked != nil {
			add("caller-panics/"+c.Kind, fmt.Sprintf("%s: the calling goroutine panicked: %v", tag, out.panicked), i)
		}
		if out.returned && !c.Abandon {
			if out.err != nil {
				add("own-reply-lost/"+c.Kind, fmt.Sprintf("%s: the plugin answered but the call returned %v", tag, out.err), i)
			}
			if c.Kind == "stop" && out.err == nil && out.stopPos != tag {
				add("answered-with-another-calls-reply/stop", fmt.Sprintf("%s returned the reply of %q", tag, out.stopPos), i)
			}
		}
	}
	for _, l := range late {
		p.mu.Lock()
		g := p.gates[l.tag]
		p.mu.Unlock()
		close(g)
	}
	return vs, nil
}

// TestReplayC09Sandbox re-executes a saved call sequence of the sandbox part.
func TestReplayC09Sandbox(t *testing.T) {
	var doc struct {
		Replay struct {
			Calls []sbCall `json:"sandbox_calls"`
		} `json:"replay"`
	}
	if !loadReplay(t, &doc) {
		return
	}
	if len(doc.Replay.Calls) == 0 {
		t.Skip("not a sandbox replay")
	}
	for i := 0; i < 20; i++ {
		vs, err := runSandboxCalls(doc.Replay.Calls)
		if err != nil {
			t.Fatal(err)
		}
		for _, v := range vs {
			t.Errorf("run %d: %s", i, v.String())
		}
		if len(vs) > 0 {
			return
		}
	}
}
