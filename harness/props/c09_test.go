package props

import (
	"strings"
	"testing"

	"pgregory.net/rapid"
	"verifharness/lab"
	"verifharness/pbt"
)

func c09LabOpts() lab.GenOpts {
	return lab.GenOpts{
		Engines: []string{"v1", "v2"}, MaxSources: 2, MaxDests: 3, MaxRecords: 12, MaxProcs: 2,
		Nacks: true, Filters: true, Splits: true, Conditions: true, Workers: true,
		ReadFaults: true, StreamErrs: true, DLQFaults: true, // "an error from any call": plugin streams that fail
		UnlimitedDLQ: true, GateAcks: true, Hostile: true, FreeSched: 30, GateCalls: 50, Holds: true,
		ClientKinds: []string{"stop", "stopandwait", "forcestop", "forcestop"}, ClientProb: 0.5,
		MaxRetries: []int64{0, 1},
	}
}

// TestC09Lab: full engine runs (both engines) with one hostile reply shape of a connector or a
// processor per case (and batched / late destination acks in every case). The engine must not
// crash (the driver turns a dead test process into a violation), must not wedge (bounded
// quiescence) and must not acknowledge a record whose handling the hostile reply left open.
func TestC09Lab(t *testing.T) {
	st := pbt.For("C09")
	defer st.Finish(t)
	opts := c09LabOpts()
	rapid.Check(t, func(t *rapid.T) {
		// (a third of the cases run with the boundary scheduler switched off: plugins answer at
		// once, so replies can arrive inside windows of the engine that a settled world never shows)
		c := lab.GenCase(t, opts)
		if c.GatePluginCalls && lab.Chance(t, "force-stop-into-slow-calls", 70) {
			// plugin calls answer late AND a force stop cancels them: the engine abandons calls
			// whose replies still arrive afterwards
			c.Client = []lab.ClientAction{{Kind: "forcestop", AtStep: rapid.IntRange(0, 2*c.TotalRecords()+6).Draw(t, "forceat")}}
		}
		res, m, h := runLab(t, "C09", c)
		if res.ProvisionErr != nil {
			t.Fatalf("provision: %v", res.ProvisionErr)
		}
		f := factsOf(res, m)
		shape := c.Hostile
		if shape == "" {
			shape = "none"
		}
		nontrivial := c.Hostile != "" && f.Acks+f.Nacks > 0
		cls := append(labClasses(res), "part=lab", "hostile="+shape)
		if res.Inconclusive != "" {
			st.Inconcl(res.Inconclusive)
		}
		st.Case(pbt.Hash(c), nontrivial, cls...)
		if nontrivial && st.WantSample() {
			st.Sample(map[string]any{"case": c, "history_tail": historyLines(tail(res.Events, 30))})
		}
		vs := c09LabOracle(res, m, h)
		if res.Wedged {
			res.Events = append(res.Events, lab.Event{Kind: lab.EvNote, Src: -1, Seq: -1, Info: "STACKS:\n" + res.Stacks})
		}
		failOn(t, st, res, vs)
	})
}

func c09LabOracle(res *lab.Result, m *lab.Model, h *lab.History) []lab.Violation {
	c := res.Case
	shape := c.Hostile
	if shape == "" {
		shape = "none"
	}
	var vs []lab.Violation
	// (a plugin that never answers makes "never ends" legitimate: no wedge verdict for those cases;
	// they are there for the force stops they provoke while plugin calls answer late)
	if !c.HasHold() {
		for _, v := range lab.CheckWedge(res) {
			v.Prop = "C09"
			v.Key = strings.Replace(v.Key, "C11/wedge/", "C09/lab/wedge/", 1) + "/" + shape
			vs = append(vs, v)
		}
	}
	// accounting survives a hostile DESTINATION reply (the fate model knows these shapes); for
	// hostile source positions and processor results only crash and wedge are judged here (the
	// direct parts of this property judge their accounting)
	if c.Hostile == "" || strings.HasPrefix(c.Hostile, "dst-") {
		for _, v := range h.CheckC01() {
			v.Prop = "C09"
			v.Key = "C09/lab/" + strings.TrimPrefix(v.Key, "C01/") + "/" + shape
			vs = append(vs, v)
		}
	}
	return vs
}

func init() { extraLabOracles["C09"] = c09LabOracle }

// TestReplayLabC09 re-executes a replay written by the lab part (the direct parts have their own in p09).
func TestReplayLabC09(t *testing.T) { replayLab(t, "C09") }
