package p08

import (
	"strings"
)

// A knownShape ties the symptoms of one genuine defect to the input shape that
// triggers it: violations found on a script of that shape are reported under
// the defect's own key, and once that key is listed in known_findings.json the
// generator neutralises exactly that shape so the search continues behind it.
type knownShape struct {
	key        string
	match      func(sc *Script, m *model) bool
	symptom    func(vkey string) bool
	neutralise func(sc *Script, m *model)
}

func hasPrefixAny(k string, ps ...string) bool {
	for _, p := range ps {
		if strings.HasPrefix(k, p) {
			return true
		}
	}
	return false
}

// D1: DestinationTask.markBatchRecords / Batch.setFlagWithErr.
// A destination rejects a piece of a split record that still carries a
// FILTERED sibling piece. setFlagWithErr propagates the nack to every piece of
// the run - including the filtered one, whose flag flips from Filter to Nack
// while filterCount stays. From then on activeRecordIndices() (recomputed on
// every call) contains one more record, so every error ack the destination
// returns in a LATER Ack() chunk for a record behind the run is applied one
// slot too early: that record is acked to the source although the destination
// rejected it, it is never dead-lettered, and its error text lands on the run.
const keyD1 = "C08/dest-nack-misapplied/filtered-piece-in-nacked-split-run"

func d1Pairs(sc *Script, m *model) (out [][2]int) {
	for d := range sc.Dests {
		for o := 0; o < sc.N; o++ {
			f := m.Fates[o]
			if !f.FiltInRun[d] || f.NackedAll[d] == 0 {
				continue
			}
			later := false
			for o2 := o + 1; o2 < sc.N; o2++ {
				if m.Fates[o2].NackedAll[d] > 0 {
					later = true
				}
			}
			if later {
				out = append(out, [2]int{o, d})
			}
		}
	}
	return out
}

var knownShapes = []knownShape{
	{
		key:   keyD1,
		match: func(sc *Script, m *model) bool { return len(d1Pairs(sc, m)) > 0 },
		symptom: func(k string) bool {
			return hasPrefixAny(k, "C08/dlq/", "C08/delivery/", "C08/ack-sequence/", "C08/unexpected-error/", "C08/missing-error/", "C08/acked-after-failed-dlq-write/", "C08/ack-before-confirm/")
		},
		neutralise: func(sc *Script, m *model) {
			// the run is no longer rejected at that destination
			for _, od := range d1Pairs(sc, m) {
				o, d := od[0], od[1]
				pre := key(d, o, "") // "d|o|": every piece of that origin at that destination
				for k := range sc.Nacks {
					if strings.HasPrefix(k, pre) {
						delete(sc.Nacks, k)
					}
				}
			}
		},
	},
}
