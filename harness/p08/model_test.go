package p08

import (
	"fmt"
	"sort"
	"strconv"
	"strings"

	"pgregory.net/rapid"
)

// ---------------------------------------------------------------------------
// Script: everything that defines one case (JSON-serialisable, replayable).
// ---------------------------------------------------------------------------

// Processor result kinds (per piece, per processor).
const (
	kPass   = "pass"   // SingleRecord, unchanged except for the trace stamp
	kModify = "modify" // SingleRecord, payload rewritten
	kFilter = "filter" // FilterRecord
	kError  = "error"  // ErrorRecord
	kSplit  = "split"  // MultiRecord with N (2..3) pieces
	kMulti0 = "multi0" // MultiRecord{} - documented as filter (processor.go markBatchRecords)
	kMulti1 = "multi1" // MultiRecord with one record - documented as "don't split" (SetRecords)
	kRepos  = "repos"  // SingleRecord whose Position was changed by the processor
)

// Act is what one processor does with one piece.
type Act struct {
	Kind string `json:"k"`
	N    int    `json:"n,omitempty"`   // split arity
	Ren  bool   `json:"ren,omitempty"` // split pieces get renamed positions (default: keep the input position)
	Pos  string `json:"pos,omitempty"` // repos mode: fresh | steal | empty
}

// ProcSpec is one processor of the chain. Branch == -1: before the fan-out
// (source- or pipeline-level processor); Branch == b: destination-level
// processor in front of destination b (service.go buildDestinationTasks).
type ProcSpec struct {
	ID     string `json:"id"`
	Branch int    `json:"branch"`
	Cond   bool   `json:"cond,omitempty"`  // wrapped in the real processor.RunnableProcessor with a condition
	Match  []bool `json:"match,omitempty"` // per origin: does the condition match (pieces inherit)
}

type DestSpec struct {
	ID     string `json:"id"`
	Chunks []int  `json:"chunks"` // sizes of the groups in which Ack() returns the acks (cyclic)
}

type Script struct {
	N     int        `json:"n"`
	Procs []ProcSpec `json:"procs"`
	Dests []DestSpec `json:"dests"`
	// SinkFrom >= 0: the tasks from this index of the pre-fan-out chain on
	// (index == number of pre procs: the destination branches themselves) are
	// owned by a funnel.Sink (shared boundary), as lifecycle-poc.Service builds it.
	SinkFrom int `json:"sink_from"`
	// Acts: "s|o|path" -> what processor s does with that piece.
	Acts map[string]Act `json:"acts"`
	// Cuts: "s|o|path" -> processor s returns, once, only the results in front of that piece.
	Cuts map[string]bool `json:"cuts,omitempty"`
	// Nacks: "d|o|path" -> destination d rejects that piece.
	Nacks map[string]bool `json:"nacks,omitempty"`
	// DLQFail: "o" -> the DLQ destination rejects the dead-lettered original o.
	DLQFail map[string]bool `json:"dlq_fail,omitempty"`
}

func key(a, o int, path string) string { return strconv.Itoa(a) + "|" + strconv.Itoa(o) + "|" + path }

func (sc *Script) fanout() bool { return len(sc.Dests) > 1 }

func (sc *Script) topo() string {
	if sc.fanout() {
		return "fanout"
	}
	return "single"
}

// lane returns the processor indexes a record passes on its way to destination b.
func (sc *Script) lane(b int) []int {
	var out []int
	for i, p := range sc.Procs {
		if p.Branch == -1 {
			out = append(out, i)
		}
	}
	for i, p := range sc.Procs {
		if p.Branch == b {
			out = append(out, i)
		}
	}
	return out
}

func (sc *Script) pre() []int {
	var out []int
	for i, p := range sc.Procs {
		if p.Branch == -1 {
			out = append(out, i)
		}
	}
	return out
}

func (sc *Script) branch(b int) []int {
	var out []int
	for i, p := range sc.Procs {
		if p.Branch == b {
			out = append(out, i)
		}
	}
	return out
}

func origPos(o int) string { return "pos-" + strconv.Itoa(o) }

func procErrText(s, o int, path string) string  { return "perr " + key(s, o, path) }
func destNackText(d, o int, path string) string { return "dnack " + key(d, o, path) }

// ---------------------------------------------------------------------------
// Choosers: where the script values come from (rapid while generating, the
// stored maps while replaying / re-evaluating).
// ---------------------------------------------------------------------------

type chooser interface {
	act(s, o int, path string, depth int) Act
	cut(s, o int, path string) bool
	nack(d, o int, path string) bool
}

type storedChooser struct {
	sc   *Script
	fill bool // store the default for pieces the script has no entry for
}

func (c storedChooser) act(s, o int, path string, _ int) Act {
	if a, ok := c.sc.Acts[key(s, o, path)]; ok {
		return a
	}
	if c.fill {
		c.sc.Acts[key(s, o, path)] = Act{Kind: kPass}
	}
	return Act{Kind: kPass}
}
func (c storedChooser) cut(s, o int, path string) bool  { return c.sc.Cuts[key(s, o, path)] }
func (c storedChooser) nack(d, o int, path string) bool { return c.sc.Nacks[key(d, o, path)] }

// rapid's integer generators are deliberately biased towards small values
// (IntRange(0,99) < 20 holds for ~53% of the draws, SampledFrom picks the first
// entries most of the time). Probabilities are therefore built from fair
// coin flips; everything shrinks towards 0 = "nothing special happens".
var u7gen = rapid.Custom(func(t *rapid.T) int {
	v := 0
	for i := 6; i >= 0; i-- {
		if rapid.Bool().Draw(t, "bit") {
			v |= 1 << i
		}
	}
	return v
})

// chance is true with probability ~pct/100.
func chance(t *rapid.T, label string, pct int) bool {
	if pct <= 0 {
		return false
	}
	return u7gen.Draw(t, label) >= 128-(pct*128+50)/100
}

// uniform returns a value in [0,n) (n <= 128), shrinking towards 0.
func uniform(t *rapid.T, label string, n int) int {
	return u7gen.Draw(t, label) * n / 128
}

var kindTable = func() []string {
	w := []struct {
		k string
		n int
	}{{kPass, 30}, {kModify, 14}, {kFilter, 10}, {kError, 8}, {kSplit, 14}, {kMulti0, 4}, {kMulti1, 6}, {kRepos, 10}}
	var out []string
	for _, e := range w {
		for i := 0; i < e.n; i++ {
			out = append(out, e.k)
		}
	}
	return out
}()

type genChooser struct {
	t        *rapid.T
	sc       *Script
	cutSeen  map[string]bool
	nackSeen map[string]bool
	cutPct   int
	nackPct  int
}

func (c *genChooser) act(s, o int, path string, depth int) Act {
	k := key(s, o, path)
	if a, ok := c.sc.Acts[k]; ok {
		return a
	}
	kind := kindTable[uniform(c.t, "kind "+k, len(kindTable))]
	if kind == kSplit && depth >= 2 {
		// bound the piece tree: at most two levels of splitting (<= 9 pieces per origin)
		kind = kPass
	}
	a := Act{Kind: kind}
	switch kind {
	case kSplit:
		a.N = 2 + uniform(c.t, "arity "+k, 2)
		a.Ren = rapid.Bool().Draw(c.t, "rename "+k)
	case kRepos:
		a.Pos = []string{"fresh", "fresh", "steal", "empty"}[uniform(c.t, "posmode "+k, 4)]
	}
	c.sc.Acts[k] = a
	return a
}

func (c *genChooser) cut(s, o int, path string) bool {
	k := key(s, o, path)
	if c.cutSeen[k] {
		return c.sc.Cuts[k]
	}
	c.cutSeen[k] = true
	if c.cutPct == 0 {
		return false
	}
	if chance(c.t, "cut "+k, c.cutPct) {
		c.sc.Cuts[k] = true
		return true
	}
	return false
}

func (c *genChooser) nack(d, o int, path string) bool {
	k := key(d, o, path)
	if c.nackSeen[k] {
		return c.sc.Nacks[k]
	}
	c.nackSeen[k] = true
	if c.nackPct == 0 {
		return false
	}
	if chance(c.t, "nack "+k, c.nackPct) {
		c.sc.Nacks[k] = true
		return true
	}
	return false
}

// ---------------------------------------------------------------------------
// Fate model: a pure function of the script. Every origin record is walked
// through the chain on its own ("no other record's outcome is affected").
// ---------------------------------------------------------------------------

// pc is one live piece of an origin record.
type pc struct {
	path     string
	trace    string // stamps of the processors that produced a result for it, in order
	payload  string
	pos      string // current Record.Position (processors may rewrite it)
	depth    int
	filtered bool
	dead     bool // nacked by a processor
	optional bool // may or may not travel on (see laneWalk)
}

func (p *pc) id(o int) string {
	return strconv.Itoa(o) + "|" + p.path + "|" + p.trace + "|" + p.payload + "|" + p.pos
}

// cand is one admissible (failing task, error text, embedded record) triple of a DLQ entry.
type cand struct{ Task, Err, Sig string }

type laneRes struct {
	fail        bool     // this lane certainly dead-letters the origin
	cands       []cand   // admissible DLQ attributions produced on this lane
	req         []string // piece ids the destination certainly receives (in order)
	all         []string // piece ids the destination may receive (ordered superset of req)
	cuts        []string // every cut mark drawn for this origin on this lane
	divCuts     []string // cut marks that can divide a split run (non-first piece of a run)
	divCutsPre  []string // ... at a processor in front of the fan-out
	kinds       map[string]bool
	split       bool
	splitPre    bool
	flagPartPre bool  // a processor in front of the fan-out errors one piece of a run and splits or filters an earlier piece of it in the same call
	mixedPre    []int // processors in front of the fan-out that receive the run with a filtered AND a live piece
	filtInRun   bool  // at the destination: the origin is a split run that still carries a filtered piece
	nackedReq   int   // number of certainly delivered pieces the destination rejects
	nackedAll   int   // ... including pieces that may or may not get there
}

type fate struct {
	Outcome     string // delivered | filtered | dlq
	Cands       []cand
	Req         [][]string // per destination
	All         [][]string
	Cuts        []string
	DivCuts     map[string]bool
	DivCutsPre  map[string]bool
	Kinds       map[string]bool
	Split       bool
	SplitPre    bool
	NackedAt    []bool // per destination: some certain piece is rejected there
	FlagPartPre bool
	MixedPre    map[int]bool // pre-fan-out processor index -> the run arrives there with a filtered and a live piece
	FiltInRun   []bool       // per destination: split run that reaches the destination with a filtered piece inside
	NackedReq   []int        // per destination: number of certainly delivered pieces that are rejected
	NackedAll   []int        // per destination: ... including optional pieces
}

type model struct {
	sc    *Script
	ch    chooser
	Fates []fate
}

func stampCode(kind string) string {
	switch kind {
	case kPass:
		return "p"
	case kModify:
		return "m"
	case kSplit:
		return "s"
	case kMulti1:
		return "u"
	case kRepos:
		return "r"
	}
	return "?"
}

// laneWalk walks origin o through the processors in front of destination b and
// through that destination.
//
// Certain vs. optional: when a processor errors one piece of a split record
// the funnel nacks the pieces of that record that are in the same batch
// (batch.go setFlagWithErr), but siblings that an earlier short return moved
// into another sub-batch, or that the same Process call split further
// (SplitRecord gives new pieces the zero-value Ack status), travel on. The
// statement only fixes the outcome of the ORIGINAL (dead-lettered exactly
// once), so from the first processor error on the surviving pieces of that
// origin are "optional": they may or may not be delivered, and what happens
// to them later only adds admissible DLQ attributions.
func (m *model) laneWalk(o, b int) laneRes {
	sc := m.sc
	res := laneRes{kinds: map[string]bool{}}
	pieces := []*pc{{payload: "v" + strconv.Itoa(o), pos: origPos(o)}}
	split := false
	origSig := ""
	errSeen := false

	for _, s := range sc.lane(b) {
		ps := sc.Procs[s]
		pre := ps.Branch == -1
		if !ps.Cond {
			for idx, p := range pieces {
				if p.filtered || p.dead {
					continue
				}
				if m.ch.cut(s, o, p.path) {
					k := key(s, o, p.path)
					res.cuts = append(res.cuts, k)
					if split && idx > 0 {
						res.divCuts = append(res.divCuts, k)
						if pre {
							res.divCutsPre = append(res.divCutsPre, k)
						}
					}
				}
			}
		}
		if split && pre {
			nf, nl := 0, 0
			for _, p := range pieces {
				switch {
				case p.filtered:
					nf++
				case !p.dead:
					nl++
				}
			}
			if nf > 0 && nl > 0 {
				// a short return in front of (or inside) the run marks only the live pieces Retry:
				// the filtered pieces stay in an Ack/Filter group of their own
				res.mixedPre = append(res.mixedPre, s)
			}
		}
		var next []*pc
		var errs []cand
		splitEarlier := false
		for _, p := range pieces {
			if p.filtered || p.dead {
				next = append(next, p)
				continue
			}
			if ps.Cond && !ps.Match[o] {
				// condition false: the real RunnableProcessor passes the record through untouched
				res.kinds["cond-skip"] = true
				next = append(next, p)
				continue
			}
			a := m.ch.act(s, o, p.path, p.depth)
			res.kinds[a.Kind] = true
			st := strconv.Itoa(s) + stampCode(a.Kind)
			q := *p
			switch a.Kind {
			case kPass, kMulti1:
				q.trace += st
				next = append(next, &q)
			case kModify:
				q.trace += st
				q.payload = "M" + strconv.Itoa(s) + "(" + p.payload + ")"
				next = append(next, &q)
			case kRepos:
				q.trace += st
				q.pos = reposValue(sc, a.Pos, s, o, p.path)
				next = append(next, &q)
			case kFilter, kMulti0:
				if split {
					splitEarlier = true // the Filter flag written after the propagated Nack survives as well
				}
				q.filtered = true
				next = append(next, &q)
			case kError:
				if splitEarlier && pre {
					// processor.go marks end->start: the error is propagated over the run first, then
					// SplitRecord gives the new pieces of the earlier sibling the zero-value Ack status,
					// so the run reaches the next task partitioned into a Nack and an Ack group.
					res.flagPartPre = true
				}
				sig := p.id(o)
				if split {
					sig = origSig
				}
				errs = append(errs, cand{Task: ps.ID, Err: procErrText(s, o, p.path), Sig: sig})
				q.dead = true
				next = append(next, &q)
			case kSplit:
				if split {
					splitEarlier = true
				}
				if !split {
					split = true
					origSig = p.id(o)
					res.split = true
					res.splitPre = pre
				}
				for i := 0; i < a.N; i++ {
					c := *p
					if p.path == "" {
						c.path = strconv.Itoa(i)
					} else {
						c.path = p.path + "." + strconv.Itoa(i)
					}
					c.trace += st
					c.depth = p.depth + 1
					if a.Ren {
						c.pos = p.pos + "-" + strconv.Itoa(i)
					}
					cc := c
					next = append(next, &cc)
				}
			default:
				q.trace += st
				next = append(next, &q)
			}
		}
		pieces = next
		if len(errs) > 0 {
			res.cands = append(res.cands, errs...)
			if !errSeen {
				errSeen = true
				res.fail = true
			}
		}
		if errSeen {
			for _, p := range pieces {
				p.optional = true
			}
		}
	}
	for _, p := range pieces {
		if p.filtered && split {
			res.filtInRun = true
		}
		if p.filtered || p.dead {
			continue
		}
		id := p.id(o)
		res.all = append(res.all, id)
		if !p.optional {
			res.req = append(res.req, id)
		}
		if m.ch.nack(b, o, p.path) {
			sig := id
			if split {
				sig = origSig
			}
			res.cands = append(res.cands, cand{Task: sc.Dests[b].ID, Err: destNackText(b, o, p.path), Sig: sig})
			res.nackedAll++
			if !p.optional {
				res.fail = true
				res.nackedReq++
			}
		}
	}
	return res
}

func reposValue(sc *Script, mode string, s, o int, path string) string {
	switch mode {
	case "steal":
		return origPos((o + 1) % sc.N)
	case "empty":
		return ""
	}
	return "X" + key(s, o, path)
}

func evalModel(sc *Script, ch chooser) *model {
	m := &model{sc: sc, ch: ch}
	for o := 0; o < sc.N; o++ {
		f := fate{DivCuts: map[string]bool{}, DivCutsPre: map[string]bool{}, Kinds: map[string]bool{}, MixedPre: map[int]bool{}}
		fail := false
		seenCut := map[string]bool{}
		for b := range sc.Dests {
			r := m.laneWalk(o, b)
			f.Req = append(f.Req, r.req)
			f.All = append(f.All, r.all)
			f.Cands = append(f.Cands, r.cands...)
			nackedHere := false
			for _, c := range r.cands {
				if c.Task == sc.Dests[b].ID {
					nackedHere = true
				}
			}
			f.NackedAt = append(f.NackedAt, nackedHere && len(r.req) > 0)
			f.FlagPartPre = f.FlagPartPre || r.flagPartPre
			for _, s := range r.mixedPre {
				f.MixedPre[s] = true
			}
			f.FiltInRun = append(f.FiltInRun, r.filtInRun)
			f.NackedReq = append(f.NackedReq, r.nackedReq)
			f.NackedAll = append(f.NackedAll, r.nackedAll)
			for _, k := range r.cuts {
				if !seenCut[k] {
					seenCut[k] = true
					f.Cuts = append(f.Cuts, k)
				}
			}
			for _, k := range r.divCuts {
				f.DivCuts[k] = true
			}
			for _, k := range r.divCutsPre {
				f.DivCutsPre[k] = true
			}
			for k := range r.kinds {
				f.Kinds[k] = true
			}
			f.Split = f.Split || r.split
			f.SplitPre = f.SplitPre || r.splitPre
			fail = fail || r.fail
		}
		switch {
		case fail:
			f.Outcome = "dlq"
		default:
			f.Outcome = "filtered"
			for _, r := range f.Req {
				if len(r) > 0 {
					f.Outcome = "delivered"
				}
			}
		}
		m.Fates = append(m.Fates, f)
	}
	return m
}

// ---------------------------------------------------------------------------
// Generator
// ---------------------------------------------------------------------------

func genScript(t *rapid.T) (*Script, *model) {
	sc := &Script{Acts: map[string]Act{}, Cuts: map[string]bool{}, Nacks: map[string]bool{}, DLQFail: map[string]bool{}, SinkFrom: -1}
	sc.N = 1 + uniform(t, "n", 12)
	nd := []int{1, 1, 1, 1, 2, 2, 2, 3, 3}[uniform(t, "dests", 9)]
	for d := 0; d < nd; d++ {
		ch := make([]int, 1+uniform(t, "nchunks "+strconv.Itoa(d), 3))
		for i := range ch {
			ch[i] = 1 + uniform(t, fmt.Sprintf("chunk %d %d", d, i), 5)
		}
		sc.Dests = append(sc.Dests, DestSpec{ID: "d" + strconv.Itoa(d), Chunks: ch})
	}
	np := 1 + uniform(t, "procs", 3)
	// placement: pre-fan-out processors first, then destination-level ones
	places := make([]int, np)
	for i := range places {
		places[i] = -1
		if nd > 1 && chance(t, "inbranch "+strconv.Itoa(i), 40) {
			places[i] = uniform(t, "branch "+strconv.Itoa(i), nd)
		}
	}
	sort.SliceStable(places, func(i, j int) bool { return places[i] < places[j] })
	for i, br := range places {
		p := ProcSpec{ID: "p" + strconv.Itoa(i), Branch: br}
		if chance(t, "cond "+strconv.Itoa(i), 20) {
			p.Cond = true
			p.Match = make([]bool, sc.N)
			for o := range p.Match {
				p.Match[o] = !chance(t, fmt.Sprintf("nomatch %d %d", i, o), 35)
			}
		}
		sc.Procs = append(sc.Procs, p)
	}
	if chance(t, "sink", 35) {
		sc.SinkFrom = uniform(t, "sinkfrom", len(sc.pre())+1)
	}
	ch := &genChooser{t: t, sc: sc, cutSeen: map[string]bool{}, nackSeen: map[string]bool{}}
	ch.cutPct = []int{0, 6, 12, 25}[uniform(t, "cutpct", 4)]
	ch.nackPct = []int{0, 8, 15, 30}[uniform(t, "nackpct", 4)]
	m := evalModel(sc, ch)
	if chance(t, "dlqfail", 6) {
		o := uniform(t, "dlqfail-o", sc.N)
		sc.DLQFail[strconv.Itoa(o)] = true
	}
	return sc, m
}

// classesOf returns the class labels of a case (for the evidence histogram).
func classesOf(sc *Script, m *model) (cls []string, kinds map[string]bool) {
	kinds = map[string]bool{}
	set := map[string]bool{}
	set["dests="+strconv.Itoa(len(sc.Dests))] = true
	set["procs="+strconv.Itoa(len(sc.Procs))] = true
	for _, p := range sc.Procs {
		if p.Cond {
			set["condition"] = true
		}
		if p.Branch >= 0 {
			set["dest-level-processor"] = true
		}
	}
	if sc.SinkFrom >= 0 {
		set["shared-sink"] = true
	}
	for o, f := range m.Fates {
		set["outcome-"+f.Outcome] = true
		for k := range f.Kinds {
			kinds[k] = true
			set["kind-"+k] = true
		}
		if len(f.Cuts) > 0 {
			set["cut-mark"] = true
		}
		if len(f.DivCuts) > 0 {
			set["cut-inside-split-run"] = true
		}
		if (len(f.DivCutsPre) > 0 || f.FlagPartPre) && sc.fanout() {
			set["refusal-candidate"] = true
		}
		if f.Split && f.Outcome == "dlq" {
			set["split-with-failed-piece"] = true
		}
		if f.Split && strings.Count(longestPath(f), ".") >= 1 {
			set["nested-split"] = true
		}
		if sc.DLQFail[strconv.Itoa(o)] && f.Outcome == "dlq" {
			set["dlq-write-fails"] = true
		}
		if sc.fanout() {
			n := 0
			for _, x := range f.NackedAt {
				if x {
					n++
				}
			}
			if n > 0 && n < len(sc.Dests) {
				set["fanout-partial-rejection"] = true
			}
		}
	}
	for k := range set {
		cls = append(cls, k)
	}
	sort.Strings(cls)
	return cls, kinds
}

func longestPath(f fate) string {
	best := ""
	for _, l := range f.All {
		for _, id := range l {
			parts := strings.SplitN(id, "|", 3)
			if len(parts) > 1 && len(parts[1]) > len(best) {
				best = parts[1]
			}
		}
	}
	return best
}
