package p08

import (
	"context"
	"errors"
	"fmt"
	"io"
	"runtime/debug"
	"strconv"
	"strings"
	"sync"
	"time"

	"github.com/conduitio/conduit-commons/config"
	"github.com/conduitio/conduit-commons/database/inmemory"
	"github.com/conduitio/conduit-commons/opencdc"
	sdk "github.com/conduitio/conduit-processor-sdk"
	"github.com/conduitio/conduit/pkg/connector"
	"github.com/conduitio/conduit/pkg/foundation/cerrors"
	"github.com/conduitio/conduit/pkg/foundation/cerrors/conduiterr"
	"github.com/conduitio/conduit/pkg/foundation/log"
	"github.com/conduitio/conduit/pkg/foundation/metrics/noop"
	"github.com/conduitio/conduit/pkg/lifecycle-poc/funnel"
	"github.com/conduitio/conduit/pkg/plugin/processor/egress"
	"github.com/conduitio/conduit/pkg/processor"
)

const (
	metaO = "o" // origin index
	metaP = "p" // piece path
	metaM = "m" // trace of processor stamps
)

func condKey(s int) string { return "c" + strconv.Itoa(s) }

// ---------------------------------------------------------------------------
// Observation log shared by all fakes of one case.
// ---------------------------------------------------------------------------

type ackEv struct {
	Seq int
	Pos []string
}
type wrEv struct {
	Seq int
	ID  string
}
type dlqEv struct {
	Seq    int
	O      int
	Task   string
	Err    string
	Sig    string
	Acked  bool
	AckSeq int
}

type world struct {
	mu       sync.Mutex
	sc       *Script
	seq      int
	srcAcks  []ackEv
	writes   [][]wrEv // per destination
	confs    [][]wrEv // per destination: confirmations (with or without error) handed to the engine
	dlq      []dlqEv
	dlqPend  []int // indexes into dlq awaiting Ack()
	results  map[string]int
	unexp    []string
	fired    []string
	cutFired map[string]bool
	reads    int
}

func (w *world) next() int { w.seq++; return w.seq }

func recID(r opencdc.Record) (o int, path, id string, ok bool) {
	os, has := r.Metadata[metaO]
	if !has {
		return 0, "", "", false
	}
	o, err := strconv.Atoi(os)
	if err != nil {
		return 0, "", "", false
	}
	path = r.Metadata[metaP]
	payload := ""
	if d, isRaw := r.Payload.After.(opencdc.RawData); isRaw {
		payload = string(d)
	}
	id = os + "|" + path + "|" + r.Metadata[metaM] + "|" + payload + "|" + string(r.Position)
	return o, path, id, true
}

// ---------------------------------------------------------------------------
// Source
// ---------------------------------------------------------------------------

type fakeSource struct{ w *world }

func (s *fakeSource) ID() string                     { return "src" }
func (s *fakeSource) Open(context.Context) error     { return nil }
func (s *fakeSource) Errors() <-chan error           { return nil }
func (s *fakeSource) Teardown(context.Context) error { return nil }

func (s *fakeSource) Read(context.Context) ([]opencdc.Record, error) {
	s.w.mu.Lock()
	defer s.w.mu.Unlock()
	s.w.reads++
	if s.w.reads > 1 {
		// worker.go doTaskAttempt: io.EOF from the first task's Read is the
		// documented "source exhausted, stop gracefully" signal.
		return nil, io.EOF
	}
	sc := s.w.sc
	recs := make([]opencdc.Record, sc.N)
	for o := 0; o < sc.N; o++ {
		md := opencdc.Metadata{metaO: strconv.Itoa(o), metaP: "", metaM: ""}
		for i, p := range sc.Procs {
			if p.Cond {
				md[condKey(i)] = strconv.FormatBool(p.Match[o])
			}
		}
		recs[o] = opencdc.Record{
			Position:  opencdc.Position(origPos(o)),
			Operation: opencdc.OperationCreate,
			Metadata:  md,
			Key:       opencdc.RawData("k" + strconv.Itoa(o)),
			Payload:   opencdc.Change{After: opencdc.RawData("v" + strconv.Itoa(o))},
		}
	}
	return recs, nil
}

func (s *fakeSource) Ack(_ context.Context, ps []opencdc.Position) error {
	s.w.mu.Lock()
	defer s.w.mu.Unlock()
	ev := ackEv{Seq: s.w.next()}
	for _, p := range ps {
		ev.Pos = append(ev.Pos, string(p))
	}
	s.w.srcAcks = append(s.w.srcAcks, ev)
	return nil
}

// ---------------------------------------------------------------------------
// Processor
// ---------------------------------------------------------------------------

type procCore struct {
	w *world
	s int // index into Script.Procs
}

func (p *procCore) process(recs []opencdc.Record) []sdk.ProcessedRecord {
	w := p.w
	w.mu.Lock()
	defer w.mu.Unlock()
	sc := w.sc
	ps := sc.Procs[p.s]
	out := make([]sdk.ProcessedRecord, 0, len(recs))
	for i, r := range recs {
		o, path, _, ok := recID(r)
		if !ok {
			w.unexp = append(w.unexp, fmt.Sprintf("%s: record without origin tag", ps.ID))
			out = append(out, sdk.SingleRecord(r))
			continue
		}
		k := key(p.s, o, path)
		if i > 0 && !ps.Cond && sc.Cuts[k] && !w.cutFired[k] {
			// short return: only the results in front of this piece; the engine retries the tail
			w.cutFired[k] = true
			w.fired = append(w.fired, k)
			return out
		}
		a, has := sc.Acts[k]
		if !has {
			w.unexp = append(w.unexp, fmt.Sprintf("%s: piece %s not expected here by the model", ps.ID, k))
			a = Act{Kind: kPass}
		}
		w.results[k]++
		st := strconv.Itoa(p.s) + stampCode(a.Kind)
		switch a.Kind {
		case kModify:
			q := r.Clone()
			q.Metadata[metaM] += st
			old := ""
			if d, isRaw := r.Payload.After.(opencdc.RawData); isRaw {
				old = string(d)
			}
			q.Payload.After = opencdc.RawData("M" + strconv.Itoa(p.s) + "(" + old + ")")
			out = append(out, sdk.SingleRecord(q))
		case kRepos:
			q := r.Clone()
			q.Metadata[metaM] += st
			v := reposValue(sc, a.Pos, p.s, o, path)
			if v == "" {
				q.Position = nil
			} else {
				q.Position = opencdc.Position(v)
			}
			out = append(out, sdk.SingleRecord(q))
		case kFilter:
			out = append(out, sdk.FilterRecord{})
		case kMulti0:
			out = append(out, sdk.MultiRecord{})
		case kError:
			out = append(out, sdk.ErrorRecord{Error: errors.New(procErrText(p.s, o, path))})
		case kMulti1:
			q := r.Clone()
			q.Metadata[metaM] += st
			out = append(out, sdk.MultiRecord{q})
		case kSplit:
			mr := make(sdk.MultiRecord, a.N)
			for j := 0; j < a.N; j++ {
				q := r.Clone()
				q.Metadata[metaM] += st
				if path == "" {
					q.Metadata[metaP] = strconv.Itoa(j)
				} else {
					q.Metadata[metaP] = path + "." + strconv.Itoa(j)
				}
				if a.Ren {
					q.Position = opencdc.Position(string(r.Position) + "-" + strconv.Itoa(j))
				}
				mr[j] = q
			}
			out = append(out, mr)
		default: // pass
			q := r.Clone()
			q.Metadata[metaM] += st
			out = append(out, sdk.SingleRecord(q))
		}
	}
	return out
}

// directProc implements funnel.Processor.
type directProc struct{ core *procCore }

func (p directProc) Open(context.Context) error     { return nil }
func (p directProc) Teardown(context.Context) error { return nil }
func (p directProc) Process(_ context.Context, recs []opencdc.Record) []sdk.ProcessedRecord {
	return p.core.process(recs)
}

// sdkProc implements sdk.Processor; it is wrapped by the real processor.RunnableProcessor
// (condition evaluation and merge with the passed-through records).
type sdkProc struct {
	sdk.UnimplementedProcessor
	core *procCore
}

func (p *sdkProc) Specification() (sdk.Specification, error) {
	return sdk.Specification{Name: "c08-proc", Version: "v0"}, nil
}
func (p *sdkProc) Configure(context.Context, config.Config) error { return nil }
func (p *sdkProc) Open(context.Context) error                     { return nil }
func (p *sdkProc) Teardown(context.Context) error                 { return nil }
func (p *sdkProc) Process(_ context.Context, recs []opencdc.Record) []sdk.ProcessedRecord {
	return p.core.process(recs)
}

type procRegistry struct{ procs map[string]*sdkProc }

func (r *procRegistry) NewProcessor(_ context.Context, _ string, id string, _ egress.Policy) (sdk.Processor, error) {
	p, ok := r.procs[id]
	if !ok {
		return nil, fmt.Errorf("unknown processor %s", id)
	}
	return p, nil
}

// ---------------------------------------------------------------------------
// Destination
// ---------------------------------------------------------------------------

type pend struct {
	pos opencdc.Position
	err error
	id  string
}

type fakeDest struct {
	w     *world
	d     int
	calls int
	queue []pend
}

func (f *fakeDest) ID() string                     { return f.w.sc.Dests[f.d].ID }
func (f *fakeDest) Open(context.Context) error     { return nil }
func (f *fakeDest) Teardown(context.Context) error { return nil }
func (f *fakeDest) Errors() <-chan error           { return nil }

func (f *fakeDest) Write(_ context.Context, recs []opencdc.Record) error {
	f.w.mu.Lock()
	defer f.w.mu.Unlock()
	for _, r := range recs {
		o, path, id, ok := recID(r)
		if !ok {
			id = "untagged:" + string(r.Position)
		}
		f.w.writes[f.d] = append(f.w.writes[f.d], wrEv{Seq: f.w.next(), ID: id})
		var err error
		if ok && f.w.sc.Nacks[key(f.d, o, path)] {
			err = errors.New(destNackText(f.d, o, path))
		}
		f.queue = append(f.queue, pend{pos: r.Position, err: err, id: id})
	}
	return nil
}

func (f *fakeDest) Ack(context.Context) ([]connector.DestinationAck, error) {
	f.w.mu.Lock()
	defer f.w.mu.Unlock()
	if len(f.queue) == 0 {
		return nil, errors.New("fake destination: Ack called with nothing written")
	}
	ch := f.w.sc.Dests[f.d].Chunks
	n := ch[f.calls%len(ch)]
	f.calls++
	if n > len(f.queue) {
		n = len(f.queue)
	}
	out := make([]connector.DestinationAck, n)
	for i := 0; i < n; i++ {
		p := f.queue[i]
		out[i] = connector.DestinationAck{Position: p.pos, Error: p.err}
		f.w.confs[f.d] = append(f.w.confs[f.d], wrEv{Seq: f.w.next(), ID: p.id})
	}
	f.queue = f.queue[n:]
	return out, nil
}

// ---------------------------------------------------------------------------
// DLQ destination
// ---------------------------------------------------------------------------

type fakeDLQ struct {
	w     *world
	queue []pend
}

func (f *fakeDLQ) ID() string                     { return "dlq" }
func (f *fakeDLQ) Open(context.Context) error     { return nil }
func (f *fakeDLQ) Teardown(context.Context) error { return nil }
func (f *fakeDLQ) Errors() <-chan error           { return nil }

func sigOfEmbedded(after opencdc.Data) (o int, sig string, ok bool) {
	sd, isSD := after.(opencdc.StructuredData)
	if !isSD {
		return 0, "", false
	}
	md, _ := sd["metadata"].(map[string]interface{})
	os, _ := md[metaO].(string)
	o, err := strconv.Atoi(os)
	if err != nil {
		return 0, "", false
	}
	path, _ := md[metaP].(string)
	tr, _ := md[metaM].(string)
	payload := ""
	if pl, isMap := sd["payload"].(map[string]interface{}); isMap {
		if b, isB := pl["after"].([]byte); isB {
			payload = string(b)
		}
	}
	pos, _ := sd["position"].([]byte)
	return o, os + "|" + path + "|" + tr + "|" + payload + "|" + string(pos), true
}

func (f *fakeDLQ) Write(_ context.Context, recs []opencdc.Record) error {
	f.w.mu.Lock()
	defer f.w.mu.Unlock()
	for _, r := range recs {
		ev := dlqEv{Seq: f.w.next(), O: -1}
		o, sig, ok := sigOfEmbedded(r.Payload.After)
		if ok {
			ev.O, ev.Sig = o, sig
		}
		ev.Task = r.Metadata[opencdc.MetadataConduitDLQNackNodeID]
		ev.Err = r.Metadata[opencdc.MetadataConduitDLQNackError]
		var err error
		if ok && f.w.sc.DLQFail[strconv.Itoa(o)] {
			err = errors.New("dlq rejects " + strconv.Itoa(o))
		}
		f.w.dlq = append(f.w.dlq, ev)
		f.w.dlqPend = append(f.w.dlqPend, len(f.w.dlq)-1)
		f.queue = append(f.queue, pend{pos: r.Position, err: err})
	}
	return nil
}

func (f *fakeDLQ) Ack(context.Context) ([]connector.DestinationAck, error) {
	f.w.mu.Lock()
	defer f.w.mu.Unlock()
	out := make([]connector.DestinationAck, len(f.queue))
	for i, p := range f.queue {
		out[i] = connector.DestinationAck{Position: p.pos, Error: p.err}
		ev := &f.w.dlq[f.w.dlqPend[i]]
		ev.Acked = p.err == nil
		ev.AckSeq = f.w.next()
	}
	f.queue = nil
	f.w.dlqPend = nil
	return out, nil
}

// ---------------------------------------------------------------------------
// Runner
// ---------------------------------------------------------------------------

type obs struct {
	w         *world
	err       error
	code      string // conduiterr reason of err ("" if uncoded)
	fatal     bool
	panicked  bool
	panicVal  string
	panicSite string
	wedged    bool
	setupErr  error
}

var panicSites = []struct{ needle, site string }{
	{"processor.(*RunnableProcessor).Process", "RunnableProcessor.Process"},
	{"funnel.(*Batch).SplitRecord", "Batch.SplitRecord"},
	{"funnel.(*Batch).SetRecords", "Batch.SetRecords"},
	{"funnel.(*Batch).findTo", "Batch.findTo"},
	{"funnel.(*Batch).setFlagWithErr", "Batch.setFlagWithErr"},
	{"funnel.(*Batch).setFlagNoErr", "Batch.setFlagNoErr"},
	{"funnel.(*Batch).findSplitRecord", "Batch.findSplitRecord"},
	{"funnel.(*Batch).originalBatch", "Batch.originalBatch"},
	{"funnel.(*Batch).sub", "Batch.sub"},
	{"funnel.(*DLQ).dlqRecord", "DLQ.dlqRecord"},
	{"funnel.(*DLQ).", "DLQ"},
	{"funnel.(*ProcessorTask).markBatchRecords", "ProcessorTask.markBatchRecords"},
	{"funnel.(*ProcessorTask).Do", "ProcessorTask.Do"},
	{"funnel.(*DestinationTask).", "DestinationTask"},
	{"funnel.(*runAckNacker).", "runAckNacker"},
	{"funnel.(*multiAckNacker).", "multiAckNacker"},
	{"funnel.(*Worker).", "Worker"},
}

func classifyPanic(stack string) string {
	for _, s := range panicSites {
		if strings.Contains(stack, s.needle) {
			return s.site
		}
	}
	return "other"
}

var nopLogger = log.Nop()

func runCase(sc *Script) *obs {
	w := &world{sc: sc, results: map[string]int{}, cutFired: map[string]bool{}}
	w.writes = make([][]wrEv, len(sc.Dests))
	w.confs = make([][]wrEv, len(sc.Dests))
	ob := &obs{w: w}
	ctx := context.Background()

	// processors
	var svc *processor.Service
	reg := &procRegistry{procs: map[string]*sdkProc{}}
	var instances []*processor.Instance
	defer func() {
		for _, i := range instances {
			i.Close()
		}
	}()
	nodes := make([]*funnel.TaskNode, len(sc.Procs))
	for i, ps := range sc.Procs {
		core := &procCore{w: w, s: i}
		var fp funnel.Processor = directProc{core: core}
		if ps.Cond {
			if svc == nil {
				svc = processor.NewService(nopLogger, &inmemory.DB{}, reg)
			}
			reg.procs[ps.ID] = &sdkProc{core: core}
			cond := fmt.Sprintf(`{{ eq (index .Metadata "%s") "true" }}`, condKey(i))
			inst, err := svc.Create(ctx, ps.ID, "builtin:c08", processor.Parent{ID: "pl", Type: processor.ParentTypePipeline},
				processor.Config{Workers: 1}, processor.ProvisionTypeAPI, cond)
			if err != nil {
				ob.setupErr = fmt.Errorf("create processor: %w", err)
				return ob
			}
			instances = append(instances, inst)
			rp, err := svc.MakeRunnableProcessor(ctx, inst)
			if err != nil {
				ob.setupErr = fmt.Errorf("make runnable processor: %w", err)
				return ob
			}
			fp = rp
		}
		nodes[i] = &funnel.TaskNode{Task: funnel.NewProcessorTask(ps.ID, fp, nopLogger, funnel.NoOpProcessorMetrics{})}
	}

	// destination branches
	branches := make([]*funnel.TaskNode, len(sc.Dests))
	for d := range sc.Dests {
		dn := &funnel.TaskNode{Task: funnel.NewDestinationTask(sc.Dests[d].ID, &fakeDest{w: w, d: d}, nopLogger, funnel.NoOpConnectorMetrics{})}
		root := dn
		bp := sc.branch(d)
		for k := len(bp) - 1; k >= 0; k-- {
			nodes[bp[k]].Next = []*funnel.TaskNode{root}
			root = nodes[bp[k]]
		}
		branches[d] = root
	}

	// pre-fan-out chain
	srcNode := &funnel.TaskNode{Task: funnel.NewSourceTask("src", &fakeSource{w: w}, nopLogger, funnel.NoOpConnectorMetrics{})}
	tail := srcNode
	pre := sc.pre()
	for _, i := range pre {
		tail.Next = []*funnel.TaskNode{nodes[i]}
		tail = nodes[i]
	}
	tail.Next = branches

	// optional shared sink (lifecycle-poc.Service.buildSharedTail / funnel.NewSink)
	var sink *funnel.Sink
	if sc.SinkFrom >= 0 {
		var roots []*funnel.TaskNode
		if sc.SinkFrom < len(pre) {
			roots = []*funnel.TaskNode{nodes[pre[sc.SinkFrom]]}
		} else {
			roots = branches
		}
		var err error
		sink, err = funnel.NewSink(roots...)
		if err != nil {
			ob.setupErr = fmt.Errorf("new sink: %w", err)
			return ob
		}
	}

	dlq := funnel.NewDLQ("dlq", &fakeDLQ{w: w}, nopLogger, funnel.NoOpConnectorMetrics{}, 0, 0)
	worker, err := funnel.NewWorker(srcNode, dlq, nopLogger, noop.Timer{})
	if err != nil {
		ob.setupErr = fmt.Errorf("new worker: %w", err)
		return ob
	}
	if sink != nil {
		if err := sink.Open(ctx); err != nil {
			ob.setupErr = fmt.Errorf("sink open: %w", err)
			return ob
		}
	}
	if err := worker.Open(ctx); err != nil {
		ob.setupErr = fmt.Errorf("worker open: %w", err)
		return ob
	}

	type doRes struct {
		err   error
		pv    any
		stack string
	}
	done := make(chan doRes, 1)
	go func() {
		var r doRes
		defer func() {
			if pv := recover(); pv != nil {
				r.pv = pv
				r.stack = fmt.Sprint(pv) + "\n" + string(debug.Stack())
			}
			done <- r
		}()
		r.err = worker.Do(ctx)
	}()
	select {
	case r := <-done:
		if r.pv != nil {
			ob.panicked = true
			// the driver's crash detector greps for "panic:" in the test output
			ob.panicVal = strings.ReplaceAll(firstLine(fmt.Sprint(r.pv)), "panic:", "panicked:")
			ob.panicSite = classifyPanic(r.stack)
		}
		ob.err = r.err
	case <-time.After(120 * time.Second):
		// only a real deadlock gets here: every fake is synchronous and non-blocking
		ob.wedged = true
		return ob
	}
	if ob.err != nil {
		if ce, ok := conduiterr.Get(ob.err); ok {
			ob.code = ce.Code.Reason()
		}
		ob.fatal = cerrors.IsFatalError(ob.err)
	}
	_ = worker.Close(ctx)
	if sink != nil {
		_ = sink.Close(ctx)
	}
	return ob
}

func firstLine(s string) string {
	if i := strings.IndexByte(s, '\n'); i >= 0 {
		s = s[:i]
	}
	if len(s) > 200 {
		s = s[:200]
	}
	return s
}
