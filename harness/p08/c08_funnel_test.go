package p08

import (
	"encoding/json"
	"fmt"
	"os"
	"sort"
	"strconv"
	"strings"
	"testing"

	"pgregory.net/rapid"
	"verifharness/pbt"
)

const (
	codeStraddle = "pipeline.split_run_straddles_fanout"
	codeEmptyPos = "pipeline.empty_source_position"
)

type violation struct {
	Key    string
	Detail string
}

func originOfKey(k string) int {
	parts := strings.SplitN(k, "|", 3)
	if len(parts) < 2 {
		return -1
	}
	o, err := strconv.Atoi(parts[1])
	if err != nil {
		return -1
	}
	return o
}

func originOfID(id string) int {
	i := strings.IndexByte(id, '|')
	if i < 0 {
		return -1
	}
	o, err := strconv.Atoi(id[:i])
	if err != nil {
		return -1
	}
	return o
}

// check compares what the engine did with the fate model. All keys come from
// the closed vocabulary in this function.
func check(sc *Script, m *model, ob *obs) []violation {
	var vs []violation
	add := func(key, format string, a ...any) {
		vs = append(vs, violation{Key: "C08/" + key, Detail: fmt.Sprintf(format, a...)})
	}
	topo := sc.topo()
	if ob.wedged {
		add("wedge/worker-do", "Worker.Do did not return within 120s although every fake is non-blocking")
		return vs
	}
	if ob.panicked {
		add("panic/"+ob.panicSite, "panic in the worker: %s", ob.panicVal)
		return vs
	}
	w := ob.w

	// ---- (1)/(5) acked positions: the batch's original positions, in order, each once
	var acked []string
	ackSeq := map[int]int{} // origin -> seq of the Source.Ack call that covered it
	for _, ev := range w.srcAcks {
		for _, p := range ev.Pos {
			acked = append(acked, p)
		}
	}
	posIdx := map[string]int{}
	for o := 0; o < sc.N; o++ {
		posIdx[origPos(o)] = o
	}
	L := 0
	seen := map[string]bool{}
	bad := false
	for i, p := range acked {
		if i < sc.N && p == origPos(i) {
			seen[p] = true
			L = i + 1
			continue
		}
		bad = true
		switch _, isOrig := posIdx[p]; {
		case !isOrig:
			add("ack-position/not-an-original-position/"+topo, "Source.Ack received %q at index %d; acked so far %v", p, i, acked)
		case seen[p]:
			add("ack-sequence/duplicate/"+topo, "position %q acked twice: %v", p, acked)
		default:
			add("ack-sequence/skipped-or-reordered/"+topo, "expected %q at index %d, got %q: %v", origPos(i), i, p, acked)
		}
		break
	}
	if bad {
		return vs
	}
	{
		i := 0
		for _, ev := range w.srcAcks {
			for range ev.Pos {
				ackSeq[i] = ev.Seq
				i++
			}
		}
	}

	// ---- how the run ended
	firedAt := func(set func(o int) map[string]bool) (int, bool) {
		best, ok := -1, false
		for _, k := range w.fired {
			o := originOfKey(k)
			if o >= 0 && set(o)[k] && o >= L {
				if !ok || o < best {
					best = o
				}
				ok = true
			}
		}
		return best, ok
	}
	firstDLQFail := -1
	for o := 0; o < sc.N; o++ {
		if m.Fates[o].Outcome == "dlq" && sc.DLQFail[strconv.Itoa(o)] {
			firstDLQFail = o
			break
		}
	}
	dlqRejected := false
	for _, e := range w.dlq {
		if e.AckSeq > 0 && !e.Acked {
			dlqRejected = true
		}
	}
	ended := "ok"
	if ob.err != nil {
		switch ob.code {
		case codeStraddle:
			ended = "refused-straddle"
			_, ok := firedAt(func(o int) map[string]bool { return m.Fates[o].DivCutsPre })
			for o := L; o < sc.N; o++ {
				ok = ok || m.Fates[o].FlagPartPre
				for _, k := range w.fired {
					if originOfKey(k) <= o && m.Fates[o].MixedPre[procOfKey(k)] {
						ok = true
					}
				}
			}
			if !ok || !sc.fanout() {
				add("unexpected-error/split-run-straddles-fanout/"+topo,
					"worker ended with %s but no split run was cut in front of a fan-out at or after the first unacked record (acked %d of %d, fired cuts %v): %v",
					ob.code, L, sc.N, w.fired, ob.err)
			}
		case codeEmptyPos:
			ended = "refused-empty-position"
			if _, ok := firedAt(func(o int) map[string]bool { return m.Fates[o].DivCuts }); !ok {
				add("unexpected-error/empty-source-position/"+topo,
					"worker ended with %s but no split run was cut at or after the first unacked record (acked %d of %d, fired cuts %v): %v",
					ob.code, L, sc.N, w.fired, ob.err)
			}
		default:
			ended = "dlq-write-failed"
			if firstDLQFail < 0 || firstDLQFail < L || !dlqRejected {
				cls := "uncoded"
				if ob.code != "" {
					cls = "other-code"
				}
				add("unexpected-error/"+cls+"/"+topo, "worker ended with an error the script does not justify (acked %d of %d, code %q): %v", L, sc.N, ob.code, ob.err)
			} else if !ob.fatal {
				add("dlq-write-failed/not-fatal/"+topo, "a failed DLQ write must stop the pipeline with a fatal error (dlq.go Nack), got: %v", ob.err)
			}
		}
	} else {
		if firstDLQFail >= 0 {
			add("missing-error/dlq-write-failed/"+topo, "the DLQ rejected original %d but Worker.Do returned nil (acked %d of %d)", firstDLQFail, L, sc.N)
		}
		if L < sc.N {
			add("ack-sequence/missing/"+topo, "Worker.Do returned nil but only %d of %d positions were acked: %v", L, sc.N, acked)
		}
	}
	for o := 0; o < L; o++ {
		if m.Fates[o].Outcome == "dlq" && sc.DLQFail[strconv.Itoa(o)] {
			add("acked-after-failed-dlq-write/"+topo, "original %d was acked although the DLQ rejected it", o)
		}
	}
	// "nothing at or after the refused position is acked" is part of the justification above: the
	// justifying origin must have index >= L.
	_ = ended

	// ---- (2) deliveries per destination
	for d := range sc.Dests {
		rank := map[string]int{}
		n := 0
		for o := 0; o < sc.N; o++ {
			for _, id := range m.Fates[o].All[d] {
				rank[id] = n
				n++
			}
		}
		got := map[string]int{}
		last := -1
		for _, ev := range w.writes[d] {
			r, known := rank[ev.ID]
			if !known {
				add("delivery/foreign-or-altered/"+topo, "destination %s received %q which the model does not allow there (allowed for that origin: %v)",
					sc.Dests[d].ID, ev.ID, allowedFor(m, d, originOfID(ev.ID)))
				continue
			}
			got[ev.ID]++
			if got[ev.ID] == 2 {
				add("delivery/duplicate/"+topo, "destination %s received %q twice", sc.Dests[d].ID, ev.ID)
				continue
			}
			if r < last {
				add("delivery/out-of-order/"+topo, "destination %s received %q after a later piece", sc.Dests[d].ID, ev.ID)
			}
			if r > last {
				last = r
			}
		}
		for o := 0; o < L; o++ {
			if m.Fates[o].Outcome == "dlq" && ob.err != nil {
				// nack wins: a dead-lettered original is acked without waiting for sibling
				// branches; if the run then dies those branches never write their copy.
				continue
			}
			for _, id := range m.Fates[o].Req[d] {
				if got[id] == 0 {
					add("delivery/lost/"+topo, "original %d was acked but destination %s never received piece %q (outcome %s)", o, sc.Dests[d].ID, id, m.Fates[o].Outcome)
				}
			}
		}
	}

	// ---- (3) DLQ entries
	entries := map[int]int{}
	entrySeq := map[int]int{}
	for _, e := range w.dlq {
		if !e.Acked {
			continue
		}
		if e.O < 0 || e.O >= sc.N {
			add("dlq/unidentifiable-record/"+topo, "DLQ entry without an embedded original: %+v", e)
			continue
		}
		f := m.Fates[e.O]
		if f.Outcome != "dlq" {
			add("dlq/unexpected/"+topo, "original %d (outcome %s) was written to the DLQ: %+v", e.O, f.Outcome, e)
			continue
		}
		entries[e.O]++
		entrySeq[e.O] = e.AckSeq
		if entries[e.O] == 2 {
			add("dlq/duplicate/"+topo, "original %d was dead-lettered twice", e.O)
			continue
		}
		full, attr := false, false
		for _, c := range f.Cands {
			if c.Task == e.Task && c.Err == e.Err {
				attr = true
				if c.Sig == e.Sig {
					full = true
				}
			}
		}
		switch {
		case full:
		case attr:
			add("dlq/wrong-record/"+topo, "DLQ entry of original %d embeds %q; admissible: %v", e.O, e.Sig, f.Cands)
		default:
			add("dlq/wrong-attribution/"+topo, "DLQ entry of original %d names task %q error %q; admissible: %v", e.O, e.Task, e.Err, f.Cands)
		}
	}
	for o := 0; o < L; o++ {
		if m.Fates[o].Outcome == "dlq" && entries[o] == 0 && !sc.DLQFail[strconv.Itoa(o)] {
			add("dlq/missing/"+topo, "original %d was acked, the model dead-letters it (%v), but the DLQ never confirmed it", o, m.Fates[o].Cands)
		}
	}

	// ---- (4) an original is acked only after everything it owes was confirmed
	for o := 0; o < L; o++ {
		f := m.Fates[o]
		for d := range sc.Dests {
			if f.Outcome == "dlq" {
				// nack wins (worker.go multiAckNacker, requirement 2): a dead-lettered original is
				// acked once the DLQ confirmed it; sibling branches may still be writing their copy.
				break
			}
			conf := map[string]int{}
			for _, ev := range w.confs[d] {
				if _, dup := conf[ev.ID]; !dup {
					conf[ev.ID] = ev.Seq
				}
			}
			for _, id := range f.Req[d] {
				if s, ok := conf[id]; ok && s > ackSeq[o] {
					add("ack-before-confirm/destination/"+topo, "original %d acked (seq %d) before destination %s confirmed piece %q (seq %d)", o, ackSeq[o], sc.Dests[d].ID, id, s)
				} else if !ok {
					add("ack-before-confirm/destination/"+topo, "original %d acked (seq %d) but destination %s never confirmed piece %q", o, ackSeq[o], sc.Dests[d].ID, id)
				}
			}
		}
		if f.Outcome == "dlq" && entries[o] > 0 && entrySeq[o] > ackSeq[o] {
			add("ack-before-confirm/dlq/"+topo, "original %d acked (seq %d) before the DLQ confirmed it (seq %d)", o, ackSeq[o], entrySeq[o])
		}
	}

	// ---- processors: every piece gets a result from each processor at most once, and only pieces the model sends there
	var ks []string
	for k, n := range w.results {
		if n > 1 {
			ks = append(ks, k)
		}
	}
	sort.Strings(ks)
	for _, k := range ks {
		add("processor-refeed/"+topo, "processor %s produced a result for piece %s %d times", sc.Procs[procOfKey(k)].ID, k, w.results[k])
	}
	for _, u := range w.unexp {
		add("processor-input/unexpected-piece/"+topo, "%s", u)
	}
	return vs
}

func procOfKey(k string) int {
	i := strings.IndexByte(k, '|')
	s, _ := strconv.Atoi(k[:i])
	return s
}

func allowedFor(m *model, d, o int) []string {
	if o < 0 || o >= len(m.Fates) {
		return nil
	}
	return m.Fates[o].All[d]
}

// nontrivial: the batch contains >= 2 different kinds, or a split with a
// non-ack piece, or a short cut that fired, or a fan-out with a partial rejection.
func nontrivial(cls []string, kinds map[string]bool, ob *obs) bool {
	if len(kinds) >= 2 || len(ob.w.fired) > 0 {
		return true
	}
	for _, c := range cls {
		if c == "split-with-failed-piece" || c == "fanout-partial-rejection" {
			return true
		}
	}
	return false
}

// rootCause maps a symptom key to the key of the known defect whose input shape the script has.
func rootCause(sc *Script, m *model, vkey string) string {
	for _, ks := range knownShapes {
		if ks.symptom(vkey) && ks.match(sc, m) {
			return ks.key
		}
	}
	return vkey
}

type caseValue struct {
	Script *Script `json:"script"`
}

func sizeOf(sc *Script) int {
	return sc.N*100 + len(sc.Acts)*10 + len(sc.Cuts)*5 + len(sc.Nacks)*5 + len(sc.Procs)*3 + len(sc.Dests)*3
}

func historyOf(ob *obs) map[string]any {
	w := ob.w
	h := map[string]any{"source_acks": w.srcAcks, "writes": w.writes, "dlq": w.dlq, "fired_cuts": w.fired}
	if ob.err != nil {
		h["error"] = firstLine(ob.err.Error())
		h["code"] = ob.code
	}
	return h
}

// TestC08Funnel: part (a) of C08, the deterministic direct-funnel check.
func TestC08Funnel(t *testing.T) {
	st := pbt.For("C08")
	defer st.Finish(t)
	rapid.Check(t, func(t *rapid.T) {
		sc, m := genScript(t)
		for iter := 0; iter < 6; iter++ {
			changed := false
			for _, ks := range knownShapes {
				if st.IsKnown(ks.key) && ks.match(sc, m) {
					if iter == 0 {
						st.Exclude(ks.key)
					}
					ks.neutralise(sc, m)
					m = evalModel(sc, storedChooser{sc: sc, fill: true})
					changed = true
				}
			}
			if !changed {
				break
			}
		}
		cv := caseValue{Script: sc}
		pbt.MarkCurrent("C08", cv)
		ob := runCase(sc)
		if ob.setupErr != nil {
			t.Fatalf("setup: %v", ob.setupErr)
		}
		cls, kinds := classesOf(sc, m)
		nt := nontrivial(cls, kinds, ob)
		if len(ob.w.fired) > 0 {
			cls = append(cls, "short-return-fired")
		}
		switch {
		case ob.err == nil:
			cls = append(cls, "end-ok")
		case ob.code != "":
			cls = append(cls, "end-"+ob.code)
		default:
			cls = append(cls, "end-error-uncoded")
		}
		st.Case(pbt.Hash(cv), nt, cls...)
		if nt && st.WantSample() {
			st.Sample(map[string]any{"case": cv, "history": historyOf(ob)})
		}
		vs := check(sc, m, ob)
		fail := ""
		for _, v := range vs {
			k := rootCause(sc, m, v.Key)
			if st.Report(k, v.Detail, sizeOf(sc), cv) {
				if fail == "" {
					fail = k + ": " + v.Detail
				}
			}
		}
		if fail != "" {
			t.Fatalf("%s", fail)
		}
	})
}

// TestReplayC08 re-executes a stored case; fails iff the stored violation reproduces.
func TestReplayC08(t *testing.T) {
	path := os.Getenv("VERIF_REPLAY_FILE")
	if path == "" {
		t.Skip("VERIF_REPLAY_FILE not set")
	}
	raw, err := os.ReadFile(path)
	if err != nil {
		t.Fatalf("read replay file: %v", err)
	}
	var doc struct {
		Property string    `json:"property"`
		Key      string    `json:"key"`
		Detail   string    `json:"detail"`
		Replay   caseValue `json:"replay"`
	}
	if err := json.Unmarshal(raw, &doc); err != nil {
		t.Fatalf("parse replay file: %v", err)
	}
	sc := doc.Replay.Script
	if sc == nil {
		t.Fatalf("replay file has no script")
	}
	if sc.Acts == nil {
		sc.Acts = map[string]Act{}
	}
	m := evalModel(sc, storedChooser{sc: sc, fill: true})
	// fan-out branches run concurrently inside the worker: repeat to cover interleavings
	attempts := 1
	if sc.fanout() {
		attempts = 25
	}
	for i := 0; i < attempts; i++ {
		ob := runCase(sc)
		if ob.setupErr != nil {
			t.Fatalf("setup: %v", ob.setupErr)
		}
		if os.Getenv("C08_DEBUG") != "" {
			b, _ := json.Marshal(historyOf(ob))
			t.Logf("history: %s", b)
			for o, f := range m.Fates {
				t.Logf("fate %d: %s req=%v all=%v cands=%v", o, f.Outcome, f.Req, f.All, f.Cands)
			}
		}
		for _, v := range check(sc, m, ob) {
			if k := rootCause(sc, m, v.Key); k == doc.Key || v.Key == doc.Key {
				t.Fatalf("reproduced %s (attempt %d): %s", doc.Key, i+1, v.Detail)
			}
			t.Logf("other violation: %s: %s", v.Key, v.Detail)
		}
	}
	t.Logf("violation %s did not reproduce", doc.Key)
}
