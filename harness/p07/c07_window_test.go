// Package p07 holds the pure "nack window arithmetic" part of property C07:
// the DLQ window of both engines (v1 stream.DLQHandlerNode, v2 funnel.DLQ) is
// driven from outside with stub DLQ sinks and compared, message by message,
// with a reference model written from the property statement and with each
// other, for generated (window size, threshold, outcome sequence, v2 batch
// partition) tuples.
package p07

import (
	"bytes"
	"context"
	"encoding/json"
	"fmt"
	"os"
	"sort"
	"strings"
	"testing"

	"github.com/conduitio/conduit-commons/opencdc"
	"github.com/conduitio/conduit/pkg/connector"
	"github.com/conduitio/conduit/pkg/foundation/cerrors"
	"github.com/conduitio/conduit/pkg/foundation/log"
	"github.com/conduitio/conduit/pkg/foundation/metrics"
	"github.com/conduitio/conduit/pkg/foundation/metrics/noop"
	"github.com/conduitio/conduit/pkg/lifecycle-poc/funnel"
	"github.com/conduitio/conduit/pkg/lifecycle/stream"
	"pgregory.net/rapid"
	"verifharness/pbt"
)

const prop = "C07"

// ---------------------------------------------------------------------------
// case
// ---------------------------------------------------------------------------

// winCase is one generated case; it is also the replay value.
type winCase struct {
	Size      int    `json:"size"`
	Threshold int    `json:"threshold"`
	Seq       string `json:"seq"`    // one byte per outcome: 'a' = ack, 'n' = nack (rejection)
	PartA     []int  `json:"part_a"` // v2 batch lengths, first partition (every batch is a same-outcome run)
	PartB     []int  `json:"part_b"` // v2 batch lengths, second partition
	SeqMode   string `json:"seq_mode,omitempty"`
}

// apiRefused: configurations pipeline.Service.UpdateDLQ refuses
// (size > 0 && size <= threshold). They can never reach the window code through
// the API, so nothing is asserted on them.
func (c winCase) apiRefused() bool {
	return c.Size < 0 || c.Threshold < 0 || (c.Size > 0 && c.Size <= c.Threshold)
}

func (c winCase) wellFormed() error {
	if len(c.Seq) == 0 {
		return fmt.Errorf("empty sequence")
	}
	for i := 0; i < len(c.Seq); i++ {
		if c.Seq[i] != 'a' && c.Seq[i] != 'n' {
			return fmt.Errorf("seq[%d] = %q", i, c.Seq[i])
		}
	}
	for name, p := range map[string][]int{"part_a": c.PartA, "part_b": c.PartB} {
		pos := 0
		for _, l := range p {
			if l <= 0 || pos+l > len(c.Seq) {
				return fmt.Errorf("%s: bad batch length %d at %d", name, l, pos)
			}
			for k := 1; k < l; k++ {
				if c.Seq[pos+k] != c.Seq[pos] {
					return fmt.Errorf("%s: batch at %d mixes outcomes", name, pos)
				}
			}
			pos += l
		}
		if pos != len(c.Seq) {
			return fmt.Errorf("%s covers %d of %d outcomes", name, pos, len(c.Seq))
		}
	}
	return nil
}

// ---------------------------------------------------------------------------
// reference model (from the statement, not from the code)
// ---------------------------------------------------------------------------

// refModel: "A rejection is tolerated only while the rejections among the most
// recent window-size outcomes, counting it, do not exceed the threshold (a
// window size of zero removes the limit, a threshold of zero tolerates none)".
// The outcomes before the first one are acks. After the first refusal the
// pipeline stops: everything after it is refused.
type refModel struct {
	size, thr int
	hist      []bool // every outcome so far, true = rejection
	frozen    bool
	// bookkeeping for the non-trivial rule
	minMargin int // min over tolerated rejections of (threshold - rejections in window); only size > 0
	anyMargin bool
}

func newRefModel(size, thr int) *refModel { return &refModel{size: size, thr: thr} }

// rejectionsInWindowWith returns the number of rejections among the most
// recent `size` outcomes if one more rejection were recorded now.
func (m *refModel) rejectionsInWindowWith() int {
	n := 1
	prev := m.size - 1 // outcomes before the new one that still fit in the window
	for i := len(m.hist) - 1; i >= 0 && prev > 0; i, prev = i-1, prev-1 {
		if m.hist[i] {
			n++
		}
	}
	return n
}

func (m *refModel) wouldTolerate() bool {
	if m.frozen {
		return false
	}
	if m.size == 0 {
		return true
	}
	return m.rejectionsInWindowWith() <= m.thr
}

func (m *refModel) ack() {
	if !m.frozen {
		m.hist = append(m.hist, false)
	}
}

func (m *refModel) nack() bool {
	if m.frozen {
		return false
	}
	if m.size == 0 {
		m.hist = append(m.hist, true)
		return true
	}
	n := m.rejectionsInWindowWith()
	m.hist = append(m.hist, true)
	if n <= m.thr {
		if !m.anyMargin || m.thr-n < m.minMargin {
			m.minMargin, m.anyMargin = m.thr-n, true
		}
		return true
	}
	m.frozen = true
	return false
}

// decisions: per outcome 0 = ack, 1 = tolerated rejection, 2 = refused rejection.
const (
	dAck       = 0
	dTolerated = 1
	dRefused   = 2
)

func modelDecisions(c winCase) (dec []int8, freeze int, m *refModel) {
	m = newRefModel(c.Size, c.Threshold)
	dec = make([]int8, len(c.Seq))
	freeze = -1
	for i := 0; i < len(c.Seq); i++ {
		if c.Seq[i] == 'a' {
			m.ack()
			continue
		}
		if m.nack() {
			dec[i] = dTolerated
		} else {
			dec[i] = dRefused
			if freeze < 0 {
				freeze = i
			}
		}
	}
	return dec, freeze, m
}

// ---------------------------------------------------------------------------
// generated records / reasons
// ---------------------------------------------------------------------------

const (
	srcID  = "c07-src"
	nodeID = "c07-failing-component"
)

func recordOf(i int) opencdc.Record {
	return opencdc.Record{
		Position:  opencdc.Position(fmt.Sprintf("pos-%04d", i)),
		Operation: opencdc.OperationUpdate,
		Metadata:  opencdc.Metadata{"c07.idx": fmt.Sprint(i)},
		Key:       opencdc.RawData(fmt.Sprintf("key-%d", i)),
		Payload: opencdc.Change{
			Before: opencdc.RawData(fmt.Sprintf("before-%d", i)),
			After:  opencdc.StructuredData{"n": fmt.Sprintf("after-%d", i)},
		},
	}
}

func reasonText(i int) string { return fmt.Sprintf("rejected-%d", i) }

// carriesOriginal checks that a DLQ record carries the original record i, the
// error text and the failing component. Returns "" when it does.
func carriesOriginal(dlq opencdc.Record, i int) string {
	orig := recordOf(i)
	after, ok := dlq.Payload.After.(opencdc.StructuredData)
	if !ok {
		return fmt.Sprintf("DLQ record payload.after is %T, not the structured original", dlq.Payload.After)
	}
	pos, ok := after["position"].([]byte)
	if !ok || !bytes.Equal(pos, orig.Position) {
		return fmt.Sprintf("DLQ record carries position %q, want %q", after["position"], orig.Position)
	}
	if key, ok := after["key"].([]byte); !ok || !bytes.Equal(key, orig.Key.Bytes()) {
		return fmt.Sprintf("DLQ record carries key %v, want %q", after["key"], orig.Key.Bytes())
	}
	if op, _ := after["operation"].(string); op != orig.Operation.String() {
		return fmt.Sprintf("DLQ record carries operation %v, want %s", after["operation"], orig.Operation)
	}
	pl, ok := after["payload"].(map[string]interface{})
	if !ok {
		return fmt.Sprintf("DLQ record carries payload %T", after["payload"])
	}
	if b, ok := pl["before"].([]byte); !ok || !bytes.Equal(b, orig.Payload.Before.Bytes()) {
		return fmt.Sprintf("DLQ record carries payload.before %v", pl["before"])
	}
	a, ok := pl["after"].(map[string]interface{})
	if !ok || a["n"] != fmt.Sprintf("after-%d", i) {
		return fmt.Sprintf("DLQ record carries payload.after %v", pl["after"])
	}
	md, ok := after["metadata"].(map[string]interface{})
	if !ok || md["c07.idx"] != fmt.Sprint(i) {
		return fmt.Sprintf("DLQ record carries metadata %v", after["metadata"])
	}
	if got, _ := dlq.Metadata.GetConduitDLQNackError(); got != reasonText(i) {
		return fmt.Sprintf("DLQ record error text %q, want %q", got, reasonText(i))
	}
	if got, _ := dlq.Metadata.GetConduitDLQNackNodeID(); got != nodeID {
		return fmt.Sprintf("DLQ record failing component %q, want %q", got, nodeID)
	}
	return ""
}

// ---------------------------------------------------------------------------
// violations
// ---------------------------------------------------------------------------

type violation struct {
	Key    string
	Detail string
}

type vset struct {
	list []violation
	seen map[string]bool
}

func (v *vset) add(key, format string, args ...any) {
	if v.seen == nil {
		v.seen = map[string]bool{}
	}
	if v.seen[key] {
		return // the first (earliest) occurrence per key is the one reported
	}
	v.seen[key] = true
	v.list = append(v.list, violation{Key: key, Detail: fmt.Sprintf(format, args...)})
}

// Closed key vocabulary of this part.
const (
	kV1TolRefused   = "C07/window/v1/tolerated-rejection-refused"
	kV1RefTolerated = "C07/window/v1/refused-rejection-tolerated"
	kV1NotFatal     = "C07/window/v1/threshold-refusal-not-fatal"
	kV1WriteCount   = "C07/dlq-write/v1/tolerated-rejection-not-written-exactly-once"
	kV1WriteWrong   = "C07/dlq-write/v1/dlq-record-not-the-original-with-error"
	kV1WriteRefused = "C07/dlq-write/v1/refused-rejection-written"
	kV1WriteAck     = "C07/dlq-write/v1/ack-written"

	kV2Range        = "C07/window/v2/accepted-count-out-of-range"
	kV2TolRefused   = "C07/window/v2/tolerated-rejection-refused"
	kV2RefTolerated = "C07/window/v2/refused-rejection-tolerated"
	kV2NoError      = "C07/window/v2/refusal-without-error"
	kV2SpurError    = "C07/window/v2/error-although-all-tolerated"
	kV2NotFatal     = "C07/window/v2/threshold-refusal-not-fatal"
	kV2WriteCount   = "C07/dlq-write/v2/tolerated-rejections-not-written-exactly-once"
	kV2WriteWrong   = "C07/dlq-write/v2/dlq-record-not-the-original-with-error"
	kV2WriteRefused = "C07/dlq-write/v2/refused-rejection-written"
	kV2WriteAck     = "C07/dlq-write/v2/ack-written"

	kParityFreeze    = "C07/parity/v1-v2-freeze-at-different-message"
	kParityDecisions = "C07/parity/v1-v2-decisions-differ"
	kParityFatal     = "C07/parity/v1-v2-refusal-fatality-differs"
	kPartition       = "C07/window/v2/decision-depends-on-batch-partition"
)

// ---------------------------------------------------------------------------
// v1 harness (technique of pkg/lifecycle/dlqparity)
// ---------------------------------------------------------------------------

type v1Handler struct{ written []opencdc.Record }

func (*v1Handler) Open(context.Context) error  { return nil }
func (*v1Handler) Close(context.Context) error { return nil }
func (h *v1Handler) Write(_ context.Context, r opencdc.Record) error {
	h.written = append(h.written, r)
	return nil
}

// engineObs is what one engine run produced, per message.
type engineObs struct {
	dec         []int8 // dAck / dTolerated / dRefused as the engine decided
	freeze      int    // first refused message, -1 if none
	freezeFatal bool   // was the error that refused message `freeze` fatal
	batches     int
	freezeMid   bool // v2: the first refusal was not the first record of its batch
}

// runV1 drives a running stream.DLQHandlerNode one message at a time and
// checks it against the model decisions `want`.
func runV1(c winCase, want []int8, vs *vset) (engineObs, error) {
	h := &v1Handler{}
	n := &stream.DLQHandlerNode{
		Name:                "c07-v1-dlq",
		Handler:             h,
		WindowSize:          c.Size,
		WindowNackThreshold: c.Threshold,
		Timer:               noop.Timer{},
		Histogram:           metrics.NewRecordBytesHistogram(noop.Histogram{}),
	}
	n.SetLogger(log.Nop())
	n.Add(1) // keeps Run alive until Done below
	ctx := context.Background()
	done := make(chan error, 1)
	go func() { done <- n.Run(ctx) }()

	limited := c.Size > 0 && c.Threshold > 0
	o := engineObs{dec: make([]int8, len(c.Seq)), freeze: -1, batches: len(c.Seq)}
	for i := 0; i < len(c.Seq); i++ {
		// Ack/Nack wait (ValueWatcher.Watch) until Run has set the state to running.
		msg := &stream.Message{Ctx: ctx, SourceID: srcID, Record: recordOf(i)}
		before := len(h.written)
		if c.Seq[i] == 'a' {
			n.Ack(msg)
			if len(h.written) != before {
				vs.add(kV1WriteAck, "v1: ack of message %d wrote %d record(s) to the DLQ", i, len(h.written)-before)
			}
			continue
		}
		err := n.Nack(msg, stream.NackMetadata{Reason: cerrors.New(reasonText(i)), NodeID: nodeID})
		delta := len(h.written) - before
		if err == nil {
			o.dec[i] = dTolerated
		} else {
			o.dec[i] = dRefused
			if o.freeze < 0 {
				o.freeze, o.freezeFatal = i, cerrors.IsFatalError(err)
			}
		}
		switch want[i] {
		case dTolerated:
			if err != nil {
				vs.add(kV1TolRefused, "v1: rejection %d is within the window (size %d, threshold %d) but Nack returned %q", i, c.Size, c.Threshold, err)
				break
			}
			if delta != 1 {
				vs.add(kV1WriteCount, "v1: tolerated rejection %d caused %d DLQ writes, want exactly 1", i, delta)
			} else if why := carriesOriginal(h.written[before], i); why != "" {
				vs.add(kV1WriteWrong, "v1: tolerated rejection %d: %s", i, why)
			}
		case dRefused:
			if err == nil {
				vs.add(kV1RefTolerated, "v1: rejection %d exceeds the window (size %d, threshold %d) but Nack returned nil", i, c.Size, c.Threshold)
				break
			}
			if delta != 0 {
				vs.add(kV1WriteRefused, "v1: refused rejection %d was nevertheless written to the DLQ (%d writes)", i, delta)
			}
			if limited && !cerrors.IsFatalError(err) {
				vs.add(kV1NotFatal, "v1: refusal of rejection %d (threshold %d > 0) is not a fatal error: %q", i, c.Threshold, err)
			}
		}
	}
	n.Done()
	if err := <-done; err != nil {
		return o, fmt.Errorf("v1 DLQHandlerNode.Run returned %w", err)
	}
	return o, nil
}

// ---------------------------------------------------------------------------
// v2 harness
// ---------------------------------------------------------------------------

type v2Dest struct {
	pending []opencdc.Position
	written []opencdc.Record
}

func (d *v2Dest) ID() string                     { return "c07-v2-dlq-dest" }
func (d *v2Dest) Open(context.Context) error     { return nil }
func (d *v2Dest) Teardown(context.Context) error { return nil }
func (d *v2Dest) Errors() <-chan error           { return nil }
func (d *v2Dest) Write(_ context.Context, recs []opencdc.Record) error {
	for _, r := range recs {
		d.pending = append(d.pending, r.Position)
		d.written = append(d.written, r)
	}
	return nil
}
func (d *v2Dest) Ack(context.Context) ([]connector.DestinationAck, error) {
	acks := make([]connector.DestinationAck, len(d.pending))
	for i, p := range d.pending {
		acks[i] = connector.DestinationAck{Position: p}
	}
	d.pending = nil
	return acks, nil
}

// runV2 drives a funnel.DLQ with the batches of `part` and checks it against
// the model decisions `want`.
func runV2(c winCase, part []int, tag string, want []int8, vs *vset) engineObs {
	dest := &v2Dest{}
	dlq := funnel.NewDLQ("c07-v2-dlq", dest, log.Nop(), funnel.NoOpConnectorMetrics{}, c.Size, c.Threshold)
	ctx := context.Background()
	limited := c.Size > 0 && c.Threshold > 0

	o := engineObs{dec: make([]int8, len(c.Seq)), freeze: -1, batches: len(part)}
	pos := 0
	for bi, l := range part {
		recs := make([]opencdc.Record, l)
		for k := range recs {
			recs[k] = recordOf(pos + k)
		}
		batch := funnel.NewBatch(recs)
		before := len(dest.written)
		if c.Seq[pos] == 'a' {
			dlq.Ack(ctx, batch)
			if len(dest.written) != before {
				vs.add(kV2WriteAck, "v2[%s]: ack batch %d (messages %d..%d) wrote %d record(s) to the DLQ", tag, bi, pos, pos+l-1, len(dest.written)-before)
			}
			pos += l
			continue
		}
		errs := make([]error, l)
		for k := range errs {
			errs[k] = cerrors.New(reasonText(pos + k))
		}
		batch.Nack(0, errs...)
		n, err := dlq.Nack(ctx, batch, nodeID)
		delta := len(dest.written) - before

		wantN := 0
		for wantN < l && want[pos+wantN] == dTolerated {
			wantN++
		}
		if n < 0 || n > l {
			vs.add(kV2Range, "v2[%s]: Nack of batch %d (%d rejections from message %d) returned accepted count %d", tag, bi, l, pos, n)
			if n < 0 {
				n = 0
			} else {
				n = l
			}
		}
		for k := 0; k < l; k++ {
			if k < n {
				o.dec[pos+k] = dTolerated
			} else {
				o.dec[pos+k] = dRefused
				if o.freeze < 0 {
					o.freeze, o.freezeFatal, o.freezeMid = pos+k, cerrors.IsFatalError(err), k > 0
				}
			}
		}
		switch {
		case n < wantN:
			vs.add(kV2TolRefused, "v2[%s]: batch %d = rejections %d..%d: accepted %d, but the first %d are within the window (size %d, threshold %d); err=%v", tag, bi, pos, pos+l-1, n, wantN, c.Size, c.Threshold, err)
		case n > wantN:
			vs.add(kV2RefTolerated, "v2[%s]: batch %d = rejections %d..%d: accepted %d, but rejection %d exceeds the window (size %d, threshold %d); err=%v", tag, bi, pos, pos+l-1, n, pos+wantN, c.Size, c.Threshold, err)
		default:
			if delta > n {
				vs.add(kV2WriteRefused, "v2[%s]: batch %d = rejections %d..%d: %d tolerated but %d DLQ writes (a refused rejection was written)", tag, bi, pos, pos+l-1, n, delta)
			} else if delta != n {
				vs.add(kV2WriteCount, "v2[%s]: batch %d = rejections %d..%d: %d tolerated but %d DLQ writes", tag, bi, pos, pos+l-1, n, delta)
			} else {
				for k := 0; k < n; k++ {
					if why := carriesOriginal(dest.written[before+k], pos+k); why != "" {
						vs.add(kV2WriteWrong, "v2[%s]: batch %d, tolerated rejection %d: %s", tag, bi, pos+k, why)
						break
					}
				}
			}
		}
		if n < l && err == nil {
			vs.add(kV2NoError, "v2[%s]: batch %d = rejections %d..%d: only %d accepted but no error returned", tag, bi, pos, pos+l-1, n)
		}
		if n == l && n == wantN && err != nil {
			vs.add(kV2SpurError, "v2[%s]: batch %d = rejections %d..%d: all tolerated and accepted but error %q returned", tag, bi, pos, pos+l-1, err)
		}
		if n < l && n == wantN && err != nil && limited && !cerrors.IsFatalError(err) {
			vs.add(kV2NotFatal, "v2[%s]: refusal of rejection %d (threshold %d > 0) is not a fatal error: %q", tag, pos+n, c.Threshold, err)
		}
		pos += l
	}
	return o
}

// ---------------------------------------------------------------------------
// one case
// ---------------------------------------------------------------------------

type caseResult struct {
	viol      []violation
	model     *refModel
	freeze    int // model's first refused message
	v1, a, b  engineObs
	harnessEr error
}

func firstDiff(x, y []int8) int {
	for i := range x {
		if x[i] != y[i] {
			return i
		}
	}
	return -1
}

func evaluate(c winCase) caseResult {
	var vs vset
	want, freeze, m := modelDecisions(c)
	r := caseResult{model: m, freeze: freeze}
	r.v1, r.harnessEr = runV1(c, want, &vs)
	r.a = runV2(c, c.PartA, "A", want, &vs)
	r.b = runV2(c, c.PartB, "B", want, &vs)

	// both engines take identical decisions for identical outcome sequences
	for _, v2 := range []struct {
		tag string
		o   engineObs
	}{{"A", r.a}, {"B", r.b}} {
		if r.v1.freeze != v2.o.freeze {
			vs.add(kParityFreeze, "v1 first refuses message %d, v2[%s] message %d (-1 = never)", r.v1.freeze, v2.tag, v2.o.freeze)
		} else if r.v1.freeze >= 0 && r.v1.freezeFatal != v2.o.freezeFatal {
			vs.add(kParityFatal, "refusal of message %d: v1 fatal=%v, v2[%s] fatal=%v", r.v1.freeze, r.v1.freezeFatal, v2.tag, v2.o.freezeFatal)
		}
		if i := firstDiff(r.v1.dec, v2.o.dec); i >= 0 {
			vs.add(kParityDecisions, "message %d: v1 decided %d, v2[%s] decided %d (1 tolerated, 2 refused)", i, r.v1.dec[i], v2.tag, v2.o.dec[i])
		}
	}
	// metamorphic: the batch partition must not matter
	if i := firstDiff(r.a.dec, r.b.dec); i >= 0 {
		vs.add(kPartition, "message %d: partition A decided %d, partition B decided %d (1 tolerated, 2 refused)", i, r.a.dec[i], r.b.dec[i])
	}
	r.viol = vs.list
	return r
}

// ---------------------------------------------------------------------------
// generator
// ---------------------------------------------------------------------------

// top8 is true when a draw from 0..7 lands in the top k values. rapid's integer
// draws are biased towards small values (and shrink towards them), so the real
// probability is somewhat below k/8 and shrinking moves towards "false".
func top8(t *rapid.T, k int, label string) bool {
	if k <= 0 {
		return false
	}
	if k >= 8 {
		return true
	}
	return rapid.IntRange(0, 7).Draw(t, label) >= 8-k
}

// spread draws from lo..hi, counting from a drawn end so that rapid's bias
// towards small numbers does not starve the upper part of the range.
func spread(t *rapid.T, lo, hi int, label string) int {
	if lo >= hi {
		return lo
	}
	d := rapid.IntRange(0, hi-lo).Draw(t, label)
	if rapid.Bool().Draw(t, label+"FromTop") {
		return hi - d
	}
	return lo + d
}

var lenClasses = [][2]int{{1, 6}, {7, 20}, {21, 60}, {61, 200}}

func genSeq(t *rapid.T, size, thr int) (string, string) {
	lc := lenClasses[rapid.IntRange(0, len(lenClasses)-1).Draw(t, "lenClass")]
	n := spread(t, lc[0], lc[1], "len")
	mode := rapid.SampledFrom([]string{"hover", "runs", "hover", "iid", "script"}).Draw(t, "seqMode")
	seq := make([]byte, 0, n)
	switch mode {
	case "hover":
		// steer with the model: stay just below the threshold, cross rarely
		pn := rapid.SampledFrom([]int{4, 2, 6, 8}).Draw(t, "nackEighths")
		cross := rapid.SampledFrom([]string{"rare", "never", "1/8", "2/8"}).Draw(t, "cross")
		m := newRefModel(size, thr)
		for len(seq) < n {
			nack := false
			switch {
			case m.frozen:
				nack = rapid.Bool().Draw(t, "afterFreeze")
			case m.wouldTolerate():
				nack = top8(t, pn, "nack")
			default:
				switch cross {
				case "rare":
					nack = top8(t, 1, "cross") && top8(t, 2, "cross2")
				case "1/8":
					nack = top8(t, 1, "cross")
				case "2/8":
					nack = top8(t, 2, "cross")
				}
			}
			if nack {
				m.nack()
				seq = append(seq, 'n')
			} else {
				m.ack()
				seq = append(seq, 'a')
			}
		}
	case "runs":
		nack := rapid.Bool().Draw(t, "startNack")
		for len(seq) < n {
			var l int
			if nack {
				lo := thr - 1
				if lo < 1 {
					lo = 1
				}
				l = rapid.IntRange(lo, thr+1).Draw(t, "nackRun")
			} else {
				l = rapid.IntRange(1, size+2).Draw(t, "ackRun")
			}
			for k := 0; k < l && len(seq) < n; k++ {
				if nack {
					seq = append(seq, 'n')
				} else {
					seq = append(seq, 'a')
				}
			}
			nack = !nack
		}
	case "iid":
		p := rapid.SampledFrom([]int{2, 1, 4, 6, 7}).Draw(t, "nackEighths")
		for len(seq) < n {
			if top8(t, p, "nack") {
				seq = append(seq, 'n')
			} else {
				seq = append(seq, 'a')
			}
		}
	case "script":
		// the shape of stream.TestDLQWindow_NackThresholdExceeded, repeated and perturbed
		rep := func(b byte, k int) {
			for ; k > 0; k-- {
				seq = append(seq, b)
			}
		}
		rounds := rapid.IntRange(0, 3).Draw(t, "rounds")
		for i := 0; i < rounds; i++ {
			rep('n', thr)
			rep('a', size)
		}
		rep('n', thr)
		rep('n', 1)
		rep('a', size)
		rep('n', 1)
		if len(seq) > 200 {
			seq = seq[:200]
		}
		flips := rapid.IntRange(0, 2).Draw(t, "flips")
		for i := 0; i < flips; i++ {
			k := rapid.IntRange(0, len(seq)-1).Draw(t, "flipAt")
			if seq[k] == 'a' {
				seq[k] = 'n'
			} else {
				seq[k] = 'a'
			}
		}
	}
	return string(seq), mode
}

var partModes = []string{"random", "maximal", "singletons", "small"}

// genPartition splits every maximal same-outcome run of seq into batches (the
// real pipeline splits a destination batch into ack-runs and nack-runs, and
// batch boundaries fall anywhere).
func genPartition(t *rapid.T, seq string, label string, avoid string) ([]int, string) {
	modes := make([]string, 0, len(partModes))
	for _, m := range partModes {
		if m != avoid || m == "random" {
			modes = append(modes, m)
		}
	}
	mode := rapid.SampledFrom(modes).Draw(t, label+"Mode")
	var part []int
	for i := 0; i < len(seq); {
		j := i
		for j < len(seq) && seq[j] == seq[i] {
			j++
		}
		rem := j - i
		for rem > 0 {
			l := 1
			switch {
			case rem == 1:
			case mode == "maximal":
				l = rem
			case mode == "singletons":
			case mode == "random":
				l = rapid.IntRange(1, rem).Draw(t, label+"Chunk")
				if rapid.Bool().Draw(t, label+"ChunkFromTop") {
					l = rem + 1 - l
				}
			default: // small
				hi := 3
				if rem < hi {
					hi = rem
				}
				l = rapid.IntRange(1, hi).Draw(t, label+"Chunk")
			}
			part = append(part, l)
			rem -= l
		}
		i = j
	}
	return part, mode
}

func genCase(t *rapid.T) (winCase, string, string) {
	var c winCase
	if top8(t, 1, "apiRefusedCfg") {
		c.Size = rapid.IntRange(1, 8).Draw(t, "size")
		c.Threshold = rapid.IntRange(c.Size, 8).Draw(t, "threshold")
	} else {
		switch rapid.SampledFrom([]string{"limited", "threshold0", "limited", "size0", "limited", "limited"}).Draw(t, "cfgKind") {
		case "limited": // 1 <= threshold < size
			c.Size = spread(t, 2, 8, "size")
			c.Threshold = spread(t, 1, c.Size-1, "threshold")
		case "threshold0": // "DLQ disabled": nothing tolerated
			c.Size = spread(t, 1, 8, "size")
		default: // size 0: no limit, any threshold
			c.Threshold = spread(t, 0, 8, "threshold")
		}
	}
	c.Seq, c.SeqMode = genSeq(t, c.Size, c.Threshold)
	var ma, mb string
	c.PartA, ma = genPartition(t, c.Seq, "partA", "")
	c.PartB, mb = genPartition(t, c.Seq, "partB", ma)
	return c, ma, mb
}

// ---------------------------------------------------------------------------
// the property
// ---------------------------------------------------------------------------

func sameInts(a, b []int) bool {
	if len(a) != len(b) {
		return false
	}
	for i := range a {
		if a[i] != b[i] {
			return false
		}
	}
	return true
}

func caseSize(c winCase) int {
	return len(c.Seq)*1000 + (len(c.PartA)+len(c.PartB))*2 + c.Size + c.Threshold
}

func TestC07Window(t *testing.T) {
	st := pbt.For(prop)
	defer st.Finish(t)
	refusedAgree, refusedDisagree := 0, 0
	defer func() {
		st.SetExtra("windows.api_refused_configs.engines_agree_with_model", refusedAgree)
		st.SetExtra("windows.api_refused_configs.engines_disagree_with_model(not asserted)", refusedDisagree)
	}()
	rapid.Check(t, func(t *rapid.T) {
		c, ma, mb := genCase(t)
		if err := c.wellFormed(); err != nil {
			t.Fatalf("generator produced a malformed case: %v", err)
		}
		pbt.MarkCurrent(prop, c)
		r := evaluate(c)
		if r.harnessEr != nil {
			t.Fatalf("harness: %v", r.harnessEr)
		}

		if c.apiRefused() {
			// Not reachable through the API (UpdateDLQ refuses it): statistic only.
			cls := "windows:cfg=refused-by-api(not asserted)"
			if len(r.viol) == 0 {
				refusedAgree++
				st.Case(pbt.Hash(c), false, cls, "windows:refused-cfg-engines-agree-with-model")
			} else {
				refusedDisagree++
				st.Case(pbt.Hash(c), false, cls, "windows:refused-cfg-engines-disagree-with-model")
			}
			return
		}

		crossed := r.freeze >= 0
		near := r.model.anyMargin && r.model.minMargin <= 1
		multi := len(c.PartA) >= 2 && len(c.PartB) >= 2
		nontrivial := (crossed || near) && multi

		cls := []string{"windows:seq=" + c.SeqMode, "windows:partA=" + ma, "windows:partB=" + mb}
		switch {
		case c.Size == 0:
			cls = append(cls, "windows:cfg=size0-unlimited")
			nacks := strings.Count(c.Seq, "n")
			if nacks > c.Threshold {
				cls = append(cls, "windows:size0-more-rejections-than-threshold")
			}
		case c.Threshold == 0:
			cls = append(cls, "windows:cfg=threshold0-none-tolerated")
		default:
			cls = append(cls, "windows:cfg=limited")
		}
		switch {
		case crossed:
			cls = append(cls, "windows:threshold-crossed")
			if r.a.freezeMid || r.b.freezeMid {
				cls = append(cls, "windows:refusal-mid-batch")
			}
			if r.freeze+1 < len(c.Seq) {
				rest := c.Seq[r.freeze+1:]
				if strings.Contains(rest, "a") && strings.Contains(rest, "n") {
					cls = append(cls, "windows:acks-and-rejections-after-freeze")
				}
			}
			if r.model.anyMargin && r.model.minMargin == 0 && c.Threshold > 0 {
				cls = append(cls, "windows:at-threshold-then-crossed")
			}
		case near:
			cls = append(cls, "windows:within-1-of-threshold-not-crossed")
		default:
			cls = append(cls, "windows:far-from-threshold")
		}
		if sameInts(c.PartA, c.PartB) {
			cls = append(cls, "windows:partitions-identical")
		}
		if !multi {
			cls = append(cls, "windows:single-batch")
		}
		st.Case(pbt.Hash(c), nontrivial, cls...)
		if nontrivial && st.WantSample() {
			st.Sample(map[string]any{"case": c, "model_first_refused": r.freeze,
				"v1_first_refused": r.v1.freeze, "v2A_first_refused": r.a.freeze, "v2B_first_refused": r.b.freeze})
		}

		fail := false
		var msgs []string
		for _, v := range r.viol {
			if st.Report(v.Key, v.Detail+fmt.Sprintf(" [size=%d threshold=%d seq=%s]", c.Size, c.Threshold, c.Seq), caseSize(c), c) {
				fail = true
				msgs = append(msgs, v.Key+": "+v.Detail)
			}
		}
		if fail {
			t.Fatalf("C07 window violation(s):\n%s\ncase: %+v", strings.Join(msgs, "\n"), c)
		}
	})
}

// ---------------------------------------------------------------------------
// replay
// ---------------------------------------------------------------------------

type replayDoc struct {
	Property string          `json:"property"`
	Key      string          `json:"key"`
	Detail   string          `json:"detail"`
	Replay   json.RawMessage `json:"replay"`
}

// TestReplayC07 re-executes a saved window case (no rapid involved) and fails
// iff the recorded violation key reproduces.
func TestReplayC07(t *testing.T) {
	f := os.Getenv("VERIF_REPLAY_FILE")
	if f == "" {
		t.Skip("VERIF_REPLAY_FILE not set")
	}
	raw, err := os.ReadFile(f)
	if err != nil {
		t.Fatal(err)
	}
	var doc replayDoc
	if err := json.Unmarshal(raw, &doc); err != nil {
		t.Fatal(err)
	}
	var probe map[string]json.RawMessage
	if json.Unmarshal(doc.Replay, &probe) != nil || probe["seq"] == nil || probe["part_a"] == nil {
		t.Skip("not a replay of the C07 windows part")
	}
	var c winCase
	if err := json.Unmarshal(doc.Replay, &c); err != nil {
		t.Fatal(err)
	}
	if err := c.wellFormed(); err != nil {
		t.Fatalf("malformed replay case: %v", err)
	}
	if c.apiRefused() {
		t.Skipf("configuration size=%d threshold=%d is refused by the API; nothing is asserted on it", c.Size, c.Threshold)
	}
	r := evaluate(c)
	if r.harnessEr != nil {
		t.Fatalf("harness: %v", r.harnessEr)
	}
	keys := make([]string, 0, len(r.viol))
	reproduced := false
	for _, v := range r.viol {
		keys = append(keys, v.Key)
		if doc.Key == "" || v.Key == doc.Key {
			reproduced = true
			t.Errorf("REPRODUCED %s: %s", v.Key, v.Detail)
		}
	}
	sort.Strings(keys)
	if !reproduced {
		t.Logf("violation %q did not reproduce (size=%d threshold=%d seq=%s); other keys seen: %v", doc.Key, c.Size, c.Threshold, c.Seq, keys)
	}
}
