package p09

import (
	"encoding/json"
	"os"
	"testing"
)

type replayDoc struct {
	Property string          `json:"property"`
	Key      string          `json:"key"`
	Detail   string          `json:"detail"`
	Replay   json.RawMessage `json:"replay"`
}

// TestReplayC09 re-executes the case of a replay file without rapid and fails iff the
// violation with the recorded key reproduces. Cases with a fan-out run two destination
// branches concurrently; they are repeated a few times because the interleaving of the
// branches is the engine's own.
func TestReplayC09(t *testing.T) {
	path := os.Getenv("VERIF_REPLAY_FILE")
	if path == "" {
		t.Skip("VERIF_REPLAY_FILE not set")
	}
	raw, err := os.ReadFile(path)
	if err != nil {
		t.Fatalf("read replay file: %v", err)
	}
	var doc replayDoc
	if err := json.Unmarshal(raw, &doc); err != nil {
		t.Fatalf("parse replay file: %v", err)
	}
	var head struct {
		Test string `json:"test"`
	}
	if err := json.Unmarshal(doc.Replay, &head); err != nil {
		t.Fatalf("parse replay value: %v", err)
	}
	switch head.Test {
	case "conditional":
		var c CondCase
		if err := json.Unmarshal(doc.Replay, &c); err != nil {
			t.Fatalf("parse case: %v", err)
		}
		r := runCond(c)
		if r.setupErr != nil {
			t.Fatalf("setup: %v", r.setupErr)
		}
		key, detail := checkCond(c, r)
		if key == doc.Key {
			t.Fatalf("REPRODUCED %s: %s", key, detail)
		}
		t.Logf("not reproduced (got key %q)", key)
	case "funnelshapes", "inworker":
		var c FCase
		if err := json.Unmarshal(doc.Replay, &c); err != nil {
			t.Fatalf("parse case: %v", err)
		}
		rounds := 1
		if len(c.Branches) > 1 {
			rounds = 25
		}
		var seen []string
		for i := 0; i < rounds; i++ {
			r := runFunnel(c)
			if r.setupErr != nil {
				t.Fatalf("setup: %v", r.setupErr)
			}
			vs, _ := checkFunnel(c, r)
			for _, v := range vs {
				if v.key == doc.Key {
					t.Fatalf("REPRODUCED %s (round %d): %s", v.key, i, v.detail)
				}
				seen = append(seen, v.key)
			}
		}
		t.Logf("not reproduced in %d round(s) (other keys seen: %v)", rounds, seen)
	default:
		t.Fatalf("unknown replay test %q", head.Test)
	}
}
