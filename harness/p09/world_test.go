package p09

import (
	"bytes"
	"context"
	"errors"
	"fmt"
	"sort"
	"strconv"
	"strings"
	"sync"
	"sync/atomic"

	"github.com/conduitio/conduit-commons/config"
	"github.com/conduitio/conduit-commons/opencdc"
	sdk "github.com/conduitio/conduit-processor-sdk"
	"github.com/conduitio/conduit/pkg/connector"
	"github.com/conduitio/conduit/pkg/lifecycle-poc/funnel"
)

// ---- case description (also the replay value) ----

// RecSpec describes one source record.
type RecSpec struct {
	Pos int `json:"pos"` // 0 unique position, 1 empty position, 2 same position as the previous record of the batch
	M   int `json:"m"`   // 1 = matches the condition of a conditional processor
	C   int `json:"c"`   // 1 = the condition of a conditional processor fails to evaluate for this record
}

// CallShape is the reply shape of one Process call.
type CallShape struct {
	Delta    int   `json:"delta"`     // output length = input length + Delta (never below 0)
	Zero     bool  `json:"zero"`      // output length 0
	Kinds    []int `json:"kinds"`     // result kinds, used cyclically; empty = all KSingle
	CapExtra int   `json:"cap_extra"` // spare capacity of the returned slice
}

// ProcScript scripts one processor: the first len(Calls) Process calls are shaped, later
// calls answer every record with a SingleRecord (so a retried tail eventually converges).
type ProcScript struct {
	Calls       []CallShape `json:"calls"`
	NilForever  []int       `json:"nil_forever"` // read indices of records that get a nil result on every call
	OpenErr     bool        `json:"open_err"`
	TeardownErr bool        `json:"teardown_err"`
	Real        bool        `json:"real"` // run the script as the plugin of a real processor.RunnableProcessor
	Cond        bool        `json:"cond"` // (Real only) the processor has the condition m == "1"
}

const (
	AAll = iota
	APartial
	ANack
	AWrongPos
	ASurplus
	AOutOfOrder
	AEmpty
	AShortThenError
	ackKindCount
)

// AckShape is the reply shape of one Destination.Ack call.
type AckShape struct {
	Kind int `json:"kind"`
	K    int `json:"k"`
}

type DestScript struct {
	Acks        []AckShape `json:"acks"` // later calls: all outstanding acks, in order, no error
	OpenErr     bool       `json:"open_err"`
	WriteErrAt  int        `json:"write_err_at"` // index of the Write call that fails, -1 none
	AckErrAt    int        `json:"ack_err_at"`   // index of the Ack call that fails, -1 none
	TeardownErr bool       `json:"teardown_err"`
}

type BranchSpec struct {
	Proc *ProcScript `json:"proc,omitempty"`
	Dest DestScript  `json:"dest"`
}

// FCase is one case of TestC09FunnelShapes / TestC09ConditionalInWorker.
type FCase struct {
	Test           string       `json:"test"`
	Batches        [][]RecSpec  `json:"batches"`
	Shared         []ProcScript `json:"shared"`
	Branches       []BranchSpec `json:"branches"`
	DLQ            DestScript   `json:"dlq"`
	DLQWindow      int          `json:"dlq_window"`
	DLQThreshold   int          `json:"dlq_threshold"`
	SrcOpenErr     bool         `json:"src_open_err"`
	ReadErrAt      int          `json:"read_err_at"`    // index of the Read call that fails, -1 none
	SrcAckErrAt    int          `json:"src_ack_err_at"` // index of the Source.Ack call that fails, -1 none
	SrcTeardownErr bool         `json:"src_teardown_err"`
	// Avoid lists the shapes the fakes replaced by harmless ones because a known finding is
	// keyed on them (set by the test, not generated; part of the replay value)
	Avoid []string `json:"avoid,omitempty"`
}

func (c FCase) avoidMap() map[string]bool {
	m := map[string]bool{}
	for _, s := range c.Avoid {
		m[s] = true
	}
	return m
}

func (c FCase) size() int {
	n := 0
	for _, b := range c.Batches {
		n += 4 + 4*len(b)
		for _, r := range b {
			n += r.Pos + r.M + 2*r.C
		}
	}
	ps := func(p ProcScript) int {
		k := 6 + len(p.NilForever)*3
		for _, cs := range p.Calls {
			k += 3 + len(cs.Kinds) + cs.CapExtra
			if cs.Delta != 0 {
				k += 2
			}
		}
		return k
	}
	ds := func(d DestScript) int { return 2 + 3*len(d.Acks) }
	for _, p := range c.Shared {
		n += ps(p)
	}
	for _, b := range c.Branches {
		n += 8 + ds(b.Dest)
		if b.Proc != nil {
			n += ps(*b.Proc)
		}
	}
	return n + ds(c.DLQ)
}

// ---- shapes (closed vocabulary) ----

const (
	shNone = "none"

	shProcZero       = "proc-zero-output"
	shProcShort      = "proc-short-output"
	shProcLong       = "proc-long-output"
	shProcNil        = "proc-nil-entry"
	shProcNilForever = "proc-nil-forever"
	// a never-answered record got a result after all: a conditional RunnableProcessor replaces a
	// long plugin output by one ErrorRecord, which overrides the plugin's nil
	shNilForeverOverridden = "proc-nil-forever-overridden"
	// the source handed over a record for which the condition of the conditional processor fails to
	// evaluate (documented handling: that record gets the condition error, i.e. is dead-lettered)
	shCondEvalFails = "proc-condition-eval-fails"
	shProcErrorNil  = "proc-error-nil"
	shProcSplit     = "proc-split"
	shProcFilter    = "proc-filter"
	shProcError     = "proc-error"
	shProcMulti0    = "proc-multi0"
	shProcMulti1    = "proc-multi1"
	shProcChangePos = "proc-changepos"
	shProcEmptyPos  = "proc-emptypos"
	shCondShort     = "proc-condition-short-output"      // only in TestC09ConditionalInWorker
	shSplitEmptyPos = "proc-split-of-empty-position"     // a split result for a record the source gave an empty position
	shSplitDupPos   = "proc-split-of-duplicate-position" // a split result for a record whose source position another record of the batch carries too

	shSrcEmptyPos   = "src-empty-position"
	shSrcDupPos     = "src-duplicate-position"
	shSrcEmptyBatch = "src-empty-batch"

	shAckPartial   = "ack-partial"
	shAckNack      = "ack-nack"
	shAckWrongPos  = "ack-wrong-position"
	shAckSurplus   = "ack-surplus"
	shAckOOO       = "ack-out-of-order"
	shAckEmpty     = "ack-empty"
	shAckShortErr  = "ack-short-then-error"
	shErrOpen      = "err-open"
	shErrRead      = "err-read"
	shErrWrite     = "err-write"
	shErrAck       = "err-ack"
	shErrTeardown  = "err-teardown"
	shErrProcOpen  = "err-proc-open"
	shErrProcClose = "err-proc-teardown"
)

// shapes that are scoped by the connector that produced them
var connShapes = []string{shAckPartial, shAckNack, shAckWrongPos, shAckSurplus, shAckOOO, shAckEmpty, shAckShortErr, shErrOpen, shErrRead, shErrWrite, shErrAck, shErrTeardown}

func allShapes() []string {
	out := []string{shNone, shProcZero, shProcShort, shProcLong, shProcNil, shProcNilForever, shProcErrorNil, shProcSplit,
		shProcFilter, shProcError, shProcMulti0, shProcMulti1, shProcChangePos, shProcEmptyPos, shCondShort, shSplitEmptyPos, shSplitDupPos, shNilForeverOverridden, shCondEvalFails,
		shSrcEmptyPos, shSrcDupPos, shSrcEmptyBatch, shErrProcOpen, shErrProcClose}
	for _, role := range []string{"src", "dst", "dlq"} {
		for _, s := range connShapes {
			out = append(out, role+"-"+s)
		}
	}
	return out
}

// benign shapes: the engine documents a handling that keeps the pipeline running
var benignShapes = map[string]bool{
	shProcSplit: true, shProcFilter: true, shProcError: true, shProcMulti0: true, shProcMulti1: true,
	shProcChangePos: true, shProcEmptyPos: true, shSrcEmptyBatch: true, shNilForeverOverridden: true, shCondEvalFails: true,
	"dst-" + shAckPartial: true, "dst-" + shAckNack: true, "dlq-" + shAckPartial: true,
}

// fatal shapes: after one of them the run must end with an error
var fatalShapes = map[string]bool{
	shProcZero: true, shProcNilForever: true, shSrcEmptyPos: true,
	"dst-" + shAckWrongPos: true, "dst-" + shAckSurplus: true, "dst-" + shAckOOO: true, "dst-" + shAckShortErr: true,
	"dlq-" + shAckWrongPos: true, "dlq-" + shAckSurplus: true, "dlq-" + shAckOOO: true, "dlq-" + shAckShortErr: true, "dlq-" + shAckNack: true,
	"src-" + shErrRead: true, "src-" + shErrAck: true,
	"dst-" + shErrWrite: true, "dst-" + shErrAck: true, "dlq-" + shErrWrite: true, "dlq-" + shErrAck: true,
}

var errInjected = errors.New("p09: injected plugin error")

// ---- the world shared by all fakes of one case ----

const (
	oPass = iota + 1
	oFilter
	oError
	oSplit
)

type outcome struct {
	kind     int
	children []string
}

type readRec struct {
	id  string
	pos []byte
}

type violation struct{ key, detail string }

type world struct {
	c     FCase
	avoid map[string]bool

	mu         sync.Mutex
	reads      []readRec
	ackPtr     int
	outcomes   map[string]map[string]outcome // stage -> piece -> latest outcome
	said       map[string]map[string]int     // destination -> piece -> 1 confirmed, 2 refused
	dlqOK      map[string]bool               // root id -> DLQ confirmed the dead-letter record
	fired      []string
	firedSet   map[string]bool
	excluded   map[string]bool
	violations []violation
	emptyRoot  map[string]bool // read records whose source position is empty
	dupRoot    map[string]bool // read records that share their source position with a neighbour
	failRoot   map[string]bool // read records whose condition fails to evaluate
	mayDLQ     map[string]bool // read records with a legitimate reason to be dead-lettered (see e2e clause)
	dlqWrites  map[string]int  // dead-letter records written per read record
	nilCalls   map[string]int  // proc + "|" + root -> Process calls that contained the nil-forever record
	maxBatch   int
	log        []string

	sharedStages []string
	branches     []branchStages

	calls   atomic.Int64
	inCall  atomic.Int64
	runaway atomic.Bool
	inRead  atomic.Bool
	idle    chan struct{}
}

type branchStages struct {
	proc string // "" if none
	dest string
}

const maxFakeCalls = 50_000

func newWorld(c FCase, avoid map[string]bool) *world {
	return &world{c: c, avoid: avoid, outcomes: map[string]map[string]outcome{}, said: map[string]map[string]int{},
		dlqOK: map[string]bool{}, emptyRoot: map[string]bool{}, dupRoot: map[string]bool{}, failRoot: map[string]bool{}, mayDLQ: map[string]bool{}, dlqWrites: map[string]int{}, firedSet: map[string]bool{}, excluded: map[string]bool{}, nilCalls: map[string]int{},
		idle: make(chan struct{}, 1)}
}

// enter is called at the start of every fake call.
func (w *world) enter() {
	w.inCall.Add(1)
	if w.calls.Add(1) > maxFakeCalls {
		w.runaway.Store(true)
	}
}
func (w *world) leave() { w.inCall.Add(-1) }

func (w *world) fire(shape string) {
	w.mu.Lock()
	w.fireLocked(shape)
	w.mu.Unlock()
}

func (w *world) fireLocked(shape string) {
	w.fired = append(w.fired, shape)
	w.firedSet[shape] = true
}

func (w *world) logf(format string, a ...any) {
	w.mu.Lock()
	if len(w.log) < 400 {
		w.log = append(w.log, fmt.Sprintf(format, a...))
	}
	w.mu.Unlock()
}

// avoids reports whether shape must not be produced (a known finding is keyed on it);
// the exclusion is remembered so that it can be counted.
func (w *world) avoids(shape string) bool {
	if !w.avoid[shape] {
		return false
	}
	w.mu.Lock()
	w.excluded[shape] = true
	w.mu.Unlock()
	return true
}

// trigger is the hostile shape fired last (benign if no hostile one fired).
func (w *world) trigger() string {
	w.mu.Lock()
	defer w.mu.Unlock()
	return w.triggerLocked()
}

func (w *world) triggerLocked() string { return triggerOf(w.fired) }

func triggerOf(fired []string) string {
	for i := len(fired) - 1; i >= 0; i-- {
		if !benignShapes[fired[i]] {
			return fired[i]
		}
	}
	if len(fired) > 0 {
		return fired[len(fired)-1]
	}
	return shNone
}

func (w *world) rootKind(r opencdc.Record) (empty, dup bool) {
	w.mu.Lock()
	defer w.mu.Unlock()
	root := rootOf(recID(r))
	return w.emptyRoot[root], w.dupRoot[root]
}

func (w *world) violateLocked(key, detail string) {
	w.violations = append(w.violations, violation{key, detail})
}

// ---- accounting: may the engine acknowledge read record id to the source? ----

const (
	rsOK = iota
	rsRefused
	rsPending
)

func (w *world) resolveLocked(piece string, stages []string, dest string) (int, string) {
	if len(stages) == 0 {
		switch w.said[dest][piece] {
		case 1:
			return rsOK, ""
		case 2:
			return rsRefused, piece + " refused by " + dest
		}
		return rsPending, piece + " not confirmed by " + dest
	}
	o, ok := w.outcomes[stages[0]][piece]
	if !ok {
		return rsPending, piece + " has no result from " + stages[0]
	}
	switch o.kind {
	case oPass:
		return w.resolveLocked(piece, stages[1:], dest)
	case oFilter:
		return rsOK, ""
	case oError:
		return rsRefused, piece + " errored by " + stages[0]
	case oSplit:
		worst, why := rsOK, ""
		for _, ch := range o.children {
			s, y := w.resolveLocked(ch, stages[1:], dest)
			if s > worst {
				worst, why = s, y
			}
		}
		return worst, why
	}
	return rsPending, "?"
}

// ackableLocked: the record was confirmed by every destination, or filtered, or its
// dead-letter record was confirmed by the DLQ.
func (w *world) ackableLocked(id string) (bool, string, string) {
	if w.dlqOK[id] {
		return true, "", ""
	}
	for _, b := range w.branches {
		stages := append([]string(nil), w.sharedStages...)
		if b.proc != "" {
			stages = append(stages, b.proc)
		}
		s, why := w.resolveLocked(id, stages, b.dest)
		switch s {
		case rsRefused:
			return false, "refused-not-dlqd", why
		case rsPending:
			return false, "unconfirmed", why
		}
	}
	return true, "", ""
}

// ---- source ----

type fakeSource struct {
	w                   *world
	readCalls, ackCalls int
	nextBatch           int
}

func (s *fakeSource) ID() string           { return "src" }
func (s *fakeSource) Errors() <-chan error { return nil }

func (s *fakeSource) Open(context.Context) error {
	s.w.enter()
	defer s.w.leave()
	if s.w.c.SrcOpenErr && !s.w.avoids("src-"+shErrOpen) {
		s.w.fire("src-" + shErrOpen)
		return errInjected
	}
	return nil
}

func (s *fakeSource) Teardown(context.Context) error {
	s.w.enter()
	defer s.w.leave()
	if s.w.c.SrcTeardownErr && !s.w.avoids("src-"+shErrTeardown) {
		s.w.fire("src-" + shErrTeardown)
		return errInjected
	}
	return nil
}

func (s *fakeSource) Read(ctx context.Context) ([]opencdc.Record, error) {
	w := s.w
	w.enter()
	call := s.readCalls
	s.readCalls++
	if w.runaway.Load() {
		w.leave()
		return nil, errInjected
	}
	if call == w.c.ReadErrAt && !w.avoids("src-"+shErrRead) {
		w.fire("src-" + shErrRead)
		w.leave()
		return nil, errInjected
	}
	if s.nextBatch < len(w.c.Batches) {
		defer w.leave()
		specs := w.c.Batches[s.nextBatch]
		s.nextBatch++
		w.mu.Lock()
		defer w.mu.Unlock()
		recs := make([]opencdc.Record, len(specs))
		for i, rs := range specs {
			k := len(w.reads)
			pos := []byte("p" + strconv.Itoa(k))
			switch rs.Pos {
			case 1:
				if w.avoid[shSrcEmptyPos] {
					w.excluded[shSrcEmptyPos] = true
				} else {
					pos = nil
				}
			case 2:
				if i > 0 {
					if w.avoid[shSrcDupPos] {
						w.excluded[shSrcDupPos] = true
					} else {
						pos = append([]byte(nil), recs[i-1].Position...)
					}
				}
			}
			if len(pos) == 0 {
				w.fireLocked(shSrcEmptyPos)
				w.emptyRoot["r"+strconv.Itoa(k)] = true
			} else if rs.Pos == 2 && i > 0 && !w.avoid[shSrcDupPos] {
				w.fireLocked(shSrcDupPos)
				w.dupRoot["r"+strconv.Itoa(k)] = true
				w.dupRoot["r"+strconv.Itoa(k-1)] = true
			}
			recs[i] = mkRecord(k, pos, rs.M)
			if rs.C == 1 {
				recs[i].Metadata[metaCond] = condJunk
				w.failRoot["r"+strconv.Itoa(k)] = true
				w.fireLocked(shCondEvalFails)
				w.mayDLQ["r"+strconv.Itoa(k)] = true
			}
			w.reads = append(w.reads, readRec{id: recID(recs[i]), pos: pos})
		}
		if len(specs) == 0 {
			w.fireLocked(shSrcEmptyBatch)
		}
		if len(specs) > w.maxBatch {
			w.maxBatch = len(specs)
		}
		if len(w.log) < 400 {
			w.log = append(w.log, fmt.Sprintf("src.Read -> %d records", len(recs)))
		}
		return recs, nil
	}
	// nothing more to give: the worker is idle in Read (observable), until the context ends
	w.inRead.Store(true)
	w.leave()
	select {
	case w.idle <- struct{}{}:
	default:
	}
	<-ctx.Done()
	w.inRead.Store(false)
	return nil, ctx.Err()
}

func (s *fakeSource) Ack(_ context.Context, positions []opencdc.Position) error {
	w := s.w
	w.enter()
	defer w.leave()
	w.mu.Lock()
	defer w.mu.Unlock()
	call := s.ackCalls
	s.ackCalls++
	if len(w.log) < 400 {
		w.log = append(w.log, fmt.Sprintf("src.Ack(%q)", positions))
	}
	trig := w.triggerLocked()
	failing := call == w.c.SrcAckErrAt && !w.avoid["src-"+shErrAck]
	ptrBefore := w.ackPtr
	for _, p := range positions {
		if len(p) == 0 {
			w.violateLocked("C09/acked-empty-position/"+trig, "Source.Ack received an empty position")
		}
		if w.ackPtr >= len(w.reads) {
			w.violateLocked("C09/ack-not-prefix/"+trig, fmt.Sprintf("Source.Ack(%q): every read position was acknowledged before", p))
			continue
		}
		rd := w.reads[w.ackPtr]
		if !bytes.Equal(rd.pos, p) {
			w.violateLocked("C09/ack-not-prefix/"+trig,
				fmt.Sprintf("Source.Ack(%q) but the next unacknowledged read position is %q (record %s)", p, rd.pos, rd.id))
			// resynchronise on the first later read with this position, if any
			for j := w.ackPtr; j < len(w.reads); j++ {
				if bytes.Equal(w.reads[j].pos, p) {
					w.ackPtr = j + 1
					break
				}
			}
			continue
		}
		w.ackPtr++
		if ok, reason, why := w.ackableLocked(rd.id); !ok {
			w.violateLocked("C09/acked-affected/"+reason+"/"+trig,
				fmt.Sprintf("Source.Ack(%q) for record %s: %s", p, rd.id, why))
		}
	}
	if failing {
		// the acknowledgment did not take: the engine may present the same positions again
		w.ackPtr = ptrBefore
		w.fireLocked("src-" + shErrAck)
		return errInjected
	}
	return nil
}

// ---- processors ----

// scriptPlugin is the scripted sdk.Processor. It is used directly (behind procAdapter) or
// as the plugin of a real processor.RunnableProcessor.
type scriptPlugin struct {
	sdk.UnimplementedProcessor
	w     *world
	name  string
	sc    ProcScript
	calls int
	// full input of the surrounding RunnableProcessor.Process call (Real+Cond only), used to
	// recognise the known condition-short-output shape
	curFull []opencdc.Record
	lastIn  []opencdc.Record
	lastOut []sdk.ProcessedRecord
}

func (p *scriptPlugin) Specification() (sdk.Specification, error) {
	return sdk.Specification{Name: "p09-proc", Version: "v0"}, nil
}
func (p *scriptPlugin) Configure(context.Context, config.Config) error { return nil }

func (p *scriptPlugin) Open(context.Context) error {
	p.w.enter()
	defer p.w.leave()
	if p.sc.OpenErr && !p.w.avoids(shErrProcOpen) {
		p.w.fire(shErrProcOpen)
		return errInjected
	}
	return nil
}

func (p *scriptPlugin) Teardown(context.Context) error {
	p.w.enter()
	defer p.w.leave()
	if p.sc.TeardownErr && !p.w.avoids(shErrProcClose) {
		p.w.fire(shErrProcClose)
		return errInjected
	}
	return nil
}

var kindShape = map[int]string{KFilter: shProcFilter, KError: shProcError, KMulti0: shProcMulti0, KMulti1: shProcMulti1,
	KMulti3: shProcSplit, KNil: shProcNil, KChangePos: shProcChangePos, KEmptyPos: shProcEmptyPos, KErrorNil: shProcErrorNil}

func (p *scriptPlugin) Process(_ context.Context, recs []opencdc.Record) []sdk.ProcessedRecord {
	w := p.w
	w.enter()
	defer w.leave()
	call := p.calls
	p.calls++
	k := len(recs)
	if w.runaway.Load() {
		out := make([]sdk.ProcessedRecord, k)
		for i := range out {
			out[i] = sdk.ErrorRecord{Error: errInjected}
		}
		return out
	}
	shape := CallShape{}
	if call < len(p.sc.Calls) {
		shape = p.sc.Calls[call]
	}
	outLen := max(k+shape.Delta, 0)
	if shape.Zero {
		outLen = 0
	}
	switch {
	case outLen > k && w.avoids(shProcLong), outLen == 0 && k > 0 && w.avoids(shProcZero), outLen > 0 && outLen < k && w.avoids(shProcShort):
		outLen = k
	}
	if p.sc.Real && p.sc.Cond && p.curFull != nil {
		pattern, fails := patternOf(p.curFull)
		if condShapeClass(pattern[:firstFail(pattern, fails)], outLen) == clsShortInner {
			if w.avoids(shCondShort) {
				outLen = k
			} else {
				w.fire(shCondShort)
			}
		}
	}
	kinds := make([]int, outLen)
	for j := range kinds {
		kind := KSingle
		if len(shape.Kinds) > 0 {
			kind = shape.Kinds[j%len(shape.Kinds)]
		}
		if s, ok := kindShape[kind]; ok && w.avoids(s) {
			kind = KSingle
		}
		if kind == KMulti3 && j < k {
			empty, dup := w.rootKind(recs[j])
			if (empty && w.avoids(shSplitEmptyPos)) || (dup && w.avoids(shSplitDupPos)) {
				kind = KSingle
			}
		}
		if j < k && p.nilForever(recs[j]) && !w.avoids(shProcNilForever) {
			kind = KNil // fired (and counted) by recProc when the nil really reaches the engine
		}
		kinds[j] = kind
	}
	// ground truth for the end-to-end clause: which records does the plugin itself fail?
	w.mu.Lock()
	for j, kind := range kinds {
		if j < k && (kind == KError || kind == KErrorNil) {
			w.mayDLQ[rootOf(recID(recs[j]))] = true
		}
	}
	if outLen > k && p.sc.Real && p.sc.Cond && len(p.curFull) > 0 {
		// documented: a longer output is replaced by ONE ErrorRecord, i.e. the first record of the call fails
		w.mayDLQ[rootOf(recID(p.curFull[0]))] = true
	}
	w.mu.Unlock()
	p.lastIn = append([]opencdc.Record(nil), recs...)
	p.lastOut = buildOutput(kinds, recs, shape.CapExtra, p.name)
	return p.lastOut
}

// patternOf reads match bits and evaluation failures off the records' metadata.
func patternOf(recs []opencdc.Record) (pattern, fails []int) {
	pattern, fails = make([]int, len(recs)), make([]int, len(recs))
	for i, r := range recs {
		if r.Metadata[metaMatch] == "1" {
			pattern[i] = 1
		}
		if r.Metadata[metaCond] == condJunk {
			fails[i] = 1
		}
	}
	return pattern, fails
}

func (p *scriptPlugin) nilForever(r opencdc.Record) bool {
	if len(p.sc.NilForever) == 0 {
		return false
	}
	root := rootOf(recID(r))
	for _, k := range p.sc.NilForever {
		if root == "r"+strconv.Itoa(k) {
			return true
		}
	}
	return false
}

// procAdapter runs a scriptPlugin as a funnel.Processor without the processor package.
type procAdapter struct{ p *scriptPlugin }

func (a procAdapter) Open(ctx context.Context) error     { return a.p.Open(ctx) }
func (a procAdapter) Teardown(ctx context.Context) error { return a.p.Teardown(ctx) }
func (a procAdapter) Process(ctx context.Context, recs []opencdc.Record) []sdk.ProcessedRecord {
	return a.p.Process(ctx, recs)
}

// recProc wraps the funnel.Processor of one stage and records, from what the engine is
// actually handed, the shapes fired and the per-record outcome (result j belongs to input j).
type recProc struct {
	w      *world
	name   string
	inner  funnel.Processor
	plugin *scriptPlugin
}

func (r *recProc) Open(ctx context.Context) error     { return r.inner.Open(ctx) }
func (r *recProc) Teardown(ctx context.Context) error { return r.inner.Teardown(ctx) }

func (r *recProc) Process(ctx context.Context, recs []opencdc.Record) []sdk.ProcessedRecord {
	ids := make([]string, len(recs))
	for i, rec := range recs {
		ids[i] = recID(rec)
	}
	var orig []opencdc.Record
	if r.plugin.sc.Real {
		orig = make([]opencdc.Record, len(recs))
		for i := range recs {
			orig[i] = recs[i].Clone()
		}
	}
	callsBefore := r.plugin.calls
	r.plugin.curFull = recs
	out := r.inner.Process(ctx, recs)
	r.plugin.curFull = nil
	if r.plugin.sc.Real && !r.w.runaway.Load() {
		// the reference merge of TestC09Conditional, applied to every call the worker makes
		pattern, fails := patternOf(orig)
		if key, detail := refMerge(mergeObs{cond: r.plugin.sc.Cond, pattern: pattern, fail: fails, orig: orig, res: out,
			plugCalls: r.plugin.calls - callsBefore, plugIn: r.plugin.lastIn, plugOut: r.plugin.lastOut}); key != "" {
			r.w.mu.Lock()
			r.w.violateLocked(key, "in the worker, "+r.name+".Process("+strings.Join(ids, " ")+"): "+detail)
			r.w.mu.Unlock()
		}
	}

	w := r.w
	w.mu.Lock()
	defer w.mu.Unlock()
	if w.runaway.Load() {
		return out
	}
	st := w.outcomes[r.name]
	if st == nil {
		st = map[string]outcome{}
		w.outcomes[r.name] = st
	}
	kinds := make([]string, len(out))
	for j, o := range out {
		kinds[j] = kindOfResult(o)
		if j >= len(recs) {
			continue
		}
		if o != nil && w.firedSet[shProcNilForever] && r.plugin.nilForever(recs[j]) {
			w.fireLocked(shNilForeverOverridden)
		}
		switch x := o.(type) {
		case nil:
			if r.plugin.nilForever(recs[j]) && !w.avoid[shProcNilForever] {
				w.fireLocked(shProcNilForever)
				w.nilCalls[r.name+"|"+rootOf(ids[j])]++
			} else {
				w.fireLocked(shProcNil)
			}
		case sdk.SingleRecord:
			st[ids[j]] = outcome{kind: oPass}
			switch {
			case len(x.Position) == 0 && len(recs[j].Position) != 0:
				w.fireLocked(shProcEmptyPos)
			case !bytes.Equal(x.Position, recs[j].Position):
				w.fireLocked(shProcChangePos)
			}
		case sdk.FilterRecord:
			st[ids[j]] = outcome{kind: oFilter}
			w.fireLocked(shProcFilter)
		case sdk.ErrorRecord:
			st[ids[j]] = outcome{kind: oError}
			if x.Error == nil {
				w.fireLocked(shProcErrorNil)
			} else {
				w.fireLocked(shProcError)
			}
		case sdk.MultiRecord:
			switch len(x) {
			case 0:
				st[ids[j]] = outcome{kind: oFilter}
				w.fireLocked(shProcMulti0)
			case 1:
				st[ids[j]] = outcome{kind: oPass}
				w.fireLocked(shProcMulti1)
			default:
				ch := make([]string, len(x))
				for i, c := range x {
					ch[i] = recID(c)
				}
				st[ids[j]] = outcome{kind: oSplit, children: ch}
				w.fireLocked(shProcSplit)
				if w.emptyRoot[rootOf(ids[j])] {
					w.fireLocked(shSplitEmptyPos)
				}
				if w.dupRoot[rootOf(ids[j])] {
					w.fireLocked(shSplitDupPos)
				}
			}
		}
	}
	switch {
	case len(out) == 0 && len(recs) > 0:
		w.fireLocked(shProcZero)
	case len(out) < len(recs):
		w.fireLocked(shProcShort)
	case len(out) > len(recs):
		w.fireLocked(shProcLong)
	}
	if len(w.log) < 400 {
		w.log = append(w.log, fmt.Sprintf("%s.Process(%v) -> %v", r.name, ids, kinds))
	}
	return out
}

// ---- destinations (also the DLQ) ----

type pend struct {
	piece string
	pos   []byte
}

type fakeDest struct {
	w       *world
	name    string
	role    string // "dst" or "dlq"
	sc      DestScript
	pending []pend
	ptr     int
	writes  int
	acks    int
	errNext bool
}

func (d *fakeDest) ID() string           { return d.name }
func (d *fakeDest) Errors() <-chan error { return nil }

func (d *fakeDest) Open(context.Context) error {
	d.w.enter()
	defer d.w.leave()
	if d.sc.OpenErr && !d.w.avoids(d.role+"-"+shErrOpen) {
		d.w.fire(d.role + "-" + shErrOpen)
		return errInjected
	}
	return nil
}

func (d *fakeDest) Teardown(context.Context) error {
	d.w.enter()
	defer d.w.leave()
	if d.sc.TeardownErr && !d.w.avoids(d.role+"-"+shErrTeardown) {
		d.w.fire(d.role + "-" + shErrTeardown)
		return errInjected
	}
	return nil
}

func dlqRootID(r opencdc.Record) string {
	sd, ok := r.Payload.After.(opencdc.StructuredData)
	if !ok {
		return ""
	}
	md, ok := sd["metadata"].(map[string]any)
	if !ok {
		return ""
	}
	id, _ := md[metaID].(string)
	return rootOf(id)
}

// checkDeadLetter is the end-to-end clause of TestC09ConditionalInWorker, judged when the engine
// writes a dead-letter record: every source record gets one outcome (at most one dead-letter
// record), only a record with a reason of its own is dead-lettered (its condition fails, the plugin
// failed it, the documented long-output error hit it, a destination refused it), and a condition
// error is only ever reported for the record whose condition fails.
func (w *world) checkDeadLetter(root string, r opencdc.Record) {
	w.mu.Lock()
	defer w.mu.Unlock()
	trig := w.triggerLocked()
	w.dlqWrites[root]++
	if w.dlqWrites[root] > 1 {
		w.violateLocked("C09/e2e/dead-lettered-twice/"+trig, fmt.Sprintf("record %s is written to the DLQ for the %d. time", root, w.dlqWrites[root]))
	}
	nackErr, _ := r.Metadata.GetConduitDLQNackError()
	if strings.Contains(nackErr, "failed evaluating condition") && !w.failRoot[root] {
		w.violateLocked("C09/e2e/condition-error-on-wrong-record/"+trig,
			fmt.Sprintf("record %s (its condition evaluates fine) is dead-lettered with another record's condition error: %s", root, nackErr))
	} else if !w.mayDLQ[root] {
		w.violateLocked("C09/e2e/healthy-record-dead-lettered/"+trig,
			fmt.Sprintf("record %s is dead-lettered (%s) although neither its condition, the plugin nor a destination failed it", root, nackErr))
	}
}

func (d *fakeDest) Write(_ context.Context, recs []opencdc.Record) error {
	w := d.w
	w.enter()
	defer w.leave()
	call := d.writes
	d.writes++
	if w.runaway.Load() {
		return errInjected
	}
	if call == d.sc.WriteErrAt && !w.avoids(d.role+"-"+shErrWrite) {
		w.fire(d.role + "-" + shErrWrite)
		return errInjected
	}
	ids := make([]string, len(recs))
	for i, r := range recs {
		id := recID(r)
		if d.role == "dlq" {
			id = dlqRootID(r)
			if w.c.Test == "inworker" {
				w.checkDeadLetter(id, r)
			}
		}
		ids[i] = id
		d.pending = append(d.pending, pend{piece: id, pos: append([]byte(nil), r.Position...)})
	}
	w.logf("%s.Write(%v)", d.name, ids)
	return nil
}

func (d *fakeDest) Ack(context.Context) ([]connector.DestinationAck, error) {
	w := d.w
	w.enter()
	defer w.leave()
	call := d.acks
	d.acks++
	sh := func(s string) string { return d.role + "-" + s }
	if w.runaway.Load() {
		return nil, errInjected
	}
	if d.errNext || (call == d.sc.AckErrAt && !w.avoids(sh(shErrAck))) {
		w.fire(sh(shErrAck))
		return nil, errInjected
	}
	rem := d.pending[d.ptr:]
	if len(rem) == 0 {
		w.logf("%s.Ack with nothing outstanding", d.name)
		return nil, nil
	}
	shape := AckShape{Kind: AAll}
	if call < len(d.sc.Acks) {
		shape = d.sc.Acks[call]
	}
	mk := func(p pend, err error) connector.DestinationAck {
		return connector.DestinationAck{Position: append(opencdc.Position(nil), p.pos...), Error: err}
	}
	// entries: acks[i] derived from rem[from[i]] (from -1: derived from nothing)
	var acks []connector.DestinationAck
	var from []int
	all := func() {
		for i, p := range rem {
			acks = append(acks, mk(p, nil))
			from = append(from, i)
		}
	}
	fired := ""
	consumed := 0
	kind := shape.Kind
	switch kind {
	case APartial:
		if len(rem) < 2 || w.avoids(sh(shAckPartial)) {
			kind = AAll
		}
	case ANack:
		if w.avoids(sh(shAckNack)) {
			kind = AAll
		}
	case AWrongPos:
		if w.avoids(sh(shAckWrongPos)) {
			kind = AAll
		}
	case ASurplus:
		if w.avoids(sh(shAckSurplus)) {
			kind = AAll
		}
	case AOutOfOrder:
		differs := false
		for i := range rem {
			if !bytes.Equal(rem[i].pos, rem[len(rem)-1-i].pos) {
				differs = true
			}
		}
		if !differs || w.avoids(sh(shAckOOO)) {
			kind = AAll
		}
	case AEmpty:
		if w.avoids(sh(shAckEmpty)) {
			kind = AAll
		}
	case AShortThenError:
		if len(rem) < 2 || w.avoids(sh(shAckShortErr)) {
			kind = AAll
		}
	}
	switch kind {
	case APartial:
		n := 1 + shape.K%(len(rem)-1)
		for i := 0; i < n; i++ {
			acks = append(acks, mk(rem[i], nil))
			from = append(from, i)
		}
		consumed = n
		fired = shAckPartial
	case ANack:
		all()
		acks[shape.K%len(rem)].Error = errRejected
		consumed = len(rem)
		fired = shAckNack
	case AWrongPos:
		all()
		i := shape.K % len(rem)
		acks[i].Position = opencdc.Position("bogus-" + strconv.Itoa(call))
		from[i] = -1
		consumed = len(rem)
		fired = shAckWrongPos
	case ASurplus:
		all()
		acks = append(acks, connector.DestinationAck{Position: opencdc.Position("extra-" + strconv.Itoa(call))})
		from = append(from, -1)
		consumed = len(rem)
		fired = shAckSurplus
	case AOutOfOrder:
		for i := len(rem) - 1; i >= 0; i-- {
			acks = append(acks, mk(rem[i], nil))
			from = append(from, i)
		}
		if shape.K%2 == 1 { // one of them refused: a misattribution would acknowledge the wrong record
			acks[0].Error = errRejected
		}
		consumed = len(rem)
		fired = shAckOOO
	case AEmpty:
		fired = shAckEmpty
	case AShortThenError:
		n := 1 + shape.K%(len(rem)-1)
		for i := 0; i < n; i++ {
			acks = append(acks, mk(rem[i], nil))
			from = append(from, i)
		}
		consumed = n
		d.errNext = true
		fired = shAckShortErr
	default:
		all()
		consumed = len(rem)
	}
	w.mu.Lock()
	if fired != "" {
		w.fireLocked(sh(fired))
	}
	for i, a := range acks {
		if from[i] < 0 {
			continue
		}
		piece := rem[from[i]].piece
		if d.role == "dlq" {
			if a.Error == nil {
				w.dlqOK[piece] = true
			}
			continue
		}
		m := w.said[d.name]
		if m == nil {
			m = map[string]int{}
			w.said[d.name] = m
		}
		if a.Error == nil {
			m[piece] = 1
		} else {
			m[piece] = 2
			w.mayDLQ[rootOf(piece)] = true
		}
	}
	if len(w.log) < 400 {
		pos := make([]string, len(acks))
		for i, a := range acks {
			pos[i] = string(a.Position)
			if a.Error != nil {
				pos[i] += "!"
			}
		}
		w.log = append(w.log, fmt.Sprintf("%s.Ack -> %v", d.name, pos))
	}
	w.mu.Unlock()
	d.ptr += consumed
	return acks, nil
}

func sortedKeys(m map[string]bool) []string {
	out := make([]string, 0, len(m))
	for k := range m {
		out = append(out, k)
	}
	sort.Strings(out)
	return out
}

func joinLog(l []string, n int) string {
	if len(l) > n {
		l = l[len(l)-n:]
	}
	return strings.Join(l, "\n  ")
}
