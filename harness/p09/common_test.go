// Package p09 holds the deterministic ("direct") part of the check for property C09:
// "No processor or connector reply shape can crash or wedge the engine".
//
// Hostile reply shapes are fed straight into the engine components
// (processor.RunnableProcessor, funnel.Worker) from scripted fakes; every call of a fake
// returns immediately, so panics, hangs and wrong acknowledgments are attributable to the
// engine alone.
package p09

import (
	"bytes"
	"errors"
	"fmt"
	"runtime/debug"
	"strconv"
	"strings"

	"github.com/conduitio/conduit-commons/opencdc"
	sdk "github.com/conduitio/conduit-processor-sdk"
	"github.com/sourcegraph/conc/panics"
)

const prop = "C09"

// ---- result kinds a scripted processor plugin can return for one input record ----

const (
	KSingle    = iota // SingleRecord, payload rewritten
	KSame             // SingleRecord, record unchanged
	KFilter           // FilterRecord
	KError            // ErrorRecord with an error
	KMulti0           // MultiRecord{} (documented: filter)
	KMulti1           // MultiRecord{one record} (documented: not split)
	KMulti3           // MultiRecord{three records} (split)
	KNil              // nil entry (documented: "not processed", retried)
	KChangePos        // SingleRecord with a different Position
	KEmptyPos         // SingleRecord with an empty Position
	KErrorNil         // ErrorRecord{Error: nil}
	kindCount
)

var kindNames = [...]string{"single", "same", "filter", "error", "multi0", "multi1", "multi3", "nil", "changepos", "emptypos", "error-nil"}

const (
	metaID    = "id"  // piece identity: "r<k>" for the k-th record read, children "r<k>.<i>"
	metaMatch = "m"   // "1" = the condition matches
	metaOut   = "out" // index of the plugin result this record was produced for
	metaCond  = "c"   // condJunk = the condition of a conditional processor fails to evaluate for this record
	condJunk  = "junk"
	// the condition renders "true"/"false" from m, or something that is not a boolean
	condTmpl = `{{ if eq (index .Metadata "c") "junk" }}notabool{{ else }}{{ eq (index .Metadata "m") "1" }}{{ end }}`
)

var errRejected = errors.New("p09: processor rejects the record")

// mkRecord builds the k-th source record.
func mkRecord(k int, pos []byte, match int) opencdc.Record {
	return opencdc.Record{
		Position:  opencdc.Position(pos),
		Operation: opencdc.OperationCreate,
		Metadata:  opencdc.Metadata{metaID: "r" + strconv.Itoa(k), metaMatch: strconv.Itoa(match)},
		Key:       opencdc.RawData("k" + strconv.Itoa(k)),
		Payload:   opencdc.Change{After: opencdc.RawData("v" + strconv.Itoa(k))},
	}
}

func recID(r opencdc.Record) string { return r.Metadata[metaID] }

func rootOf(id string) string {
	if i := strings.IndexByte(id, '.'); i >= 0 {
		return id[:i]
	}
	return id
}

// mkResult builds the plugin result of the given kind for input record in; j is the
// index of the result in the plugin output, who names the processor.
func mkResult(kind int, in opencdc.Record, j int, who string) sdk.ProcessedRecord {
	derive := func() opencdc.Record {
		c := in.Clone()
		if c.Metadata == nil {
			c.Metadata = opencdc.Metadata{}
		}
		c.Metadata[metaOut] = strconv.Itoa(j)
		return c
	}
	switch kind {
	case KSingle:
		c := derive()
		c.Payload.After = opencdc.RawData("by-" + who)
		return sdk.SingleRecord(c)
	case KSame:
		return sdk.SingleRecord(in.Clone())
	case KFilter:
		return sdk.FilterRecord{}
	case KError:
		return sdk.ErrorRecord{Error: errRejected}
	case KMulti0:
		return sdk.MultiRecord{}
	case KMulti1:
		return sdk.MultiRecord{derive()}
	case KMulti3:
		m := make(sdk.MultiRecord, 3)
		for i := range m {
			c := derive()
			c.Metadata[metaID] = recID(in) + "." + strconv.Itoa(i)
			m[i] = c
		}
		return m
	case KNil:
		return nil
	case KChangePos:
		c := derive()
		c.Position = opencdc.Position("chg-" + string(in.Position))
		return sdk.SingleRecord(c)
	case KEmptyPos:
		c := derive()
		c.Position = nil
		return sdk.SingleRecord(c)
	case KErrorNil:
		return sdk.ErrorRecord{}
	}
	return sdk.SingleRecord(in.Clone())
}

// sameResult reports whether the engine handed back exactly the plugin's result.
func sameResult(a, b sdk.ProcessedRecord) bool {
	switch x := a.(type) {
	case nil:
		return b == nil
	case sdk.SingleRecord:
		y, ok := b.(sdk.SingleRecord)
		return ok && sameRecord(opencdc.Record(x), opencdc.Record(y))
	case sdk.FilterRecord:
		_, ok := b.(sdk.FilterRecord)
		return ok
	case sdk.ErrorRecord:
		y, ok := b.(sdk.ErrorRecord)
		return ok && x.Error == y.Error
	case sdk.MultiRecord:
		y, ok := b.(sdk.MultiRecord)
		if !ok || len(x) != len(y) {
			return false
		}
		for i := range x {
			if !sameRecord(x[i], y[i]) {
				return false
			}
		}
		return true
	}
	return false
}

func sameRecord(a, b opencdc.Record) bool {
	if !bytes.Equal(a.Position, b.Position) || a.Operation != b.Operation || len(a.Metadata) != len(b.Metadata) {
		return false
	}
	for k, v := range a.Metadata {
		if w, ok := b.Metadata[k]; !ok || w != v {
			return false
		}
	}
	return bytes.Equal(dataBytes(a.Key), dataBytes(b.Key)) &&
		bytes.Equal(dataBytes(a.Payload.Before), dataBytes(b.Payload.Before)) &&
		bytes.Equal(dataBytes(a.Payload.After), dataBytes(b.Payload.After))
}

func dataBytes(d opencdc.Data) []byte {
	if d == nil {
		return nil
	}
	return d.Bytes()
}

func kindOfResult(r sdk.ProcessedRecord) string {
	switch x := r.(type) {
	case nil:
		return "nil"
	case sdk.SingleRecord:
		return "single"
	case sdk.FilterRecord:
		return "filter"
	case sdk.ErrorRecord:
		if x.Error == nil {
			return "error-nil"
		}
		return "error"
	case sdk.MultiRecord:
		return "multi" + strconv.Itoa(len(x))
	}
	return fmt.Sprintf("%T", r)
}

// ---- panic sites (closed vocabulary) ----

var siteVocabulary = []struct{ suffix, site string }{
	{"/pkg/lifecycle-poc/funnel/batch.go", "funnel/batch.go"},
	{"/pkg/lifecycle-poc/funnel/processor.go", "funnel/processor.go"},
	{"/pkg/lifecycle-poc/funnel/worker.go", "funnel/worker.go"},
	{"/pkg/lifecycle-poc/funnel/destination.go", "funnel/destination.go"},
	{"/pkg/lifecycle-poc/funnel/dlq.go", "funnel/dlq.go"},
	{"/pkg/lifecycle-poc/funnel/run_ledger.go", "funnel/run_ledger.go"},
	{"/pkg/lifecycle-poc/funnel/source.go", "funnel/source.go"},
	{"/pkg/processor/runnable_processor.go", "processor/runnable_processor.go"},
}

const (
	siteOther   = "other"
	siteHarness = "harness" // a panic raised by this package's own code: a bug of the check, never a finding
)

func allSites() []string {
	out := make([]string, 0, len(siteVocabulary)+1)
	for _, s := range siteVocabulary {
		out = append(out, s.site)
	}
	return append(out, siteOther)
}

// panicStack returns the stack that belongs to a recovered panic value. Must be called
// from the deferred function that recovered it. A panic on a fan-out branch is caught by
// conc's pool and re-raised on the goroutine that calls Wait: the original stack travels
// inside the *panics.Recovered value.
func panicStack(r any) string {
	if rec, ok := r.(*panics.Recovered); ok && rec != nil {
		return string(rec.Stack)
	}
	return string(debug.Stack())
}

// panicSite maps a stack to the file of the top-most conduit frame below the panic.
func panicSite(stack string) string {
	lines := strings.Split(stack, "\n")
	start := 0
	for i, l := range lines {
		if strings.HasPrefix(l, "panic(") {
			start = i + 2
			break
		}
	}
	for _, l := range lines[min(start, len(lines)):] {
		if !strings.HasPrefix(l, "\t") {
			continue
		}
		file := strings.TrimSpace(l)
		if i := strings.LastIndex(file, ":"); i >= 0 {
			file = file[:i]
		}
		if strings.Contains(file, "/src/runtime/") {
			continue
		}
		if strings.Contains(file, "/harness/p09/") {
			return siteHarness
		}
		for _, s := range siteVocabulary {
			if strings.HasSuffix(file, s.suffix) {
				return s.site
			}
		}
		if strings.Contains(file, "/pkg/") && !strings.Contains(file, "/pkg/mod/") {
			return siteOther // some other conduit file
		}
		// third-party or standard library frame between the panic and conduit: keep looking
	}
	return siteOther
}

func trimStack(s string, n int) string {
	lines := strings.Split(s, "\n")
	if len(lines) > n {
		lines = lines[:n]
	}
	return strings.Join(lines, "\n")
}
