package p09

import (
	"context"
	"errors"
	"fmt"
	"runtime"
	"strconv"
	"strings"
	"testing"
	"time"

	"github.com/conduitio/conduit/pkg/foundation/cerrors"
	"github.com/conduitio/conduit/pkg/foundation/cerrors/conduiterr"
	"github.com/conduitio/conduit/pkg/foundation/log"
	"github.com/conduitio/conduit/pkg/foundation/metrics/noop"
	"github.com/conduitio/conduit/pkg/lifecycle-poc/funnel"
	"pgregory.net/rapid"
	"verifharness/pbt"
)

const (
	keyCondShortInWorker = keyCondShortPanic + "/in-worker"
	// bounded quiescence: every fake call returns immediately, so Worker.Do must have
	// returned or be idle in Source.Read long before this (a timeout is inconclusive, not red)
	quiescenceBound = 10 * time.Second
	// documented: a true fixpoint fails within maxRetryStall+1 Task.Do calls; a round in which the
	// retry group shrinks resets the stall counter, and a group of n records can shrink at most n-1
	// times, so a never-answered record is handed over at most 1 + maxRetryStall*n times
	maxRetryStall = 3
)

type panicInfo struct {
	val   string
	stack string
	site  string
}

func guard(f func()) (p *panicInfo) {
	defer func() {
		if v := recover(); v != nil {
			st := panicStack(v)
			p = &panicInfo{val: fmt.Sprint(v), stack: st, site: panicSite(st)}
		}
	}()
	f()
	return nil
}

type runResult struct {
	w                        *world
	setupErr                 error
	openErr, doErr, closeErr error
	openP, doP, closeP       *panicInfo
	ranDo, idle, returned    bool
	firedDo                  []string // shapes fired until Worker.Do ended (or went idle)
	hangSite                 string
	inconclusive             string
	acked, read              int
}

// buildWorker wires source -> shared processors -> (fan-out) -> [branch processor] -> destination.
func buildWorker(ctx context.Context, w *world) (*funnel.Worker, error) {
	c := w.c
	logger := log.Nop()
	mkProc := func(name string, ps ProcScript) (funnel.Task, error) {
		plug := &scriptPlugin{w: w, name: name, sc: ps}
		var inner funnel.Processor = procAdapter{p: plug}
		if ps.Real {
			rp, err := newRunnable(ctx, plug, ps.Cond)
			if err != nil {
				return nil, err
			}
			inner = rp
		}
		return funnel.NewProcessorTask(name, &recProc{w: w, name: name, inner: inner, plugin: plug}, logger, funnel.NoOpProcessorMetrics{}), nil
	}
	first := &funnel.TaskNode{Task: funnel.NewSourceTask("src", &fakeSource{w: w}, logger, funnel.NoOpConnectorMetrics{})}
	cur := first
	for i, ps := range c.Shared {
		name := "proc" + strconv.Itoa(i)
		task, err := mkProc(name, ps)
		if err != nil {
			return nil, err
		}
		w.sharedStages = append(w.sharedStages, name)
		n := &funnel.TaskNode{Task: task}
		cur.Next = []*funnel.TaskNode{n}
		cur = n
	}
	var heads []*funnel.TaskNode
	for b, bs := range c.Branches {
		dname := "dst" + strconv.Itoa(b)
		dn := &funnel.TaskNode{Task: funnel.NewDestinationTask(dname, &fakeDest{w: w, name: dname, role: "dst", sc: bs.Dest}, logger, funnel.NoOpConnectorMetrics{})}
		st := branchStages{dest: dname}
		head := dn
		if bs.Proc != nil {
			pname := "bproc" + strconv.Itoa(b)
			task, err := mkProc(pname, *bs.Proc)
			if err != nil {
				return nil, err
			}
			st.proc = pname
			head = &funnel.TaskNode{Task: task, Next: []*funnel.TaskNode{dn}}
		}
		w.branches = append(w.branches, st)
		heads = append(heads, head)
	}
	cur.Next = heads
	dlq := funnel.NewDLQ("dlq", &fakeDest{w: w, name: "dlq", role: "dlq", sc: c.DLQ}, logger, funnel.NoOpConnectorMetrics{}, c.DLQWindow, c.DLQThreshold)
	return funnel.NewWorker(first, dlq, logger, noop.Timer{})
}

func runFunnel(c FCase) *runResult {
	w := newWorld(c, c.avoidMap())
	r := &runResult{w: w}
	ctx, cancel := context.WithCancel(context.Background())
	defer cancel()
	worker, err := buildWorker(ctx, w)
	if err != nil {
		r.setupErr = err
		return r
	}
	r.openP = guard(func() { r.openErr = worker.Open(ctx) })
	if r.openP != nil || r.openErr != nil {
		return r
	}
	r.ranDo = true
	done := make(chan struct{})
	go func() {
		defer close(done)
		// a panic here is a panic on the worker goroutine: in the real server nothing recovers it
		r.doP = guard(func() { r.doErr = worker.Do(ctx) })
	}()
	timer := time.NewTimer(quiescenceBound)
	defer timer.Stop()
	select {
	case <-done:
		r.returned = true
	case <-w.idle:
		r.idle = true
	case <-timer.C:
		r.hangSite, r.inconclusive = diagnoseStall(w, done)
	}
	snapshot := func() {
		w.mu.Lock()
		r.acked, r.read = w.ackPtr, len(w.reads)
		r.firedDo = append([]string(nil), w.fired...)
		w.mu.Unlock()
	}
	snapshot()
	cancel()
	if !r.returned {
		t2 := time.NewTimer(quiescenceBound)
		select {
		case <-done:
			r.returned = true
		case <-t2.C:
			if r.hangSite == "" && r.inconclusive == "" {
				r.hangSite, r.inconclusive = diagnoseStall(w, done)
			}
		}
		t2.Stop()
	}
	if !r.returned {
		return r // the worker goroutine is stuck; do not touch the worker any more
	}
	cctx, ccancel := context.WithCancel(context.Background())
	r.closeP = guard(func() { r.closeErr = worker.Close(cctx) })
	ccancel()
	return r
}

// diagnoseStall decides between "hang" (positively observed: the worker neither returned
// nor sits in Source.Read and no fake is being called) and "inconclusive" (slow machine).
func diagnoseStall(w *world, done chan struct{}) (site, inconclusive string) {
	before := w.calls.Load()
	time.Sleep(300 * time.Millisecond)
	select {
	case <-done:
		return "", "worker returned only after the quiescence bound"
	default:
	}
	if w.inRead.Load() || w.inCall.Load() != 0 || w.calls.Load() != before {
		return "", "quiescence bound exceeded while fakes were still being called"
	}
	buf := make([]byte, 1<<20)
	buf = buf[:runtime.Stack(buf, true)]
	for _, g := range strings.Split(string(buf), "\n\n") {
		if strings.Contains(g, "funnel.(*Worker).Do(") {
			return panicSite(g), ""
		}
	}
	return siteOther, ""
}

func errCode(err error) string {
	if ce, ok := conduiterr.Get(err); ok {
		return ce.Code.Reason()
	}
	return ""
}

type facts struct {
	hostile      map[string]bool
	fatal        []string
	mayFail      bool
	nackRisk     bool
	split        bool
	anyProcShape bool
	fs           map[string]bool
}

func factsOf(c FCase, fired []string) facts {
	f := facts{hostile: map[string]bool{}, fs: map[string]bool{}}
	seenFatal := map[string]bool{}
	for _, s := range fired {
		f.fs[s] = true
		if !benignShapes[s] {
			f.hostile[s] = true
		}
		if fatalShapes[s] && !seenFatal[s] && !(s == shProcNilForever && contains(fired, shNilForeverOverridden)) {
			seenFatal[s] = true
			f.fatal = append(f.fatal, s)
		}
		if strings.HasPrefix(s, "proc-") {
			f.anyProcShape = true
		}
	}
	fs := f.fs
	f.split = fs[shProcSplit]
	f.nackRisk = c.DLQWindow > 0 && (fs[shProcError] || fs["dst-"+shAckNack] || fs[shProcErrorNil])
	// mayFail: shapes after which an error stop is an acceptable ("stops that pipeline with an error")
	// or even documented outcome: undocumented shapes (long output, ErrorRecord without error, empty
	// ack responses, duplicate positions), nacks while the DLQ window can overflow, and a split run
	// of which a later processor/destination resolves only a part (documented coded refusals
	// pipeline.empty_source_position / pipeline.split_run_straddles_fanout).
	f.mayFail = fs[shProcLong] || fs[shProcErrorNil] || fs[shSrcDupPos] || fs["dst-"+shAckEmpty] || fs["dlq-"+shAckEmpty] ||
		fs[shCondShort] || fs[shNilForeverOverridden] || fs[shSplitEmptyPos] || fs[shSplitDupPos] || f.nackRisk || (f.split && (fs[shProcShort] || fs[shProcNil] || fs[shProcNilForever] || fs[shProcError] || fs["dst-"+shAckNack]))
	return f
}

func contains(l []string, s string) bool {
	for _, x := range l {
		if x == s {
			return true
		}
	}
	return false
}

func subset(m map[string]bool, allowed ...string) bool {
	for k := range m {
		ok := false
		for _, a := range allowed {
			if k == a {
				ok = true
			}
		}
		if !ok {
			return false
		}
	}
	return true
}

// checkFunnel is the oracle. It returns the violations in order of severity.
func checkFunnel(c FCase, r *runResult) (out []violation, rules []string) {
	w := r.w
	w.mu.Lock()
	defer w.mu.Unlock()
	trig := triggerOf(r.firedDo)
	hist := "\n  " + joinLog(w.log, 40)
	// (a) no panic
	for _, ph := range []struct {
		name string
		p    *panicInfo
	}{{"open", r.openP}, {"do", r.doP}, {"close", r.closeP}} {
		if ph.p == nil {
			continue
		}
		if ph.p.site == siteHarness {
			return []violation{{"C09/harness-bug/panic", ph.p.val + "\n" + trimStack(ph.p.stack, 30)}}, nil
		}
		key := "C09/panic/" + ph.p.site + "/" + trig
		if ph.name != "do" {
			key += "/" + ph.name
		}
		if c.Test == "inworker" && trig == shCondShort && ph.p.site == "processor/runnable_processor.go" && ph.name == "do" {
			key = keyCondShortInWorker
		}
		out = append(out, violation{key, fmt.Sprintf("panic during Worker.%s at %s: %s\n%s\nhistory:%s", ph.name, ph.p.site, ph.p.val, trimStack(ph.p.stack, 22), hist)})
	}
	// (b) no hang
	if r.hangSite != "" {
		out = append(out, violation{"C09/hang/" + r.hangSite + "/" + trig,
			"Worker.Do neither returned nor reached Source.Read although every fake call had returned; history:" + hist})
	}
	if w.runaway.Load() {
		out = append(out, violation{"C09/livelock/" + trig, fmt.Sprintf("more than %d plugin calls for %d records; history:%s", maxFakeCalls, len(w.reads), hist)})
	}
	// (c) accounting, judged at every Source.Ack
	for _, v := range w.violations {
		out = append(out, violation{v.key, v.detail + "; history:" + hist})
	}
	if len(out) > 0 || r.doP != nil || r.hangSite != "" || r.inconclusive != "" || !r.ranDo {
		if r.openErr != nil && r.openP == nil {
			open := w.firedSet["src-"+shErrOpen] || w.firedSet["dst-"+shErrOpen] || w.firedSet["dlq-"+shErrOpen] || w.firedSet[shErrProcOpen]
			if !open {
				out = append(out, violation{"C09/spurious-error/open", fmt.Sprintf("Worker.Open failed although no Open call failed: %v", r.openErr)})
			} else if !errors.Is(r.openErr, errInjected) {
				out = append(out, violation{"C09/error-lost/open", fmt.Sprintf("Worker.Open error does not wrap the plugin's error: %v", r.openErr)})
			}
		}
		return out, rules
	}
	f := factsOf(c, r.firedDo)
	// documented handling
	if r.idle {
		rules = append(rules, "rule:idle-implies-all-acked-and-no-fatal-shape")
		if r.acked != r.read {
			out = append(out, violation{"C09/lost-record/" + trig,
				fmt.Sprintf("the worker went back to Source.Read without an error but only %d of %d read records were acknowledged; history:%s", r.acked, r.read, hist)})
		}
		if len(f.fatal) > 0 {
			out = append(out, violation{"C09/continued-after/" + f.fatal[0],
				fmt.Sprintf("the worker kept running after %v; history:%s", f.fatal, hist)})
		}
		return out, rules
	}
	if r.doErr == nil {
		out = append(out, violation{"C09/returned-without-error/" + trig, "Worker.Do returned nil although nobody stopped the worker; history:" + hist})
		return out, rules
	}
	code := errCode(r.doErr)
	if len(f.fatal) == 0 && !f.mayFail {
		rules = append(rules, "rule:handled-shapes-must-not-stop-the-pipeline")
		out = append(out, violation{"C09/spurious-error/" + trig,
			fmt.Sprintf("only shapes with a documented non-fatal handling were produced (%v) but the pipeline stopped: %v; history:%s", sortedKeys(f.fs), r.doErr, hist)})
		return out, rules
	}
	switch {
	case len(f.fatal) == 1 && f.fatal[0] == shProcNilForever && !f.split && !f.nackRisk && subset(f.hostile, shProcNilForever, shProcNil, shProcShort):
		rules = append(rules, "rule:nil-forever-ends-in-retry-not-converging")
		if code != funnel.CodeRetryNotConverging.Reason() || !cerrors.IsFatalError(r.doErr) {
			out = append(out, violation{"C09/undocumented-handling/nil-forever",
				fmt.Sprintf("a processor that never answers a record must end in the fatal error %s, got code %q fatal=%v: %v; history:%s",
					funnel.CodeRetryNotConverging.Reason(), code, cerrors.IsFatalError(r.doErr), r.doErr, hist)})
		}
		for k, n := range w.nilCalls {
			if n > 1+maxRetryStall*w.maxBatch {
				out = append(out, violation{"C09/undocumented-handling/nil-forever",
					fmt.Sprintf("%s was handed to the processor %d times (batch of %d); history:%s", k, n, w.maxBatch, hist)})
				break
			}
		}
	case len(f.fatal) == 1 && f.fatal[0] == shSrcEmptyPos && !f.split && !f.nackRisk && subset(f.hostile, shSrcEmptyPos):
		rules = append(rules, "rule:empty-position-refused-with-code")
		if code != funnel.CodeEmptySourcePosition.Reason() {
			out = append(out, violation{"C09/undocumented-handling/empty-position",
				fmt.Sprintf("an empty source position must be refused with %s, got code %q: %v; history:%s", funnel.CodeEmptySourcePosition.Reason(), code, r.doErr, hist)})
		}
	case len(f.fatal) == 0 && !f.anyProcShape && !f.nackRisk && len(f.hostile) > 0 && subset(f.hostile, shSrcDupPos):
		rules = append(rules, "rule:duplicate-position-refused-with-code")
		// documented at least at a fan-out (and harmless elsewhere): whenever the engine stops
		// because of duplicates it must be with the coded refusal
		if code != funnel.CodeDuplicateSourcePosition.Reason() {
			out = append(out, violation{"C09/undocumented-handling/duplicate-position",
				fmt.Sprintf("duplicate positions must be refused with %s or be handled, got code %q: %v; history:%s", funnel.CodeDuplicateSourcePosition.Reason(), code, r.doErr, hist)})
		}
	}
	return out, rules
}

// ---- known findings -> shapes to avoid ----

type avoidSet struct {
	shapes map[string]bool
	keyOf  map[string]string // shape -> the known key that excludes it
}

// knownAvoid enumerates the closed key vocabulary and collects the shapes of listed keys.
func knownAvoid(st *pbt.Stats) avoidSet {
	a := avoidSet{shapes: map[string]bool{}, keyOf: map[string]string{}}
	add := func(key, shape string) {
		if st.IsKnown(key) {
			a.shapes[shape] = true
			if _, ok := a.keyOf[shape]; !ok {
				a.keyOf[shape] = key
			}
		}
	}
	add(keyCondShortInWorker, shCondShort)
	for _, sh := range allShapes() {
		for _, site := range allSites() {
			add("C09/panic/"+site+"/"+sh, sh)
			add("C09/panic/"+site+"/"+sh+"/open", sh)
			add("C09/panic/"+site+"/"+sh+"/close", sh)
			add("C09/hang/"+site+"/"+sh, sh)
		}
		for _, clause := range []string{"livelock", "acked-empty-position", "ack-not-prefix", "acked-affected/unconfirmed",
			"acked-affected/refused-not-dlqd", "lost-record", "continued-after", "spurious-error", "returned-without-error"} {
			add("C09/"+clause+"/"+sh, sh)
		}
	}
	add("C09/undocumented-handling/nil-forever", shProcNilForever)
	add("C09/undocumented-handling/empty-position", shSrcEmptyPos)
	add("C09/undocumented-handling/duplicate-position", shSrcDupPos)
	return a
}

// ---- generators ----

var funnelKindGen = rapid.SampledFrom([]int{
	KSingle, KSingle, KSingle, KSingle, KSingle, KSingle, KSingle, KSingle, KSame, KSame, KFilter, KFilter, KError, KError,
	KMulti0, KMulti1, KMulti3, KMulti3, KNil, KNil, KNil, KChangePos, KEmptyPos, KErrorNil})

// chance is true in roughly percent % of the draws. rapid's integers are biased towards the
// lower bound, therefore the rare outcome sits at the upper end (and shrinks away).
func chance(t *rapid.T, label string, percent int) bool {
	return rapid.IntRange(0, 99).Draw(t, label) >= 100-percent
}

func genProcScript(t *rapid.T, label string, totalRecs int, deltas []int) ProcScript {
	ps := ProcScript{}
	nc := rapid.SampledFrom([]int{0, 0, 1, 1, 1, 2, 3}).Draw(t, label+".ncalls")
	for i := 0; i < nc; i++ {
		cs := CallShape{}
		cs.Delta = rapid.SampledFrom(deltas).Draw(t, label+".delta")
		cs.Zero = chance(t, label+".zero", 4)
		cs.Kinds = rapid.SliceOfN(funnelKindGen, 0, 4).Draw(t, label+".kinds")
		cs.CapExtra = rapid.SampledFrom([]int{0, 0, 0, 1, 2}).Draw(t, label+".capextra")
		ps.Calls = append(ps.Calls, cs)
	}
	if totalRecs > 0 && chance(t, label+".nilforever", 6) {
		ps.NilForever = []int{rapid.IntRange(0, totalRecs-1).Draw(t, label+".nilrec")}
	}
	ps.OpenErr = chance(t, label+".openerr", 2)
	ps.TeardownErr = chance(t, label+".tderr", 3)
	return ps
}

var ackKindGen = rapid.SampledFrom([]int{AAll, AAll, APartial, APartial, APartial, APartial, ANack, ANack, ANack,
	AWrongPos, ASurplus, AOutOfOrder, AEmpty, AShortThenError})

func genDestScript(t *rapid.T, label string, hostile bool) DestScript {
	ds := DestScript{WriteErrAt: -1, AckErrAt: -1}
	if !hostile {
		return ds
	}
	na := rapid.SampledFrom([]int{0, 0, 0, 1, 1, 2, 3}).Draw(t, label+".nacks")
	for i := 0; i < na; i++ {
		ds.Acks = append(ds.Acks, AckShape{Kind: ackKindGen.Draw(t, label+".ackkind"), K: rapid.IntRange(0, 5).Draw(t, label+".k")})
	}
	ds.OpenErr = chance(t, label+".openerr", 2)
	if chance(t, label+".writeerr", 4) {
		ds.WriteErrAt = rapid.IntRange(0, 3).Draw(t, label+".writeerrat")
	}
	if chance(t, label+".ackerr", 4) {
		ds.AckErrAt = rapid.IntRange(0, 3).Draw(t, label+".ackerrat")
	}
	ds.TeardownErr = chance(t, label+".tderr", 3)
	return ds
}

var funnelDeltas = []int{0, 0, 0, 0, 0, -1, -1, -2, -3, -6, 1, 1, 2}

func genBatches(t *rapid.T, maxBatches, maxLen int, hostilePos bool) ([][]RecSpec, int) {
	posGen := rapid.Just(0)
	if hostilePos {
		posGen = rapid.SampledFrom([]int{0, 0, 0, 0, 0, 0, 0, 0, 0, 0, 0, 0, 0, 0, 0, 0, 0, 0, 0, 0, 0, 0, 0, 0, 0, 0, 0, 0, 1, 2, 2})
	}
	nb := rapid.IntRange(1, maxBatches).Draw(t, "nbatches")
	total := 0
	var out [][]RecSpec
	for b := 0; b < nb; b++ {
		n := rapid.IntRange(1, maxLen).Draw(t, "batchlen")
		if chance(t, "emptybatch", 4) {
			n = 0
		}
		batch := make([]RecSpec, n)
		for i := range batch {
			batch[i] = RecSpec{Pos: posGen.Draw(t, "pos"), M: rapid.IntRange(0, 1).Draw(t, "m")}
		}
		total += n
		out = append(out, batch)
	}
	return out, total
}

func genFunnelCase(t *rapid.T) FCase {
	c := FCase{Test: "funnelshapes", ReadErrAt: -1, SrcAckErrAt: -1}
	var total int
	c.Batches, total = genBatches(t, 3, 6, true)
	ns := rapid.SampledFrom([]int{0, 1, 1, 1, 2}).Draw(t, "nshared")
	for i := 0; i < ns; i++ {
		c.Shared = append(c.Shared, genProcScript(t, "shared"+strconv.Itoa(i), total, funnelDeltas))
	}
	nb := rapid.SampledFrom([]int{1, 1, 2}).Draw(t, "nbranches")
	for b := 0; b < nb; b++ {
		bs := BranchSpec{}
		if chance(t, "bproc", 25) {
			ps := genProcScript(t, "bproc"+strconv.Itoa(b), total, funnelDeltas)
			bs.Proc = &ps
		}
		bs.Dest = genDestScript(t, "dst"+strconv.Itoa(b), true)
		c.Branches = append(c.Branches, bs)
	}
	c.DLQ = genDestScript(t, "dlq", chance(t, "dlqhostile", 25))
	c.DLQWindow = rapid.SampledFrom([]int{0, 0, 0, 0, 2, 3}).Draw(t, "dlqwindow")
	c.DLQThreshold = rapid.SampledFrom([]int{0, 1, 2}).Draw(t, "dlqthreshold")
	c.SrcOpenErr = chance(t, "srcopenerr", 2)
	if chance(t, "readerr", 4) {
		c.ReadErrAt = rapid.IntRange(0, 3).Draw(t, "readerrat")
	}
	if chance(t, "srcackerr", 4) {
		c.SrcAckErrAt = rapid.IntRange(0, 3).Draw(t, "srcackerrat")
	}
	c.SrcTeardownErr = chance(t, "srctderr", 3)
	return c
}

var inWorkerDeltas = []int{0, 0, -1, -1, -1, -2, -2, -3, -4, -8, 1, 2}

func genInWorkerCase(t *rapid.T) FCase {
	c := FCase{Test: "inworker", ReadErrAt: -1, SrcAckErrAt: -1}
	var total int
	c.Batches, total = genBatches(t, 2, 8, false)
	for _, b := range c.Batches {
		// the condition fails to evaluate for a drawn record of the batch (sometimes two)
		if len(b) > 0 && chance(t, "evalfails", 40) {
			b[rapid.IntRange(0, len(b)-1).Draw(t, "failat")].C = 1
			if chance(t, "evalfails2", 15) {
				b[rapid.IntRange(0, len(b)-1).Draw(t, "failat2")].C = 1
			}
		}
	}
	ps := genProcScript(t, "real", total, inWorkerDeltas)
	ps.OpenErr, ps.TeardownErr = false, false
	ps.Real = true
	ps.Cond = rapid.IntRange(0, 9).Draw(t, "cond") > 0
	c.Shared = []ProcScript{ps}
	nb := rapid.SampledFrom([]int{1, 1, 1, 2}).Draw(t, "nbranches")
	for b := 0; b < nb; b++ {
		c.Branches = append(c.Branches, BranchSpec{Dest: genDestScript(t, "dst"+strconv.Itoa(b), chance(t, "dsthostile", 20))})
	}
	c.DLQ = DestScript{WriteErrAt: -1, AckErrAt: -1}
	return c
}

// ---- tests ----

var nontrivialShapes = []string{shProcZero, shProcShort, shProcLong, shProcNil, shProcNilForever, shCondShort,
	"dst-" + shAckWrongPos, "dst-" + shAckSurplus, "dst-" + shAckOOO, "dst-" + shAckEmpty, "dst-" + shAckShortErr,
	"dlq-" + shAckWrongPos, "dlq-" + shAckSurplus, "dlq-" + shAckOOO, "dlq-" + shAckEmpty, "dlq-" + shAckShortErr}

func execFunnel(t fataler, st *pbt.Stats, c FCase, av avoidSet) {
	c.Avoid = sortedKeys(av.shapes)
	pbt.MarkCurrent(prop, c)
	r := runFunnel(c)
	if r.setupErr != nil {
		t.Fatalf("setup: %v", r.setupErr)
	}
	w := r.w
	w.mu.Lock()
	for sh := range w.excluded {
		st.Exclude(av.keyOf[sh])
	}
	prefix := "fn:"
	if c.Test == "inworker" {
		prefix = "iw:"
	}
	classes := make([]string, 0, len(w.firedSet)+4)
	for sh := range w.firedSet {
		classes = append(classes, prefix+sh)
	}
	nontrivial := false
	for _, sh := range nontrivialShapes {
		if w.firedSet[sh] {
			nontrivial = true
		}
	}
	w.mu.Unlock()
	if len(c.Branches) > 1 {
		classes = append(classes, prefix+"fan-out")
	}
	switch {
	case r.openErr != nil:
		classes = append(classes, prefix+"end:open-failed")
	case r.doP != nil:
		classes = append(classes, prefix+"end:panic")
	case r.idle:
		classes = append(classes, prefix+"end:idle-all-acked")
	case r.doErr != nil:
		end := prefix + "end:error"
		if code := errCode(r.doErr); code != "" {
			end += ":" + code
		}
		classes = append(classes, end)
	}
	if r.inconclusive != "" {
		st.Inconcl(c.Test + ": " + r.inconclusive)
	}
	st.Case(pbt.Hash(c), nontrivial, classes...)
	vs, rules := checkFunnel(c, r)
	for _, ru := range rules {
		st.Class(prefix+ru, 1)
	}
	if nontrivial && st.WantSample() {
		w.mu.Lock()
		st.Sample(map[string]any{"case": c, "history": append([]string(nil), w.log...), "do_error": fmt.Sprint(r.doErr)})
		w.mu.Unlock()
	}
	failed := ""
	for _, v := range vs {
		if v.key == "C09/harness-bug/panic" {
			t.Fatalf("harness bug: %s", v.detail)
		}
		if st.Report(v.key, v.detail, c.size(), c) && failed == "" {
			failed = v.key + ": " + v.detail
		}
	}
	if failed != "" {
		t.Fatalf("%s", failed)
	}
}

// TestC09FunnelShapes: the arch-v2 worker fed with hostile processor reply shapes and
// hostile destination acknowledgment shapes through fake plugins.
func TestC09FunnelShapes(t *testing.T) {
	st := pbt.For(prop)
	defer st.Finish(t)
	av := knownAvoid(st)
	rapid.Check(t, func(t *rapid.T) {
		execFunnel(t, st, genFunnelCase(t), av)
	})
}

// TestC09ConditionalInWorker: the real RunnableProcessor (with a condition) as the
// funnel.Processor of a ProcessorTask inside a Worker: is the conditional-merge panic
// reachable end to end, on the worker goroutine?
func TestC09ConditionalInWorker(t *testing.T) {
	st := pbt.For(prop)
	defer st.Finish(t)
	av := knownAvoid(st)
	rapid.Check(t, func(t *rapid.T) {
		execFunnel(t, st, genInWorkerCase(t), av)
	})
}
