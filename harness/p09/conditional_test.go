package p09

import (
	"context"
	"fmt"
	"strconv"
	"strings"
	"testing"

	"github.com/conduitio/conduit-commons/config"
	"github.com/conduitio/conduit-commons/database/inmemory"
	"github.com/conduitio/conduit-commons/opencdc"
	sdk "github.com/conduitio/conduit-processor-sdk"
	"github.com/conduitio/conduit/pkg/foundation/log"
	"github.com/conduitio/conduit/pkg/plugin/processor/egress"
	"github.com/conduitio/conduit/pkg/processor"
	"pgregory.net/rapid"
	"verifharness/pbt"
)

// CondCase is one case of TestC09Conditional (and its replay value).
type CondCase struct {
	Test     string `json:"test"`      // "conditional"
	Cond     bool   `json:"cond"`      // processor has the condition `m == "1"`
	Pattern  []int  `json:"pattern"`   // per input record: 1 = condition matches
	Fail     []int  `json:"fail"`      // per input record: 1 = the condition fails to evaluate (output is not a boolean)
	Out      []int  `json:"out"`       // kinds of the plugin output, any length
	CapExtra int    `json:"cap_extra"` // spare capacity of the slice the plugin returns (filled with garbage results)
}

// shape classes of TestC09Conditional (closed vocabulary; used in keys and histograms)
const (
	clsNoCond     = "no-condition"
	clsNoMatch    = "condition-no-match"
	clsFull       = "condition-full-output"
	clsShortTail  = "condition-short-tail"   // fewer results than matching records, no non-matching record after the first result-less one
	clsShortInner = "condition-short-output" // fewer results than matching records and a non-matching record follows a result-less one
	clsLong       = "condition-long-output"
)

var condClasses = []string{clsNoCond, clsNoMatch, clsFull, clsShortTail, clsShortInner, clsLong}

const keyCondShortPanic = "C09/panic/RunnableProcessor.Process/" + clsShortInner

// evaluated is the number of records the condition is evaluated for successfully.
func (c CondCase) evaluated() int {
	if !c.Cond {
		return len(c.Pattern)
	}
	return firstFail(c.Pattern, c.Fail)
}

// matching counts the matching records among the successfully evaluated ones.
func (c CondCase) matching() int {
	k := 0
	for _, b := range c.Pattern[:c.evaluated()] {
		k += b
	}
	return k
}

// class returns the shape class of the case.
func (c CondCase) class() string {
	if !c.Cond {
		return clsNoCond
	}
	return condShapeClass(c.Pattern[:c.evaluated()], len(c.Out))
}

// condShapeClass classifies (match pattern, plugin output length).
func condShapeClass(pattern []int, m int) string {
	k := 0
	for _, b := range pattern {
		k += b
	}
	switch {
	case k == 0:
		return clsNoMatch
	case m > k:
		return clsLong
	case m == k:
		return clsFull
	}
	// short: is there a non-matching record after the first matching record without a result?
	seen := 0
	hole := false
	for _, b := range pattern {
		if b == 1 {
			seen++
			if seen > m {
				hole = true
			}
		} else if hole {
			return clsShortInner
		}
	}
	return clsShortTail
}

// ---- scripted plugin behind a real processor.Service ----

type oneProcRegistry struct{ p sdk.Processor }

func (r oneProcRegistry) NewProcessor(context.Context, string, string, egress.Policy) (sdk.Processor, error) {
	return r.p, nil
}

// condPlugin returns the scripted output once and remembers what it was given.
type condPlugin struct {
	sdk.UnimplementedProcessor
	kinds    []int
	capExtra int
	calls    int
	gotIn    []opencdc.Record
	out      []sdk.ProcessedRecord
}

func (p *condPlugin) Specification() (sdk.Specification, error) {
	return sdk.Specification{Name: "p09-proc", Version: "v0"}, nil
}
func (p *condPlugin) Configure(context.Context, config.Config) error { return nil }
func (p *condPlugin) Open(context.Context) error                     { return nil }
func (p *condPlugin) Teardown(context.Context) error                 { return nil }

func (p *condPlugin) Process(_ context.Context, recs []opencdc.Record) []sdk.ProcessedRecord {
	p.calls++
	p.gotIn = append([]opencdc.Record(nil), recs...)
	p.out = buildOutput(p.kinds, recs, p.capExtra, "plug")
	return p.out
}

// buildOutput builds len(kinds) results; result j is derived from input j (surplus
// results from the last input). The returned slice has capExtra spare elements holding
// garbage that must never show up in an engine result.
func buildOutput(kinds []int, recs []opencdc.Record, capExtra int, who string) []sdk.ProcessedRecord {
	buf := make([]sdk.ProcessedRecord, len(kinds), len(kinds)+capExtra)
	for j, k := range kinds {
		var in opencdc.Record
		switch {
		case j < len(recs):
			in = recs[j]
		case len(recs) > 0:
			in = recs[len(recs)-1].Clone()
			in.Metadata[metaID] = "surplus"
		default:
			in = mkRecord(-1, []byte("surplus"), 1)
			in.Metadata[metaID] = "surplus"
		}
		buf[j] = mkResult(k, in, j, who)
	}
	full := buf[:cap(buf)]
	for j := len(kinds); j < len(full); j++ {
		g := mkRecord(-2, []byte("garbage"), 0)
		g.Metadata[metaID] = "garbage"
		full[j] = sdk.SingleRecord(g)
	}
	return buf
}

func newRunnable(ctx context.Context, plug sdk.Processor, cond bool) (*processor.RunnableProcessor, error) {
	svc := processor.NewService(log.Nop(), &inmemory.DB{}, oneProcRegistry{p: plug})
	condition := ""
	if cond {
		condition = condTmpl
	}
	inst, err := svc.Create(ctx, "proc-1", "builtin:p09-proc", processor.Parent{ID: "pipe", Type: processor.ParentTypePipeline},
		processor.Config{Settings: map[string]string{}, Workers: 1}, processor.ProvisionTypeAPI, condition)
	if err != nil {
		return nil, fmt.Errorf("create: %w", err)
	}
	rp, err := svc.MakeRunnableProcessor(ctx, inst)
	if err != nil {
		return nil, fmt.Errorf("make runnable: %w", err)
	}
	return rp, nil
}

type condResult struct {
	recs     []opencdc.Record // what was handed to RunnableProcessor.Process
	orig     []opencdc.Record // deep copies taken before the call
	res      []sdk.ProcessedRecord
	plug     *condPlugin
	panicked bool
	panicVal string
	site     string
	stack    string
	setupErr error
}

func runCond(c CondCase) (r condResult) {
	ctx := context.Background()
	r.plug = &condPlugin{kinds: c.Out, capExtra: c.CapExtra}
	rp, err := newRunnable(ctx, r.plug, c.Cond)
	if err != nil {
		r.setupErr = err
		return r
	}
	if err := rp.Open(ctx); err != nil {
		r.setupErr = err
		return r
	}
	defer func() { _ = rp.Teardown(ctx) }()
	r.recs = make([]opencdc.Record, len(c.Pattern))
	r.orig = make([]opencdc.Record, len(c.Pattern))
	for i, b := range c.Pattern {
		r.recs[i] = mkRecord(i, []byte("p"+strconv.Itoa(i)), b)
		if i < len(c.Fail) && c.Fail[i] == 1 {
			r.recs[i].Metadata[metaCond] = condJunk
		}
		r.orig[i] = r.recs[i].Clone()
	}
	func() {
		defer func() {
			if v := recover(); v != nil {
				r.panicked = true
				r.panicVal = fmt.Sprint(v)
				r.stack = panicStack(v)
				r.site = panicSite(r.stack)
			}
		}()
		r.res = rp.Process(ctx, r.recs)
	}()
	return r
}

// checkCond is the oracle of TestC09Conditional: the reference merge of the statement.
// It returns a violation key (closed vocabulary) and a detail, or "".
func checkCond(c CondCase, r condResult) (key, detail string) {
	cls := c.class()
	if r.panicked {
		if r.site == siteHarness {
			return "C09/harness-bug/panic", r.panicVal + "\n" + trimStack(r.stack, 30)
		}
		return "C09/panic/RunnableProcessor.Process/" + cls,
			fmt.Sprintf("RunnableProcessor.Process panicked (%s): %s\n%s", r.site, r.panicVal, trimStack(r.stack, 24))
	}
	return refMerge(mergeObs{cond: c.Cond, pattern: c.Pattern, fail: c.Fail, orig: r.orig, res: r.res,
		plugCalls: r.plug.calls, plugIn: r.plug.gotIn, plugOut: r.plug.out})
}

// mergeObs is one observed RunnableProcessor.Process call.
type mergeObs struct {
	cond      bool
	pattern   []int            // per input record: 1 = the condition matches
	fail      []int            // per input record: 1 = the condition fails to evaluate (may be nil)
	orig      []opencdc.Record // deep copies of the input, taken before the call
	res       []sdk.ProcessedRecord
	plugCalls int // plugin Process calls made during the call
	plugIn    []opencdc.Record
	plugOut   []sdk.ProcessedRecord
}

// firstFail is the index of the first record whose condition fails to evaluate (len if none).
func firstFail(pattern, fail []int) int {
	for i := range pattern {
		if i < len(fail) && fail[i] == 1 {
			return i
		}
	}
	return len(pattern)
}

func isCondError(r sdk.ProcessedRecord) bool {
	e, ok := r.(sdk.ErrorRecord)
	return ok && e.Error != nil && strings.Contains(e.Error.Error(), "failed evaluating condition")
}

// refMerge is the reference merge. From the statement: records that do not match pass through
// unchanged in their original place and every result stays aligned with the record it belongs
// to. From the code's documentation: the condition is evaluated record by record and evaluation
// stops at the first record k for which it fails; the records before k are handled as usual;
// the results end right before the first matching record the plugin gave no result for; the
// condition error is reported at index k - the record it belongs to - when every record before
// k has a result, and is left out otherwise; records after k are not part of the output.
func refMerge(o mergeObs) (key, detail string) {
	n := len(o.pattern)
	if !o.cond {
		if o.plugCalls != 1 || len(o.plugIn) != n {
			return "C09/cond-merge/plugin-input/" + clsNoCond, fmt.Sprintf("plugin calls=%d, got %d of %d records", o.plugCalls, len(o.plugIn), n)
		}
		// without a condition the plugin output is handed on untouched
		if len(o.res) != len(o.plugOut) {
			return "C09/no-condition/output-altered", fmt.Sprintf("plugin returned %d results, engine handed on %d", len(o.plugOut), len(o.res))
		}
		for j := range o.res {
			if !sameResult(o.res[j], o.plugOut[j]) {
				return "C09/no-condition/output-altered", fmt.Sprintf("result %d differs from the plugin's (%s vs %s)", j, kindOfResult(o.res[j]), kindOfResult(o.plugOut[j]))
			}
		}
		return "", ""
	}
	kf := firstFail(o.pattern, o.fail) // records [0,kf) are evaluated successfully
	failed := kf < n
	k := 0 // matching records before the failing one
	wantIn := make([]int, 0, n)
	for i := 0; i < kf; i++ {
		if o.pattern[i] == 1 {
			k++
			wantIn = append(wantIn, i)
		}
	}
	m := 0
	if o.plugCalls > 0 {
		m = len(o.plugOut)
	}
	cls := condShapeClass(o.pattern[:kf], m)
	if k == 0 {
		if o.plugCalls != 0 {
			return "C09/cond-merge/plugin-input/" + cls, "plugin was called although no record matches the condition"
		}
	} else {
		if o.plugCalls != 1 || len(o.plugIn) != len(wantIn) {
			return "C09/cond-merge/plugin-input/" + cls,
				fmt.Sprintf("plugin calls=%d, got %d records, want the %d matching ones", o.plugCalls, len(o.plugIn), len(wantIn))
		}
		for j, i := range wantIn {
			if !sameRecord(o.plugIn[j], o.orig[i]) {
				return "C09/cond-merge/plugin-input/" + cls, fmt.Sprintf("plugin input %d is not input record %d", j, i)
			}
		}
	}
	if k > 0 && m > k {
		// documented: a single ErrorRecord "processor returned more records than input"
		if len(o.res) == 1 {
			if e, ok := o.res[0].(sdk.ErrorRecord); ok && e.Error != nil && !isCondError(o.res[0]) {
				return "", ""
			}
		}
		return "C09/cond-merge/long-output-not-refused",
			fmt.Sprintf("plugin returned %d results for %d matching records; want the single documented ErrorRecord, got %d results (first: %s)",
				m, k, len(o.res), kindOfResult(first(o.res)))
	}
	maxLen := kf
	if failed {
		maxLen = kf + 1
	}
	if len(o.res) > maxLen {
		if failed {
			return "C09/cond-merge/cond-error-misplaced/" + cls,
				fmt.Sprintf("%d results although the condition of record %d fails to evaluate: records after it are not part of the output", len(o.res), kf)
		}
		return "C09/cond-merge/length/" + cls, fmt.Sprintf("%d results for %d input records", len(o.res), n)
	}
	if m == k && len(o.res) != maxLen {
		if failed {
			return "C09/cond-merge/cond-error-missing/" + cls,
				fmt.Sprintf("%d results: every record before record %d has a result, so the condition error of record %d must be reported at index %d", len(o.res), kf, kf, kf)
		}
		return "C09/cond-merge/length/" + cls, fmt.Sprintf("%d results for %d input records although the plugin answered every matching record", len(o.res), n)
	}
	j := 0 // ordinal of the next matching record
	for i := 0; i < len(o.res); i++ {
		if i == kf {
			// the record whose condition fails: only its own condition error may stand here
			if !isCondError(o.res[i]) {
				return "C09/cond-merge/cond-error-misplaced/" + cls,
					fmt.Sprintf("index %d belongs to the record whose condition fails to evaluate but holds %s", i, kindOfResult(o.res[i]))
			}
			continue
		}
		if isCondError(o.res[i]) {
			return "C09/cond-merge/cond-error-misattributed/" + cls,
				fmt.Sprintf("index %d (record id %q, condition evaluates fine) holds the condition error of record %d: %v", i, o.orig[i].Metadata[metaID], kf, o.res[i].(sdk.ErrorRecord).Error)
		}
		if o.pattern[i] == 0 {
			s, ok := o.res[i].(sdk.SingleRecord)
			if !ok || !sameRecord(opencdc.Record(s), o.orig[i]) {
				return "C09/cond-merge/passthrough-changed/" + cls,
					fmt.Sprintf("index %d: the record does not match the condition but the result is %s (id %q), not the unchanged record", i, kindOfResult(o.res[i]), idOfResult(o.res[i]))
			}
			continue
		}
		if j < m {
			if !sameResult(o.res[i], o.plugOut[j]) {
				return "C09/cond-merge/misaligned/" + cls,
					fmt.Sprintf("index %d belongs to matching record #%d but holds %s (id %q), want the plugin's result %d (%s)", i, j, kindOfResult(o.res[i]), idOfResult(o.res[i]), j, kindOfResult(o.plugOut[j]))
			}
		} else if o.res[i] != nil {
			// the plugin gave no result for this record: the results end before it (documented);
			// a nil ("no result") is the only entry that attributes nothing to the record
			return "C09/cond-merge/misaligned/" + cls,
				fmt.Sprintf("index %d belongs to matching record #%d for which the plugin returned nothing, but holds %s (id %q)", i, j, kindOfResult(o.res[i]), idOfResult(o.res[i]))
		}
		j++
	}
	return "", ""
}

func first(rs []sdk.ProcessedRecord) sdk.ProcessedRecord {
	if len(rs) == 0 {
		return nil
	}
	return rs[0]
}

func idOfResult(r sdk.ProcessedRecord) string {
	switch x := r.(type) {
	case sdk.SingleRecord:
		return x.Metadata[metaID]
	case sdk.MultiRecord:
		if len(x) > 0 {
			return x[0].Metadata[metaID]
		}
	}
	return ""
}

var condKindGen = rapid.SampledFrom([]int{KSingle, KSingle, KSingle, KSame, KFilter, KError, KMulti0, KMulti1, KMulti3, KNil, KChangePos, KEmptyPos, KErrorNil})

func genCondCase(t *rapid.T) CondCase {
	c := CondCase{Test: "conditional"}
	c.Cond = rapid.IntRange(0, 9).Draw(t, "cond") > 0
	n := rapid.IntRange(1, 10).Draw(t, "n")
	c.Pattern = rapid.SliceOfN(rapid.IntRange(0, 1), n, n).Draw(t, "pattern")
	c.Fail = make([]int, n)
	if c.Cond && chance(t, "evalfails", 45) {
		c.Fail[rapid.IntRange(0, n-1).Draw(t, "failat")] = 1
		if chance(t, "evalfails2", 20) {
			c.Fail[rapid.IntRange(0, n-1).Draw(t, "failat2")] = 1
		}
	}
	k := c.matching()
	if !c.Cond {
		k = n
	}
	m := rapid.IntRange(0, k+2).Draw(t, "outlen")
	c.Out = rapid.SliceOfN(condKindGen, m, m).Draw(t, "out")
	c.CapExtra = rapid.SampledFrom([]int{0, 0, 1, 3}).Draw(t, "capextra")
	return c
}

// TestC09Conditional: RunnableProcessor.Process of a real processor.Service instance with
// and without a condition against the reference merge, for every match pattern and every
// plugin output length and mix of kinds.
func TestC09Conditional(t *testing.T) {
	st := pbt.For(prop)
	defer st.Finish(t)
	rapid.Check(t, func(t *rapid.T) {
		c := genCondCase(t)
		if c.class() == clsShortInner && st.IsKnown(keyCondShortPanic) {
			// known finding: exclude exactly this shape class, keep every other one reachable
			st.Exclude(keyCondShortPanic)
			for len(c.Out) < c.matching() {
				c.Out = append(c.Out, KSingle)
			}
		}
		execCond(t, st, c)
	})
}

type fataler interface {
	Fatalf(format string, args ...any)
}

func execCond(t fataler, st *pbt.Stats, c CondCase) {
	pbt.MarkCurrent(prop, c)
	r := runCond(c)
	if r.setupErr != nil {
		t.Fatalf("setup: %v", r.setupErr)
	}
	cls := c.class()
	hasNil := false
	for _, k := range c.Out {
		if k == KNil {
			hasNil = true
		}
	}
	want := len(c.Pattern)
	if c.Cond {
		want = c.matching()
	}
	evalFails := c.Cond && c.evaluated() < len(c.Pattern)
	nontrivial := len(c.Out) != want || hasNil
	classes := []string{"cond:" + cls}
	if evalFails {
		classes = append(classes, "cond:eval-error")
		if len(c.Out) < want {
			classes = append(classes, "cond:eval-error+short-output")
		}
	}
	if hasNil {
		classes = append(classes, "cond:out-contains-nil")
	}
	if len(c.Out) == 0 {
		classes = append(classes, "cond:out-empty")
	}
	if r.panicked {
		classes = append(classes, "cond:panicked")
	}
	st.Case(pbt.Hash(c), nontrivial, classes...)
	if nontrivial && st.WantSample() {
		st.Sample(map[string]any{"case": c, "results": len(r.res), "panicked": r.panicked})
	}
	key, detail := checkCond(c, r)
	if key == "" {
		return
	}
	if key == "C09/harness-bug/panic" {
		t.Fatalf("harness bug: %s", detail)
	}
	if st.Report(key, detail, len(c.Pattern)*16+len(c.Out), c) {
		t.Fatalf("%s: %s\ncase: %+v", key, detail, c)
	}
}
