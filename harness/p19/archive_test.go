package p19

import (
	"bytes"
	"compress/gzip"
	"fmt"
	"io"
	"strings"
	"sync"

	"pgregory.net/rapid"
)

// ---- archive grammar ----------------------------------------------------------
//
// Archives are assembled from raw 512-byte blocks (not through archive/tar's
// Writer, which refuses most of the shapes that matter here): the spec controls
// the name bytes, the type flag, the link name, the declared size independently
// of the emitted data, the long-name encoding (GNU 'L' record or PAX 'x'
// record), extra PAX records, the trailer, the gzip framing and a corruption
// point.
//
// A name or link target that starts with "/" is ABSOLUTE; when the bytes are
// built it is re-rooted below the per-case jail directory, so that even a code
// under test that honoured it could only write inside the snapshotted jail.

type Entry struct {
	Name   string      `json:"name"`
	Type   string      `json:"type"` // tar type flag, one character ("0" regular, "5" dir, "2" symlink, "1" hardlink, ...)
	Link   string      `json:"link,omitempty"`
	Len    int         `json:"len"`            // data bytes really emitted
	Fill   int         `json:"fill,omitempty"` // data pattern; 0 = zeros
	Decl   int64       `json:"decl"`           // declared size; -1 = Len
	Long   string      `json:"long,omitempty"` // "", "gnu", "pax": encoding of the name (forced even for short names)
	Pax    [][2]string `json:"pax,omitempty"`  // extra PAX records emitted before the entry
	BadSum bool        `json:"badsum,omitempty"`
	Raw    []byte      `json:"raw,omitempty"` // explicit data instead of the Len/Fill pattern (bundle entries)
}

type ArchiveSpec struct {
	Entries    []Entry `json:"entries"`
	Trailer    int     `json:"trailer"`               // zero blocks appended (2 = well-formed)
	Wrap       string  `json:"wrap"`                  // "gzip", "raw" (no gzip framing), "gzip2" (two gzip members)
	CorruptTar int     `json:"corrupt_tar,omitempty"` // 1-based byte of the tar stream to invert (0 = none)
	CorruptGz  int     `json:"corrupt_gz,omitempty"`  // 1-based byte of the final stream to invert (0 = none)
	TruncGz    int     `json:"trunc_gz,omitempty"`    // keep only this many bytes of the final stream (0 = all)
	Well       bool    `json:"wellformed,omitempty"`  // produced by the well-formed generator
}

func entryData(e Entry) []byte {
	if e.Raw != nil {
		return e.Raw
	}
	b := make([]byte, e.Len)
	if e.Fill != 0 {
		for i := range b {
			b[i] = byte(e.Fill + i*7)
		}
	}
	return b
}

func reroot(name, jail string) string {
	if strings.HasPrefix(name, "/") {
		return jail + name
	}
	return name
}

func putOctal(dst []byte, v int64) {
	s := fmt.Sprintf("%0*o", len(dst)-1, v)
	if len(s) > len(dst)-1 || v < 0 {
		// base-256 (GNU) encoding
		for i := len(dst) - 1; i >= 0; i-- {
			dst[i] = byte(v)
			v >>= 8
		}
		dst[0] |= 0x80
		return
	}
	copy(dst, s)
	dst[len(dst)-1] = 0
}

func rawHeader(name string, typ byte, link string, size int64, badSum bool) []byte {
	h := make([]byte, 512)
	nm, prefix := name, ""
	if len(nm) > 100 {
		// try the ustar prefix split
		if i := strings.LastIndex(nm[:min(len(nm), 156)], "/"); i > 0 && len(nm)-i-1 <= 100 && i <= 155 {
			prefix, nm = nm[:i], nm[i+1:]
		}
	}
	copy(h[0:100], nm)
	putOctal(h[100:108], 0o755)
	putOctal(h[108:116], 0)
	putOctal(h[116:124], 0)
	putOctal(h[124:136], size)
	putOctal(h[136:148], 1700000000)
	h[156] = typ
	copy(h[157:257], link)
	copy(h[257:263], "ustar\x00")
	copy(h[263:265], "00")
	putOctal(h[329:337], 1)
	putOctal(h[337:345], 2)
	copy(h[345:500], prefix)
	for i := 148; i < 156; i++ {
		h[i] = ' '
	}
	var sum int64
	for _, c := range h {
		sum += int64(c)
	}
	if badSum {
		sum += 17
	}
	copy(h[148:156], fmt.Sprintf("%06o\x00 ", sum))
	return h
}

func paxRecord(k, v string) string {
	// "<len> k=v\n" where len counts the whole record including itself
	base := len(k) + len(v) + 3
	n := base + len(fmt.Sprint(base))
	if len(fmt.Sprint(n)) != len(fmt.Sprint(base)) {
		n++
	}
	return fmt.Sprintf("%d %s=%s\n", n, k, v)
}

// buildTar renders the tar stream of a spec.
func buildTar(spec ArchiveSpec, jail string) []byte {
	var out tarBuf
	est := 1024 * (spec.Trailer + 2)
	for _, e := range spec.Entries {
		est += 2048 + len(e.Name) + len(e.Link) + e.Len + len(e.Raw)
	}
	out.b = make([]byte, 0, est)
	for _, e := range spec.Entries {
		typ := byte('0')
		if e.Type != "" {
			typ = e.Type[0]
		}
		name := reroot(e.Name, jail)
		link := reroot(e.Link, jail)
		data := entryData(e)
		decl := e.Decl
		if decl == -1 {
			decl = int64(len(data))
		}
		pax := append([][2]string(nil), e.Pax...)
		long := e.Long
		if long == "" && (len(name) > 100 && len(rawHeaderName(name)) > 100) {
			long = "gnu"
		}
		if long == "" && len(link) > 100 {
			long = "gnu"
		}
		hdrName, hdrLink := name, link
		switch long {
		case "gnu":
			if len(name) > 0 {
				ln := append([]byte(name), 0)
				out.add(rawHeader("././@LongLink", 'L', "", int64(len(ln)), false))
				out.addPadded(ln)
				hdrName = truncate(name, 100)
			}
			if len(link) > 100 {
				lk := append([]byte(link), 0)
				out.add(rawHeader("././@LongLink", 'K', "", int64(len(lk)), false))
				out.addPadded(lk)
				hdrLink = truncate(link, 100)
			}
		case "pax":
			pax = append(pax, [2]string{"path", name})
			if link != "" {
				pax = append(pax, [2]string{"linkpath", link})
			}
			hdrName, hdrLink = truncate(name, 100), truncate(link, 100)
		}
		if len(pax) > 0 {
			var rec strings.Builder
			for _, kv := range pax {
				v := kv[1]
				if kv[0] == "path" || kv[0] == "linkpath" {
					v = reroot(v, jail)
				}
				rec.WriteString(paxRecord(kv[0], v))
			}
			out.add(rawHeader("PaxHeaders.0/e", 'x', "", int64(rec.Len()), false))
			out.addPadded([]byte(rec.String()))
		}
		out.add(rawHeader(hdrName, typ, hdrLink, decl, e.BadSum))
		out.addPadded(data)
	}
	out.add(make([]byte, 512*spec.Trailer))
	if spec.CorruptTar > 0 && spec.CorruptTar <= len(out.b) {
		out.b[spec.CorruptTar-1] ^= 0xff
	}
	return out.b
}

type tarBuf struct{ b []byte }

func (t *tarBuf) add(p []byte) { t.b = append(t.b, p...) }
func (t *tarBuf) addPadded(p []byte) {
	t.b = append(t.b, p...)
	if r := len(p) % 512; r != 0 {
		t.b = append(t.b, zeroBlock[:512-r]...)
	}
}

var zeroBlock [512]byte

// rawHeaderName returns what would remain in the 100-byte name field after the
// ustar prefix split.
func rawHeaderName(nm string) string {
	if len(nm) > 100 {
		if i := strings.LastIndex(nm[:min(len(nm), 156)], "/"); i > 0 && len(nm)-i-1 <= 100 && i <= 155 {
			return nm[i+1:]
		}
	}
	return nm
}

func truncate(s string, n int) string {
	if len(s) > n {
		return s[:n]
	}
	return s
}

// buildArchive renders the final byte stream of a spec (tar + framing + damage).
func buildArchive(spec ArchiveSpec, jail string) []byte {
	tarBytes := buildTar(spec, jail)
	var out []byte
	switch spec.Wrap {
	case "raw":
		out = tarBytes
	case "gzip2":
		half := (len(tarBytes) / 1024) * 512
		out = append(gz(tarBytes[:half]), gz(tarBytes[half:])...)
	default:
		out = gz(tarBytes)
	}
	if spec.CorruptGz > 0 && spec.CorruptGz <= len(out) {
		out[spec.CorruptGz-1] ^= 0xff
	}
	if spec.TruncGz > 0 && spec.TruncGz < len(out) {
		out = out[:spec.TruncGz]
	}
	return out
}

var gzPool = sync.Pool{New: func() any { w, _ := gzip.NewWriterLevel(io.Discard, gzip.BestSpeed); return w }}

func gz(b []byte) []byte {
	var buf bytes.Buffer
	buf.Grow(len(b)/8 + 256)
	w := gzPool.Get().(*gzip.Writer)
	w.Reset(&buf)
	_, _ = w.Write(b)
	_ = w.Close()
	gzPool.Put(w)
	return buf.Bytes()
}

// ---- generators ---------------------------------------------------------------

var nameSpecials = []string{
	"..", "/abs", "a/../../x", ".", "", "./", "../", "a/", "x", "../x", "../../x", "../../../x", "../../../../x",
	"./../x", "a/b/../../../x", "a\\..\\..\\x", "..\\x", "nul\x00x", "x\x00/../../y", "../\x00", "//x", "/../x",
	"/1/2/3/4/p/outside.txt", "/1/2/3/4/p/dest/../x", "a//b", " ", "...", "..a", "a/..", "a/../..", "x/", "./x", "x/.",
	"ünï/日本/файл", "a\nb", "conduit-connector-x", "bin/conduit-connector-x", "-rf", "~", "$HOME/x",
	"a/b/c/d/e/f", "dest/../../x", "..././x", "....//x", "%2e%2e/x", "..%2fx", "C:\\x", "\\\\host\\share\\x",
}

var nameComponents = []string{"..", ".", "", "a", "b", "x", "bin", "dest", "outside.txt", "conduit-connector-x", "ü", "a\\b", "n\x00n", "..\\", " ", "..."}

func genName(t *rapid.T, label string) string {
	switch pick(t, label+"/kind", "special", 5, "composed", 4, "long", 1, "deep", 1) {
	case "special":
		return rapid.SampledFrom(nameSpecials).Draw(t, label+"/special")
	case "long":
		n := rapid.SampledFrom([]int{99, 100, 101, 150, 155, 156, 255, 256, 300, 1024, 5000}).Draw(t, label+"/len")
		prefix := rapid.SampledFrom([]string{"", "../", "a/", "/", "../../"}).Draw(t, label+"/lprefix")
		return prefix + strings.Repeat("n", n)
	case "deep":
		k := rapid.IntRange(2, 130).Draw(t, label+"/depth")
		tail := rapid.SampledFrom([]string{"f", "../f", "", ".."}).Draw(t, label+"/dtail")
		lead := rapid.SampledFrom([]string{"", "../", "/"}).Draw(t, label+"/dlead")
		return lead + strings.Repeat("d/", k) + tail
	default:
		n := rapid.IntRange(1, 4).Draw(t, label+"/ncomp")
		parts := make([]string, n)
		for i := range parts {
			parts[i] = rapid.SampledFrom(nameComponents).Draw(t, fmt.Sprintf("%s/comp%d", label, i))
		}
		s := strings.Join(parts, "/")
		if rapid.IntRange(0, 5).Draw(t, label+"/abs") == 0 {
			s = "/" + s
		}
		if rapid.IntRange(0, 5).Draw(t, label+"/trail") == 0 {
			s += "/"
		}
		return s
	}
}

var typeFlags = []any{"0", 8, "5", 3, "2", 3, "1", 3, "\x00", 1, "3", 1, "4", 1, "6", 1, "7", 1, "S", 1, "x", 1, "g", 1, "L", 1, "K", 1, "V", 1, "Z", 1}

func genEntry(t *rapid.T, i int, budget *int) Entry {
	l := fmt.Sprintf("e%d", i)
	e := Entry{Decl: -1}
	e.Name = genName(t, l+"/name")
	e.Type = pick(t, l+"/type", typeFlags...)
	if e.Type == "2" || e.Type == "1" || rapid.IntRange(0, 9).Draw(t, l+"/haslink") == 0 {
		e.Link = genName(t, l+"/link")
	}
	switch pick(t, l+"/lenkind", "small", 10, "zero", 3, "block", 3, "medium", 2, "big", 1) {
	case "zero":
		e.Len = 0
	case "block":
		e.Len = rapid.SampledFrom([]int{511, 512, 513, 1024}).Draw(t, l+"/blen")
	case "medium":
		e.Len = rapid.IntRange(2000, 70000).Draw(t, l+"/mlen")
	case "big":
		e.Len = rapid.SampledFrom([]int{256 << 10, 1 << 20}).Draw(t, l+"/biglen")
	default:
		e.Len = rapid.IntRange(1, 300).Draw(t, l+"/slen")
	}
	if *budget < 0 {
		*budget = 0
	}
	if e.Len > *budget {
		e.Len = *budget
	}
	*budget -= e.Len
	if e.Len < 1<<20 {
		e.Fill = rapid.IntRange(0, 255).Draw(t, l+"/fill")
	}
	switch pick(t, l+"/decl", "actual", 12, "less", 2, "more", 2, "zero", 1, "huge", 2, "neg", 1) {
	case "less":
		e.Decl = int64(e.Len) - int64(rapid.IntRange(1, 600).Draw(t, l+"/dless"))
		if e.Decl < 0 {
			e.Decl = 0
		}
	case "more":
		e.Decl = int64(e.Len) + int64(rapid.IntRange(1, 5000).Draw(t, l+"/dmore"))
	case "zero":
		e.Decl = 0
	case "huge":
		e.Decl = rapid.SampledFrom([]int64{1 << 31, 1<<33 - 1, 1 << 33, 1 << 40, 1<<62 + 5}).Draw(t, l+"/dhuge")
	case "neg":
		e.Decl = -2 - int64(rapid.IntRange(0, 1000).Draw(t, l+"/dneg")) // rendered base-256 negative
	}
	e.Long = pick(t, l+"/long", "", 6, "gnu", 2, "pax", 2)
	if rapid.IntRange(0, 7).Draw(t, l+"/haspax") == 0 {
		switch pick(t, l+"/paxkind", "size", 2, "path", 3, "linkpath", 2, "sparse", 2, "junk", 1) {
		case "size":
			e.Pax = append(e.Pax, [2]string{"size", fmt.Sprint(rapid.SampledFrom([]int64{0, 1, int64(e.Len), int64(e.Len) + 512, 1 << 34}).Draw(t, l+"/paxsize"))})
		case "path":
			e.Pax = append(e.Pax, [2]string{"path", genName(t, l+"/paxpath")})
		case "linkpath":
			e.Pax = append(e.Pax, [2]string{"linkpath", genName(t, l+"/paxlink")})
		case "sparse":
			// PAX sparse 0.1: real size larger than the stored data (bounded: the
			// reader materialises the holes, so keep it at most 1 MiB).
			real := rapid.SampledFrom([]int{4096, 65536, 1 << 20}).Draw(t, l+"/sparsereal")
			if real > *budget {
				real = 4096
			}
			*budget -= real
			e.Pax = append(e.Pax,
				[2]string{"GNU.sparse.size", fmt.Sprint(real)},
				[2]string{"GNU.sparse.numblocks", "1"},
				[2]string{"GNU.sparse.map", fmt.Sprintf("0,%d", min(e.Len, real))},
				[2]string{"GNU.sparse.name", genName(t, l+"/sparsename")},
			)
		default:
			e.Pax = append(e.Pax, [2]string{"comment", "x\x00y"})
		}
	}
	e.BadSum = rapid.IntRange(0, 40).Draw(t, l+"/badsum") == 0
	return e
}

// genHostile draws an archive from the full grammar.
func genHostile(t *rapid.T) ArchiveSpec {
	spec := ArchiveSpec{Trailer: 2, Wrap: "gzip"}
	n := rapid.IntRange(0, 6).Draw(t, "nentries")
	budget := 2 << 20
	for i := 0; i < n; i++ {
		spec.Entries = append(spec.Entries, genEntry(t, i, &budget))
	}
	// duplicates and "link before target" orderings
	if n >= 1 && rapid.IntRange(0, 5).Draw(t, "dup") == 0 {
		d := spec.Entries[rapid.IntRange(0, n-1).Draw(t, "dupidx")]
		d.Type = pick(t, "duptype", "0", 3, "2", 1, "1", 1, "5", 1)
		if d.Type == "2" || d.Type == "1" {
			d.Link = genName(t, "duplink")
		}
		pos := rapid.IntRange(0, len(spec.Entries)).Draw(t, "duppos")
		spec.Entries = append(spec.Entries[:pos], append([]Entry{d}, spec.Entries[pos:]...)...)
	}
	// a plausible binary so that hostile entries ride along an otherwise installable archive
	if rapid.IntRange(0, 2).Draw(t, "withbinary") == 0 {
		b := Entry{Name: "conduit-connector-x", Type: "0", Len: rapid.IntRange(1, 200).Draw(t, "binlen"), Fill: 3, Decl: -1}
		pos := rapid.IntRange(0, len(spec.Entries)).Draw(t, "binpos")
		spec.Entries = append(spec.Entries[:pos], append([]Entry{b}, spec.Entries[pos:]...)...)
	}
	spec.Trailer = pick2int(t, "trailer", 2, 8, 0, 1, 1, 1, 5, 1)
	spec.Wrap = pick(t, "wrap", "gzip", 12, "raw", 1, "gzip2", 1)
	switch pick(t, "damage", "none", 8, "tar", 2, "gz", 2, "trunc", 2) {
	case "tar":
		spec.CorruptTar = 1 + rapid.IntRange(0, 512*(2*len(spec.Entries)+2)).Draw(t, "corrupt_tar")
	case "gz":
		spec.CorruptGz = 1 + rapid.IntRange(0, 4000).Draw(t, "corrupt_gz")
	case "trunc":
		spec.TruncGz = 1 + rapid.IntRange(0, 4000).Draw(t, "trunc_gz")
	}
	return spec
}

func pick2int(t *rapid.T, label string, kv ...int) int {
	total := 0
	for i := 1; i < len(kv); i += 2 {
		total += kv[i]
	}
	x := rapid.IntRange(0, total-1).Draw(t, label)
	for i := 0; i+1 < len(kv); i += 2 {
		if x < kv[i+1] {
			return kv[i]
		}
		x -= kv[i+1]
	}
	return kv[0]
}

var safeNames = []string{"conduit-connector-x", "connector", "plugin.bin", "conduit-connector-generator_v0.10.4", "a.out", "bin", "x"}
var safeDirs = []string{"docs", "licenses", "share/doc", "extra"}
var safeNested = []string{"LICENSE", "README.md", "NOTICE", "a.txt", "conduit-connector-x"}

// genWellFormed draws an archive of the shape ExtractBinary documents as
// acceptable: exactly one root-level regular file, optional directory entries
// and nested regular files with distinct names, no links, no damage.
func genWellFormed(t *rapid.T) (ArchiveSpec, string, []byte) {
	spec := ArchiveSpec{Trailer: 2, Wrap: "gzip", Well: true}
	root := Entry{Name: rapid.SampledFrom(safeNames).Draw(t, "rootname"), Type: "0", Decl: -1,
		Len: rapid.SampledFrom([]int{0, 1, 17, 511, 512, 513, 4096, 70000}).Draw(t, "rootlen"), Fill: rapid.IntRange(1, 255).Draw(t, "rootfill")}
	if drawBool(t, "dotslash") {
		root.Name = "./" + root.Name
	}
	if drawBool(t, "rootlong") {
		root.Long = pick(t, "rootlongkind", "gnu", 1, "pax", 1)
	}
	var extra []Entry
	used := map[string]bool{}
	nd := rapid.IntRange(0, 3).Draw(t, "ndirs")
	for i := 0; i < nd; i++ {
		d := rapid.SampledFrom(safeDirs).Draw(t, fmt.Sprintf("dir%d", i))
		if used[d] {
			continue
		}
		used[d] = true
		if drawBool(t, fmt.Sprintf("direntry%d", i)) {
			extra = append(extra, Entry{Name: d + "/", Type: "5", Decl: -1})
		}
		nf := rapid.IntRange(0, 2).Draw(t, fmt.Sprintf("nfiles%d", i))
		for j := 0; j < nf; j++ {
			f := d + "/" + rapid.SampledFrom(safeNested).Draw(t, fmt.Sprintf("file%d_%d", i, j))
			if used[f] {
				continue
			}
			used[f] = true
			extra = append(extra, Entry{Name: f, Type: "0", Decl: -1, Len: rapid.IntRange(0, 600).Draw(t, fmt.Sprintf("flen%d_%d", i, j)), Fill: 9})
		}
	}
	pos := rapid.IntRange(0, len(extra)).Draw(t, "rootpos")
	spec.Entries = append(append(append([]Entry{}, extra[:pos]...), root), extra[pos:]...)
	name := strings.TrimPrefix(root.Name, "./")
	return spec, name, entryData(root)
}
