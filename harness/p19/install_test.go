package p19

import (
	"bufio"
	"bytes"
	"context"
	"encoding/hex"
	"encoding/json"
	"errors"
	"fmt"
	"io"
	"net/http"
	"net/http/httptest"
	"os"
	"path/filepath"
	"runtime"
	"strings"
	"sync"
	"testing"
	"time"

	"github.com/conduitio/conduit/pkg/foundation/cerrors/conduiterr"
	"github.com/conduitio/conduit/pkg/registry"
	"github.com/conduitio/conduit/pkg/registry/index"
	"github.com/conduitio/conduit/pkg/registry/trust"
	"pgregory.net/rapid"
	"verifharness/pbt"
)

const kInsGoodRefused = "C19/install/doc/good-install-refused"
const kInsManifestSigned = "C19/install/manifest-signed-flag-differs-from-verifier-outcome"

// kInsOutsideCacheDigest is the sub-shape of kInsOutside found on the real code:
// a declared sha256 that is a relative path makes CacheLookup (cache.go) read
// <cache>/<digest>/artifact and RemoveAll(<cache>/<digest>) outside .registry/.
const kInsOutsideCacheDigest = "C19/install/write-outside-registry-dir-or-final-artifact/cache-lookup-of-path-like-declared-digest"
const kInsTooLarge = "C19/install/doc/download-larger-than-declared-size-installed"

// ---- case description -----------------------------------------------------------

type installOp struct {
	Fetch         string `json:"fetch"`    // ok | rt-error | status-500 | status-404 | trunc-err | trunc-eof | extra | flip
	FetchK        int    `json:"fetch_k"`  // per-mille position of the truncation / flipped byte
	Verifier      string `json:"verifier"` // accept | reject | unsigned-ok
	AllowUnsigned bool   `json:"allow_unsigned"`
	Ctx           int    `json:"ctx"` // bit0 TTY, bit1 CIEnv, bit2 IsMCP, bit3 EnvVarSet, bit4 TypedConfirmation, bit5 OperatorAllowUnsigned
	DryRun        bool   `json:"dry_run,omitempty"`
	Pin           string `json:"pin,omitempty"` // version constraint
}

type installCase struct {
	Part      string      `json:"part"` // "install"
	Kind      string      `json:"kind"` // connector | processor
	Archive   ArchiveSpec `json:"archive"`
	RootName  string      `json:"root_name,omitempty"`
	RootData  []byte      `json:"root_data,omitempty"`
	Digest    string      `json:"digest"`                 // right | upper | prefixed | bogus | malformed | short | empty | traversal | traversal-prefixed
	Size      string      `json:"size"`                   // exact | small | large | zero
	SizeDelta int         `json:"size_delta"`             // for small/large
	Bundles   string      `json:"bundles"`                // none | sig | sig+vprov | sig+aprov | missing | big
	PreTarget bool        `json:"pre_target"`             // install directory exists beforehand
	IndexDmg  string      `json:"index_damage,omitempty"` // "" | json-truncated | json-garbage: the index file itself is damaged
	Ops       []installOp `json:"ops"`
}

const (
	bitTTY = 1 << iota
	bitCI
	bitMCP
	bitEnv
	bitTyped
	bitOperator
)

// decideModel is the documented table of policy.Decide (gate.go); used only to
// classify cases and for the recorded statistic, never for a verdict.
func decideModel(ctx int) bool {
	if ctx&bitOperator == 0 || ctx&bitMCP != 0 {
		return false
	}
	if ctx&bitTTY == 0 || ctx&bitCI != 0 {
		return ctx&bitEnv != 0
	}
	return ctx&bitTyped != 0
}

// ---- scripted, logging verifier ---------------------------------------------------

type verifyCall struct {
	Op       int    `json:"op"`
	Digest   string `json:"digest"`
	SigLen   int    `json:"sig_len"`
	ProvLen  int    `json:"prov_len"`
	Result   string `json:"result"`
	Identity string `json:"identity"`
}

type scriptedVerifier struct {
	mu     sync.Mutex
	op     int
	script string
	log    []verifyCall
}

func (v *scriptedVerifier) VerifyIndex(_ context.Context, raw []byte) (*index.VerifiedIndex, error) {
	p, err := index.ParseUnverified(raw)
	if err != nil {
		return nil, err
	}
	return &index.VerifiedIndex{Payload: *p, Verified: true, RootVerified: true}, nil
}

func (v *scriptedVerifier) VerifyArtifact(_ context.Context, ref registry.ArtifactRef, id trust.PinnedIdentity) (registry.VerifyResult, error) {
	v.mu.Lock()
	defer v.mu.Unlock()
	v.log = append(v.log, verifyCall{Op: v.op, Digest: hex.EncodeToString(ref.Digest[:]), SigLen: len(ref.SignatureBundle), ProvLen: len(ref.ProvenanceBundle), Result: v.script, Identity: id.IdentityPattern})
	switch v.script {
	case "accept":
		return registry.VerifyResult{Signed: true, VerifiedIdentity: "https://github.com/example/widget/.github/workflows/publish.yml@refs/tags/v1.0.0"}, nil
	case "unsigned-ok":
		return registry.VerifyResult{Signed: false}, nil
	default:
		return registry.VerifyResult{}, conduiterr.New(trust.CodeIdentityMismatch, "scripted verifier: signature identity does not match the pinned identity")
	}
}

// ---- in-memory artifact transport ---------------------------------------------------

type memTransport struct {
	data  []byte
	mode  string
	k     int
	calls int
}

type faultBody struct {
	r   io.Reader
	err error
}

func (b *faultBody) Read(p []byte) (int, error) {
	n, err := b.r.Read(p)
	if err == io.EOF && b.err != nil {
		return n, b.err
	}
	return n, err
}
func (b *faultBody) Close() error { return nil }

// served returns the bytes the client receives and whether the stream ends with an error.
func (m *memTransport) served() (data []byte, streamErr bool, status int, rtErr bool) {
	pos := 0
	if len(m.data) > 0 {
		pos = m.k * len(m.data) / 1000
		if pos >= len(m.data) {
			pos = len(m.data) - 1
		}
	}
	switch m.mode {
	case "rt-error":
		return nil, false, 0, true
	case "status-500":
		return []byte("oops"), false, 500, false
	case "status-404":
		return []byte("not found"), false, 404, false
	case "trunc-err":
		return m.data[:pos], true, 200, false
	case "trunc-eof":
		return m.data[:pos], false, 200, false
	case "extra":
		return append(append([]byte{}, m.data...), bytes.Repeat([]byte{0x5a}, 1+m.k)...), false, 200, false
	case "flip":
		d := append([]byte{}, m.data...)
		if len(d) > 0 {
			d[pos] ^= 0x01
		}
		return d, false, 200, false
	default:
		return m.data, false, 200, false
	}
}

func (m *memTransport) RoundTrip(req *http.Request) (*http.Response, error) {
	m.calls++
	data, streamErr, status, rtErr := m.served()
	if rtErr {
		return nil, errors.New("scripted transport: connection refused")
	}
	body := &faultBody{r: bytes.NewReader(data)}
	if streamErr {
		body.err = io.ErrUnexpectedEOF
	}
	return &http.Response{StatusCode: status, Status: fmt.Sprintf("%d", status), Proto: "HTTP/1.1", ProtoMajor: 1, ProtoMinor: 1,
		Header: http.Header{}, Body: body, ContentLength: -1, Request: req}, nil
}

// ---- bundle server (signature / provenance bundles go through http.DefaultClient) ------

var (
	bundleSrvOnce sync.Once
	bundleSrvURL  string
)

func bundleServer() string {
	bundleSrvOnce.Do(func() {
		defer func() { _ = recover() }() // httptest panics when it cannot listen
		mux := http.NewServeMux()
		mux.HandleFunc("/sig.json", func(w http.ResponseWriter, _ *http.Request) { _, _ = w.Write([]byte(`{"sig":"fake-test-bundle"}`)) })
		mux.HandleFunc("/prov.json", func(w http.ResponseWriter, _ *http.Request) { _, _ = w.Write([]byte(`{"prov":"fake-test-bundle"}`)) })
		mux.HandleFunc("/big.json", func(w http.ResponseWriter, _ *http.Request) {
			_, _ = w.Write(bytes.Repeat([]byte("x"), int(registry.MaxBundleBytes)+10))
		})
		srv := httptest.NewServer(mux) // lives as long as the test process; handlers are stateless
		bundleSrvURL = srv.URL
	})
	return bundleSrvURL
}

// ---- execution -------------------------------------------------------------------------

type opFacts struct {
	Outcome    string       `json:"outcome"` // installed | already-installed | dry-run | refused:<code>
	Changes    []change     `json:"changes,omitempty"`
	Calls      []verifyCall `json:"verifier_calls,omitempty"`
	Present    bool         `json:"artifact_present"`
	Entry      bool         `json:"manifest_entry"`
	Fetches    int          `json:"fetches"`
	Disagree   bool         `json:"-"`
	TrustPass  bool         `json:"-"`
	DigestPass bool         `json:"-"`
	FetchPass  bool         `json:"-"`
}

const (
	insName    = "widget"
	insVersion = "1.0.0"
)

func declaredDigest(mode string, a []byte) string {
	right := shaHex(a)
	switch mode {
	case "upper":
		return strings.ToUpper(right)
	case "prefixed":
		return "sha256:" + right
	case "bogus":
		return shaHex(append([]byte("not the artifact"), a...))
	case "malformed":
		return strings.Repeat("zz", 32)
	case "short":
		return right[:62]
	case "empty":
		return ""
	case "traversal":
		// relative to <target>/.registry/cache this is <parent of target>/victim
		return "../../../victim"
	case "traversal-prefixed":
		return "sha256:../../../victim"
	default:
		return right
	}
}

func digestIsRight(mode string) bool { return mode == "right" || mode == "upper" || mode == "prefixed" }

func declaredSize(c installCase, a []byte) int64 {
	switch c.Size {
	case "small":
		n := int64(len(a)) - int64(1+c.SizeDelta)
		if n < 0 {
			n = 0
		}
		return n
	case "large":
		return int64(len(a)) + int64(1+c.SizeDelta)
	case "zero":
		return 0
	default:
		return int64(len(a))
	}
}

func writeIndexFile(path string, c installCase, a []byte, artifactURL string) {
	sig := index.SignatureRef{}
	var vprov, aprov *index.ProvenanceRef
	if c.Bundles != "none" {
		if u := bundleServer(); u != "" {
			switch c.Bundles {
			case "sig":
				sig.BundleURL = u + "/sig.json"
			case "sig+vprov":
				sig.BundleURL = u + "/sig.json"
				vprov = &index.ProvenanceRef{BundleURL: u + "/prov.json", PredicateType: "https://slsa.dev/provenance/v1"}
			case "sig+aprov":
				sig.BundleURL = u + "/sig.json"
				aprov = &index.ProvenanceRef{BundleURL: u + "/prov.json", PredicateType: "https://slsa.dev/provenance/v1"}
			case "missing":
				sig.BundleURL = u + "/no-such-bundle.json"
			case "big":
				sig.BundleURL = u + "/big.json"
			}
		}
	}
	art := index.Artifact{OS: runtime.GOOS, Arch: runtime.GOARCH, Kind: registry.StandaloneArtifactKind, URL: artifactURL,
		SHA256: declaredDigest(c.Digest, a), Size: declaredSize(c, a), Signature: sig, SLSAProvenance: aprov}
	pub := index.Publisher{ExpectedOIDCIssuer: "https://token.actions.githubusercontent.com", ExpectedIdentityPattern: `^https://github\.com/example/widget/.*$`}
	payload := index.Payload{SchemaVersion: 1, Index: index.IndexMeta{Version: 7, Timestamp: time.Now().UTC()}}
	decoy := index.Connector{Name: "decoy", Publisher: pub, Versions: []index.ConnectorVersion{{Version: "0.1.0", MinConduitVersion: "0.1.0", MinProtocolVersion: "0.1.0"}}}
	if c.Kind == "processor" {
		art.OS, art.Arch, art.Kind = "wasip1", "wasm", registry.WASMProcessorArtifactKind
		payload.Connectors = []index.Connector{decoy}
		payload.Processors = []index.Processor{{Name: insName, Publisher: pub, Versions: []index.ProcessorVersion{
			{Version: insVersion, MinConduitVersion: "0.1.0", MinProtocolVersion: "0.1.0", Artifact: art, SLSAProvenance: vprov}}}}
	} else {
		payload.Connectors = []index.Connector{decoy, {Name: insName, Publisher: pub, Versions: []index.ConnectorVersion{
			{Version: insVersion, MinConduitVersion: "0.1.0", MinProtocolVersion: "0.1.0", Artifacts: []index.Artifact{art}, SLSAProvenance: vprov}}}}
	}
	raw, err := json.Marshal(map[string]any{"payload": payload, "signatures": []any{}})
	if err != nil {
		panic(err)
	}
	mustWrite(path, raw, 0o644)
}

func finalArtifactName(kind string) string {
	if kind == "processor" {
		return registry.ProcessorFileName(insName, insVersion)
	}
	return fmt.Sprintf("conduit-connector-%s_%s", insName, insVersion)
}

func unsignedLogHas(path, digestHex string) bool {
	f, err := os.Open(path)
	if err != nil {
		return false
	}
	defer f.Close()
	sc := bufio.NewScanner(f)
	for sc.Scan() {
		var ev struct {
			ResolvedDigest string `json:"resolvedDigest"`
		}
		if json.Unmarshal(sc.Bytes(), &ev) == nil && strings.EqualFold(ev.ResolvedDigest, "sha256:"+digestHex) {
			return true
		}
	}
	return false
}

// runInstall executes one install case (a short sequence of installs of the same
// artifact into one directory) and evaluates the oracle after every operation.
func runInstall(c installCase) (facts []opFacts, out []verdict) {
	base := caseDir("ins")
	defer os.RemoveAll(base)
	for _, f := range []string{"abs", "x", "outside.txt", "w/x", "w/outside.txt", "w/abs", "w/conduit-connector-x", "w/victim/artifact", "w/victim/keep.txt"} {
		mustWrite(filepath.Join(base, f), []byte("sentinel:"+f), 0o644)
	}
	dirName := "connectors"
	if c.Kind == "processor" {
		dirName = "processors"
	}
	targetRel := filepath.Join("w", dirName)
	target := filepath.Join(base, targetRel)
	if c.PreTarget {
		_ = os.MkdirAll(target, 0o755)
		mustWrite(filepath.Join(target, "conduit-connector-other_0.1.0"), []byte("an unrelated, previously installed plugin"), 0o755)
	}
	a := buildArchive(c.Archive, base)
	indexPath := filepath.Join(base, "in", "index.json")
	writeIndexFile(indexPath, c, a, "http://artifacts.invalid/widget.tar.gz")
	if c.IndexDmg != "" {
		good, _ := os.ReadFile(indexPath)
		mustWrite(indexPath, damageJSON(good, c.IndexDmg), 0o644)
	}

	artifactRel := filepath.Join(targetRel, finalArtifactName(c.Kind))
	artifactPath := filepath.Join(base, artifactRel)
	registryRel := filepath.Join(targetRel, ".registry")
	manifestPath := filepath.Join(base, registryRel, "manifest.json")
	key, _ := registry.ManifestKey(insName, insVersion)
	wantDigest := shaHex(a)
	ver := &scriptedVerifier{}
	cachePopulated := false

	for i, op := range c.Ops {
		of := opFacts{}
		ver.mu.Lock()
		ver.op, ver.script = i, op.Verifier
		nlog := len(ver.log)
		ver.mu.Unlock()
		rt := &memTransport{data: a, mode: op.Fetch, k: op.FetchK}
		opts := registry.InstallOptions{
			Name: insName, Version: op.Pin, IndexFile: indexPath,
			IndexVerifier: ver, ArtifactVerifier: ver,
			RunningConduitVersion: "1.0.0", RunningProtocolVersion: "1.0.0", InstalledBy: "p19",
			LockTimeout: 20 * time.Second, DryRun: op.DryRun, HTTPClient: &http.Client{Transport: rt},
			AllowUnsigned: op.AllowUnsigned,
			TTY:           op.Ctx&bitTTY != 0, CIEnv: op.Ctx&bitCI != 0, IsMCP: op.Ctx&bitMCP != 0, EnvVarSet: op.Ctx&bitEnv != 0,
			TypedConfirmation: op.Ctx&bitTyped != 0, OperatorAllowUnsigned: op.Ctx&bitOperator != 0,
		}
		if c.Kind == "processor" {
			opts.ProcessorsPath = target
		} else {
			opts.ConnectorsPath = target
		}

		before := snapshot(base)
		mBefore, _ := registry.LoadManifest(manifestPath)
		_, entryBefore := mBefore.Installs[key]
		var res *registry.InstallResult
		var err error
		var panicked any
		func() {
			defer func() { panicked = recover() }()
			if c.Kind == "processor" {
				res, err = registry.InstallProcessor(context.Background(), opts)
			} else {
				res, err = registry.Install(context.Background(), opts)
			}
		}()
		after := snapshot(base)
		of.Changes = diffTrees(before, after)
		of.Fetches = rt.calls
		ver.mu.Lock()
		of.Calls = append([]verifyCall(nil), ver.log[nlog:]...)
		ver.mu.Unlock()
		bad := func(k, d string) { out = append(out, verdict{k, fmt.Sprintf("op %d: %s", i, d)}) }

		if panicked != nil {
			bad(kInsPanic, fmt.Sprintf("panic: %v", panicked))
			facts = append(facts, of)
			return facts, out
		}
		switch {
		case err != nil:
			of.Outcome = "refused:" + codeOf(err)
		case res != nil && res.AlreadyInstalled:
			of.Outcome = "already-installed"
		case res != nil && res.DryRun:
			of.Outcome = "dry-run"
		default:
			of.Outcome = "installed"
		}

		// --- observed state
		an, present := after[artifactRel]
		present = present && an.Type == "f"
		bn, presentBefore := before[artifactRel]
		presentBefore = presentBefore && bn.Type == "f"
		mAfter, merr := registry.LoadManifest(manifestPath)
		entry := registry.ManifestEntry{}
		entryAfter := false
		if merr == nil {
			entry, entryAfter = mAfter.Installs[key]
		}
		of.Present, of.Entry = present, entryAfter
		newly := present && (!presentBefore || an.Hash != bn.Hash || an.Size != bn.Size)

		// --- gates as the case scripted them (classification only)
		data, streamErr, status, rtErr := rt.served()
		deliversA := !rtErr && !streamErr && status == 200 && bytes.Equal(data, a)
		sizeOK := declaredSize(c, a) >= int64(len(a))
		of.FetchPass = (deliversA && sizeOK) || cachePopulated
		of.DigestPass = digestIsRight(c.Digest)
		if op.AllowUnsigned {
			of.TrustPass = decideModel(op.Ctx)
		} else {
			of.TrustPass = op.Verifier == "accept"
		}
		of.Disagree = !(of.FetchPass == of.DigestPass && of.DigestPass == of.TrustPass)

		// (a) confinement: parent-of-target tree diff
		for _, ch := range of.Changes {
			ok := under(ch.Path, registryRel) || ch.Path == artifactRel || (ch.Path == targetRel && ch.Kind == "created")
			if !ok {
				k := kInsOutside
				if strings.HasPrefix(c.Digest, "traversal") && ch.Kind == "removed" && under(ch.Path, filepath.Join("w", "victim")) {
					k = kInsOutsideCacheDigest
				}
				bad(k, fmt.Sprintf("%s %q (allowed: %q/** and %q); declared sha256 %q", ch.Kind, ch.Path, registryRel, artifactRel, declaredDigest(c.Digest, a)))
				break
			}
		}
		// (b) manifest entry <=> artifact
		if merr != nil {
			bad(kInsManifestOnly, fmt.Sprintf("manifest unreadable after the operation: %v", merr))
		} else if entryAfter && !present {
			bad(kInsManifestOnly, "manifest lists "+key+" but the artifact file is absent")
		} else if present && !entryAfter {
			bad(kInsArtifactOnly, "artifact file present but manifest has no entry "+key)
		}
		// (c) refusal: coded, nothing new left behind, nothing old disturbed
		if err != nil {
			if !isCoded(err) {
				bad(uncodedKey(kInsUncoded, err), fmt.Sprintf("uncoded error %v", err))
			}
			if (present && !presentBefore) || (entryAfter && !entryBefore) {
				bad(kInsErrLeft, fmt.Sprintf("refused (%s) but artifact=%v manifest-entry=%v remain", codeOf(err), present, entryAfter))
			}
			if presentBefore && (!present || an.Hash != bn.Hash) {
				bad(kInsPrevChanged, fmt.Sprintf("refused (%s) but the previously installed artifact changed", codeOf(err)))
			}
		} else if !op.DryRun && (!present || !entryAfter) {
			bad(kInsOKNothing, fmt.Sprintf("returned success (%s) but artifact=%v manifest-entry=%v", of.Outcome, present, entryAfter))
		}
		// (d) a NEW final artifact => integrity and trust gates
		if newly {
			if !digestIsRight(c.Digest) {
				bad(kInsDigest, fmt.Sprintf("artifact installed although the index declares sha256 %q and the artifact bytes hash to %s", declaredDigest(c.Digest, a), wantDigest))
			} else if !deliversA && !cachePopulated {
				bad(kInsDigest, fmt.Sprintf("artifact installed although the transport (%s) never delivered bytes with the declared digest", op.Fetch))
			}
			if c.RootData != nil {
				if got, _ := os.ReadFile(artifactPath); !bytes.Equal(got, c.RootData) {
					bad(kInsDigest, fmt.Sprintf("installed file (%d bytes) is not the binary of the digest-checked archive (%d bytes)", len(got), len(c.RootData)))
				}
			}
			if deliversA && !cachePopulated && !sizeOK {
				bad(kInsTooLarge, fmt.Sprintf("declared size %d < downloaded %d", declaredSize(c, a), len(a)))
			}
			accepted := false
			for _, call := range of.Calls {
				if call.Result == "accept" && call.Digest == wantDigest {
					accepted = true
				}
			}
			switch {
			case accepted:
			case !op.AllowUnsigned:
				if len(of.Calls) == 0 {
					bad(kInsUnsignedNoReq, "artifact installed without any verifier call and without an --allow-unsigned request")
				} else {
					bad(kInsNoAccept, fmt.Sprintf("artifact installed, verifier calls: %+v", of.Calls))
				}
			case op.Ctx&bitOperator == 0:
				bad(kInsUnsignedNoOp, fmt.Sprintf("unsigned artifact installed with OperatorAllowUnsigned=false (ctx %06b)", op.Ctx))
			default:
				if !unsignedLogHas(filepath.Join(base, registryRel, "unsigned-installs.log"), wantDigest) {
					bad(kInsUnsignedNoLog, "unsigned install without a line for this digest in unsigned-installs.log")
				}
			}
			if entryAfter && !strings.EqualFold(entry.Digest, "sha256:"+wantDigest) {
				bad(kInsManifestDigest, fmt.Sprintf("manifest digest %q, artifact bytes %s", entry.Digest, wantDigest))
			}
			if entryAfter && entry.Signed != accepted {
				bad(kInsManifestSigned, fmt.Sprintf("manifest signed=%v but accepting verifier call=%v", entry.Signed, accepted))
			}
		}
		// (e) staging is removed on every exit path (install.go, downloadVerifyAndInstall)
		if ents, _ := os.ReadDir(filepath.Join(base, registryRel, "staging")); len(ents) > 0 {
			bad(kInsStaging, fmt.Sprintf("%d entries left under .registry/staging (first %q)", len(ents), ents[0].Name()))
		}
		// (f) vacuity guard: every gate open on a well-formed connector archive installs
		if c.Kind == "connector" && c.IndexDmg == "" && c.Archive.Well && !op.DryRun && !entryBefore && of.FetchPass && of.DigestPass && !op.AllowUnsigned && op.Verifier == "accept" &&
			(c.Bundles == "none" || c.Bundles == "sig" || c.Bundles == "sig+vprov" || c.Bundles == "sig+aprov") && (op.Pin == "" || op.Pin == "1.0.0" || op.Pin == "v1.0.0") && err != nil {
			bad(kInsGoodRefused, fmt.Sprintf("all gates open but refused: %v", err))
		}

		// a fresh download that passed Download + CheckCorruption populates the cache
		if !op.DryRun && deliversA && sizeOK && digestIsRight(c.Digest) && (op.Pin == "" || op.Pin == "1.0.0" || op.Pin == "v1.0.0") && !entryBefore {
			cachePopulated = true
		}
		facts = append(facts, of)
	}
	return facts, out
}

// ---- generator ------------------------------------------------------------------------------

func genInstallOp(t *rapid.T, i int) installOp {
	l := fmt.Sprintf("op%d/", i)
	op := installOp{}
	op.Fetch = pick(t, l+"fetch", "ok", 14, "rt-error", 1, "status-500", 1, "status-404", 1, "trunc-err", 2, "trunc-eof", 2, "extra", 1, "flip", 2)
	op.FetchK = rapid.IntRange(0, 999).Draw(t, l+"fetchk")
	op.Verifier = pick(t, l+"verifier", "accept", 5, "reject", 3, "unsigned-ok", 2)
	op.AllowUnsigned = rapid.IntRange(0, 2).Draw(t, l+"allowunsigned") == 0
	op.Ctx = rapid.IntRange(0, 63).Draw(t, l+"ctx")
	op.DryRun = rapid.IntRange(0, 39).Draw(t, l+"dryrun") == 0
	op.Pin = pick(t, l+"pin", "", 14, "1.0.0", 3, "v1.0.0", 3, "2.0.0", 1, "not-a-version", 1)
	return op
}

func genInstallCase(t *rapid.T, st *pbt.Stats) installCase {
	c := installCase{Part: "install"}
	c.Kind = pick(t, "kind", "connector", 5, "processor", 1)
	if rapid.IntRange(0, 3).Draw(t, "hostile-archive") == 0 {
		c.Archive = genHostile(t)
	} else {
		c.Archive, c.RootName, c.RootData = genWellFormed(t)
	}
	c.Digest = pick(t, "digest", "right", 10, "upper", 1, "prefixed", 1, "bogus", 3, "malformed", 1, "short", 1, "empty", 1, "traversal", 1, "traversal-prefixed", 1)
	if strings.HasPrefix(c.Digest, "traversal") && st.IsKnown(kInsOutsideCacheDigest) {
		// known defect: exclude exactly this shape so that the search continues behind it
		st.Exclude(kInsOutsideCacheDigest)
		c.Digest = "malformed"
	}
	c.Size = pick(t, "size", "exact", 8, "small", 3, "large", 3, "zero", 1)
	c.SizeDelta = rapid.IntRange(0, 2000).Draw(t, "sizedelta")
	c.Bundles = pick(t, "bundles", "none", 6, "sig", 3, "sig+vprov", 2, "sig+aprov", 2, "missing", 1, "big", 1)
	c.PreTarget = rapid.IntRange(0, 3).Draw(t, "pretarget") != 0
	c.IndexDmg = pick(t, "indexdamage", "", 28, "json-truncated", 1, "json-garbage", 1)
	if c.IndexDmg != "" && st.IsKnown(kUncodedIndexSyntax) {
		st.Exclude(kUncodedIndexSyntax)
		c.IndexDmg = ""
	}
	n := pick2int(t, "nops", 1, 6, 2, 3, 3, 1)
	for i := 0; i < n; i++ {
		c.Ops = append(c.Ops, genInstallOp(t, i))
	}
	// bias of multi-operation cases: the first operation downloads fine but is
	// refused by the verifier, so that later ones find the artifact in the cache
	if n > 1 && drawBool(t, "cache-primer") {
		c.Ops[0].Fetch, c.Ops[0].Verifier, c.Ops[0].AllowUnsigned, c.Ops[0].DryRun, c.Ops[0].Pin = "ok", "reject", false, false, ""
	}
	return c
}

func installClasses(c installCase, facts []opFacts) (cls []string, nontrivial bool) {
	cls = append(cls, "kind:"+c.Kind, "digest:"+c.Digest, "size:"+c.Size, "bundles:"+c.Bundles)
	if c.IndexDmg != "" {
		cls = append(cls, "index-file:"+c.IndexDmg)
	}
	_, hostile := archiveClasses(c.Archive)
	if hostile {
		cls = append(cls, "archive:hostile")
	} else {
		cls = append(cls, "archive:wellformed")
	}
	for i, f := range facts {
		op := c.Ops[i]
		cls = append(cls, "fetch:"+op.Fetch, "outcome:"+f.Outcome)
		if op.AllowUnsigned {
			cls = append(cls, "allow-unsigned-requested")
			if f.Outcome == "installed" {
				cls = append(cls, "unsigned-installed")
			}
		} else {
			cls = append(cls, "verifier:"+op.Verifier)
		}
		if f.Disagree {
			cls = append(cls, "gates-disagree")
			nontrivial = true
		}
		if f.Outcome == "installed" && f.Fetches == 0 {
			cls = append(cls, "installed-from-cache")
		}
		if hostile && f.FetchPass && f.DigestPass && f.TrustPass {
			cls = append(cls, "hostile-archive-past-all-gates")
			nontrivial = true
		}
	}
	if len(c.Ops) > 1 {
		cls = append(cls, "multi-op")
	}
	return dedup(cls), nontrivial
}

// TestC19Install: full registry.Install / InstallProcessor with scripted gates.
func TestC19Install(t *testing.T) {
	st := pbt.For(prop)
	defer st.Finish(t)
	rapid.Check(t, func(t *rapid.T) {
		c := genInstallCase(t, st)
		pbt.MarkCurrent(prop, c)
		facts, vs := runInstall(c)
		cls, nontrivial := installClasses(c, facts)
		st.Case(pbt.Hash(c), nontrivial, cls...)
		if nontrivial && st.WantSample() {
			st.Sample(map[string]any{"part": "install", "case": c, "facts": facts})
		}
		for _, v := range vs {
			report(t, st, v.Key, v.Detail, jsonSize(c), c)
		}
	})
}

// TestC19PolicyEnum: the 64 policy contexts exhaustively, each with an
// --allow-unsigned request (verifier must not matter) and without one (verifier
// accept / reject / success-without-signing). The observed Decide table is
// recorded as a statistic; the verdict is the same necessary-condition oracle.
func TestC19PolicyEnum(t *testing.T) {
	st := pbt.For(prop)
	defer st.Finish(t)
	wf := ArchiveSpec{Entries: []Entry{{Name: "conduit-connector-widget", Type: "0", Len: 64, Fill: 7, Decl: -1}}, Trailer: 2, Wrap: "gzip", Well: true}
	root := entryData(wf.Entries[0])
	table := map[string]string{}
	for ctx := 0; ctx < 64; ctx++ {
		for _, variant := range []installOp{
			{Fetch: "ok", Verifier: "reject", AllowUnsigned: true, Ctx: ctx},
			{Fetch: "ok", Verifier: "accept", AllowUnsigned: false, Ctx: ctx},
			{Fetch: "ok", Verifier: "reject", AllowUnsigned: false, Ctx: ctx},
			{Fetch: "ok", Verifier: "unsigned-ok", AllowUnsigned: false, Ctx: ctx},
		} {
			c := installCase{Part: "install", Kind: "connector", Archive: wf, RootName: "conduit-connector-widget", RootData: root,
				Digest: "right", Size: "exact", Bundles: "none", PreTarget: ctx%2 == 0, Ops: []installOp{variant}}
			pbt.MarkCurrent(prop, c)
			facts, vs := runInstall(c)
			cls, nontrivial := installClasses(c, facts)
			st.Case(pbt.Hash(c), nontrivial, append(cls, "policy-enumeration")...)
			if variant.AllowUnsigned && len(facts) == 1 {
				table[fmt.Sprintf("tty=%d ci=%d mcp=%d env=%d typed=%d operator=%d", ctx&1, ctx>>1&1, ctx>>2&1, ctx>>3&1, ctx>>4&1, ctx>>5&1)] = facts[0].Outcome
				if (facts[0].Outcome == "installed") != decideModel(ctx) {
					st.Class("decide-table-differs-from-documented-matrix", 1)
				}
			}
			for _, v := range vs {
				if st.Report(v.Key, v.Detail, jsonSize(c), c) {
					t.Errorf("%s", v)
				}
			}
		}
	}
	st.SetExtra("observed_policy_decide_table", table)
}
