package p19

import (
	"encoding/json"
	"os"
	"testing"
)

// TestReplayC19 re-executes the case stored in VERIF_REPLAY_FILE
// ({"property","key","detail","replay":{"part":...}}) without rapid and fails
// iff the recorded violation key reproduces.
func TestReplayC19(t *testing.T) {
	path := os.Getenv("VERIF_REPLAY_FILE")
	if path == "" {
		t.Skip("VERIF_REPLAY_FILE not set")
	}
	raw, err := os.ReadFile(path)
	if err != nil {
		t.Fatalf("read replay file: %v", err)
	}
	var doc struct {
		Property string          `json:"property"`
		Key      string          `json:"key"`
		Detail   string          `json:"detail"`
		Replay   json.RawMessage `json:"replay"`
	}
	if err := json.Unmarshal(raw, &doc); err != nil {
		t.Fatalf("parse replay file: %v", err)
	}
	var head struct {
		Part string `json:"part"`
	}
	if err := json.Unmarshal(doc.Replay, &head); err != nil {
		t.Fatalf("parse replay value: %v", err)
	}
	var vs []verdict
	switch head.Part {
	case "extract":
		var rp extractReplay
		must(t, json.Unmarshal(doc.Replay, &rp))
		_, vs = runExtract(rp)
	case "install":
		var c installCase
		must(t, json.Unmarshal(doc.Replay, &c))
		_, vs = runInstall(c)
	case "bundle":
		var c bundleCase
		must(t, json.Unmarshal(doc.Replay, &c))
		_, _, vs = runBundle(c)
	case "index":
		var c idxCase
		must(t, json.Unmarshal(doc.Replay, &c))
		if len(c.Workers) > 0 {
			// scheduling dependent: give the interleaving a few chances
			for i := 0; i < 20 && len(vs) == 0; i++ {
				_, _, vs = runIndexConc(c)
			}
		} else {
			_, vs = runIndexSeq(c)
		}
	case "crash":
		var s crashSpec
		must(t, json.Unmarshal(doc.Replay, &s))
		if !haveStrace() {
			t.Skip("strace not available")
		}
		pts := s.Points
		var inc string
		_, vs, inc = runCrashScenario(&s, func([]string, map[string]int) []crashPoint { return pts })
		if inc != "" {
			t.Logf("inconclusive: %s", inc)
		}
	default:
		t.Fatalf("unknown part %q in replay value", head.Part)
	}
	reproduced := false
	for _, v := range vs {
		t.Logf("violation: %s", v)
		if doc.Key == "" || v.Key == doc.Key {
			reproduced = true
		}
	}
	if reproduced {
		t.Fatalf("violation %s reproduces", doc.Key)
	}
	t.Logf("violation %s does not reproduce (%d other violations)", doc.Key, len(vs))
}

func must(t *testing.T, err error) {
	t.Helper()
	if err != nil {
		t.Fatalf("parse replay value: %v", err)
	}
}
