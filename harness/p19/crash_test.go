package p19

import (
	"bufio"
	"bytes"
	"context"
	"encoding/json"
	"errors"
	"fmt"
	"io/fs"
	"net/http"
	"os"
	"os/exec"
	"path/filepath"
	"regexp"
	"runtime"
	"sort"
	"strings"
	"syscall"
	"testing"
	"time"

	"github.com/conduitio/conduit/pkg/foundation/atomicfile"
	"github.com/conduitio/conduit/pkg/registry"
	"github.com/conduitio/conduit/pkg/registry/index"
	"pgregory.net/rapid"
	"verifharness/pbt"
)

const kCrStray = "C19/crash/stray-file-in-install-directory"

// ---- scenario ---------------------------------------------------------------------------------

type crashPoint struct {
	Syscall string `json:"syscall"`
	Rel     int    `json:"rel"`  // 1-based index among this syscall's invocations inside the operation window (main thread)
	Mode    string `json:"mode"` // kill | ENOSPC | EIO | EDQUOT
}

type crashSpec struct {
	Part       string         `json:"part"` // "crash"
	Op         string         `json:"op"`   // atomic | manifest | state | verifyindex | install
	OldLen     int            `json:"old_len"`
	NewLen     int            `json:"new_len"`
	OldEntries int            `json:"old_entries"`
	NewEntries int            `json:"new_entries"`
	OldVersion int64          `json:"old_version"`
	NewVersion int64          `json:"new_version"`
	Seed       int64          `json:"seed"`
	Prior      bool           `json:"prior"`   // install: an earlier install is recorded in the manifest
	BinLen     int            `json:"bin_len"` // install: size of the binary in the archive
	Points     []crashPoint   `json:"points"`  // filled in while the case runs (replay value)
	Window     []string       `json:"-"`       // syscall sequence of the probe run
	K0         map[string]int `json:"-"`
}

func fillBytes(n, fill int) []byte {
	b := make([]byte, n)
	for i := range b {
		b[i] = byte(fill + i*13)
	}
	return b
}

func manifestWith(n int, tag string) *registry.Manifest {
	m := &registry.Manifest{SchemaVersion: registry.ManifestSchemaVersion, Installs: map[string]registry.ManifestEntry{}}
	for i := 0; i < n; i++ {
		name := fmt.Sprintf("%s%d", tag, i)
		m.Installs[name+"@1.0.0"] = registry.ManifestEntry{Name: name, Version: "1.0.0", Kind: registry.StandaloneArtifactKind, OS: "linux", Arch: "amd64",
			ArtifactFile: "conduit-connector-" + name + "_1.0.0", Digest: "sha256:" + shaHex([]byte(name)), Size: int64(100 + i),
			InstalledAt: time.Date(2026, 1, 2, 3, 4, 5, 0, time.UTC), InstalledBy: "p19", SourceIndexVersion: 7, Source: registry.InstallSourceIndex, Signed: true,
			VerifiedIdentity: "https://github.com/example/" + name}
	}
	return m
}

func crashInstallCase(s crashSpec) installCase {
	wf := ArchiveSpec{Entries: []Entry{{Name: "conduit-connector-widget", Type: "0", Len: s.BinLen, Fill: 11, Decl: -1}}, Trailer: 2, Wrap: "gzip", Well: true}
	return installCase{Part: "install", Kind: "connector", Archive: wf, RootName: "conduit-connector-widget", RootData: entryData(wf.Entries[0]),
		Digest: "right", Size: "exact", Bundles: "none", PreTarget: true}
}

// paths inside a scenario directory
func crTarget(dir string) string { return filepath.Join(dir, "w", "connectors") }
func crFile(dir string) string   { return filepath.Join(dir, "w", "connectors", ".registry", "data.bin") }
func crManifest(dir string) string {
	return filepath.Join(dir, "w", "connectors", ".registry", "manifest.json")
}
func crState(dir string) string { return registry.IndexStatePath(crTarget(dir)) }

// prepareTemplate creates the OLD state of a scenario.
func prepareTemplate(s crashSpec, dir string) error {
	if err := os.MkdirAll(filepath.Join(crTarget(dir), ".registry"), 0o755); err != nil {
		return err
	}
	switch s.Op {
	case "atomic":
		if s.OldLen >= 0 {
			mustWrite(crFile(dir), fillBytes(s.OldLen, 1), 0o644)
		}
	case "manifest":
		if s.OldEntries >= 0 {
			return registry.SaveManifest(crManifest(dir), manifestWith(s.OldEntries, "old"))
		}
	case "state":
		if s.OldVersion >= 0 {
			return index.SaveState(crState(dir), index.State{Version: s.OldVersion, LastVerifiedContentHash: "sha256:" + shaHex([]byte("old"))})
		}
	case "verifyindex":
		k := newKeyset(s.Seed)
		mustWrite(filepath.Join(dir, "in", "index.json"), signedEnvelope(k, index.Payload{SchemaVersion: 1,
			Index: index.IndexMeta{Version: s.NewVersion, Timestamp: time.Now().UTC()}, Connectors: contentVariant(1)}, "root"), 0o644)
		if s.OldVersion >= 0 {
			tv := &registry.TrustedVerifier{Anchors: k.anchors(), StatePath: crState(dir)}
			old := signedEnvelope(k, index.Payload{SchemaVersion: 1, Index: index.IndexMeta{Version: s.OldVersion, Timestamp: time.Now().UTC()}, Connectors: contentVariant(0)}, "root")
			if _, err := tv.VerifyIndex(context.Background(), old); err != nil {
				return err
			}
		}
	case "install":
		c := crashInstallCase(s)
		a := buildArchive(c.Archive, dir)
		mustWrite(filepath.Join(dir, "in", "artifact.tar.gz"), a, 0o644)
		writeIndexFile(filepath.Join(dir, "in", "index.json"), c, a, "http://artifacts.invalid/widget.tar.gz")
		if s.Prior {
			m := manifestWith(1, "other")
			for _, e := range m.Installs {
				mustWrite(filepath.Join(crTarget(dir), e.ArtifactFile), []byte("previously installed"), 0o755)
			}
			return registry.SaveManifest(crManifest(dir), m)
		}
	}
	return nil
}

// ---- child ---------------------------------------------------------------------------------------

type childResult struct {
	OK   bool   `json:"ok"`
	Err  string `json:"err,omitempty"`
	Code string `json:"code,omitempty"`
	Note string `json:"note,omitempty"`
}

func init() {
	if os.Getenv("P19_CHILD") != "" {
		// the main goroutine stays on the main thread: strace's `when=N` counts per
		// thread, and the main thread's history up to the operation is deterministic
		runtime.LockOSThread()
	}
}

// childMain performs ONE operation on the prepared directory P19_DIR.
func childMain() int {
	raw, err := os.ReadFile(os.Getenv("P19_CHILD"))
	if err != nil {
		return 3
	}
	var s crashSpec
	if json.Unmarshal(raw, &s) != nil {
		return 3
	}
	dir := os.Getenv("P19_DIR")
	var op func() error
	switch s.Op {
	case "atomic":
		content := fillBytes(s.NewLen, 2)
		op = func() error { return atomicfile.WriteFile(crFile(dir), content, 0o644) }
	case "manifest":
		m := manifestWith(s.NewEntries, "new")
		op = func() error { return registry.SaveManifest(crManifest(dir), m) }
	case "state":
		st := index.State{Version: s.NewVersion, LastVerifiedContentHash: "sha256:" + shaHex([]byte("new"))}
		op = func() error { return index.SaveState(crState(dir), st) }
	case "verifyindex":
		k := newKeyset(s.Seed)
		env, rerr := os.ReadFile(filepath.Join(dir, "in", "index.json"))
		if rerr != nil {
			return 3
		}
		tv := &registry.TrustedVerifier{Anchors: k.anchors(), StatePath: crState(dir), LockTimeout: 5 * time.Second}
		op = func() error { _, err := tv.VerifyIndex(context.Background(), env); return err }
	case "install":
		a, rerr := os.ReadFile(filepath.Join(dir, "in", "artifact.tar.gz"))
		if rerr != nil {
			return 3
		}
		ver := &scriptedVerifier{script: "accept"}
		opts := registry.InstallOptions{Name: insName, IndexFile: filepath.Join(dir, "in", "index.json"), ConnectorsPath: crTarget(dir),
			IndexVerifier: ver, ArtifactVerifier: ver, RunningConduitVersion: "1.0.0", RunningProtocolVersion: "1.0.0", InstalledBy: "p19",
			LockTimeout: 5 * time.Second, HTTPClient: &http.Client{Transport: &memTransport{data: a, mode: "ok"}}}
		op = func() error { _, err := registry.Install(context.Background(), opts); return err }
	default:
		return 3
	}
	if f, err := os.Open("/p19-marker-begin"); err == nil {
		f.Close()
	}
	err = op()
	if f, err := os.Open("/p19-marker-end"); err == nil {
		f.Close()
	}
	res := childResult{OK: err == nil}
	if err != nil {
		res.Err, res.Code = err.Error(), codeOf(err)
	}
	b, _ := json.Marshal(res)
	_ = os.WriteFile(os.Getenv("P19_RESULT"), b, 0o644)
	return 0
}

// ---- parent: running the child ----------------------------------------------------------------

const traceSet = "openat,write,pwrite64,rename,renameat,renameat2,fsync,fdatasync,unlink,unlinkat,close,fchmodat,fchmod,mkdirat,flock,ftruncate"

type childRun struct {
	Killed   bool
	Exit     int
	TimedOut bool
	Result   *childResult
	Output   string
}

func runChild(specPath, dir string, straceArgs []string) childRun {
	resPath := filepath.Join(filepath.Dir(specPath), fmt.Sprintf("result-%d.json", time.Now().UnixNano()))
	defer os.Remove(resPath)
	ctx, cancel := context.WithTimeout(context.Background(), 3*time.Minute)
	defer cancel()
	args := []string{os.Args[0], "-test.run", "^$"}
	var cmd *exec.Cmd
	if straceArgs != nil {
		cmd = exec.CommandContext(ctx, "strace", append(append([]string{}, straceArgs...), args...)...)
	} else {
		cmd = exec.CommandContext(ctx, args[0], args[1:]...)
	}
	cmd.Env = append(os.Environ(), "P19_CHILD="+specPath, "P19_DIR="+dir, "P19_RESULT="+resPath, "VERIF_STATS_DIR=")
	var outb bytes.Buffer
	cmd.Stdout, cmd.Stderr = &outb, &outb
	err := cmd.Run()
	r := childRun{Output: outb.String()}
	if ctx.Err() != nil {
		r.TimedOut = true
	}
	var ee *exec.ExitError
	if errors.As(err, &ee) {
		if ws, ok := ee.Sys().(syscall.WaitStatus); ok && ws.Signaled() {
			r.Killed = true
		}
		r.Exit = ee.ExitCode()
		if r.Exit == 137 {
			r.Killed = true
		}
	}
	if b, rerr := os.ReadFile(resPath); rerr == nil {
		var cr childResult
		if json.Unmarshal(b, &cr) == nil {
			r.Result = &cr
		}
	}
	return r
}

var straceLine = regexp.MustCompile(`^(\d+)\s+([a-z_0-9]+)\(`)

// parseProbe extracts, for the main thread, how often each traced syscall ran
// before the operation window and the ordered sequence of calls inside it.
func parseProbe(logPath string) (k0 map[string]int, window []string, creat []bool, err error) {
	f, err := os.Open(logPath)
	if err != nil {
		return nil, nil, nil, err
	}
	defer f.Close()
	k0 = map[string]int{}
	sc := bufio.NewScanner(f)
	sc.Buffer(make([]byte, 1<<20), 1<<20)
	mainPID := ""
	phase := 0 // 0 before, 1 inside, 2 after
	for sc.Scan() {
		line := sc.Text()
		m := straceLine.FindStringSubmatch(line)
		if m == nil {
			continue
		}
		if mainPID == "" {
			mainPID = m[1]
		}
		if m[1] != mainPID {
			continue
		}
		name := m[2]
		if name == "openat" && strings.Contains(line, "/p19-marker-begin") {
			k0[name]++
			phase = 1
			continue
		}
		if name == "openat" && strings.Contains(line, "/p19-marker-end") {
			phase = 2
			continue
		}
		switch phase {
		case 0:
			k0[name]++
		case 1:
			window = append(window, name)
			// creation of a temp / staging file (not of a lock file or a directory)
			creat = append(creat, name == "openat" && strings.Contains(line, "O_CREAT") &&
				(strings.Contains(line, ".atomicfile-") || strings.Contains(line, "/staging/")))
		}
	}
	if phase != 2 {
		return k0, window, creat, fmt.Errorf("markers not found in the probe log (phase %d)", phase)
	}
	return k0, window, creat, nil
}

func copyTree(src, dst string) error {
	return filepath.WalkDir(src, func(p string, d fs.DirEntry, err error) error {
		if err != nil {
			return err
		}
		rel, _ := filepath.Rel(src, p)
		to := filepath.Join(dst, rel)
		info, err := d.Info()
		if err != nil {
			return err
		}
		if d.IsDir() {
			return os.MkdirAll(to, info.Mode().Perm()|0o700)
		}
		b, err := os.ReadFile(p)
		if err != nil {
			return err
		}
		return os.WriteFile(to, b, info.Mode().Perm())
	})
}

// ---- state inspection ----------------------------------------------------------------------------

// normManifest renders a manifest for comparison, ignoring the wall-clock InstalledAt of the new entry.
func normManifest(path string) (string, error) {
	raw, err := os.ReadFile(path)
	if os.IsNotExist(err) {
		return "<absent>", nil
	}
	if err != nil {
		return "", err
	}
	if len(bytes.TrimSpace(raw)) == 0 {
		return "", fmt.Errorf("manifest is empty")
	}
	m, err := registry.LoadManifest(path)
	if err != nil {
		return "", err
	}
	keys := make([]string, 0, len(m.Installs))
	for k := range m.Installs {
		keys = append(keys, k)
	}
	sort.Strings(keys)
	var b strings.Builder
	for _, k := range keys {
		e := m.Installs[k]
		if e.Name == insName {
			e.InstalledAt = time.Time{}
		}
		j, _ := json.Marshal(e)
		fmt.Fprintf(&b, "%s=%s\n", k, j)
	}
	return b.String(), nil
}

// fileState returns the bytes of the file an operation replaces ("<absent>" when missing).
func fileState(s crashSpec, dir string) (string, error) {
	var p string
	switch s.Op {
	case "atomic":
		p = crFile(dir)
	case "manifest":
		p = crManifest(dir)
	case "state", "verifyindex":
		p = crState(dir)
	case "install":
		return normManifest(crManifest(dir))
	}
	raw, err := os.ReadFile(p)
	if os.IsNotExist(err) {
		return "<absent>", nil
	}
	if err != nil {
		return "", err
	}
	switch s.Op {
	case "manifest":
		if _, err := registry.LoadManifest(p); err != nil {
			return string(raw), fmt.Errorf("manifest does not parse: %w", err)
		}
	case "state", "verifyindex":
		if _, err := index.LoadState(p); err != nil {
			return string(raw), fmt.Errorf("state does not parse: %w", err)
		}
	}
	return string(raw), nil
}

// brief renders file content for a violation message: length, hash and a printable prefix.
func brief(s string) string {
	return fmt.Sprintf("[%d bytes sha256:%s %q]", len(s), shaHex([]byte(s))[:12], truncate(s, 60))
}

func strayTemps(dir string) []string {
	var out []string
	_ = filepath.WalkDir(filepath.Join(dir, "w"), func(p string, d fs.DirEntry, err error) error {
		if err == nil && !d.IsDir() && strings.HasPrefix(d.Name(), ".atomicfile-") {
			out = append(out, p)
		}
		return nil
	})
	return out
}

type pointFacts struct {
	Point     crashPoint `json:"point"`
	When      int        `json:"when"`
	Outcome   string     `json:"outcome"` // killed | returned-ok | returned-error:<code> | died:<exit>
	State     string     `json:"state"`   // old | new
	Between   bool       `json:"between_create_and_rename"`
	TempLeft  int        `json:"temp_left"`
	Orphan    bool       `json:"artifact_without_entry,omitempty"`
	RerunNote string     `json:"rerun,omitempty"`
}

// evalPoint runs one injected execution on a fresh copy of the template and checks the oracle.
func evalPoint(s crashSpec, specPath, tmpl, work string, pt crashPoint, idx int, oldState, newState string) (pf pointFacts, out []verdict, inconclusive string) {
	dir := filepath.Join(work, fmt.Sprintf("run-%d", idx))
	if err := copyTree(tmpl, dir); err != nil {
		return pf, nil, "copy failed: " + err.Error()
	}
	defer os.RemoveAll(dir)
	pf.Point = pt
	pf.When = s.K0[pt.Syscall] + pt.Rel
	inj := fmt.Sprintf("inject=%s:signal=KILL:when=%d", pt.Syscall, pf.When)
	if pt.Mode != "kill" {
		inj = fmt.Sprintf("inject=%s:error=%s:when=%d", pt.Syscall, pt.Mode, pf.When)
	}
	r := runChild(specPath, dir, []string{"-f", "-o", "/dev/null", "-e", "trace=" + traceSet, "-e", inj})
	if r.TimedOut {
		return pf, nil, "child timed out under strace"
	}
	switch {
	case r.Killed:
		pf.Outcome = "killed"
	case r.Result != nil && r.Result.OK:
		pf.Outcome = "returned-ok"
	case r.Result != nil:
		pf.Outcome = "returned-error:" + r.Result.Code
	default:
		pf.Outcome = fmt.Sprintf("died:%d", r.Exit)
	}
	bad := func(k, d string) {
		out = append(out, verdict{k, fmt.Sprintf("%s #%d (%s, when=%d) -> %s: %s", pt.Syscall, pt.Rel, pt.Mode, pf.When, pf.Outcome, d)})
	}
	// (1) the replaced file is the OLD or the NEW complete content
	got, perr := fileState(s, dir)
	switch {
	case perr != nil:
		bad(kCrMixed, fmt.Sprintf("%v (content %s)", perr, brief(got)))
	case got == oldState:
		pf.State = "old"
	case got == newState:
		pf.State = "new"
	default:
		bad(kCrMixed, fmt.Sprintf("content is neither old nor new: %s (old %s, new %s)", brief(got), brief(oldState), brief(newState)))
	}
	if pf.Outcome == "returned-ok" && pf.State == "old" && oldState != newState {
		bad(kCrOKNotNew, "the operation reported success but the file still has the old content")
	}
	temps := strayTemps(dir)
	pf.TempLeft = len(temps)
	if strings.HasPrefix(pf.Outcome, "returned-") && len(temps) > 0 && pt.Syscall != "unlinkat" && pt.Syscall != "unlink" {
		bad(kCrTempLeft, fmt.Sprintf("the operation returned but left %v", temps))
	}
	if s.Op == "install" {
		out = append(out, checkInstallDir(s, dir, &pf, bad)...)
	}
	// (2) a rerun without injection succeeds and yields the new content
	if pf.Outcome == "returned-ok" && pf.State == "new" && !pf.Orphan {
		pf.RerunNote = "skipped: the operation completed"
		return pf, out, ""
	}
	rr := runChild(specPath, dir, nil)
	switch {
	case rr.TimedOut:
		return pf, out, "rerun timed out"
	case rr.Result == nil:
		bad(kCrRerun, fmt.Sprintf("rerun died (exit %d): %s", rr.Exit, truncate(rr.Output, 300)))
	case !rr.Result.OK:
		bad(kCrRerun, fmt.Sprintf("rerun failed: %s (%s)", rr.Result.Err, rr.Result.Code))
	default:
		after, aerr := fileState(s, dir)
		if aerr != nil || after != newState {
			bad(kCrRerunNew, fmt.Sprintf("after the rerun: %s (err %v), expected new %s", brief(after), aerr, brief(newState)))
		}
		if s.Op == "install" {
			var pf2 pointFacts
			vs := checkInstallDir(s, dir, &pf2, bad)
			out = append(out, vs...)
			if pf2.Orphan {
				bad(kCrRerunNew, "after the rerun the artifact still has no manifest entry")
			}
			if _, err := os.Stat(filepath.Join(crTarget(dir), finalArtifactName("connector"))); err != nil {
				bad(kCrRerunNew, "after the rerun the artifact is missing")
			}
		}
	}
	return pf, out, ""
}

// checkInstallDir: no final artifact without the digest-checked content, no
// manifest entry without artifact, nothing stray in the install directory.
func checkInstallDir(s crashSpec, dir string, pf *pointFacts, bad func(k, d string)) []verdict {
	c := crashInstallCase(s)
	target := crTarget(dir)
	art := filepath.Join(target, finalArtifactName("connector"))
	b, err := os.ReadFile(art)
	present := err == nil
	if present && !bytes.Equal(b, c.RootData) {
		bad(kCrArtifact, fmt.Sprintf("final artifact has %d bytes, the digest-checked binary has %d", len(b), len(c.RootData)))
	}
	if m, err := registry.LoadManifest(crManifest(dir)); err == nil {
		key, _ := registry.ManifestKey(insName, insVersion)
		e, ok := m.Installs[key]
		if ok && !present {
			bad(kCrEntryNoAr, "manifest lists "+key+" but the artifact is absent")
		}
		if ok && !strings.EqualFold(e.Digest, "sha256:"+shaHex(buildArchive(c.Archive, dir))) {
			bad(kCrArtifact, "manifest entry digest "+e.Digest+" is not the digest of the served archive")
		}
		pf.Orphan = present && !ok
	}
	ents, _ := os.ReadDir(target)
	for _, e := range ents {
		n := e.Name()
		if n == ".registry" || n == finalArtifactName("connector") || n == "conduit-connector-other0_1.0.0" {
			continue
		}
		bad(kCrStray, fmt.Sprintf("unexpected %q in the install directory", n))
	}
	return nil
}

// ---- the property -------------------------------------------------------------------------------------

func genCrashSpec(t *rapid.T) crashSpec {
	s := crashSpec{Part: "crash", Seed: rapid.Int64().Draw(t, "keyseed")}
	s.Op = pick(t, "op", "atomic", 2, "manifest", 3, "state", 2, "verifyindex", 3, "install", 4)
	s.OldLen = rapid.SampledFrom([]int{-1, 0, 10, 5000, 70000}).Draw(t, "oldlen")
	s.NewLen = rapid.SampledFrom([]int{0, 7, 4096, 100000}).Draw(t, "newlen")
	s.OldEntries = rapid.SampledFrom([]int{-1, 0, 1, 5}).Draw(t, "oldentries")
	s.NewEntries = rapid.SampledFrom([]int{0, 1, 3, 40}).Draw(t, "newentries")
	s.OldVersion = rapid.SampledFrom([]int64{-1, 0, 3, 1 << 40}).Draw(t, "oldversion")
	s.NewVersion = s.OldVersion + int64(rapid.IntRange(0, 5).Draw(t, "verdelta"))
	if s.NewVersion < 0 {
		s.NewVersion = 0
	}
	s.Prior = drawBool(t, "prior")
	s.BinLen = rapid.SampledFrom([]int{1, 300, 70000}).Draw(t, "binlen")
	return s
}

func haveStrace() bool {
	_, err := exec.LookPath("strace")
	return err == nil
}

// runCrashScenario prepares a scenario, probes it and evaluates crash points.
// choose returns the points to run given the probe's window (drawn or enumerated).
func runCrashScenario(s *crashSpec, choose func(window []string, counts map[string]int) []crashPoint) (facts []pointFacts, out []verdict, inconclusive string) {
	work := caseDir("crash")
	defer os.RemoveAll(work)
	tmpl := filepath.Join(work, "template")
	if err := prepareTemplate(*s, tmpl); err != nil {
		return nil, nil, "template: " + err.Error()
	}
	specPath := filepath.Join(work, "spec.json")
	sb, _ := json.Marshal(s)
	mustWrite(specPath, sb, 0o644)
	oldState, err := fileState(*s, tmpl)
	if err != nil {
		return nil, nil, "old state: " + err.Error()
	}
	// probe: the same child under strace without injection
	probeDir := filepath.Join(work, "probe")
	if err := copyTree(tmpl, probeDir); err != nil {
		return nil, nil, "copy: " + err.Error()
	}
	logPath := filepath.Join(work, "probe.strace")
	pr := runChild(specPath, probeDir, []string{"-f", "-o", logPath, "-e", "trace=" + traceSet})
	if pr.TimedOut {
		return nil, nil, "probe timed out"
	}
	if pr.Result == nil || !pr.Result.OK {
		return nil, []verdict{{kCrRerun, fmt.Sprintf("the un-injected operation failed: %+v exit %d %s", pr.Result, pr.Exit, truncate(pr.Output, 300))}}, ""
	}
	newState, err := fileState(*s, probeDir)
	if err != nil {
		return nil, []verdict{{kCrMixed, "state after the un-injected operation: " + err.Error()}}, ""
	}
	k0, window, creat, err := parseProbe(logPath)
	if err != nil {
		return nil, nil, "probe log: " + err.Error()
	}
	s.K0, s.Window = k0, window
	counts := map[string]int{}
	for _, n := range window {
		counts[n]++
	}
	firstCreate, lastRename := -1, -1
	for i, n := range window {
		if creat[i] && firstCreate < 0 {
			firstCreate = i
		}
		if strings.HasPrefix(n, "rename") {
			lastRename = i
		}
	}
	s.Points = choose(window, counts)
	for i, pt := range s.Points {
		// position of this point in the window sequence
		pos, seen := -1, 0
		for j, n := range window {
			if n == pt.Syscall {
				seen++
				if seen == pt.Rel {
					pos = j
					break
				}
			}
		}
		pf, vs, inc := evalPoint(*s, specPath, tmpl, work, pt, i, oldState, newState)
		if inc != "" {
			inconclusive = inc
			continue
		}
		pf.Between = pos >= 0 && firstCreate >= 0 && pos > firstCreate && pos <= lastRename
		facts = append(facts, pf)
		out = append(out, vs...)
	}
	return facts, out, inconclusive
}

func sortedKeys(m map[string]int) []string {
	ks := make([]string, 0, len(m))
	for k := range m {
		ks = append(ks, k)
	}
	sort.Strings(ks)
	return ks
}

// TestC19Crash: kill or fail the N-th file syscall of one operation.
func TestC19Crash(t *testing.T) {
	st := pbt.For(prop)
	defer st.Finish(t)
	if !haveStrace() {
		st.Inconcl("strace not available: crash part skipped")
		t.Skip("strace not available")
	}
	perCase := pbt.Scale(4, 0) // thorough: every kill point of the window plus drawn error points
	rapid.Check(t, func(t *rapid.T) {
		s := genCrashSpec(t)
		pbt.MarkCurrent(prop, s)
		choose := func(window []string, counts map[string]int) []crashPoint {
			names := sortedKeys(counts)
			if len(names) == 0 {
				return nil
			}
			var pts []crashPoint
			if perCase == 0 {
				for _, n := range names {
					for r := 1; r <= counts[n]; r++ {
						pts = append(pts, crashPoint{n, r, "kill"})
					}
				}
			}
			nd := perCase
			if nd == 0 {
				nd = 6
			}
			for i := 0; i < nd; i++ {
				// draw a position in the window, so that frequent syscalls are hit proportionally
				pos := rapid.IntRange(0, len(window)-1).Draw(t, fmt.Sprintf("p%d/pos", i))
				name := window[pos]
				rel := 0
				for j := 0; j <= pos; j++ {
					if window[j] == name {
						rel++
					}
				}
				mode := "kill"
				if perCase == 0 || rapid.IntRange(0, 2).Draw(t, fmt.Sprintf("p%d/err", i)) == 0 {
					mode = rapid.SampledFrom([]string{"ENOSPC", "EIO", "EDQUOT"}).Draw(t, fmt.Sprintf("p%d/errno", i))
				}
				pts = append(pts, crashPoint{name, rel, mode})
			}
			return pts
		}
		facts, vs, inc := runCrashScenario(&s, choose)
		if os.Getenv("P19_DEBUG") != "" {
			fmt.Fprintf(os.Stderr, "op=%s k0=%v window=%v\n", s.Op, s.K0, s.Window)
			for _, pf := range facts {
				fmt.Fprintf(os.Stderr, "  %+v\n", pf)
			}
		}
		if inc != "" {
			st.Inconcl(inc)
		}
		for _, pf := range facts {
			cls := []string{"crash:op=" + s.Op, "crash:syscall=" + pf.Point.Syscall, "crash:outcome=" + strings.SplitN(pf.Outcome, ":", 2)[0], "crash:state=" + pf.State}
			if pf.Point.Mode == "kill" {
				cls = append(cls, "crash:mode=kill")
			} else {
				cls = append(cls, "crash:mode=error")
			}
			if pf.Between {
				cls = append(cls, "crash:between-create-and-rename")
			}
			if pf.TempLeft > 0 {
				cls = append(cls, "crash:temp-file-left-after-kill")
			}
			if pf.Orphan {
				cls = append(cls, "crash:artifact-without-manifest-entry-until-rerun")
			}
			st.Case(pbt.Hash([]any{s, pf.Point}), pf.Between, cls...)
			if pf.Between && st.WantSample() {
				st.Sample(map[string]any{"part": "crash", "scenario": s, "window": s.Window, "point": pf})
			}
		}
		for _, v := range vs {
			report(t, st, v.Key, v.Detail, jsonSize(s), s)
		}
	})
}
