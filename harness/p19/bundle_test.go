package p19

import (
	"context"
	"encoding/json"
	"fmt"
	"os"
	"path/filepath"
	"runtime"
	"testing"
	"time"

	"github.com/conduitio/conduit/pkg/registry"
	"github.com/conduitio/conduit/pkg/registry/index"
	"pgregory.net/rapid"
	"verifharness/pbt"
)

// Offline bundles take a concrete *TrustedVerifier; accepting Sigstore material
// cannot be produced offline, so this part is one-directional: whatever the
// bundle tar contains, no artifact and no manifest entry may appear and nothing
// outside <target>/.registry/ may change.

type bundleCase struct {
	Part        string      `json:"part"` // "bundle"
	Kind        string      `json:"kind"` // connector | processor
	Seed        int64       `json:"seed"`
	Inner       ArchiveSpec `json:"inner"`        // the bundled artifact archive
	MName       string      `json:"m_name"`       // manifest.json name
	MVersion    string      `json:"m_version"`    // manifest.json version
	MSHA        string      `json:"m_sha"`        // right | bogus | malformed
	MFormat     int         `json:"m_format"`     // bundleFormatVersion
	MJunk       bool        `json:"m_junk"`       // manifest.json is not JSON
	ISign       string      `json:"i_sign"`       // signature mode of index-snapshot.json
	IAge        string      `json:"i_age"`        // fresh | stale
	ISHA        string      `json:"i_sha"`        // digest the snapshot declares for the artifact
	Sig         string      `json:"sig"`          // junk | empty | absent | json | real-attestation
	Prov        string      `json:"prov"`         // junk | empty | absent | real-attestation
	Extras      []Entry     `json:"extras"`       // hostile extra entries of the bundle tar
	Drop        string      `json:"drop"`         // required entry left out ("" = none)
	Dup         bool        `json:"dup"`          // manifest.json appears twice (second one forged differently)
	Outer       ArchiveSpec `json:"outer_damage"` // only the framing/damage fields are used
	AllowStale  bool        `json:"allow_stale"`
	Ctx         int         `json:"ctx"`
	RequireProv bool        `json:"require_prov"`
	PriorState  int64       `json:"prior_state"` // recorded index version before the call (-1 none)
}

func realAttestation() []byte {
	repo := os.Getenv("VERIF_REPO")
	if repo == "" {
		repo = "/repo"
	}
	b, err := os.ReadFile(filepath.Join(repo, "pkg/registry/trust/testdata/real-sigstore-attestation.json"))
	if err != nil {
		return []byte(`{"mediaType":"application/vnd.dev.sigstore.bundle+json;version=0.3"}`)
	}
	return b
}

func bundleBlob(mode string) []byte {
	switch mode {
	case "empty":
		return []byte{}
	case "json":
		return []byte(`{"mediaType":"application/vnd.dev.sigstore.bundle+json;version=0.3","verificationMaterial":{},"messageSignature":{}}`)
	case "real-attestation":
		return realAttestation()
	default:
		return []byte("\x00\x01junk-signature-material\xff")
	}
}

func runBundle(c bundleCase) (outcome string, changes []change, out []verdict) {
	base := caseDir("bun")
	defer os.RemoveAll(base)
	for _, f := range []string{"abs", "x", "outside.txt", "w/x", "w/outside.txt", "w/artifact", "w/manifest.json"} {
		mustWrite(filepath.Join(base, f), []byte("sentinel:"+f), 0o644)
	}
	dirName := "connectors"
	if c.Kind == "processor" {
		dirName = "processors"
	}
	targetRel := filepath.Join("w", dirName)
	target := filepath.Join(base, targetRel)
	_ = os.MkdirAll(target, 0o755)
	k := newKeyset(c.Seed)
	statePath := registry.IndexStatePath(target)
	if c.PriorState >= 0 {
		_ = os.MkdirAll(filepath.Dir(statePath), 0o755)
		_ = index.SaveState(statePath, index.State{Version: c.PriorState})
	}

	inner := buildArchive(c.Inner, base)
	sha := func(mode string) string {
		switch mode {
		case "bogus":
			return shaHex([]byte("other"))
		case "malformed":
			return "xyz"
		}
		return shaHex(inner)
	}
	// index snapshot signed by the test anchors
	pub := index.Publisher{ExpectedOIDCIssuer: "https://token.actions.githubusercontent.com", ExpectedIdentityPattern: `^https://github\.com/example/widget/\.github/workflows/publish\.yml@refs/tags/v.*$`}
	art := index.Artifact{OS: runtime.GOOS, Arch: runtime.GOARCH, Kind: registry.StandaloneArtifactKind, URL: "https://example.invalid/a.tar.gz", SHA256: sha(c.ISHA), Size: int64(len(inner)),
		Signature: index.SignatureRef{BundleURL: "https://example.invalid/a.sigstore.json"}}
	ts := time.Now().UTC()
	if c.IAge == "stale" {
		ts = ts.Add(-30 * 24 * time.Hour)
	}
	payload := index.Payload{SchemaVersion: 1, Index: index.IndexMeta{Version: 5, Timestamp: ts}}
	mos, march := runtime.GOOS, runtime.GOARCH
	if c.Kind == "processor" {
		art.OS, art.Arch, art.Kind = "wasip1", "wasm", registry.WASMProcessorArtifactKind
		mos, march = "wasip1", "wasm"
		payload.Processors = []index.Processor{{Name: insName, Publisher: pub, Versions: []index.ProcessorVersion{{Version: insVersion, MinConduitVersion: "0.1.0", MinProtocolVersion: "0.1.0", Artifact: art}}}}
	} else {
		payload.Connectors = []index.Connector{{Name: insName, Publisher: pub, Versions: []index.ConnectorVersion{{Version: insVersion, MinConduitVersion: "0.1.0", MinProtocolVersion: "0.1.0", Artifacts: []index.Artifact{art}}}}}
	}
	snapshot0 := signedEnvelope(k, payload, c.ISign)

	mkManifest := func(name, sha string) []byte {
		if c.MJunk {
			return []byte("{not json")
		}
		b, _ := json.Marshal(registry.BundleManifest{BundleFormatVersion: c.MFormat, Name: name, Version: c.MVersion, OS: mos, Arch: march, SHA256: sha, Size: int64(len(inner)), CreatedAt: time.Now().UTC()})
		return b
	}
	reg := func(name string, data []byte) Entry { return Entry{Name: name, Type: "0", Decl: -1, Raw: data} }
	entries := []Entry{}
	add := func(name string, data []byte) {
		if c.Drop != name {
			entries = append(entries, reg(name, data))
		}
	}
	add("manifest.json", mkManifest(c.MName, sha(c.MSHA)))
	add("artifact", inner)
	if c.Sig != "absent" {
		add("signature.bundle", bundleBlob(c.Sig))
	}
	if c.Prov != "absent" {
		add("provenance.bundle", bundleBlob(c.Prov))
	}
	add("index-snapshot.json", snapshot0)
	if c.Dup {
		entries = append(entries, reg("./manifest.json", mkManifest(insName, shaHex(inner))))
	}
	entries = append(entries, c.Extras...)
	outer := c.Outer
	outer.Entries = entries
	if outer.Wrap == "" {
		outer.Wrap = "gzip"
	}
	bundlePath := filepath.Join(base, "in", "bundle.tar.gz")
	mustWrite(bundlePath, buildArchive(outer, base), 0o644)

	tv := &registry.TrustedVerifier{Anchors: k.anchors(), StatePath: statePath, RequireProvenance: c.RequireProv, LockTimeout: 20 * time.Second}
	opts := registry.InstallBundleOptions{BundlePath: bundlePath, Verifier: tv, InstalledBy: "p19", LockTimeout: 20 * time.Second,
		RunningConduitVersion: "1.0.0", RunningProtocolVersion: "1.0.0", AllowStaleBundle: c.AllowStale,
		TTY: c.Ctx&bitTTY != 0, CIEnv: c.Ctx&bitCI != 0, IsMCP: c.Ctx&bitMCP != 0, EnvVarSet: c.Ctx&bitEnv != 0, TypedConfirmation: c.Ctx&bitTyped != 0,
		OperatorAllowStaleBundle: c.Ctx&bitOperator != 0}
	if c.Kind == "processor" {
		opts.ProcessorsPath = target
	} else {
		opts.ConnectorsPath = target
	}
	before := snapshot(base)
	var res *registry.InstallResult
	var err error
	var panicked any
	func() {
		defer func() { panicked = recover() }()
		if c.Kind == "processor" {
			res, err = registry.InstallProcessorBundle(context.Background(), opts)
		} else {
			res, err = registry.InstallFromBundle(context.Background(), opts)
		}
	}()
	after := snapshot(base)
	changes = diffTrees(before, after)
	if panicked != nil {
		return "panic", changes, []verdict{{kBunPanic, fmt.Sprintf("panic: %v", panicked)}}
	}
	registryRel := filepath.Join(targetRel, ".registry")
	for _, ch := range changes {
		if !under(ch.Path, registryRel) {
			out = append(out, verdict{kBunOutside, fmt.Sprintf("%s %q (allowed: %q/**)", ch.Kind, ch.Path, registryRel)})
			break
		}
	}
	m, _ := registry.LoadManifest(filepath.Join(base, registryRel, "manifest.json"))
	entriesLeft := 0
	if m != nil {
		entriesLeft = len(m.Installs)
	}
	if err == nil {
		outcome = "accepted"
		out = append(out, verdict{kBunAccepted, fmt.Sprintf("bundle install returned success (%+v) although the bundle carries no valid signature for this artifact", res)})
		return outcome, changes, out
	}
	outcome = "refused:" + codeOf(err)
	if !isCoded(err) {
		out = append(out, verdict{uncodedKey(kBunUncoded, err), fmt.Sprintf("uncoded error: %v", err)})
	}
	if entriesLeft > 0 {
		out = append(out, verdict{kBunLeft, fmt.Sprintf("refused (%s) but the manifest has %d entries", codeOf(err), entriesLeft)})
	}
	ents, _ := os.ReadDir(target)
	for _, e := range ents {
		if e.Name() != ".registry" {
			out = append(out, verdict{kBunLeft, fmt.Sprintf("refused (%s) but %q is present in the install directory", codeOf(err), e.Name())})
		}
	}
	if st, _ := os.ReadDir(filepath.Join(base, registryRel, "staging")); len(st) > 0 {
		out = append(out, verdict{kInsStaging, fmt.Sprintf("bundle install left %d entries under .registry/staging", len(st))})
	}
	return outcome, changes, out
}

func genBundleCase(t *rapid.T) bundleCase {
	c := bundleCase{Part: "bundle", Seed: rapid.Int64().Draw(t, "keyseed")}
	c.Kind = pick(t, "kind", "connector", 3, "processor", 1)
	if drawBool(t, "inner-hostile") {
		c.Inner = genHostile(t)
	} else {
		c.Inner, _, _ = genWellFormed(t)
	}
	c.MName = pick(t, "mname", insName, 8, "other", 1, "../../x", 1, "", 1)
	c.MVersion = pick(t, "mversion", insVersion, 8, "v1.0.0", 1, "9.9.9", 1, "../x", 1)
	c.MSHA = pick(t, "msha", "right", 8, "bogus", 2, "malformed", 1)
	c.MFormat = pick2int(t, "mformat", 1, 8, 0, 1, 2, 1)
	c.MJunk = rapid.IntRange(0, 29).Draw(t, "mjunk") == 0
	c.ISign = pick(t, "isign", "root", 16, "fresh", 1, "root-badsig", 1, "foreign-key", 1, "none", 1, "root-tampered", 1)
	c.IAge = pick(t, "iage", "fresh", 4, "stale", 1)
	c.ISHA = pick(t, "isha", "right", 8, "bogus", 2)
	c.Sig = pick(t, "sig", "junk", 3, "empty", 1, "absent", 1, "json", 2, "real-attestation", 3)
	c.Prov = pick(t, "prov", "absent", 3, "junk", 1, "empty", 1, "real-attestation", 2)
	ne := pick2int(t, "nextras", 0, 5, 1, 2, 2, 1, 3, 1)
	budget := 1 << 20
	for i := 0; i < ne; i++ {
		if drawBool(t, fmt.Sprintf("x%d/wild", i)) {
			c.Extras = append(c.Extras, genEntry(t, 100+i, &budget))
			continue
		}
		// structurally sound entry (the tar stays parseable) with a hostile name / type
		l := fmt.Sprintf("x%d", i)
		e := Entry{Name: genName(t, l+"/name"), Type: pick(t, l+"/type", "0", 4, "5", 1, "2", 2, "1", 2, "3", 1, "6", 1), Decl: -1,
			Len: rapid.IntRange(0, 300).Draw(t, l+"/len"), Fill: 4, Long: pick(t, l+"/long", "", 3, "gnu", 1, "pax", 1)}
		if e.Type == "2" || e.Type == "1" {
			e.Link = genName(t, l+"/link")
		}
		if e.Type != "0" {
			e.Len = 0
		}
		c.Extras = append(c.Extras, e)
	}
	c.Drop = pick(t, "drop", "", 27, "manifest.json", 1, "artifact", 1, "index-snapshot.json", 1)
	c.Dup = rapid.IntRange(0, 5).Draw(t, "dup") == 0
	c.Outer = ArchiveSpec{Trailer: 2, Wrap: "gzip"}
	switch pick(t, "outer-damage", "none", 17, "gz", 1, "trunc", 1, "tar", 1) {
	case "gz":
		c.Outer.CorruptGz = 1 + rapid.IntRange(0, 3000).Draw(t, "ocg")
	case "trunc":
		c.Outer.TruncGz = 1 + rapid.IntRange(0, 3000).Draw(t, "otg")
	case "tar":
		c.Outer.CorruptTar = 1 + rapid.IntRange(0, 4000).Draw(t, "oct")
	}
	c.AllowStale = drawBool(t, "allowstale")
	c.Ctx = rapid.IntRange(0, 63).Draw(t, "ctx")
	c.RequireProv = drawBool(t, "requireprov")
	c.PriorState = rapid.SampledFrom([]int64{-1, -1, 0, 5, 5, 6, 100}).Draw(t, "priorstate")
	return c
}

// TestC19Bundle: hostile / forged offline bundles never install anything.
func TestC19Bundle(t *testing.T) {
	st := pbt.For(prop)
	defer st.Finish(t)
	rapid.Check(t, func(t *rapid.T) {
		c := genBundleCase(t)
		pbt.MarkCurrent(prop, c)
		outcome, changes, vs := runBundle(c)
		cls := []string{"bundle:kind=" + c.Kind, "bundle:outcome=" + outcome, "bundle:sig=" + c.Sig}
		_, hostileInner := archiveClasses(c.Inner)
		// non-trivial: the bundle got past tar parsing, index verification and both digest checks,
		// i.e. only the signature stands between the forged bundle and an install
		reachedTrust := outcome == "refused:registry.unsigned" || outcome == "refused:registry.identity_mismatch" || outcome == "refused:registry.provenance_invalid" ||
			outcome == "refused:registry.identity_pattern_too_loose"
		if reachedTrust {
			cls = append(cls, "bundle:reached-signature-check")
		}
		if hostileInner {
			cls = append(cls, "bundle:hostile-inner-archive")
		}
		if len(c.Extras) > 0 {
			cls = append(cls, "bundle:hostile-extra-entries")
		}
		st.Case(pbt.Hash(c), reachedTrust || len(c.Extras) > 0, cls...)
		if reachedTrust && st.WantSample() {
			st.Sample(map[string]any{"part": "bundle", "case": c, "outcome": outcome, "changes": changes})
		}
		for _, v := range vs {
			report(t, st, v.Key, v.Detail, jsonSize(c), c)
		}
	})
}
