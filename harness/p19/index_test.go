package p19

import (
	"bytes"
	"context"
	"crypto/ed25519"
	"crypto/sha256"
	"encoding/base64"
	"encoding/binary"
	"encoding/json"
	"fmt"
	"math"
	"os"
	"path/filepath"
	"strings"
	"sync"
	"testing"
	"time"

	"github.com/conduitio/conduit/pkg/registry"
	"github.com/conduitio/conduit/pkg/registry/index"
	"pgregory.net/rapid"
	"verifharness/pbt"
)

// ---- keys and signed envelopes ----------------------------------------------------------

type keyset struct {
	rootPub, freshPub, foreignPub    ed25519.PublicKey
	rootPriv, freshPriv, foreignPriv ed25519.PrivateKey
	rootID, freshID, foreignID       string
}

func seedBytes(seed int64, label string) []byte {
	var b [8]byte
	binary.BigEndian.PutUint64(b[:], uint64(seed))
	h := sha256.Sum256(append(b[:], label...))
	return h[:]
}

// newKeyset derives the three key pairs deterministically from a drawn seed
// (no randomness outside rapid).
func newKeyset(seed int64) keyset {
	var k keyset
	k.rootPriv = ed25519.NewKeyFromSeed(seedBytes(seed, "root"))
	k.freshPriv = ed25519.NewKeyFromSeed(seedBytes(seed, "freshness"))
	k.foreignPriv = ed25519.NewKeyFromSeed(seedBytes(seed, "foreign"))
	k.rootPub = k.rootPriv.Public().(ed25519.PublicKey)
	k.freshPub = k.freshPriv.Public().(ed25519.PublicKey)
	k.foreignPub = k.foreignPriv.Public().(ed25519.PublicKey)
	k.rootID, _ = index.KeyID(k.rootPub)
	k.freshID, _ = index.KeyID(k.freshPub)
	k.foreignID, _ = index.KeyID(k.foreignPub)
	return k
}

func (k keyset) anchors() index.TrustAnchors {
	return index.TrustAnchors{
		Roots:     map[string]ed25519.PublicKey{k.rootID: k.rootPub},
		Freshness: map[string]ed25519.PublicKey{k.freshID: k.freshPub},
	}
}

type sigJSON struct {
	Role      string `json:"role"`
	KeyID     string `json:"keyId"`
	Algorithm string `json:"algorithm"`
	Signature string `json:"signature"`
}

func contentVariant(n int) []index.Connector {
	pub := index.Publisher{ExpectedOIDCIssuer: "https://token.actions.githubusercontent.com", ExpectedIdentityPattern: `^https://github\.com/example/widget/.*$`}
	var out []index.Connector
	for i := 0; i <= n; i++ {
		out = append(out, index.Connector{Name: fmt.Sprintf("widget%d", i), Publisher: pub,
			Versions: []index.ConnectorVersion{{Version: "1.0.0", MinConduitVersion: "0.1.0", MinProtocolVersion: "0.1.0"}}})
	}
	return out
}

// signedEnvelope renders {payload, signatures[]} for a payload, signed as `sign` says.
func signedEnvelope(k keyset, payload index.Payload, sign string) []byte {
	payloadRaw, err := json.Marshal(payload)
	if err != nil {
		panic(err)
	}
	canonical, err := index.Canonicalize(payloadRaw)
	if err != nil {
		panic(err)
	}
	mk := func(role, id string, priv ed25519.PrivateKey) sigJSON {
		return sigJSON{Role: role, KeyID: id, Algorithm: "ed25519", Signature: base64.StdEncoding.EncodeToString(ed25519.Sign(priv, canonical))}
	}
	var sigs []sigJSON
	served := payloadRaw
	switch sign {
	case "root":
		sigs = []sigJSON{mk("root", k.rootID, k.rootPriv)}
	case "fresh":
		sigs = []sigJSON{mk("freshness", k.freshID, k.freshPriv)}
	case "fresh+root":
		sigs = []sigJSON{mk("freshness", k.freshID, k.freshPriv), mk("root", k.rootID, k.rootPriv)}
	case "foreign+root":
		sigs = []sigJSON{mk("root", k.foreignID, k.foreignPriv), mk("root", k.rootID, k.rootPriv)}
	case "root-badsig":
		s := mk("root", k.rootID, k.rootPriv)
		raw, _ := base64.StdEncoding.DecodeString(s.Signature)
		raw[5] ^= 0x40
		s.Signature = base64.StdEncoding.EncodeToString(raw)
		sigs = []sigJSON{s}
	case "root-tampered":
		// signature over the payload, then the served payload gets a higher version
		sigs = []sigJSON{mk("root", k.rootID, k.rootPriv)}
		p2 := payload
		p2.Index.Version += 1000
		served, _ = json.Marshal(p2)
	case "foreign-key":
		sigs = []sigJSON{mk("root", k.foreignID, k.foreignPriv)}
	case "root-keyid-foreign-sig":
		sigs = []sigJSON{mk("root", k.rootID, k.foreignPriv)}
	case "root-key-as-freshness":
		sigs = []sigJSON{mk("freshness", k.rootID, k.rootPriv)}
	case "fresh-key-as-root":
		sigs = []sigJSON{mk("root", k.freshID, k.freshPriv)}
	case "bad-alg":
		s := mk("root", k.rootID, k.rootPriv)
		s.Algorithm = "rsa-pss"
		sigs = []sigJSON{s}
	case "bad-b64":
		s := mk("root", k.rootID, k.rootPriv)
		s.Signature = "!!" + s.Signature
		sigs = []sigJSON{s}
	case "none":
		sigs = []sigJSON{}
	case "dupkey":
		sigs = []sigJSON{mk("root", k.rootID, k.rootPriv)}
		sraw, _ := json.Marshal(sigs)
		return []byte(fmt.Sprintf(`{"payload":%s,"payload":%s,"signatures":%s}`, served, served, sraw))
	}
	sraw, _ := json.Marshal(sigs)
	return []byte(fmt.Sprintf(`{"payload":%s,"signatures":%s}`, served, sraw))
}

// signedEnvelopeDamaged handles the two syntactic-damage modes on top of a valid root-signed envelope.
func signedEnvelopeDamaged(k keyset, payload index.Payload, sign string) []byte {
	if sign == "json-truncated" || sign == "json-garbage" {
		return damageJSON(signedEnvelope(k, payload, "root"), sign)
	}
	return signedEnvelope(k, payload, sign)
}

// sigAuthorises is the documented acceptance rule of index.Verify (R-1 §a step 2c,
// verify.go doc comment): a root signature that verifies, or a freshness signature
// that verifies over content byte-identical to the last root-verified content.
func sigAuthorises(sign string, content int, lastRoot *int) (ok, root bool) {
	switch sign {
	case "root", "fresh+root", "foreign+root":
		return true, true
	case "fresh":
		return lastRoot != nil && *lastRoot == content, false
	}
	return false, false
}

// ---- case description ---------------------------------------------------------------------

type idxStep struct {
	Version int64  `json:"version"`
	Age     string `json:"age"`      // fresh | stale | very-stale | future | zero-time
	AgeFrac int    `json:"age_frac"` // 0..100, position inside the age class
	Sign    string `json:"sign"`
	Content int    `json:"content"`
}

type idxCase struct {
	Part        string      `json:"part"` // "index"
	Seed        int64       `json:"seed"`
	WindowHours int         `json:"window_hours"` // 0 = DefaultMaxStaleness (7 days)
	Steps       []idxStep   `json:"steps,omitempty"`
	Workers     [][]idxStep `json:"workers,omitempty"` // concurrent mode when non-empty
	SharedTV    bool        `json:"shared_verifier,omitempty"`
	ViaInstall  bool        `json:"via_install,omitempty"` // concurrent mode: reach VerifyIndex through registry.Install (dry run)
}

// recordingIndexVerifier lets a dry-run registry.Install drive the real
// TrustedVerifier.VerifyIndex while the outcome of that inner call is observed.
type recordingIndexVerifier struct {
	inner *registry.TrustedVerifier
	vi    *index.VerifiedIndex
	err   error
	calls int
}

func (r *recordingIndexVerifier) VerifyIndex(ctx context.Context, raw []byte) (*index.VerifiedIndex, error) {
	r.calls++
	r.vi, r.err = r.inner.VerifyIndex(ctx, raw)
	return r.vi, r.err
}

func window(c idxCase) time.Duration {
	if c.WindowHours == 0 {
		return index.DefaultMaxStaleness
	}
	return time.Duration(c.WindowHours) * time.Hour
}

// stepTimestamp keeps a wide margin to the staleness boundary so that the
// clock advancing during the case can never flip the expected outcome.
func stepTimestamp(s idxStep, w time.Duration, now time.Time) (ts time.Time, stale bool) {
	f := time.Duration(s.AgeFrac)
	switch s.Age {
	case "stale":
		return now.Add(-(w + w/2 + w*f/50)), true
	case "very-stale":
		return now.Add(-(w*20 + 24*time.Hour*365*f)), true
	case "zero-time":
		return time.Time{}, true
	case "future":
		return now.Add(time.Hour + time.Hour*f), false
	default:
		return now.Add(-(w / 2 * f / 100)), false
	}
}

func buildStep(k keyset, s idxStep, w time.Duration) (raw []byte, stale bool) {
	ts, stale := stepTimestamp(s, w, time.Now().UTC())
	p := index.Payload{SchemaVersion: 1, Index: index.IndexMeta{Version: s.Version, Timestamp: ts}, Connectors: contentVariant(s.Content)}
	return signedEnvelopeDamaged(k, p, s.Sign), stale
}

type idxStepFacts struct {
	Accepted bool   `json:"accepted"`
	Code     string `json:"code,omitempty"`
	Recorded int64  `json:"recorded_version"`
	Expect   string `json:"expected"`
}

func newVerifier(k keyset, statePath string, c idxCase) *registry.TrustedVerifier {
	tv := &registry.TrustedVerifier{Anchors: k.anchors(), StatePath: statePath, LockTimeout: 60 * time.Second}
	if c.WindowHours != 0 {
		tv.MaxStaleness = window(c)
	}
	return tv
}

// runIndexSeq feeds the steps one after the other and compares with the model.
func runIndexSeq(c idxCase) (facts []idxStepFacts, out []verdict) {
	base := caseDir("idx")
	defer os.RemoveAll(base)
	statePath := registry.IndexStatePath(filepath.Join(base, "connectors"))
	k := newKeyset(c.Seed)
	tv := newVerifier(k, statePath, c)

	var hwm int64 // model: highest accepted version (0 before anything was accepted: LoadState's zero State)
	var lastRoot *int
	anyAccepted := false
	for i, s := range c.Steps {
		raw, stale := buildStep(k, s, window(c))
		prevBytes, _ := os.ReadFile(statePath)
		var vi *index.VerifiedIndex
		var err error
		var panicked any
		func() {
			defer func() { panicked = recover() }()
			vi, err = tv.VerifyIndex(context.Background(), raw)
		}()
		bad := func(key, d string) { out = append(out, verdict{key, fmt.Sprintf("step %d (%+v): %s", i, s, d)}) }
		if panicked != nil {
			bad(kIdxPanic, fmt.Sprintf("panic: %v", panicked))
			return facts, out
		}
		accepted := err == nil && vi != nil
		sigOK, rootOK := sigAuthorises(s.Sign, s.Content, lastRoot)
		older := s.Version < hwm
		expect := "accept"
		switch {
		case !sigOK:
			expect = "refuse:signature"
		case older:
			expect = "refuse:rollback"
		case stale:
			expect = "refuse:stale"
		}
		nowBytes, rerr := os.ReadFile(statePath)
		st, lerr := index.LoadState(statePath)
		f := idxStepFacts{Accepted: accepted, Code: codeOf(err), Recorded: st.Version, Expect: expect}
		facts = append(facts, f)
		if lerr != nil {
			bad(kIdxStateParse, fmt.Sprintf("state file unreadable: %v", lerr))
			return facts, out
		}

		// statement: an index older than one already accepted is refused
		if accepted && older {
			bad(kIdxOlderOK, fmt.Sprintf("version %d accepted below the recorded high-water mark %d", s.Version, hwm))
		}
		// documented gates (R-1 §a/§b; trustverifier.go VerifyIndex)
		if accepted && !sigOK {
			bad(kIdxBadSigOK, "accepted although no signature authorises this content")
		}
		if accepted && sigOK && !older && stale {
			bad(kIdxStaleOK, "accepted although the timestamp is outside the staleness window")
		}
		if !accepted && expect == "accept" {
			bad(kIdxGoodRefused, fmt.Sprintf("refused (%s: %v) although signature, version (>= %d) and timestamp are fine", codeOf(err), err, hwm))
		}
		if !accepted {
			if !isCoded(err) {
				bad(uncodedKey(kIdxUncoded, err), fmt.Sprintf("uncoded refusal: %v", err))
			}
			switch expect {
			case "refuse:rollback":
				if codeOf(err) != index.CodeIndexRollback.Reason() {
					bad(kIdxCode, fmt.Sprintf("older index refused with %s, documented: %s", codeOf(err), index.CodeIndexRollback.Reason()))
				}
			case "refuse:stale":
				if codeOf(err) != index.CodeIndexStale.Reason() {
					bad(kIdxCode, fmt.Sprintf("stale index refused with %s, documented: %s", codeOf(err), index.CodeIndexStale.Reason()))
				}
			}
			// "The high-water mark updates only after a fetch passes ... never on a rejected fetch"
			if !bytes.Equal(prevBytes, nowBytes) {
				bad(kIdxRefusedMove, fmt.Sprintf("state file changed by a refused index: %q -> %q", prevBytes, nowBytes))
			}
		}
		// model update follows the OBSERVED outcome (so that one violation is reported once)
		prevHWM := hwm
		if accepted {
			anyAccepted = true
			if s.Version > hwm {
				hwm = s.Version
			}
			if rootOK {
				v := s.Content
				lastRoot = &v
			}
		}
		// statement: recorded version == max accepted so far, never lower
		if st.Version < prevHWM {
			bad(kIdxDecreased, fmt.Sprintf("recorded version went from >=%d to %d", prevHWM, st.Version))
		} else if anyAccepted && (rerr != nil || st.Version != hwm) {
			bad(kIdxNotMax, fmt.Sprintf("recorded version %d (read err %v), max accepted so far %d", st.Version, rerr, hwm))
		} else if !anyAccepted && st.Version != 0 {
			bad(kIdxNotMax, fmt.Sprintf("recorded version %d although nothing was accepted", st.Version))
		}
	}
	return facts, out
}

// ---- concurrent mode ------------------------------------------------------------------------

type concCall struct {
	Worker   int    `json:"worker"`
	Step     int    `json:"step"`
	Version  int64  `json:"version"`
	Accepted bool   `json:"accepted"`
	Code     string `json:"code,omitempty"`
	valid    bool   // signature authorises and timestamp is fresh
}

func runIndexConc(c idxCase) (calls [][]concCall, final int64, out []verdict) {
	base := caseDir("idxc")
	defer os.RemoveAll(base)
	statePath := registry.IndexStatePath(filepath.Join(base, "connectors"))
	k := newKeyset(c.Seed)
	shared := newVerifier(k, statePath, c)

	// envelopes are rendered up front: the goroutines only call VerifyIndex
	raws := make([][][]byte, len(c.Workers))
	calls = make([][]concCall, len(c.Workers))
	for w, steps := range c.Workers {
		for i, s := range steps {
			raw, stale := buildStep(k, s, window(c))
			raws[w] = append(raws[w], raw)
			ok, _ := sigAuthorises(s.Sign, s.Content, nil)
			calls[w] = append(calls[w], concCall{Worker: w, Step: i, Version: s.Version, valid: ok && !stale})
		}
	}
	var wg sync.WaitGroup
	var panicMu sync.Mutex
	var panicked any
	start := make(chan struct{})
	for w := range c.Workers {
		wg.Add(1)
		go func(w int) {
			defer wg.Done()
			defer func() {
				if r := recover(); r != nil {
					panicMu.Lock()
					panicked = r
					panicMu.Unlock()
				}
			}()
			tv := shared
			if !c.SharedTV {
				tv = newVerifier(k, statePath, c)
			}
			<-start
			for i := range raws[w] {
				var vi *index.VerifiedIndex
				var err error
				if c.ViaInstall {
					// two concurrent installs of different connector names never share a
					// target lock; the index state lock alone must serialise them
					rec := &recordingIndexVerifier{inner: tv}
					idxFile := filepath.Join(base, fmt.Sprintf("index-%d-%d.json", w, i))
					mustWrite(idxFile, raws[w][i], 0o644)
					_, _ = registry.Install(context.Background(), registry.InstallOptions{Name: fmt.Sprintf("widget%d", w%2), DryRun: true,
						ConnectorsPath: filepath.Join(base, "connectors"), IndexFile: idxFile, IndexVerifier: rec, ArtifactVerifier: &scriptedVerifier{script: "reject"},
						RunningConduitVersion: "1.0.0", RunningProtocolVersion: "1.0.0"})
					vi, err = rec.vi, rec.err
					if rec.calls != 1 {
						err = fmt.Errorf("Install called VerifyIndex %d times", rec.calls)
					}
				} else {
					vi, err = tv.VerifyIndex(context.Background(), raws[w][i])
				}
				calls[w][i].Accepted = err == nil && vi != nil
				calls[w][i].Code = codeOf(err)
			}
		}(w)
	}
	close(start)
	wg.Wait()
	if panicked != nil {
		return calls, 0, []verdict{{kIdxPanic, fmt.Sprintf("panic in a concurrent VerifyIndex: %v", panicked)}}
	}
	st, lerr := index.LoadState(statePath)
	if lerr != nil {
		return calls, 0, []verdict{{kIdxStateParse, fmt.Sprintf("state file unreadable after concurrent calls: %v", lerr)}}
	}
	final = st.Version

	// statement: final recorded version == max of the accepted ones
	var maxAcc int64
	anyAcc := false
	for _, ws := range calls {
		for _, cl := range ws {
			if cl.Accepted {
				if !anyAcc || cl.Version > maxAcc {
					maxAcc = cl.Version
				}
				anyAcc = true
			}
			if cl.Accepted && !cl.valid {
				out = append(out, verdict{kIdxBadSigOK, fmt.Sprintf("worker %d step %d accepted although unauthorised or stale", cl.Worker, cl.Step)})
			}
		}
	}
	if (anyAcc && final != maxAcc) || (!anyAcc && final != 0) {
		out = append(out, verdict{kIdxConcFinal, fmt.Sprintf("final recorded version %d, max accepted %d (any accepted: %v); calls %+v", final, maxAcc, anyAcc, calls)})
	}
	// trustverifier.go "Concurrency": the whole load-verify-check-save sequence is one
	// critical section, so the observed outcomes must be explainable by SOME serial
	// order that respects each goroutine's program order.
	if finals := serialFinals(calls); !finals[final] {
		out = append(out, verdict{kIdxConcSerial, fmt.Sprintf("no serial order of the calls yields these outcomes with final version %d (possible finals %v); calls %+v", final, finals, calls)})
	}
	return calls, final, out
}

// serialFinals explores every interleaving (memoised on positions + high-water
// mark) in which each call's observed outcome equals the sequential model's, and
// returns the set of final high-water marks of complete interleavings.
func serialFinals(calls [][]concCall) map[int64]bool {
	finals := map[int64]bool{}
	seen := map[string]bool{}
	pos := make([]int, len(calls))
	var rec func(hwm int64)
	rec = func(hwm int64) {
		key := fmt.Sprint(pos, hwm)
		if seen[key] {
			return
		}
		seen[key] = true
		done := true
		for w := range calls {
			if pos[w] >= len(calls[w]) {
				continue
			}
			done = false
			cl := calls[w][pos[w]]
			model := cl.valid && cl.Version >= hwm
			if model != cl.Accepted {
				continue
			}
			next := hwm
			if model {
				next = cl.Version
			}
			pos[w]++
			rec(next)
			pos[w]--
		}
		if done {
			finals[hwm] = true
		}
	}
	rec(0)
	return finals
}

// ---- generator --------------------------------------------------------------------------------

func genIdxStep(t *rapid.T, st *pbt.Stats, l string, conc bool) idxStep {
	s := idxStep{}
	switch pick(t, l+"/verkind", "small", 12, "big", 2, "edge", 1) {
	case "big":
		s.Version = rapid.SampledFrom([]int64{1 << 20, 1 << 40, 1<<40 + 1, 1<<40 - 1}).Draw(t, l+"/bigver")
	case "edge":
		s.Version = rapid.SampledFrom([]int64{-1, 0, math.MaxInt64, math.MaxInt64 - 1, math.MinInt64}).Draw(t, l+"/edgever")
	default:
		s.Version = int64(rapid.IntRange(0, 9).Draw(t, l+"/ver"))
	}
	s.Age = pick(t, l+"/age", "fresh", 14, "stale", 3, "very-stale", 1, "zero-time", 1, "future", 1)
	s.AgeFrac = rapid.IntRange(0, 100).Draw(t, l+"/agefrac")
	if conc {
		s.Sign = pick(t, l+"/sign", "root", 12, "root-badsig", 2, "foreign-key", 1, "fresh+root", 1)
	} else {
		s.Sign = pick(t, l+"/sign", "root", 16, "fresh", 5, "fresh+root", 2, "foreign+root", 1, "root-badsig", 2, "root-tampered", 2, "foreign-key", 2,
			"root-keyid-foreign-sig", 1, "root-key-as-freshness", 1, "fresh-key-as-root", 1, "bad-alg", 1, "bad-b64", 1, "none", 1, "dupkey", 1,
			"json-truncated", 1, "json-garbage", 1)
		if strings.HasPrefix(s.Sign, "json-") && st.IsKnown(kUncodedIndexSyntax) {
			// known defect (uncoded refusal of syntactically invalid index JSON): exclude exactly this shape
			st.Exclude(kUncodedIndexSyntax)
			s.Sign = "none"
		}
	}
	s.Content = rapid.SampledFrom([]int{0, 0, 0, 1, 2}).Draw(t, l+"/content")
	return s
}

func genIdxCase(t *rapid.T, st *pbt.Stats) idxCase {
	c := idxCase{Part: "index", Seed: rapid.Int64().Draw(t, "keyseed")}
	c.WindowHours = rapid.SampledFrom([]int{0, 0, 1, 48, 24 * 365}).Draw(t, "window")
	if rapid.IntRange(0, 2).Draw(t, "concurrent") == 0 {
		nw := rapid.IntRange(2, 4).Draw(t, "workers")
		for w := 0; w < nw; w++ {
			n := rapid.IntRange(1, 3).Draw(t, fmt.Sprintf("w%d/n", w))
			var steps []idxStep
			for i := 0; i < n; i++ {
				steps = append(steps, genIdxStep(t, st, fmt.Sprintf("w%d/s%d", w, i), true))
			}
			c.Workers = append(c.Workers, steps)
		}
		c.SharedTV = drawBool(t, "sharedtv")
		c.ViaInstall = drawBool(t, "viainstall")
		return c
	}
	n := rapid.IntRange(1, 10).Draw(t, "nsteps")
	for i := 0; i < n; i++ {
		c.Steps = append(c.Steps, genIdxStep(t, st, fmt.Sprintf("s%d", i), false))
	}
	return c
}

// TestC19Index: index freshness / rollback high-water mark through the real
// TrustedVerifier.VerifyIndex, sequentially and from 2-4 goroutines.
func TestC19Index(t *testing.T) {
	st := pbt.For(prop)
	defer st.Finish(t)
	rapid.Check(t, func(t *rapid.T) {
		c := genIdxCase(t, st)
		pbt.MarkCurrent(prop, c)
		var vs []verdict
		var cls []string
		nontrivial := false
		if len(c.Workers) > 0 {
			calls, final, v := runIndexConc(c)
			vs = v
			cls = append(cls, "index:concurrent", fmt.Sprintf("index:workers=%d", len(c.Workers)))
			if c.ViaInstall {
				cls = append(cls, "index:concurrent-through-install")
			}
			acc, rb := 0, 0
			for _, ws := range calls {
				for _, cl := range ws {
					if cl.Accepted {
						acc++
					}
					if cl.Code == index.CodeIndexRollback.Reason() {
						rb++
					}
				}
			}
			if rb > 0 {
				cls = append(cls, "index:concurrent-rollback-refusal")
			}
			if acc >= 2 {
				cls = append(cls, "index:concurrent-2+accepted")
			}
			nontrivial = acc >= 1 && (rb > 0 || acc >= 2)
			if nontrivial && st.WantSample() {
				st.Sample(map[string]any{"part": "index", "case": c, "calls": calls, "final": final})
			}
		} else {
			facts, v := runIndexSeq(c)
			vs = v
			cls = append(cls, "index:sequential")
			for i, f := range facts {
				cls = append(cls, "index:"+f.Expect, "index:sign="+c.Steps[i].Sign)
				if f.Expect == "refuse:rollback" {
					nontrivial = true // a version went down below an accepted one
				}
				if f.Accepted && c.Steps[i].Sign == "fresh" {
					cls = append(cls, "index:freshness-only-accepted")
				}
				if i > 0 && f.Accepted && c.Steps[i].Version == facts[i-1].Recorded {
					cls = append(cls, "index:equal-version-accepted")
				}
			}
			if nontrivial && st.WantSample() {
				st.Sample(map[string]any{"part": "index", "case": c, "facts": facts})
			}
		}
		st.Case(pbt.Hash(c), nontrivial, dedup(cls)...)
		for _, v := range vs {
			report(t, st, v.Key, v.Detail, jsonSize(c), c)
		}
	})
}
