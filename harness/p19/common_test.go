// Package p19 holds the property-based check of C19 ("Registry installs an
// artifact only after integrity and trust checks, atomically").
//
// Parts (one Test function each, see NOTES.md):
//
//	TestC19Extract  archive grammar -> registry.ExtractBinary, file-tree confinement oracle
//	TestC19Install  registry.Install / InstallProcessor with scripted gates, necessary-condition oracle
//	TestC19PolicyEnum  the 64 policy contexts x verifier outcome, exhaustively
//	TestC19Bundle   one-directional attack on InstallFromBundle / InstallProcessorBundle
//	TestC19Index    signed index sequences -> TrustedVerifier.VerifyIndex, high-water-mark model
//	TestC19Crash    kill / fail the N-th file syscall of one operation (strace inject)
package p19

import (
	"crypto/sha256"
	"encoding/hex"
	"encoding/json"
	"errors"
	"fmt"
	"io"
	"os"
	"path/filepath"
	"sort"
	"strings"
	"syscall"
	"testing"

	"github.com/conduitio/conduit/pkg/foundation/cerrors/conduiterr"
	gojson "github.com/goccy/go-json"
	"pgregory.net/rapid"
	"verifharness/pbt"
)

const prop = "C19"

// ---- closed vocabulary of violation keys -----------------------------------

const (
	// TestC19Extract
	kExtPanic         = "C19/extract/panic"
	kExtOutside       = "C19/extract/write-outside-destdir"
	kExtLinkEscape    = "C19/extract/link-inside-destdir-points-outside"
	kExtUncoded       = "C19/extract/refusal-not-coded"
	kExtResultOutside = "C19/extract/returned-path-not-regular-file-in-destdir"
	kExtAcceptedLink  = "C19/extract/doc/accepted-archive-with-link-entry"
	kExtAcceptedEsc   = "C19/extract/doc/accepted-archive-with-escaping-name"
	kExtAcceptedRoots = "C19/extract/doc/accepted-archive-without-exactly-one-root-file"
	kExtWellRefused   = "C19/extract/doc/wellformed-archive-refused"
	kExtWrongContent  = "C19/extract/doc/extracted-content-differs"

	// TestC19Install / TestC19PolicyEnum
	kInsPanic          = "C19/install/panic"
	kInsOutside        = "C19/install/write-outside-registry-dir-or-final-artifact"
	kInsDigest         = "C19/install/artifact-without-matching-digest"
	kInsNoAccept       = "C19/install/artifact-without-accepting-verifier-call"
	kInsUnsignedNoOp   = "C19/install/unsigned-artifact-without-operator-allow"
	kInsUnsignedNoReq  = "C19/install/unsigned-artifact-without-allow-unsigned-request"
	kInsUnsignedNoLog  = "C19/install/doc/unsigned-artifact-without-audit-line"
	kInsManifestOnly   = "C19/install/manifest-entry-without-artifact"
	kInsArtifactOnly   = "C19/install/artifact-without-manifest-entry"
	kInsErrLeft        = "C19/install/refusal-left-artifact-or-manifest-entry"
	kInsUncoded        = "C19/install/refusal-not-coded"
	kInsOKNothing      = "C19/install/success-without-artifact"
	kInsManifestDigest = "C19/install/manifest-digest-differs-from-artifact"
	kInsStaging        = "C19/install/doc/staging-directory-left-behind"
	kInsPrevChanged    = "C19/install/refusal-changed-previous-install"

	// TestC19Bundle
	kBunPanic    = "C19/bundle/panic"
	kBunOutside  = "C19/bundle/write-outside-registry-dir"
	kBunAccepted = "C19/bundle/installed-without-valid-signature-material"
	kBunLeft     = "C19/bundle/refusal-left-artifact-or-manifest-entry"
	kBunUncoded  = "C19/bundle/refusal-not-coded"

	// TestC19Index
	kIdxPanic       = "C19/index/panic"
	kIdxDecreased   = "C19/index/high-water-mark-decreased"
	kIdxNotMax      = "C19/index/recorded-version-not-max-accepted"
	kIdxOlderOK     = "C19/index/older-index-accepted"
	kIdxBadSigOK    = "C19/index/doc/unauthorised-index-accepted"
	kIdxStaleOK     = "C19/index/doc/stale-index-accepted"
	kIdxGoodRefused = "C19/index/doc/valid-fresh-index-refused"
	kIdxRefusedMove = "C19/index/doc/refused-index-changed-state"
	kIdxCode        = "C19/index/doc/wrong-refusal-code"
	kIdxUncoded     = "C19/index/refusal-not-coded"
	kIdxStateParse  = "C19/index/state-file-unreadable"
	kIdxConcFinal   = "C19/index/concurrent/final-version-not-max-accepted"
	kIdxConcSerial  = "C19/index/concurrent/no-serial-explanation"

	// TestC19Crash
	kCrMixed     = "C19/crash/file-neither-old-nor-new"
	kCrArtifact  = "C19/crash/final-artifact-without-matching-digest"
	kCrRerun     = "C19/crash/rerun-after-interruption-fails"
	kCrRerunNew  = "C19/crash/rerun-does-not-yield-new-content"
	kCrOKNotNew  = "C19/crash/reported-success-but-old-content"
	kCrTempLeft  = "C19/crash/doc/temp-file-left-after-returned-error"
	kCrEntryNoAr = "C19/crash/manifest-entry-without-artifact"
)

// kUncodedIndexSyntax is the sub-shape of the "refusal is a coded error" clauses
// found on the real code: index.CheckNoDuplicateKeys returns the JSON decoder's
// raw error for syntactically invalid index JSON, so Install / VerifyIndex /
// InstallFromBundle refuse a damaged index with an uncoded error (verify.go
// documents CodeIndexIntegrity, "index envelope is not valid JSON").
const kUncodedIndexSyntax = "C19/refusal-not-coded/index.CheckNoDuplicateKeys/json-syntax-error"

func isJSONSyntaxErr(err error) bool {
	if err == nil {
		return false
	}
	var se *gojson.SyntaxError
	if errors.As(err, &se) || errors.Is(err, io.ErrUnexpectedEOF) || errors.Is(err, io.EOF) {
		return true
	}
	msg := err.Error()
	return strings.HasPrefix(msg, "json: ") || strings.Contains(msg, "unexpected end of JSON") || strings.Contains(msg, "invalid character")
}

// uncodedKey picks the key of an uncoded refusal: the known JSON-syntax shape or the generic clause.
func uncodedKey(generic string, err error) string {
	if isJSONSyntaxErr(err) {
		return kUncodedIndexSyntax
	}
	return generic
}

// damageJSON renders the two syntactic damages of an index document.
func damageJSON(raw []byte, mode string) []byte {
	switch mode {
	case "json-truncated":
		return append([]byte{}, raw[:len(raw)/2]...)
	case "json-garbage":
		out := append([]byte{}, raw...)
		// replace a structural character in the middle by a letter
		for i := len(out) / 2; i < len(out); i++ {
			if out[i] == ':' || out[i] == ',' || out[i] == '{' || out[i] == '[' {
				out[i] = 'a'
				break
			}
		}
		return out
	}
	return raw
}

// ---- per-case scratch directories -------------------------------------------

var scratchBase string

// caseDir returns a fresh directory for one case; the caller removes it.
func caseDir(tag string) string {
	if scratchBase == "" {
		base := os.Getenv("P19_TMP")
		if base == "" {
			base = os.TempDir()
			// tmpfs when available: the oracles do not depend on the file system
			// type and a case is 2-3x cheaper there
			if fi, err := os.Stat("/dev/shm"); err == nil && fi.IsDir() {
				if d, err := os.MkdirTemp("/dev/shm", "p19-probe-"); err == nil {
					_ = os.Remove(d)
					base = "/dev/shm"
				}
			}
		}
		sweepStaleScratch(base)
		d, err := os.MkdirTemp(base, fmt.Sprintf("p19-run-%d-", os.Getpid()))
		if err != nil {
			panic(err)
		}
		scratchBase = d
	}
	d, err := os.MkdirTemp(scratchBase, tag+"-")
	if err != nil {
		panic(err)
	}
	return d
}

// sweepStaleScratch removes scratch directories of p19 processes that no longer
// exist (fuzz workers and shards killed by a watchdog cannot clean up themselves).
func sweepStaleScratch(base string) {
	ents, err := os.ReadDir(base)
	if err != nil {
		return
	}
	for _, e := range ents {
		var pid int
		if !e.IsDir() || !strings.HasPrefix(e.Name(), "p19-run-") {
			continue
		}
		if n, _ := fmt.Sscanf(e.Name(), "p19-run-%d-", &pid); n != 1 || pid <= 0 {
			continue
		}
		if _, err := os.Stat(fmt.Sprintf("/proc/%d", pid)); os.IsNotExist(err) {
			_ = os.RemoveAll(filepath.Join(base, e.Name()))
		}
	}
}

func TestMain(m *testing.M) {
	if os.Getenv("P19_CHILD") != "" {
		// re-executed by TestC19Crash: perform one operation and exit (crash_test.go)
		os.Exit(childMain())
	}
	code := m.Run()
	if scratchBase != "" {
		_ = os.RemoveAll(scratchBase)
	}
	os.Exit(code)
}

// ---- file tree snapshots ----------------------------------------------------

// node is what the confinement oracle compares: type, size, permission bits,
// link target and content hash. Modification times are deliberately not part
// of it (no wall clock in the oracle).
type node struct {
	Type   string `json:"t"` // "f" file, "d" dir, "l" symlink, "o" other
	Size   int64  `json:"s,omitempty"`
	Perm   uint32 `json:"p,omitempty"`
	Target string `json:"l,omitempty"`
	Hash   string `json:"h,omitempty"`
	Ino    uint64 `json:"-"`
	Nlink  uint64 `json:"-"`
}

type tree map[string]node // key: path relative to the snapshot root ("." is the root)

func snapshot(root string) tree {
	out := tree{}
	_ = filepath.Walk(root, func(p string, fi os.FileInfo, err error) error {
		if err != nil {
			return nil
		}
		rel, rerr := filepath.Rel(root, p)
		if rerr != nil {
			return nil
		}
		n := node{Perm: uint32(fi.Mode().Perm())}
		if st, ok := fi.Sys().(*syscall.Stat_t); ok {
			n.Ino, n.Nlink = st.Ino, uint64(st.Nlink)
		}
		switch {
		case fi.Mode().IsRegular():
			n.Type, n.Size = "f", fi.Size()
			if b, err := os.ReadFile(p); err == nil {
				h := sha256.Sum256(b)
				n.Hash = hex.EncodeToString(h[:8])
			}
		case fi.IsDir():
			n.Type = "d"
		case fi.Mode()&os.ModeSymlink != 0:
			n.Type = "l"
			n.Target, _ = os.Readlink(p)
		default:
			n.Type = "o"
		}
		out[rel] = n
		return nil
	})
	return out
}

type change struct {
	Path string `json:"path"`
	Kind string `json:"kind"` // created | removed | modified
}

func diffTrees(before, after tree) []change {
	var out []change
	for p, a := range after {
		b, ok := before[p]
		if !ok {
			out = append(out, change{p, "created"})
			continue
		}
		if a.Type != b.Type || a.Size != b.Size || a.Perm != b.Perm || a.Target != b.Target || a.Hash != b.Hash {
			out = append(out, change{p, "modified"})
		}
	}
	for p := range before {
		if _, ok := after[p]; !ok {
			out = append(out, change{p, "removed"})
		}
	}
	sort.Slice(out, func(i, j int) bool { return out[i].Path < out[j].Path })
	return out
}

// under reports whether rel (relative to the snapshot root) is dirRel or below it.
func under(rel, dirRel string) bool {
	return rel == dirRel || strings.HasPrefix(rel, dirRel+string(filepath.Separator))
}

// ---- small helpers ----------------------------------------------------------

func isCoded(err error) bool {
	if err == nil {
		return false
	}
	ce, ok := conduiterr.Get(err)
	return ok && ce != nil && !ce.Code.IsZero()
}

func codeOf(err error) string {
	if err == nil {
		return ""
	}
	if ce, ok := conduiterr.Get(err); ok && ce != nil {
		return ce.Code.Reason()
	}
	return "<uncoded>"
}

func shaHex(b []byte) string {
	h := sha256.Sum256(b)
	return hex.EncodeToString(h[:])
}

func mustWrite(path string, b []byte, perm os.FileMode) {
	if err := os.MkdirAll(filepath.Dir(path), 0o755); err != nil {
		panic(err)
	}
	if err := os.WriteFile(path, b, perm); err != nil {
		panic(err)
	}
}

func jsonSize(v any) int {
	b, _ := json.Marshal(v)
	return len(b)
}

// report is the common tail of every violation: known findings continue the
// search, new ones fail the case so that rapid shrinks it.
func report(t *rapid.T, st *pbt.Stats, key, detail string, size int, replay any) {
	if st.Report(key, detail, size, replay) {
		t.Fatalf("%s: %s", key, detail)
	}
}

// verdict is one violation found by a pure "run the case" function, so that the
// same code serves the rapid property and TestReplayC19.
type verdict struct {
	Key    string
	Detail string
}

func (v verdict) String() string { return fmt.Sprintf("%s: %s", v.Key, v.Detail) }

func drawBool(t *rapid.T, label string) bool { return rapid.Bool().Draw(t, label) }

// pick draws one of the given strings, with the given integer weights.
func pick(t *rapid.T, label string, opts ...any) string {
	var names []string
	var total int
	var ws []int
	for i := 0; i+1 < len(opts); i += 2 {
		names = append(names, opts[i].(string))
		w := opts[i+1].(int)
		ws = append(ws, w)
		total += w
	}
	x := rapid.IntRange(0, total-1).Draw(t, label)
	for i, w := range ws {
		if x < w {
			return names[i]
		}
		x -= w
	}
	return names[len(names)-1]
}
