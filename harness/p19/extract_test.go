package p19

import (
	"archive/tar"
	"bytes"
	"compress/gzip"
	"fmt"
	"io"
	"os"
	"path/filepath"
	"strings"
	"testing"

	"github.com/conduitio/conduit/pkg/registry"
	"pgregory.net/rapid"
	"verifharness/pbt"
)

// jail layout (everything the oracle looks at lives below jail/):
//
//	jail/abs, jail/x, jail/outside.txt            sentinels an absolute or deep ".." name would hit
//	jail/1/2/x, jail/1/2/3/x, jail/1/2/3/4/x      sentinels for "../"-chains of different depth
//	jail/1/2/3/4/p/outside.txt, .../p/x, .../p/a/ siblings of destDir
//	jail/1/2/3/4/p/dest/                          destDir (empty, as extractAndGuard creates it)
const destRel = "1/2/3/4/p/dest"

func makeJail(base string) (jail, dest string) {
	jail = filepath.Join(base, "jail")
	for _, f := range []string{"abs", "x", "outside.txt", "1/x", "1/2/x", "1/2/3/x", "1/2/3/4/x", "1/2/3/4/p/outside.txt", "1/2/3/4/p/x", "1/2/3/4/p/a/x", "1/2/3/4/p/f", "1/2/3/4/p/conduit-connector-x"} {
		mustWrite(filepath.Join(jail, f), []byte("sentinel:"+f), 0o644)
	}
	dest = filepath.Join(jail, filepath.FromSlash(destRel))
	if err := os.MkdirAll(dest, 0o700); err != nil {
		panic(err)
	}
	return jail, dest
}

// extractReplay is everything needed to re-run one extraction case without rapid.
type extractReplay struct {
	Part     string      `json:"part"`              // "extract"
	Spec     ArchiveSpec `json:"spec"`              // rendered against the jail of each execution (absolute names are re-rooted there)
	Archive  []byte      `json:"archive,omitempty"` // raw bytes instead of a spec (native fuzz findings)
	Well     bool        `json:"wellformed"`
	RootName string      `json:"root_name,omitempty"`
	RootData []byte      `json:"root_data,omitempty"`
}

type extractFacts struct {
	Err        error
	Code       string
	Path       string
	Changes    []change
	RefErr     error
	RefHeaders []refHeader
	PartialOut bool // refused but files were left in destDir
}

type refHeader struct {
	Name  string
	Clean string
	Type  byte
	Size  int64
}

// refWalk lists the headers archive/tar itself sees in the byte stream (the
// same library ExtractBinary uses, so the same view of the entry sequence).
func refWalk(archive []byte) ([]refHeader, error) {
	zr, err := gzip.NewReader(bytes.NewReader(archive))
	if err != nil {
		return nil, err
	}
	tr := tar.NewReader(zr)
	var out []refHeader
	for {
		h, err := tr.Next()
		if err == io.EOF {
			return out, nil
		}
		if err != nil {
			return out, err
		}
		out = append(out, refHeader{Name: h.Name, Clean: filepath.Clean(h.Name), Type: h.Typeflag, Size: h.Size})
	}
}

func escapes(clean string) bool {
	return filepath.IsAbs(clean) || clean == ".." || strings.HasPrefix(clean, "../")
}

// runExtract executes one extraction case in a fresh jail and evaluates the oracle.
func runExtract(rp extractReplay) (facts extractFacts, out []verdict) {
	base := caseDir("ext")
	defer os.RemoveAll(base)
	jail, dest := makeJail(base)
	archive := rp.Archive
	if archive == nil {
		archive = buildArchive(rp.Spec, jail)
	}
	archivePath := filepath.Join(base, "artifact.tar.gz")
	mustWrite(archivePath, archive, 0o600)

	before := snapshot(jail)
	var path string
	var err error
	var panicked any
	func() {
		defer func() { panicked = recover() }()
		path, err = registry.ExtractBinary(archivePath, dest)
	}()
	after := snapshot(jail)
	facts.Err, facts.Path, facts.Code = err, path, codeOf(err)
	facts.Changes = diffTrees(before, after)

	if panicked != nil {
		out = append(out, verdict{kExtPanic, fmt.Sprintf("ExtractBinary panicked: %v", panicked)})
		return facts, out
	}
	// (1) confinement: every created/modified/removed path lies under destDir
	for _, c := range facts.Changes {
		if !under(c.Path, destRel) || c.Path == destRel && c.Kind != "modified" {
			out = append(out, verdict{kExtOutside, fmt.Sprintf("%s %q outside destDir %q", c.Kind, c.Path, destRel)})
			break
		}
	}
	// (2) no link inside destDir leads outside it
	inoOutside := map[uint64]string{}
	for p, n := range after {
		if !under(p, destRel) && n.Type == "f" {
			inoOutside[n.Ino] = p
		}
	}
	for p, n := range after {
		if !under(p, destRel) || p == destRel {
			continue
		}
		switch n.Type {
		case "l":
			tgt := n.Target
			if !filepath.IsAbs(tgt) {
				tgt = filepath.Join(filepath.Dir(filepath.Join(jail, p)), tgt)
			}
			rel, rerr := filepath.Rel(dest, filepath.Clean(tgt))
			if rerr != nil || rel == ".." || strings.HasPrefix(rel, "../") {
				out = append(out, verdict{kExtLinkEscape, fmt.Sprintf("symlink %q -> %q leaves destDir", p, n.Target)})
			}
		case "f":
			if o, ok := inoOutside[n.Ino]; ok {
				out = append(out, verdict{kExtLinkEscape, fmt.Sprintf("%q is a hard link to %q outside destDir", p, o)})
			}
		case "o":
			out = append(out, verdict{kExtLinkEscape, fmt.Sprintf("special file %q created in destDir", p)})
		}
	}
	for _, c := range facts.Changes {
		if c.Kind == "created" && under(c.Path, destRel) {
			facts.PartialOut = err != nil
		}
	}
	facts.RefHeaders, facts.RefErr = refWalk(archive)

	if err != nil {
		// (3) refusal is a coded error (extract.go: "It refuses, with CodeArchiveInvalid")
		if !isCoded(err) {
			out = append(out, verdict{kExtUncoded, fmt.Sprintf("uncoded error: %v", err)})
		}
		if rp.Well {
			out = append(out, verdict{kExtWellRefused, fmt.Sprintf("well-formed single-binary archive refused: %v", err)})
		}
		return facts, out
	}
	// (4) success: the returned path is a regular file inside destDir
	rel, rerr := filepath.Rel(dest, path)
	fi, serr := os.Lstat(path)
	if rerr != nil || rel == "." || escapes(rel) || serr != nil || !fi.Mode().IsRegular() {
		out = append(out, verdict{kExtResultOutside, fmt.Sprintf("returned path %q (rel %q, lstat err %v)", path, rel, serr)})
	}
	// (5) documented refusals (ExtractBinary doc comment), judged on the header
	// sequence archive/tar itself reports for these bytes
	if facts.RefErr == nil {
		roots := 0
		for _, h := range facts.RefHeaders {
			if escapes(h.Clean) {
				out = append(out, verdict{kExtAcceptedEsc, fmt.Sprintf("accepted an archive with entry %q (clean %q)", h.Name, h.Clean)})
				break
			}
		}
		for _, h := range facts.RefHeaders {
			if h.Type == tar.TypeSymlink || h.Type == tar.TypeLink {
				out = append(out, verdict{kExtAcceptedLink, fmt.Sprintf("accepted an archive with link entry %q", h.Name)})
				break
			}
			if h.Type == tar.TypeReg && !strings.Contains(h.Clean, "/") {
				roots++
			}
		}
		if roots != 1 {
			out = append(out, verdict{kExtAcceptedRoots, fmt.Sprintf("accepted an archive with %d root-level regular files", roots)})
		}
	}
	if rp.Well {
		got, _ := os.ReadFile(path)
		if rel != rp.RootName || !bytes.Equal(got, rp.RootData) {
			out = append(out, verdict{kExtWrongContent, fmt.Sprintf("extracted %q (%d bytes), expected %q (%d bytes)", rel, len(got), rp.RootName, len(rp.RootData))})
		}
	}
	return facts, out
}

// archiveClasses derives the class histogram entries and the non-trivial flag of a spec.
func archiveClasses(spec ArchiveSpec) (cls []string, hostile bool) {
	add := func(c string) { cls = append(cls, c) }
	seen := map[string]bool{}
	roots := 0
	for _, e := range spec.Entries {
		names := []string{e.Name}
		for _, kv := range e.Pax {
			if kv[0] == "path" || kv[0] == "GNU.sparse.name" {
				names = append(names, kv[1])
			}
			if strings.HasPrefix(kv[0], "GNU.sparse") {
				add("pax-sparse")
			}
		}
		for _, n := range names {
			c := filepath.Clean(n)
			switch {
			case strings.HasPrefix(n, "/"):
				add("name-absolute")
				hostile = true
			case escapes(c):
				add("name-dotdot-escape")
				hostile = true
			case strings.Contains(n, ".."):
				add("name-dotdot-inside")
				hostile = true
			}
			if strings.ContainsRune(n, 0) {
				add("name-nul")
				hostile = true
			}
			if strings.Contains(n, "\\") {
				add("name-backslash")
				hostile = true
			}
			if len(n) > 100 {
				add("name-long")
			}
			if n == "" || n == "." || n == "./" {
				add("name-empty-or-dot")
				hostile = true
			}
			for _, r := range n {
				if r > 127 {
					add("name-non-ascii")
					break
				}
			}
		}
		switch e.Type {
		case "2":
			add("type-symlink")
			hostile = true
		case "1":
			add("type-hardlink")
			hostile = true
		case "3", "4", "6":
			add("type-device-or-fifo")
			hostile = true
		case "0", "", "\x00":
			if !strings.Contains(filepath.Clean(e.Name), "/") {
				roots++
			}
		}
		if e.Long == "gnu" {
			add("gnu-long-name")
		}
		if e.Long == "pax" || len(e.Pax) > 0 {
			add("pax-records")
		}
		if e.Decl != -1 && e.Decl != int64(e.Len) {
			add("size-declared-differs")
			hostile = true
			if e.Decl >= 1<<31 {
				add("size-huge")
			}
		}
		if seen[e.Name] {
			add("duplicate-name")
			hostile = true
		}
		seen[e.Name] = true
	}
	switch {
	case roots == 0:
		add("roots-0")
	case roots == 1:
		add("roots-1")
	default:
		add("roots-2+")
	}
	if spec.CorruptTar > 0 {
		add("tar-corrupt-at-k")
		hostile = true
	}
	if spec.CorruptGz > 0 {
		add("gzip-corrupt-at-k")
		hostile = true
	}
	if spec.TruncGz > 0 {
		add("gzip-truncated-at-k")
		hostile = true
	}
	if spec.Wrap != "gzip" {
		add("wrap-" + spec.Wrap)
	}
	return dedup(cls), hostile
}

func dedup(in []string) []string {
	seen := map[string]bool{}
	var out []string
	for _, s := range in {
		if !seen[s] {
			seen[s] = true
			out = append(out, s)
		}
	}
	return out
}

// TestC19Extract: archives from the grammar through registry.ExtractBinary.
func TestC19Extract(t *testing.T) {
	st := pbt.For(prop)
	defer st.Finish(t)
	rapid.Check(t, func(t *rapid.T) {
		var rp extractReplay
		rp.Part = "extract"
		if rapid.IntRange(0, 5).Draw(t, "wellformed") == 0 {
			rp.Spec, rp.RootName, rp.RootData = genWellFormed(t)
			rp.Well = true
		} else {
			rp.Spec = genHostile(t)
		}
		pbt.MarkCurrent(prop, rp.Spec)
		facts, vs := runExtract(rp)

		cls, hostile := archiveClasses(rp.Spec)
		if rp.Well {
			cls = append(cls, "wellformed")
		}
		if facts.Err == nil {
			cls = append(cls, "result-extracted")
		} else {
			cls = append(cls, "result-refused:"+facts.Code)
			if facts.PartialOut {
				cls = append(cls, "refused-with-partial-files-in-destdir")
			}
		}
		if facts.RefErr != nil && facts.Err == nil {
			cls = append(cls, "reference-walk-error-but-extracted")
		}
		st.Case(pbt.Hash(rp.Spec), hostile, cls...)
		if hostile && st.WantSample() {
			st.Sample(map[string]any{"part": "extract", "spec": rp.Spec, "result": facts.Code, "changes": facts.Changes})
		}
		for _, v := range vs {
			report(t, st, v.Key, v.Detail, jsonSize(rp.Spec), rp)
		}
	})
}

// FuzzC19Extract: raw archive bytes (thorough tier, `go test -fuzz`). Seeds are
// rendered from the grammar; /repo has no adversarial archive fixtures.
func FuzzC19Extract(f *testing.F) {
	for _, spec := range fuzzSeedSpecs() {
		f.Add(buildArchive(spec, ""))
	}
	f.Fuzz(func(t *testing.T, data []byte) {
		if len(data) > 1<<20 || !boundedExpansion(data) {
			t.Skip()
		}
		_, vs := runExtract(extractReplay{Part: "extract", Archive: data})
		for _, v := range vs {
			st := pbt.For(prop)
			if st.Report(v.Key, v.Detail, len(data), extractReplay{Part: "extract", Archive: data}) {
				st.Flush()
				t.Fatalf("%s", v)
			}
		}
	})
}

// boundedExpansion keeps fuzz inputs from writing more than a few MiB: the
// decompressed stream must be < 8 MiB and no sparse entry may declare more.
func boundedExpansion(data []byte) bool {
	zr, err := gzip.NewReader(bytes.NewReader(data))
	if err != nil {
		return true
	}
	n, _ := io.Copy(io.Discard, io.LimitReader(zr, 8<<20+1))
	if n > 8<<20 {
		return false
	}
	zr2, err := gzip.NewReader(bytes.NewReader(data))
	if err != nil {
		return true
	}
	tr := tar.NewReader(zr2)
	for {
		h, err := tr.Next()
		if err != nil {
			return true
		}
		if h.Size > 8<<20 {
			for k := range h.PAXRecords {
				if strings.HasPrefix(k, "GNU.sparse") {
					return false
				}
			}
			if h.Typeflag == tar.TypeGNUSparse {
				return false
			}
		}
	}
}

func fuzzSeedSpecs() []ArchiveSpec {
	reg := func(name string) Entry { return Entry{Name: name, Type: "0", Len: 20, Fill: 5, Decl: -1} }
	return []ArchiveSpec{
		{Entries: []Entry{reg("conduit-connector-x")}, Trailer: 2, Wrap: "gzip"},
		{Entries: []Entry{reg("../x")}, Trailer: 2, Wrap: "gzip"},
		{Entries: []Entry{reg("a/../../x"), reg("bin")}, Trailer: 2, Wrap: "gzip"},
		{Entries: []Entry{{Name: "l", Type: "2", Link: "../outside.txt", Decl: -1}, reg("l/x")}, Trailer: 2, Wrap: "gzip"},
		{Entries: []Entry{{Name: "h", Type: "1", Link: "../outside.txt", Decl: -1}, reg("h")}, Trailer: 2, Wrap: "gzip"},
		{Entries: []Entry{{Name: "d/", Type: "5", Decl: -1}, reg("d/f"), reg("bin")}, Trailer: 2, Wrap: "gzip"},
		{Entries: []Entry{{Name: "x", Type: "0", Long: "pax", Decl: -1, Len: 3, Fill: 1, Pax: [][2]string{{"path", "../../x"}}}}, Trailer: 2, Wrap: "gzip"},
		{Entries: []Entry{{Name: strings.Repeat("../", 3) + strings.Repeat("n", 200), Type: "0", Long: "gnu", Decl: -1, Len: 3, Fill: 1}}, Trailer: 2, Wrap: "gzip"},
		{Entries: []Entry{{Name: "dev", Type: "3", Decl: -1}, {Name: "fifo", Type: "6", Decl: -1}, reg("bin")}, Trailer: 2, Wrap: "gzip"},
		{Entries: []Entry{{Name: "big", Type: "0", Decl: 1 << 33, Len: 100, Fill: 1}}, Trailer: 0, Wrap: "gzip"},
		{Entries: []Entry{{Name: "sp", Type: "0", Decl: -1, Len: 512, Fill: 1, Pax: [][2]string{{"GNU.sparse.size", "65536"}, {"GNU.sparse.numblocks", "1"}, {"GNU.sparse.map", "0,512"}, {"GNU.sparse.name", "../sp"}}}}, Trailer: 2, Wrap: "gzip"},
		{Entries: []Entry{reg("a"), reg("a")}, Trailer: 2, Wrap: "gzip"},
		{Entries: []Entry{reg("nul\x00x"), reg("")}, Trailer: 2, Wrap: "gzip"},
	}
}
