package p17

import (
	"context"
	"encoding/json"
	"errors"
	"fmt"
	"testing"
	"time"

	"github.com/conduitio/conduit-commons/opencdc"
	"github.com/conduitio/conduit/pkg/connector"
	"github.com/conduitio/conduit/pkg/pipeline"
	"github.com/conduitio/conduit/pkg/processor"
	"pgregory.net/rapid"
	"verifharness/lab"
	"verifharness/pbt"
)

// rtResult is what one round-trip case observed.
type rtResult struct {
	Viol         []violation
	Flips        map[string]bool // tolerated nil<->empty flips seen (reported as classes only)
	Classes      []string
	HarnessErr   string // the check itself could not run the case (not a verdict)
	Inconclusive string
}

func (r *rtResult) fail(key, format string, args ...any) {
	r.Viol = append(r.Viol, violation{Key: key, Detail: fmt.Sprintf(format, args...)})
}

func persistVia(ctx context.Context, s *services, inst *connector.Instance) error {
	done := make(chan error, 1)
	if err := s.persister.Persist(ctx, inst, func(err error) { done <- err }); err != nil {
		return err
	}
	select {
	case err := <-done:
		return err
	case <-time.After(60 * time.Second):
		return errPersistTimeout // liveness guard only: counted inconclusive, never a verdict
	}
}

var errPersistTimeout = errors.New("persister callback not invoked within 60s")

func toPositions(m map[string][]byte) map[string]opencdc.Position {
	if m == nil {
		return nil
	}
	out := make(map[string]opencdc.Position, len(m))
	for k, v := range m {
		out[k] = opencdc.Position(v)
	}
	return out
}

func (s *stateCase) value() any {
	if s.Kind == "dest" {
		return connector.DestinationState{Positions: toPositions(s.Positions)}
	}
	return connector.SourceState{Position: opencdc.Position(s.Position)}
}

// writeCase stores the case through the real services.
func writeCase(ctx context.Context, a *services, c *rtCase, res *rtResult) bool {
	bad := func(op string, err error) bool {
		if errors.Is(err, errPersistTimeout) {
			res.Inconclusive = err.Error()
			return true
		}
		if err != nil {
			res.fail(prop+"/store-write-failed/"+op, "%s rejected a value the service documents as valid: %v", op, err)
			return true
		}
		return false
	}
	for i := range c.Pipelines {
		p := &c.Pipelines[i]
		inst, err := a.pipes.Create(ctx, p.ID, pipeline.Config{Name: p.Cfg.Name, Description: p.Cfg.Description}, pipeline.ProvisionType(p.Prov))
		if bad("pipeline.Create", err) {
			return false
		}
		if p.Update != nil {
			if _, err := a.pipes.Update(ctx, p.ID, pipeline.Config{Name: p.Update.Name, Description: p.Update.Description}); bad("pipeline.Update", err) {
				return false
			}
		}
		if p.DLQ != nil {
			if _, err := a.pipes.UpdateDLQ(ctx, p.ID, pipeline.DLQ{Plugin: p.DLQ.Plugin, Settings: p.DLQ.Settings,
				WindowSize: p.DLQ.WindowSize, WindowNackThreshold: p.DLQ.Threshold}); bad("pipeline.UpdateDLQ", err) {
				return false
			}
		}
		for _, id := range p.AddConns {
			if _, err := a.pipes.AddConnector(ctx, p.ID, id); bad("pipeline.AddConnector", err) {
				return false
			}
		}
		for _, id := range p.RemoveConns {
			if _, err := a.pipes.RemoveConnector(ctx, p.ID, id); bad("pipeline.RemoveConnector", err) {
				return false
			}
		}
		for _, id := range p.AddProcs {
			if _, err := a.pipes.AddProcessor(ctx, p.ID, id); bad("pipeline.AddProcessor", err) {
				return false
			}
		}
		for _, id := range p.RemoveProcs {
			if _, err := a.pipes.RemoveProcessor(ctx, p.ID, id); bad("pipeline.RemoveProcessor", err) {
				return false
			}
		}
		if p.Status != nil {
			if err := a.pipes.UpdateStatus(ctx, p.ID, pipeline.Status(p.Status.Status), p.Status.Err); bad("pipeline.UpdateStatus", err) {
				return false
			}
		}
		if p.Created != nil {
			inst.CreatedAt, inst.UpdatedAt = p.Created.Time(), p.Updated.Time()
			if err := a.pipes.UpdateStatus(ctx, p.ID, inst.GetStatus(), inst.Error); bad("pipeline.UpdateStatus", err) {
				return false
			}
		}
	}

	for i := range c.Connectors {
		k := &c.Connectors[i]
		inst, err := a.conns.Create(ctx, k.ID, connector.Type(k.Type), k.Plugin, k.PipelineID,
			connector.Config{Name: k.Cfg.Name, Settings: k.Cfg.Settings}, connector.ProvisionType(k.Prov))
		if bad("connector.Create", err) {
			return false
		}
		if k.Prov == provisionedDLQ {
			// documented: DLQ connectors are handed out but never persisted; nothing
			// may show up for them after a restart (checked by the "(extra)" clause)
			continue
		}
		if k.Update != nil {
			if _, err := a.conns.Update(ctx, k.ID, k.Update.Plugin, connector.Config{Name: k.Update.Cfg.Name, Settings: k.Update.Cfg.Settings}); bad("connector.Update", err) {
				return false
			}
		}
		for _, id := range k.AddProcs {
			if _, err := a.conns.AddProcessor(ctx, k.ID, id); bad("connector.AddProcessor", err) {
				return false
			}
		}
		for _, id := range k.RemoveProcs {
			if _, err := a.conns.RemoveProcessor(ctx, k.ID, id); bad("connector.RemoveProcessor", err) {
				return false
			}
		}
		if k.State != nil {
			st := k.State
			if st.Kind == "cleared" {
				var typed any = connector.SourceState{Position: opencdc.Position(st.Position)}
				if k.Type == 2 {
					typed = connector.DestinationState{Positions: toPositions(st.Positions)}
				}
				if _, err := a.conns.SetState(ctx, k.ID, typed); bad("connector.SetState", err) {
					return false
				}
				if _, err := a.conns.SetState(ctx, k.ID, nil); bad("connector.SetState", err) {
					return false
				}
			} else if st.Via == "persister" {
				inst.Lock()
				inst.State = st.value()
				inst.Unlock()
				if err := persistVia(ctx, a, inst); bad("connector.Persister", err) {
					return false
				}
			} else {
				if _, err := a.conns.SetState(ctx, k.ID, st.value()); bad("connector.SetState", err) {
					return false
				}
			}
		}
		if k.LastActive != nil {
			inst.Lock()
			inst.LastActiveConfig = connector.Config{Name: k.LastActive.Name, Settings: k.LastActive.Settings}
			inst.Unlock()
			if err := persistVia(ctx, a, inst); bad("connector.Persister", err) {
				return false
			}
		}
		if k.Created != nil {
			inst.CreatedAt, inst.UpdatedAt = k.Created.Time(), k.Updated.Time()
			if _, err := a.conns.SetState(ctx, k.ID, inst.State); bad("connector.SetState", err) {
				return false
			}
		}
	}

	for i := range c.Processors {
		p := &c.Processors[i]
		inst, err := a.procs.Create(ctx, p.ID, p.Plugin, processor.Parent{ID: p.ParentID, Type: processor.ParentType(p.ParentType)},
			processor.Config{Settings: p.Cfg.Settings, Workers: p.Cfg.Workers}, processor.ProvisionType(p.Prov), p.Cond)
		if bad("processor.Create", err) {
			return false
		}
		if p.Created != nil {
			inst.CreatedAt = p.Created.Time()
		}
		if p.Update != nil {
			if _, err := a.procs.Update(ctx, p.ID, p.Update.Plugin, processor.Config{Settings: p.Update.Cfg.Settings, Workers: p.Update.Cfg.Workers}); bad("processor.Update", err) {
				return false
			}
		}
	}
	return true
}

// touch re-stores every entity through the reloaded services without changing a
// value, so that the next reload reads documents that were encoded from decoded
// instances (decode∘encode∘decode).
func touch(ctx context.Context, s *services, res *rtResult) bool {
	for id, p := range s.pipes.List(ctx) {
		if err := s.pipes.UpdateStatus(ctx, id, p.GetStatus(), p.Error); err != nil {
			res.fail(prop+"/store-write-failed/regen.pipeline.UpdateStatus", "re-storing the reloaded pipeline %q failed: %v", id, err)
			return false
		}
	}
	for id, k := range s.conns.List(ctx) {
		if _, err := s.conns.SetState(ctx, id, k.State); err != nil {
			res.fail(prop+"/store-write-failed/regen.connector.SetState", "re-storing the reloaded connector %q failed: %v", id, err)
			return false
		}
	}
	for id, p := range s.procs.List(ctx) {
		if _, err := s.procs.Update(ctx, id, p.Plugin, p.Config); err != nil {
			res.fail(prop+"/store-write-failed/regen.processor.Update", "re-storing the reloaded processor %q failed: %v", id, err)
			return false
		}
	}
	return true
}

// runRoundTrip executes one case: write through services A, restart, compare.
func runRoundTrip(c *rtCase) *rtResult {
	ctx := context.Background()
	res := &rtResult{Flips: map[string]bool{}}
	a := newServices(lab.NewFaultDB(nil))
	if stage, err, _ := a.init(ctx); err != nil {
		res.HarnessErr = fmt.Sprintf("init of the empty store failed at %s: %v", stage, err)
		return res
	}
	if !writeCase(ctx, a, c, res) {
		return res
	}
	a.persister.Wait()

	load := func(clause string, prev *services) *services {
		next := prev.restart(c.Restart)
		if stage, err, panicked := next.init(ctx); err != nil {
			key := prop + "/" + clause + "/init-failed/" + stage
			if panicked {
				key = prop + "/" + clause + "/init-panic/" + stage
			}
			res.fail(key, "a restarted server cannot load what was stored: %v", err)
			return nil
		}
		v, flips := compareServices(clause, prev, next)
		res.Viol = append(res.Viol, v...)
		for k := range flips {
			res.Flips[k] = true
		}
		return next
	}
	b := load("roundtrip", a)
	if b == nil || !c.SecondGen {
		return res
	}
	if !touch(ctx, b, res) {
		return res
	}
	b.persister.Wait()
	load("regen", b)
	return res
}

func rtClasses(c *rtCase, f *features, res *rtResult) []string {
	cls := f.list()
	cls = append(cls, "restart:"+c.Restart)
	if c.SecondGen {
		cls = append(cls, "second-generation")
	}
	for _, p := range c.Pipelines {
		if p.Status != nil {
			cls = append(cls, "status:"+pipeline.Status(p.Status.Status).String())
		} else {
			cls = append(cls, "status:(as created)")
		}
		if p.DLQ != nil {
			cls = append(cls, "dlq-config")
		}
		if p.Created != nil {
			cls = append(cls, "ts-zone:"+p.Created.Zone)
		}
		if len(p.AddConns) > 0 && len(p.RemoveConns) == len(p.AddConns) {
			cls = append(cls, "id-list:emptied")
		}
		if len(p.AddConns) > 1 {
			cls = append(cls, "id-list:ordered>1")
		}
	}
	for _, k := range c.Connectors {
		switch {
		case k.State == nil:
			cls = append(cls, "state:none")
		default:
			cls = append(cls, "state:"+k.State.Kind+"/"+k.State.Via)
		}
		if k.LastActive != nil {
			cls = append(cls, "last-active-config")
		}
		if k.Created != nil {
			cls = append(cls, "ts-zone:"+k.Created.Zone)
		}
		if k.Prov == provisionedDLQ {
			cls = append(cls, "connector:dlq-provisioned(not persisted)")
		}
	}
	for _, p := range c.Processors {
		if p.Cond != "" {
			cls = append(cls, "processor-condition")
		}
		if p.Created != nil {
			cls = append(cls, "ts-zone:"+p.Created.Zone)
		}
	}
	for k := range res.Flips {
		cls = append(cls, "tolerated-nil-empty-flip:"+k)
	}
	// one count per class and case
	seen := map[string]bool{}
	out := cls[:0]
	for _, k := range cls {
		if !seen[k] {
			seen[k] = true
			out = append(out, k)
		}
	}
	return out
}

func jsonLen(v any) int {
	b, _ := json.Marshal(v)
	return len(b)
}

// TestC17RoundTrip: generated values for every stored field, written through the
// real services, are read back identically by freshly initialised services.
func TestC17RoundTrip(t *testing.T) {
	st := pbt.For(prop)
	defer st.Finish(t)
	rapid.Check(t, func(t *rapid.T) {
		c := genRTCase(t)
		pbt.MarkCurrent(prop, map[string]any{"kind": "roundtrip", "case": c})
		res := runRoundTrip(c)
		f := featuresOf(c)
		nontrivial := f.nontrivial()
		st.Case(pbt.Hash(c), nontrivial, rtClasses(c, f, res)...)
		if res.HarnessErr != "" {
			t.Fatalf("harness error: %s", res.HarnessErr)
		}
		if res.Inconclusive != "" {
			st.Inconcl(res.Inconclusive)
		}
		if nontrivial && jsonLen(c) < 6000 && st.WantSample() {
			st.Sample(map[string]any{"kind": "roundtrip", "case": c})
		}
		reportAll(t, st, res.Viol, map[string]any{"kind": "roundtrip", "case": c}, jsonLen(c))
	})
}

// reportAll reports every violation; unknown ones fail the case (so rapid shrinks).
func reportAll(t *rapid.T, st *pbt.Stats, viol []violation, replay any, size int) {
	var fatal []violation
	for _, v := range viol {
		if st.Report(v.Key, v.Detail, size, replay) {
			fatal = append(fatal, v)
		}
	}
	if len(fatal) > 0 {
		t.Fatalf("%d violation(s), first: %s: %s", len(fatal), fatal[0].Key, fatal[0].Detail)
	}
}
