package p17

// Generators and case types for C17. A case is a plain JSON-serialisable value:
// everything needed to re-run it without rapid is inside (TestReplayC17).
//
// String fields are restricted to VALID UTF-8 on purpose: the stores encode with
// a JSON library that (like encoding/json) replaces invalid UTF-8 inside strings
// by U+FFFD and nothing in the repository promises that string-typed fields keep
// invalid UTF-8. Invalid UTF-8 is generated only for []byte-typed fields
// (positions), which JSON carries as base64.

import (
	"reflect"
	"strings"
	"time"
	"unicode/utf8"

	"pgregory.net/rapid"
)

// ---------------------------------------------------------------- case types

type tsCase struct {
	Sec       int64  `json:"sec"`
	Nsec      int64  `json:"nsec"`
	Zone      string `json:"zone"` // utc | local | fixed
	OffsetMin int    `json:"offset_min,omitempty"`
	ZoneName  string `json:"zone_name,omitempty"`
}

func (c *tsCase) Time() time.Time {
	t := time.Unix(c.Sec, c.Nsec)
	switch c.Zone {
	case "utc":
		return t.UTC()
	case "fixed":
		return t.In(time.FixedZone(c.ZoneName, c.OffsetMin*60))
	}
	return t.In(time.Local)
}

type pipeCfg struct {
	Name        string `json:"name"`
	Description string `json:"description"`
}

type dlqCase struct {
	Plugin     string            `json:"plugin"`
	Settings   map[string]string `json:"settings"`
	WindowSize int               `json:"window_size"`
	Threshold  int               `json:"threshold"`
}

type statusOp struct {
	Status int    `json:"status"`
	Err    string `json:"err"`
}

type pipeCase struct {
	ID          string    `json:"id"`
	Cfg         pipeCfg   `json:"cfg"`
	Prov        int       `json:"prov"`
	Update      *pipeCfg  `json:"update,omitempty"`
	DLQ         *dlqCase  `json:"dlq,omitempty"`
	AddConns    []string  `json:"add_conns"`
	RemoveConns []string  `json:"remove_conns,omitempty"`
	AddProcs    []string  `json:"add_procs"`
	RemoveProcs []string  `json:"remove_procs,omitempty"`
	Status      *statusOp `json:"status,omitempty"`
	Created     *tsCase   `json:"created,omitempty"` // direct field override + re-persist through UpdateStatus
	Updated     *tsCase   `json:"updated,omitempty"`
}

type connCfg struct {
	Name     string            `json:"name"`
	Settings map[string]string `json:"settings"`
}

type connUpdate struct {
	Plugin string  `json:"plugin"`
	Cfg    connCfg `json:"cfg"`
}

type stateCase struct {
	// Kind: source | dest | cleared (SetState(typed) then SetState(nil))
	Kind      string            `json:"kind"`
	Position  []byte            `json:"position"`
	Positions map[string][]byte `json:"positions"`
	// Via: setstate (connector.Service.SetState) | persister (what Source.Ack does:
	// assign Instance.State and hand the instance to the Persister)
	Via string `json:"via"`
}

type connCase struct {
	ID          string      `json:"id"`
	Type        int         `json:"type"`
	Plugin      string      `json:"plugin"`
	PipelineID  string      `json:"pipeline_id"`
	Cfg         connCfg     `json:"cfg"`
	Prov        int         `json:"prov"`
	Update      *connUpdate `json:"update,omitempty"`
	AddProcs    []string    `json:"add_procs"`
	RemoveProcs []string    `json:"remove_procs,omitempty"`
	State       *stateCase  `json:"state,omitempty"`
	// LastActive: what Source.Open/Destination.Open do after a lifecycle event:
	// assign Instance.LastActiveConfig and hand the instance to the Persister.
	LastActive *connCfg `json:"last_active,omitempty"`
	Created    *tsCase  `json:"created,omitempty"` // direct override + re-persist through SetState(current)
	Updated    *tsCase  `json:"updated,omitempty"`
}

type procCfg struct {
	Settings map[string]string `json:"settings"`
	Workers  int               `json:"workers"`
}

type procUpdate struct {
	Plugin string  `json:"plugin"`
	Cfg    procCfg `json:"cfg"`
}

type procCase struct {
	ID         string      `json:"id"`
	Plugin     string      `json:"plugin"`
	ParentID   string      `json:"parent_id"`
	ParentType int         `json:"parent_type"`
	Cfg        procCfg     `json:"cfg"`
	Prov       int         `json:"prov"`
	Cond       string      `json:"cond"`
	Update     *procUpdate `json:"update,omitempty"`
	Created    *tsCase     `json:"created,omitempty"` // direct override, persisted by the following Update
}

type rtCase struct {
	Pipelines  []pipeCase `json:"pipelines"`
	Connectors []connCase `json:"connectors"`
	Processors []procCase `json:"processors"`
	// Restart: same-db (fresh services on the same store) | copy (fresh services on a copy of the content)
	Restart string `json:"restart"`
	// SecondGen: after the first reload every entity is re-stored by the reloaded
	// services (UpdateStatus / SetState / Update with unchanged values) and the
	// store is reloaded once more.
	SecondGen bool `json:"second_gen"`
}

// ---------------------------------------------------------------- primitive generators

const idChars = "ABCDEFGHIJKLMNOPQRSTUVWXYZabcdefghijklmnopqrstuvwxyz0123456789-_:."

// genID draws an id accepted by validatePipeline / validateConnector:
// ^[A-Za-z0-9-_:.]*$, non-empty, at most limit bytes.
func genID(t *rapid.T, label string, limit int) string {
	mode := rapid.IntRange(0, 19).Draw(t, label+".mode")
	n := rapid.IntRange(1, 12).Draw(t, label+".len")
	if mode == 0 {
		n = limit // exactly at the documented limit
	}
	if mode == 1 {
		n = 1
	}
	rs := []rune(idChars)
	var b strings.Builder
	head := rapid.SliceOfN(rapid.SampledFrom(rs), 1, 12).Draw(t, label+".chars")
	for b.Len() < n {
		for _, r := range head {
			if b.Len() >= n {
				break
			}
			b.WriteRune(r)
		}
	}
	return b.String()
}

var nastyRunes = []rune{
	0x00, 0x01, 0x08, 0x09, 0x0a, 0x0c, 0x0d, 0x1b, 0x1f, 0x7f, // NUL and other control characters
	'"', '\\', '/', '\'', '<', '>', '&', '{', '}', '[', ']', ':', ',', ' ',
	0x80, 0x85, 0xa0, 0xff, 0x7ff, 0x800, // C1 controls, 2/3 byte boundaries
	0x2028, 0x2029, 0x200d, 0x0301, 0xfeff, // line/paragraph separator, ZWJ, combining, BOM
	0xd7ff, 0xe000, 0xfffd, 0xfffe, 0xffff, // around the surrogate gap, replacement char, noncharacters
	0x10000, 0x1f600, 0x1f468, 0x10ffff, // astral
	'é', 'ß', '中', 'я', 'ع',
}

var asciiRunes = []rune("abcdefghijklmnopqrstuvwxyzABCDEFGHIJKLMNOPQRSTUVWXYZ0123456789 -_./=")

func truncBytes(s string, n int) string {
	for len(s) > n {
		_, sz := utf8.DecodeLastRuneInString(s)
		s = s[:len(s)-sz]
	}
	return s
}

// genStr draws a VALID UTF-8 string of at most maxBytes bytes.
func genStr(t *rapid.T, label string, maxBytes int, allowEmpty bool) string {
	mode := rapid.IntRange(0, 19).Draw(t, label+".mode")
	var s string
	switch {
	case mode == 0:
		s = ""
	case mode <= 5:
		s = string(rapid.SliceOfN(rapid.SampledFrom(asciiRunes), 1, 16).Draw(t, label+".ascii"))
	case mode <= 13:
		s = string(rapid.SliceOfN(rapid.OneOf(rapid.SampledFrom(nastyRunes), rapid.SampledFrom(asciiRunes)), 1, 24).Draw(t, label+".mix"))
	case mode <= 16:
		// any rune rapid can think of; string([]rune) maps invalid code points to U+FFFD, so the result is valid UTF-8
		s = string(rapid.SliceOfN(rapid.Rune(), 0, 24).Draw(t, label+".any"))
	default:
		// large value: a drawn chunk repeated up to a drawn size (> 4 KiB when the limit allows)
		chunk := string(rapid.SliceOfN(rapid.OneOf(rapid.SampledFrom(nastyRunes), rapid.SampledFrom(asciiRunes)), 1, 32).Draw(t, label+".chunk"))
		hi := maxBytes
		if hi > 20000 {
			hi = 20000
		}
		lo := 4097
		if lo > hi {
			lo = hi
		}
		size := rapid.IntRange(lo, hi).Draw(t, label+".size")
		if mode == 19 {
			size = maxBytes // exactly at the limit (64 KiB for unlimited fields)
			if size > 65536 {
				size = 65536
			}
		}
		var b strings.Builder
		for b.Len() < size {
			b.WriteString(chunk)
		}
		s = b.String()
	}
	if !utf8.ValidString(s) {
		s = strings.ToValidUTF8(s, "\uFFFD")
	}
	s = truncBytes(s, maxBytes)
	if s == "" && !allowEmpty {
		s = "x"
	}
	return s
}

const unlimited = 1 << 20

var invalidUTF8 = [][]byte{
	{0xff}, {0xfe, 0xff}, {0xc0, 0x80}, {0xc3}, {0xe2, 0x82}, {0xed, 0xa0, 0x80}, {0xf8, 0x88, 0x80, 0x80, 0x80},
	{0xf4, 0x90, 0x80, 0x80}, {'a', 0x80, 'b'}, {0x00, 0xff, 0x00},
}

var textyBytes = [][]byte{
	[]byte(`null`), []byte(`""`), []byte(`{"a":"b"}`), []byte(`"`), []byte(`\`), []byte(" "), []byte("pos-\U0001F600"),
	[]byte(`=`), []byte(`====`), []byte("Z29sZGVu"), []byte("\n"), []byte(" "),
}

// genBytes draws a position: arbitrary bytes including nil, empty, 0x00,
// invalid UTF-8 and values up to 64 KiB.
func genBytes(t *rapid.T, label string) []byte {
	mode := rapid.IntRange(0, 19).Draw(t, label+".mode")
	switch {
	case mode == 0:
		return nil
	case mode == 1:
		return []byte{}
	case mode == 2:
		return []byte{0x00}
	case mode <= 5:
		return append([]byte{}, rapid.SampledFrom(invalidUTF8).Draw(t, label+".bad")...)
	case mode <= 7:
		return append([]byte{}, rapid.SampledFrom(textyBytes).Draw(t, label+".text")...)
	case mode <= 16:
		return rapid.SliceOfN(rapid.Byte(), 1, 48).Draw(t, label+".raw")
	default:
		seed := rapid.SliceOfN(rapid.Byte(), 4, 24).Draw(t, label+".seed")
		size := rapid.IntRange(4097, 65536).Draw(t, label+".size")
		if mode == 19 {
			size = 65536
		}
		out := make([]byte, size)
		for i := range out {
			out[i] = seed[i%len(seed)] ^ byte(i>>4) ^ byte(i>>11)
		}
		return out
	}
}

// genSettings draws nil, empty or filled settings with arbitrary valid Unicode keys and values.
func genSettings(t *rapid.T, label string) map[string]string {
	mode := rapid.IntRange(0, 9).Draw(t, label+".mode")
	switch {
	case mode == 0:
		return nil
	case mode == 1:
		return map[string]string{}
	}
	n := rapid.IntRange(1, 4).Draw(t, label+".n")
	m := make(map[string]string, n)
	for i := 0; i < n; i++ {
		k := genStr(t, label+".k", 512, true)
		v := genStr(t, label+".v", unlimited, true)
		m[k] = v
	}
	return m
}

func genTS(t *rapid.T, label string) *tsCase {
	c := &tsCase{}
	switch rapid.IntRange(0, 5).Draw(t, label+".era") {
	case 0:
		c.Sec = 0
	case 1:
		c.Sec = rapid.Int64Range(-62135596800+2*86400, -62135596800+400*86400).Draw(t, label+".sec") // year 1
	case 2:
		c.Sec = rapid.Int64Range(-2208988800, 0).Draw(t, label+".sec") // 1900..1970
	case 3:
		c.Sec = rapid.Int64Range(253402300799-800*86400, 253402300799-400*86400).Draw(t, label+".sec") // year 9997/9998
	default:
		c.Sec = rapid.Int64Range(1_000_000_000, 2_500_000_000).Draw(t, label+".sec")
	}
	switch rapid.IntRange(0, 4).Draw(t, label+".nsmode") {
	case 0:
		c.Nsec = 0
	case 1:
		c.Nsec = 1
	case 2:
		c.Nsec = 999_999_999
	case 3:
		c.Nsec = int64(rapid.IntRange(0, 999).Draw(t, label+".ms")) * 1_000_000
	default:
		c.Nsec = rapid.Int64Range(0, 999_999_999).Draw(t, label+".ns")
	}
	switch rapid.IntRange(0, 3).Draw(t, label+".zone") {
	case 0:
		c.Zone = "utc"
	case 1:
		c.Zone = "local"
	default:
		// whole-minute offsets only: RFC 3339 (the stored representation) has no
		// seconds in zone offsets, and real zones have had none since the 1970s.
		c.Zone = "fixed"
		c.OffsetMin = rapid.IntRange(-12*60, 14*60).Draw(t, label+".off")
		c.ZoneName = rapid.SampledFrom([]string{"", "CET", "X", "UTC"}).Draw(t, label+".zname")
	}
	return c
}

func genIDList(t *rapid.T, label string, pool []string) (add, remove []string) {
	mode := rapid.IntRange(0, 9).Draw(t, label+".mode")
	if mode == 0 {
		return nil, nil // the list stays nil
	}
	n := rapid.IntRange(1, 5).Draw(t, label+".n")
	for i := 0; i < n; i++ {
		if len(pool) > 0 && rapid.IntRange(0, 2).Draw(t, label+".frompool") > 0 {
			add = append(add, rapid.SampledFrom(pool).Draw(t, label+".ref"))
		} else {
			add = append(add, genID(t, label+".id", 256))
		}
	}
	switch {
	case mode == 1:
		// remove everything again: the list ends up empty but non-nil
		remove = rapid.Permutation(add).Draw(t, label+".rmall")
	case mode <= 4:
		k := rapid.IntRange(1, len(add)).Draw(t, label+".rmn")
		remove = rapid.Permutation(add).Draw(t, label+".rm")[:k]
	}
	return add, remove
}

// ---------------------------------------------------------------- case generator

func genRTCase(t *rapid.T) *rtCase {
	c := &rtCase{}
	c.Restart = rapid.SampledFrom([]string{"same-db", "copy"}).Draw(t, "restart")
	c.SecondGen = rapid.IntRange(0, 2).Draw(t, "secondgen") == 0

	nPipe := rapid.IntRange(0, 2).Draw(t, "npipe")
	nConn := rapid.IntRange(0, 3).Draw(t, "nconn")
	nProc := rapid.IntRange(0, 3).Draw(t, "nproc")
	if nPipe+nConn+nProc == 0 {
		nPipe = 1
	}

	uniq := func(seen map[string]bool, s string, limit int) string {
		for i := 0; seen[s]; i++ {
			s = truncBytes(s, limit-2) + string(rune('a'+i%26)) + string(rune('0'+i%10))
		}
		seen[s] = true
		return s
	}

	pipeIDs, connIDs, procIDs := map[string]bool{}, map[string]bool{}, map[string]bool{}
	names := map[string]bool{}
	var connPool, procPool, pipePool []string
	for i := 0; i < nPipe; i++ {
		pipePool = append(pipePool, uniq(pipeIDs, genID(t, "pipe.id", 128), 128))
	}
	for i := 0; i < nConn; i++ {
		connPool = append(connPool, uniq(connIDs, genID(t, "conn.id", 256), 256))
	}
	for i := 0; i < nProc; i++ {
		procPool = append(procPool, uniq(procIDs, genID(t, "proc.id", 256), 256))
	}

	for i := 0; i < nPipe; i++ {
		p := pipeCase{ID: pipePool[i]}
		p.Cfg = pipeCfg{Name: uniq(names, genStr(t, "pipe.name", 128, false), 128), Description: genStr(t, "pipe.desc", 8192, true)}
		p.Prov = rapid.IntRange(0, 1).Draw(t, "pipe.prov")
		if rapid.IntRange(0, 2).Draw(t, "pipe.upd") == 0 {
			// pipeline.Service.Update only checks that the name is non-empty and unused
			p.Update = &pipeCfg{Name: uniq(names, genStr(t, "pipe.name2", 128, false), 128), Description: genStr(t, "pipe.desc2", 8192, true)}
		}
		if rapid.IntRange(0, 2).Draw(t, "pipe.hasdlq") > 0 {
			d := &dlqCase{Plugin: genStr(t, "pipe.dlq.plugin", 1024, false), Settings: genSettings(t, "pipe.dlq.settings")}
			switch rapid.IntRange(0, 3).Draw(t, "pipe.dlq.win") {
			case 0:
				d.WindowSize, d.Threshold = 0, rapid.IntRange(0, 1000).Draw(t, "pipe.dlq.thr") // window 0 disables the check
			case 1:
				d.WindowSize = rapid.IntRange(1, 1000).Draw(t, "pipe.dlq.size")
				d.Threshold = rapid.IntRange(0, d.WindowSize-1).Draw(t, "pipe.dlq.thr")
			case 2:
				d.WindowSize, d.Threshold = 1<<62, (1<<62)-1
			default:
				d.WindowSize, d.Threshold = 1, 0
			}
			p.DLQ = d
		}
		p.AddConns, p.RemoveConns = genIDList(t, "pipe.conns", connPool)
		p.AddProcs, p.RemoveProcs = genIDList(t, "pipe.procs", procPool)
		if rapid.IntRange(0, 5).Draw(t, "pipe.hasstatus") > 0 {
			p.Status = &statusOp{Status: rapid.IntRange(1, 5).Draw(t, "pipe.status"), Err: genStr(t, "pipe.err", unlimited, true)}
		}
		if rapid.IntRange(0, 3).Draw(t, "pipe.ts") == 0 {
			p.Created, p.Updated = genTS(t, "pipe.created"), genTS(t, "pipe.updated")
		}
		c.Pipelines = append(c.Pipelines, p)
	}

	for i := 0; i < nConn; i++ {
		k := connCase{ID: connPool[i]}
		k.Type = rapid.IntRange(1, 2).Draw(t, "conn.type")
		k.Plugin = genStr(t, "conn.plugin", 1024, false)
		if len(pipePool) > 0 && rapid.Bool().Draw(t, "conn.pipe.ref") {
			k.PipelineID = rapid.SampledFrom(pipePool).Draw(t, "conn.pipe")
		} else {
			k.PipelineID = genID(t, "conn.pipe.id", 128)
		}
		k.Cfg = connCfg{Name: genStr(t, "conn.name", 256, false), Settings: genSettings(t, "conn.settings")}
		k.Prov = rapid.IntRange(0, 1).Draw(t, "conn.prov")
		if rapid.IntRange(0, 24).Draw(t, "conn.prov.dlq") == 0 {
			k.Prov = provisionedDLQ
		}
		if rapid.IntRange(0, 2).Draw(t, "conn.upd") == 0 {
			k.Update = &connUpdate{Plugin: genStr(t, "conn.plugin2", 1024, false),
				Cfg: connCfg{Name: genStr(t, "conn.name2", 256, false), Settings: genSettings(t, "conn.settings2")}}
		}
		k.AddProcs, k.RemoveProcs = genIDList(t, "conn.procs", procPool)
		if rapid.IntRange(0, 4).Draw(t, "conn.hasstate") > 0 {
			s := &stateCase{Via: rapid.SampledFrom([]string{"setstate", "persister"}).Draw(t, "conn.state.via")}
			if k.Type == 1 {
				s.Kind = "source"
				s.Position = genBytes(t, "conn.pos")
			} else {
				s.Kind = "dest"
				switch rapid.IntRange(0, 5).Draw(t, "conn.poss.mode") {
				case 0:
					s.Positions = nil
				case 1:
					s.Positions = map[string][]byte{}
				default:
					n := rapid.IntRange(1, 4).Draw(t, "conn.poss.n")
					s.Positions = map[string][]byte{}
					for j := 0; j < n; j++ {
						var key string
						if len(connPool) > 0 && rapid.Bool().Draw(t, "conn.poss.ref") {
							key = rapid.SampledFrom(connPool).Draw(t, "conn.poss.key")
						} else {
							key = genStr(t, "conn.poss.k", 512, true)
						}
						s.Positions[key] = genBytes(t, "conn.poss.v")
					}
				}
			}
			if rapid.IntRange(0, 9).Draw(t, "conn.state.cleared") == 0 {
				s.Kind = "cleared"
				s.Via = "setstate"
			}
			k.State = s
		}
		switch rapid.IntRange(0, 5).Draw(t, "conn.lastactive") {
		case 0:
			// the connector ran with its current config
			la := k.Cfg
			if k.Update != nil {
				la = k.Update.Cfg
			}
			k.LastActive = &connCfg{Name: la.Name, Settings: la.Settings}
		case 1:
			// the connector ran with another config (it was updated while stopped)
			k.LastActive = &connCfg{Name: genStr(t, "conn.la.name", 256, false), Settings: genSettings(t, "conn.la.settings")}
		}
		if rapid.IntRange(0, 3).Draw(t, "conn.ts") == 0 {
			k.Created, k.Updated = genTS(t, "conn.created"), genTS(t, "conn.updated")
		}
		c.Connectors = append(c.Connectors, k)
	}

	for i := 0; i < nProc; i++ {
		p := procCase{ID: procPool[i]}
		p.Plugin = genStr(t, "proc.plugin", 1024, false)
		p.ParentType = rapid.IntRange(1, 2).Draw(t, "proc.ptype")
		pool := connPool
		if p.ParentType == 2 {
			pool = pipePool
		}
		if len(pool) > 0 && rapid.Bool().Draw(t, "proc.parent.ref") {
			p.ParentID = rapid.SampledFrom(pool).Draw(t, "proc.parent")
		} else {
			p.ParentID = genID(t, "proc.parent.id", 256)
		}
		genWorkers := func(label string) int {
			switch rapid.IntRange(0, 4).Draw(t, label+".mode") {
			case 0:
				return 0 // Create turns 0 into 1; Update stores it as it is
			case 1:
				return 1
			case 2:
				return 1<<63 - 1
			default:
				return rapid.IntRange(2, 64).Draw(t, label)
			}
		}
		p.Cfg = procCfg{Settings: genSettings(t, "proc.settings"), Workers: genWorkers("proc.workers")}
		p.Prov = rapid.IntRange(0, 1).Draw(t, "proc.prov")
		if rapid.IntRange(0, 2).Draw(t, "proc.hascond") > 0 {
			if rapid.Bool().Draw(t, "proc.cond.tmpl") {
				p.Cond = rapid.SampledFrom([]string{
					`{{ eq .Metadata.key "value" }}`, `{{ eq (index .Metadata "k\"ey") "va\\lue" }}`, "{{ true }}",
					"{{ eq .Metadata.key ` ` }}", `{{ eq .Metadata.key "😀<>&" }}`,
				}).Draw(t, "proc.cond.sample")
			} else {
				p.Cond = genStr(t, "proc.cond", unlimited, true)
			}
		}
		if rapid.IntRange(0, 2).Draw(t, "proc.upd") == 0 {
			p.Update = &procUpdate{Plugin: genStr(t, "proc.plugin2", 1024, false),
				Cfg: procCfg{Settings: genSettings(t, "proc.settings2"), Workers: genWorkers("proc.workers2")}}
			if rapid.IntRange(0, 2).Draw(t, "proc.ts") == 0 {
				p.Created = genTS(t, "proc.created")
			}
		}
		c.Processors = append(c.Processors, p)
	}
	return c
}

// ---------------------------------------------------------------- features of a case (non-trivial rule, classes)

type features struct {
	highByte, control, nilVsEmpty, large bool
	classes                              map[string]bool
}

func (f *features) str(s string) {
	if len(s) > 4096 {
		f.large = true
		f.classes["value>4KiB"] = true
	}
	for _, r := range s {
		switch {
		case r == 0:
			f.control = true
			f.classes["str:NUL"] = true
		case r < 0x20 || r == 0x7f:
			f.control = true
			f.classes["str:control-char"] = true
		case r == 0x2028 || r == 0x2029:
			f.highByte = true
			f.classes["str:U+2028/2029"] = true
		case r >= 0x10000:
			f.highByte = true
			f.classes["str:astral"] = true
		case r >= 0x80:
			f.highByte = true
			f.classes["str:non-ascii"] = true
		case r == '"' || r == '\\':
			f.classes["str:quote-or-backslash"] = true
		}
	}
}

func (f *features) bytes(b []byte) {
	if len(b) > 4096 {
		f.large = true
		f.classes["value>4KiB"] = true
	}
	if len(b) == 65536 {
		f.classes["bytes:64KiB"] = true
	}
	if !utf8.Valid(b) {
		f.classes["bytes:invalid-utf8"] = true
	}
	for _, c := range b {
		if c >= 0x80 {
			f.highByte = true
		}
		if c < 0x20 || c == 0x7f {
			f.control = true
		}
		if c == 0 {
			f.classes["bytes:0x00"] = true
		}
	}
}

func (f *features) walk(v reflect.Value, name string) {
	switch v.Kind() {
	case reflect.Ptr, reflect.Interface:
		if !v.IsNil() {
			f.walk(v.Elem(), name)
		}
	case reflect.Struct:
		for i := 0; i < v.NumField(); i++ {
			f.walk(v.Field(i), v.Type().Field(i).Name)
		}
	case reflect.String:
		f.str(v.String())
	case reflect.Slice:
		if v.Type().Elem().Kind() == reflect.Uint8 {
			if v.IsNil() {
				f.classes["bytes:nil"] = true
			} else if v.Len() == 0 {
				f.nilVsEmpty = true
				f.classes["bytes:empty-non-nil"] = true
			}
			f.bytes(v.Bytes())
			return
		}
		for i := 0; i < v.Len(); i++ {
			f.walk(v.Index(i), name)
		}
	case reflect.Map:
		if v.IsNil() {
			f.classes["map:nil"] = true
		} else if v.Len() == 0 {
			f.nilVsEmpty = true
			f.classes["map:empty-non-nil"] = true
		}
		it := v.MapRange()
		for it.Next() {
			f.walk(it.Key(), name)
			f.walk(it.Value(), name)
		}
	}
}

func featuresOf(v any) *features {
	f := &features{classes: map[string]bool{}}
	f.walk(reflect.ValueOf(v), "")
	return f
}

func (f *features) nontrivial() bool { return f.highByte || f.control || f.nilVsEmpty || f.large }

func (f *features) list() []string {
	out := make([]string, 0, len(f.classes))
	for k := range f.classes {
		out = append(out, k)
	}
	return out
}
