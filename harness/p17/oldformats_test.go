package p17

// TestC17OldFormats: documents written by older releases are still understood.
//
//   (a) pre-v0.4.1 connector documents: key prefix "connector:connector:" and the
//       X-prefixed shape of the struct inside connector.Store.migratePre041. The
//       expected instance follows the field mapping written in that function.
//   (b) current-shape documents that lack fields which were added later
//       (LastActiveConfig, DLQ, Condition, ProvisionedBy ...): there is no
//       migration for them, so "still understood" means: every present field is
//       loaded, every absent one is the zero value.
//   (c) the repository's golden documents (pkg/*/testdata), raw and with generated
//       values substituted; the expectation is an independent decode of the same
//       bytes with encoding/json (the stores use goccy/go-json).
//
// All documents are produced with encoding/json, i.e. by an encoder that is NOT
// the one under test. After the first load every entity is re-stored by the
// reloaded services (connector positions are advanced) and loaded again.

import (
	"context"
	"encoding/json"
	"fmt"
	"os"
	"path/filepath"
	"reflect"
	"strings"
	"testing"

	"github.com/conduitio/conduit-commons/opencdc"
	"github.com/conduitio/conduit/pkg/connector"
	"github.com/conduitio/conduit/pkg/pipeline"
	"github.com/conduitio/conduit/pkg/processor"
	"pgregory.net/rapid"
	"verifharness/lab"
	"verifharness/pbt"
)

const (
	pre041Prefix   = "connector:connector:"
	connPrefix     = "connector:instance:"
	pipePrefix     = "pipeline:instance:"
	procPrefix     = "processor:instance:"
	provisionedDLQ = 2
)

// ---------------------------------------------------------------- case

type oldDoc struct {
	// Shape: pre041 | conn | pipe | proc | golden
	Shape string `json:"shape"`
	// Drop lists top-level (or "Config.Workers") fields left out of a current-shape document.
	Drop []string `json:"drop,omitempty"`

	ID          string            `json:"id"`
	Type        int               `json:"type,omitempty"` // connector: 1 source, 2 destination
	Name        string            `json:"name"`
	Description string            `json:"description,omitempty"`
	Settings    map[string]string `json:"settings"`
	Plugin      string            `json:"plugin"`
	PipelineID  string            `json:"pipeline_id,omitempty"`
	IDs         []string          `json:"ids"`  // ProcessorIDs (connector, pipeline)
	IDs2        []string          `json:"ids2"` // ConnectorIDs (pipeline)
	// StateMode: absent | null | typed
	StateMode  string            `json:"state_mode,omitempty"`
	Position   []byte            `json:"position"`
	Positions  map[string][]byte `json:"positions"`
	Prov       int               `json:"prov"`
	Created    tsCase            `json:"created"`
	Updated    tsCase            `json:"updated"`
	LastActive *connCfg          `json:"last_active,omitempty"`
	Status     int               `json:"status,omitempty"`
	Error      string            `json:"error,omitempty"`
	DLQ        *dlqCase          `json:"dlq,omitempty"`
	Cond       string            `json:"cond,omitempty"`
	ParentID   string            `json:"parent_id,omitempty"`
	ParentType int               `json:"parent_type,omitempty"`
	Workers    int               `json:"workers,omitempty"`

	// golden: which file, and which generated values replace the file's values
	Golden string   `json:"golden,omitempty"` // source | destination | pipeline | processor
	Subst  []string `json:"subst,omitempty"`  // names of substituted fields
}

type ofCase struct {
	Docs    []oldDoc `json:"docs"`
	Restart string   `json:"restart"`
}

func (d *oldDoc) dropped(name string) bool {
	for _, x := range d.Drop {
		if x == name {
			return true
		}
	}
	return false
}

func (d *oldDoc) substituted(name string) bool {
	for _, x := range d.Subst {
		if x == name {
			return true
		}
	}
	return false
}

func genSubset(t *rapid.T, label string, names []string) []string {
	var out []string
	for _, n := range names {
		if rapid.IntRange(0, 2).Draw(t, label+"."+n) == 0 {
			out = append(out, n)
		}
	}
	return out
}

func genPlainIDs(t *rapid.T, label string) []string {
	switch rapid.IntRange(0, 5).Draw(t, label+".mode") {
	case 0:
		return nil
	case 1:
		return []string{}
	}
	n := rapid.IntRange(1, 4).Draw(t, label+".n")
	out := make([]string, n)
	for i := range out {
		out[i] = genID(t, label+".id", 256)
	}
	return out
}

func genPositions(t *rapid.T, label string) map[string][]byte {
	switch rapid.IntRange(0, 5).Draw(t, label+".mode") {
	case 0:
		return nil
	case 1:
		return map[string][]byte{}
	}
	n := rapid.IntRange(1, 3).Draw(t, label+".n")
	out := map[string][]byte{}
	for i := 0; i < n; i++ {
		out[genStr(t, label+".k", 512, true)] = genBytes(t, label+".v")
	}
	return out
}

func genOFCase(t *rapid.T) *ofCase {
	c := &ofCase{Restart: rapid.SampledFrom([]string{"same-db", "copy"}).Draw(t, "restart")}
	n := rapid.IntRange(1, 5).Draw(t, "ndocs")
	seen := map[string]bool{}
	names := map[string]bool{}
	goldenUsed := map[string]bool{}
	for i := 0; i < n; i++ {
		d := oldDoc{}
		d.Shape = rapid.SampledFrom([]string{"pre041", "pre041", "pre041", "conn", "pipe", "proc", "golden"}).Draw(t, "shape")
		if d.Shape == "golden" {
			d.Golden = rapid.SampledFrom([]string{"source", "destination", "pipeline", "processor"}).Draw(t, "golden")
			if goldenUsed[d.Golden] {
				continue
			}
			goldenUsed[d.Golden] = true
			if rapid.Bool().Draw(t, "golden.subst") {
				switch d.Golden {
				case "source":
					d.Subst = genSubset(t, "subst", []string{"Settings", "Name", "Position", "LastActive", "IDs", "Times"})
				case "destination":
					d.Subst = genSubset(t, "subst", []string{"Settings", "Name", "Positions", "LastActive", "IDs", "Times"})
				case "pipeline":
					d.Subst = genSubset(t, "subst", []string{"Name", "Description", "Error", "DLQ", "IDs", "IDs2", "Status", "Times"})
				case "processor":
					d.Subst = genSubset(t, "subst", []string{"Settings", "Cond", "Plugin", "Workers", "Times"})
				}
			}
		}
		limit := 256
		if d.Shape == "pipe" {
			limit = 128
		}
		d.ID = genID(t, "id", limit)
		for j := 0; seen[d.Shape+"/"+d.ID] || (d.Shape == "pre041" && seen["conn/"+d.ID]) || (d.Shape == "conn" && seen["pre041/"+d.ID]); j++ {
			d.ID = truncBytes(d.ID, limit-2) + string(rune('a'+j%26)) + string(rune('0'+j%10))
		}
		seen[d.Shape+"/"+d.ID] = true
		d.Name = genStr(t, "name", 128, false)
		if d.Shape == "pipe" || (d.Shape == "golden" && d.Golden == "pipeline") {
			for j := 0; names[d.Name]; j++ {
				d.Name = truncBytes(d.Name, 126) + string(rune('a'+j%26)) + string(rune('0'+j%10))
			}
			names[d.Name] = true
		}
		d.Description = genStr(t, "desc", 8192, true)
		d.Settings = genSettings(t, "settings")
		d.Plugin = genStr(t, "plugin", 1024, false)
		d.PipelineID = genID(t, "pipeline", 128)
		d.IDs = genPlainIDs(t, "ids")
		d.IDs2 = genPlainIDs(t, "ids2")
		d.Type = rapid.IntRange(1, 2).Draw(t, "type")
		if d.Golden == "source" {
			d.Type = 1
		}
		if d.Golden == "destination" {
			d.Type = 2
		}
		d.StateMode = rapid.SampledFrom([]string{"typed", "typed", "typed", "null", "absent"}).Draw(t, "statemode")
		d.Position = genBytes(t, "pos")
		d.Positions = genPositions(t, "poss")
		d.Prov = rapid.IntRange(0, 1).Draw(t, "prov")
		if d.Shape == "pre041" && rapid.IntRange(0, 14).Draw(t, "prov.dlq") == 0 {
			d.Prov = provisionedDLQ
		}
		d.Created, d.Updated = *genTS(t, "created"), *genTS(t, "updated")
		if rapid.Bool().Draw(t, "haslastactive") {
			d.LastActive = &connCfg{Name: genStr(t, "la.name", 256, false), Settings: genSettings(t, "la.settings")}
		}
		d.Status = rapid.IntRange(1, 5).Draw(t, "status")
		d.Error = genStr(t, "error", unlimited, true)
		if rapid.Bool().Draw(t, "hasdlq") {
			w := rapid.IntRange(0, 100).Draw(t, "dlq.window")
			th := 0
			if w > 0 {
				th = rapid.IntRange(0, w-1).Draw(t, "dlq.thr")
			}
			d.DLQ = &dlqCase{Plugin: genStr(t, "dlq.plugin", 1024, false), Settings: genSettings(t, "dlq.settings"), WindowSize: w, Threshold: th}
		}
		d.Cond = genStr(t, "cond", unlimited, true)
		d.ParentID = genID(t, "parent", 256)
		d.ParentType = rapid.IntRange(1, 2).Draw(t, "ptype")
		d.Workers = rapid.IntRange(1, 64).Draw(t, "workers")
		switch d.Shape {
		case "conn":
			d.Drop = genSubset(t, "drop", []string{"LastActiveConfig", "ProvisionedBy", "State", "ProcessorIDs"})
		case "pipe":
			d.Drop = genSubset(t, "drop", []string{"DLQ", "Error", "ProvisionedBy", "ProcessorIDs"})
		case "proc":
			d.Drop = genSubset(t, "drop", []string{"Condition", "ProvisionedBy", "Config.Workers"})
		}
		c.Docs = append(c.Docs, d)
	}
	if len(c.Docs) == 0 {
		c.Docs = append(c.Docs, oldDoc{Shape: "golden", Golden: "source", ID: "unused", Name: "unused", Plugin: "unused", Type: 1,
			Created: tsCase{Zone: "utc"}, Updated: tsCase{Zone: "utc"}})
	}
	return c
}

// ---------------------------------------------------------------- documents

func repoDir() string { return pbt.Env("VERIF_REPO", "/repo") }

var goldenFiles = map[string]string{
	"source":      "pkg/connector/testdata/golden_source_instance.json",
	"destination": "pkg/connector/testdata/golden_destination_instance.json",
	"pipeline":    "pkg/pipeline/testdata/golden_pipeline_instance.json",
	"processor":   "pkg/processor/testdata/golden_processor_instance.json",
}

func readGolden(which string) ([]byte, error) {
	return os.ReadFile(filepath.Join(repoDir(), goldenFiles[which]))
}

func (d *oldDoc) stateJSON() any {
	if d.Type == 2 {
		return map[string]any{"Positions": d.Positions} // encoding/json writes []byte as base64, nil as null
	}
	return map[string]any{"Position": d.Position}
}

func (d *oldDoc) typeName() string {
	if d.Type == 2 {
		return "Destination"
	}
	return "Source"
}

func cfgJSON(name string, settings map[string]string) map[string]any {
	return map[string]any{"Name": name, "Settings": settings}
}

// render returns the store key and the raw document.
func (d *oldDoc) render() (key string, raw []byte, err error) {
	switch d.Shape {
	case "pre041":
		data := map[string]any{
			"XID": d.ID,
			"XConfig": map[string]any{
				"Name": d.Name, "Settings": d.Settings, "Plugin": d.Plugin, "PipelineID": d.PipelineID, "ProcessorIDs": d.IDs,
			},
			"XProvisionedBy": d.Prov,
			"XCreatedAt":     d.Created.Time(),
			"XUpdatedAt":     d.Updated.Time(),
		}
		switch d.StateMode {
		case "typed":
			data["XState"] = d.stateJSON()
		case "null":
			data["XState"] = nil
		}
		raw, err = json.Marshal(map[string]any{"Type": d.typeName(), "Data": data})
		return pre041Prefix + d.ID, raw, err
	case "conn":
		m := map[string]any{
			"ID": d.ID, "Type": d.Type, "Config": cfgJSON(d.Name, d.Settings), "PipelineID": d.PipelineID, "Plugin": d.Plugin,
			"ProcessorIDs": d.IDs, "ProvisionedBy": d.Prov, "CreatedAt": d.Created.Time(), "UpdatedAt": d.Updated.Time(),
		}
		if d.LastActive != nil {
			m["LastActiveConfig"] = cfgJSON(d.LastActive.Name, d.LastActive.Settings)
		}
		switch d.StateMode {
		case "typed":
			m["State"] = d.stateJSON()
		case "null":
			m["State"] = nil
		}
		for _, k := range d.Drop {
			delete(m, k)
		}
		raw, err = json.Marshal(m)
		return connPrefix + d.ID, raw, err
	case "pipe":
		m := map[string]any{
			"ID": d.ID, "Config": map[string]any{"Name": d.Name, "Description": d.Description}, "Error": d.Error,
			"CreatedAt": d.Created.Time(), "UpdatedAt": d.Updated.Time(), "ProvisionedBy": d.Prov,
			"ConnectorIDs": d.IDs2, "ProcessorIDs": d.IDs, "Status": d.Status,
		}
		if d.DLQ != nil {
			m["DLQ"] = map[string]any{"Plugin": d.DLQ.Plugin, "Settings": d.DLQ.Settings, "WindowSize": d.DLQ.WindowSize, "WindowNackThreshold": d.DLQ.Threshold}
		}
		for _, k := range d.Drop {
			delete(m, k)
		}
		raw, err = json.Marshal(m)
		return pipePrefix + d.ID, raw, err
	case "proc":
		cfg := map[string]any{"Settings": d.Settings, "Workers": d.Workers}
		if d.dropped("Config.Workers") {
			delete(cfg, "Workers")
		}
		m := map[string]any{
			"ID": d.ID, "CreatedAt": d.Created.Time(), "UpdatedAt": d.Updated.Time(), "ProvisionedBy": d.Prov, "Plugin": d.Plugin,
			"Condition": d.Cond, "Parent": map[string]any{"ID": d.ParentID, "Type": d.ParentType}, "Config": cfg,
		}
		for _, k := range d.Drop {
			delete(m, k)
		}
		raw, err = json.Marshal(m)
		return procPrefix + d.ID, raw, err
	case "golden":
		g, err := readGolden(d.Golden)
		if err != nil {
			return "", nil, err
		}
		var m map[string]any
		dec := json.NewDecoder(strings.NewReader(string(g)))
		dec.UseNumber()
		if err := dec.Decode(&m); err != nil {
			return "", nil, err
		}
		id, _ := m["ID"].(string)
		prefix := map[string]string{"source": connPrefix, "destination": connPrefix, "pipeline": pipePrefix, "processor": procPrefix}[d.Golden]
		if len(d.Subst) == 0 {
			return prefix + id, g, nil // the golden bytes exactly as checked in
		}
		sub := func(path []string, v any) {
			cur := m
			for _, p := range path[:len(path)-1] {
				next, ok := cur[p].(map[string]any)
				if !ok {
					next = map[string]any{}
					cur[p] = next
				}
				cur = next
			}
			cur[path[len(path)-1]] = v
		}
		for _, s := range d.Subst {
			switch s {
			case "Settings":
				sub([]string{"Config", "Settings"}, d.Settings)
			case "Name":
				sub([]string{"Config", "Name"}, d.Name)
			case "Description":
				sub([]string{"Config", "Description"}, d.Description)
			case "Position":
				sub([]string{"State", "Position"}, d.Position)
			case "Positions":
				sub([]string{"State", "Positions"}, d.Positions)
			case "LastActive":
				if d.LastActive != nil {
					sub([]string{"LastActiveConfig"}, cfgJSON(d.LastActive.Name, d.LastActive.Settings))
				} else {
					delete(m, "LastActiveConfig")
				}
			case "IDs":
				sub([]string{"ProcessorIDs"}, d.IDs)
			case "IDs2":
				sub([]string{"ConnectorIDs"}, d.IDs2)
			case "Times":
				sub([]string{"CreatedAt"}, d.Created.Time())
				sub([]string{"UpdatedAt"}, d.Updated.Time())
			case "Error":
				sub([]string{"Error"}, d.Error)
			case "DLQ":
				if d.DLQ != nil {
					sub([]string{"DLQ"}, map[string]any{"Plugin": d.DLQ.Plugin, "Settings": d.DLQ.Settings, "WindowSize": d.DLQ.WindowSize, "WindowNackThreshold": d.DLQ.Threshold})
				} else {
					delete(m, "DLQ")
				}
			case "Status":
				sub([]string{"Status"}, d.Status)
			case "Cond":
				sub([]string{"Condition"}, d.Cond)
			case "Plugin":
				sub([]string{"Plugin"}, d.Plugin)
			case "Workers":
				sub([]string{"Config", "Workers"}, d.Workers)
			}
		}
		raw, err := json.Marshal(m)
		return prefix + id, raw, err
	}
	return "", nil, fmt.Errorf("unknown shape %q", d.Shape)
}

// ---------------------------------------------------------------- expectations

func nilIfDropped[T any](dropped bool, v T) T {
	if dropped {
		var zero T
		return zero
	}
	return v
}

func (d *oldDoc) expectedState(dropped bool) any {
	if dropped || d.StateMode != "typed" {
		return nil
	}
	if d.Type == 2 {
		return connector.DestinationState{Positions: toPositions(d.Positions)}
	}
	return connector.SourceState{Position: opencdc.Position(d.Position)}
}

// expected returns the instance the document must load as (nil pointer of all
// three: the connector is documented not to be loaded), derived from the
// generated values (pre041/conn/pipe/proc) or from an encoding/json decode of
// the document (golden).
type expectation struct {
	entity string // connector | pipeline | processor
	id     string // id in the services' map (the key suffix)
	absent bool
	conn   *connector.Instance
	pipe   *pipeline.Instance
	status pipeline.Status
	proc   *processor.Instance
}

func (d *oldDoc) expected(key string, raw []byte) (*expectation, error) {
	switch d.Shape {
	case "pre041":
		e := &expectation{entity: "connector", id: d.ID}
		if d.Prov == provisionedDLQ {
			// connector.Service.Init: persisted DLQ connectors of older versions are ignored and deleted (issue #1016)
			e.absent = true
			return e, nil
		}
		// field mapping of migratePre041; LastActiveConfig did not exist
		e.conn = &connector.Instance{
			ID: d.ID, Type: connector.Type(d.Type), Config: connector.Config{Name: d.Name, Settings: d.Settings},
			PipelineID: d.PipelineID, Plugin: d.Plugin, ProcessorIDs: d.IDs, ProvisionedBy: connector.ProvisionType(d.Prov),
			State: d.expectedState(false), CreatedAt: d.Created.Time(), UpdatedAt: d.Updated.Time(),
		}
		return e, nil
	case "conn":
		e := &expectation{entity: "connector", id: d.ID}
		e.conn = &connector.Instance{
			ID: d.ID, Type: connector.Type(d.Type), Config: connector.Config{Name: d.Name, Settings: d.Settings},
			PipelineID: d.PipelineID, Plugin: d.Plugin, ProcessorIDs: nilIfDropped(d.dropped("ProcessorIDs"), d.IDs),
			ProvisionedBy: connector.ProvisionType(nilIfDropped(d.dropped("ProvisionedBy"), d.Prov)),
			State:         d.expectedState(d.dropped("State")), CreatedAt: d.Created.Time(), UpdatedAt: d.Updated.Time(),
		}
		if d.LastActive != nil && !d.dropped("LastActiveConfig") {
			e.conn.LastActiveConfig = connector.Config{Name: d.LastActive.Name, Settings: d.LastActive.Settings}
		}
		return e, nil
	case "pipe":
		e := &expectation{entity: "pipeline", id: d.ID, status: pipeline.Status(d.Status)}
		e.pipe = &pipeline.Instance{
			ID: d.ID, Config: pipeline.Config{Name: d.Name, Description: d.Description}, Error: nilIfDropped(d.dropped("Error"), d.Error),
			CreatedAt: d.Created.Time(), UpdatedAt: d.Updated.Time(), ProvisionedBy: pipeline.ProvisionType(nilIfDropped(d.dropped("ProvisionedBy"), d.Prov)),
			ConnectorIDs: d.IDs2, ProcessorIDs: nilIfDropped(d.dropped("ProcessorIDs"), d.IDs),
		}
		if d.DLQ != nil && !d.dropped("DLQ") {
			e.pipe.DLQ = pipeline.DLQ{Plugin: d.DLQ.Plugin, Settings: d.DLQ.Settings, WindowSize: d.DLQ.WindowSize, WindowNackThreshold: d.DLQ.Threshold}
		}
		return e, nil
	case "proc":
		e := &expectation{entity: "processor", id: d.ID}
		e.proc = &processor.Instance{
			ID: d.ID, CreatedAt: d.Created.Time(), UpdatedAt: d.Updated.Time(), ProvisionedBy: processor.ProvisionType(nilIfDropped(d.dropped("ProvisionedBy"), d.Prov)),
			Plugin: d.Plugin, Condition: nilIfDropped(d.dropped("Condition"), d.Cond), Parent: processor.Parent{ID: d.ParentID, Type: processor.ParentType(d.ParentType)},
			Config: processor.Config{Settings: d.Settings, Workers: nilIfDropped(d.dropped("Config.Workers"), d.Workers)},
		}
		return e, nil
	case "golden":
		// independent reference decoder: encoding/json
		id := key[strings.LastIndex(key, ":instance:")+len(":instance:"):]
		switch d.Golden {
		case "source", "destination":
			e := &expectation{entity: "connector", id: id, conn: &connector.Instance{}}
			if err := json.Unmarshal(raw, e.conn); err != nil {
				return nil, err
			}
			if e.conn.State != nil {
				b, _ := json.Marshal(e.conn.State)
				if e.conn.Type == connector.TypeSource {
					var s connector.SourceState
					if err := json.Unmarshal(b, &s); err != nil {
						return nil, err
					}
					e.conn.State = s
				} else {
					var s connector.DestinationState
					if err := json.Unmarshal(b, &s); err != nil {
						return nil, err
					}
					e.conn.State = s
				}
			}
			return e, nil
		case "pipeline":
			e := &expectation{entity: "pipeline", id: id, pipe: &pipeline.Instance{}}
			if err := json.Unmarshal(raw, e.pipe); err != nil {
				return nil, err
			}
			var st struct{ Status int }
			if err := json.Unmarshal(raw, &st); err != nil {
				return nil, err
			}
			e.status = pipeline.Status(st.Status)
			return e, nil
		default:
			e := &expectation{entity: "processor", id: id, proc: &processor.Instance{}}
			if err := json.Unmarshal(raw, e.proc); err != nil {
				return nil, err
			}
			return e, nil
		}
	}
	return nil, fmt.Errorf("unknown shape %q", d.Shape)
}

// ---------------------------------------------------------------- run

type ofResult struct {
	Viol       []violation
	Flips      map[string]bool
	HarnessErr string
}

func runOldFormats(c *ofCase) *ofResult {
	ctx := context.Background()
	res := &ofResult{Flips: map[string]bool{}}
	fail := func(key, format string, args ...any) {
		res.Viol = append(res.Viol, violation{Key: key, Detail: fmt.Sprintf(format, args...)})
	}
	db := lab.NewFaultDB(nil)
	var exps []*expectation
	shapes := map[*expectation]string{}
	for i := range c.Docs {
		d := &c.Docs[i]
		key, raw, err := d.render()
		if err != nil {
			res.HarnessErr = "render: " + err.Error()
			return res
		}
		if err := db.Set(ctx, key, raw); err != nil {
			res.HarnessErr = "db.Set: " + err.Error()
			return res
		}
		e, err := d.expected(key, raw)
		if err != nil {
			res.HarnessErr = "reference decode: " + err.Error()
			return res
		}
		exps = append(exps, e)
		shapes[e] = d.Shape
	}

	// the server starts on a store holding the old documents
	b := newServices(db)
	if stage, err, panicked := b.init(ctx); err != nil {
		key := prop + "/oldformat/init-failed/" + stage
		if panicked {
			key = prop + "/oldformat/init-panic/" + stage
		}
		fail(key, "a server cannot load documents of an older supported format: %v", err)
		return res
	}
	df := &differ{flips: res.Flips}
	nConn, nPipe, nProc := 0, 0, 0
	for _, e := range exps {
		clause := "oldformat/" + shapes[e]
		switch e.entity {
		case "connector":
			got, err := b.conns.Get(ctx, e.id)
			if e.absent {
				if err == nil {
					fail(prop+"/"+clause+"/dlq-connector-loaded", "pre-0.4.1 connector %q provisioned as DLQ was loaded although Init documents that it is ignored", e.id)
				}
				continue
			}
			nConn++
			if err != nil {
				fail(prop+"/"+clause+"/connector(missing)", "connector %q is not loaded: %v", e.id, err)
				continue
			}
			df.value("connector", reflect.ValueOf(e.conn).Elem(), reflect.ValueOf(got).Elem())
		case "pipeline":
			nPipe++
			got, err := b.pipes.Get(ctx, e.id)
			if err != nil {
				fail(prop+"/"+clause+"/pipeline(missing)", "pipeline %q is not loaded: %v", e.id, err)
				continue
			}
			df.value("pipeline", reflect.ValueOf(e.pipe).Elem(), reflect.ValueOf(got).Elem())
			if want := expectedStatus(e.status); got.GetStatus() != want {
				fail(prop+"/"+clause+"/pipeline.status", "pipeline %q stored with status %s was loaded as %s, expected %s", e.id, e.status, got.GetStatus(), want)
			}
		case "processor":
			nProc++
			got, err := b.procs.Get(ctx, e.id)
			if err != nil {
				fail(prop+"/"+clause+"/processor(missing)", "processor %q is not loaded: %v", e.id, err)
				continue
			}
			df.value("processor", reflect.ValueOf(e.proc).Elem(), reflect.ValueOf(got).Elem())
		}
		for _, v := range df.diffs {
			fail(prop+"/"+clause+"/"+v.Key, "%s", v.Detail)
		}
		df.diffs = nil
	}
	if n := len(b.conns.List(ctx)); n != nConn {
		fail(prop+"/oldformat/connector(extra)", "%d connectors loaded, %d documents stored", n, nConn)
	}
	if n := len(b.pipes.List(ctx)); n != nPipe {
		fail(prop+"/oldformat/pipeline(extra)", "%d pipelines loaded, %d documents stored", n, nPipe)
	}
	if n := len(b.procs.List(ctx)); n != nProc {
		fail(prop+"/oldformat/processor(extra)", "%d processors loaded, %d documents stored", n, nProc)
	}
	if len(res.Viol) > 0 {
		return res
	}

	// the upgraded server keeps working: positions advance, everything is re-stored,
	// and the next restart must see exactly that (an old-format document that is
	// migrated again would overwrite the newer position).
	for id, k := range b.conns.List(ctx) {
		var st any
		switch k.Type {
		case connector.TypeSource:
			cur, _ := k.State.(connector.SourceState)
			st = connector.SourceState{Position: append(append(opencdc.Position{}, cur.Position...), []byte("-advanced")...)}
		case connector.TypeDestination:
			cur, _ := k.State.(connector.DestinationState)
			np := map[string]opencdc.Position{"advanced": opencdc.Position("p")}
			for key, v := range cur.Positions {
				np[key] = v
			}
			st = connector.DestinationState{Positions: np}
		}
		if _, err := b.conns.SetState(ctx, id, st); err != nil {
			fail(prop+"/store-write-failed/oldformat.connector.SetState", "storing a new position for the migrated connector %q failed: %v", id, err)
			return res
		}
	}
	for id, p := range b.pipes.List(ctx) {
		if err := b.pipes.UpdateStatus(ctx, id, p.GetStatus(), p.Error); err != nil {
			fail(prop+"/store-write-failed/oldformat.pipeline.UpdateStatus", "re-storing pipeline %q failed: %v", id, err)
			return res
		}
	}
	for id, p := range b.procs.List(ctx) {
		if _, err := b.procs.Update(ctx, id, p.Plugin, p.Config); err != nil {
			fail(prop+"/store-write-failed/oldformat.processor.Update", "re-storing processor %q failed: %v", id, err)
			return res
		}
	}
	b.persister.Wait()
	n := b.restart(c.Restart)
	if stage, err, panicked := n.init(ctx); err != nil {
		key := prop + "/oldformat-regen/init-failed/" + stage
		if panicked {
			key = prop + "/oldformat-regen/init-panic/" + stage
		}
		fail(key, "second restart after loading old-format documents failed: %v", err)
		return res
	}
	v, flips := compareServices("oldformat-regen", b, n)
	res.Viol = append(res.Viol, v...)
	for k := range flips {
		res.Flips[k] = true
	}
	return res
}

func ofClasses(c *ofCase, res *ofResult) []string {
	seen := map[string]bool{"restart:" + c.Restart: true}
	for _, d := range c.Docs {
		k := "doc:" + d.Shape
		if d.Shape == "golden" {
			k += ":" + d.Golden
			if len(d.Subst) > 0 {
				k += "+generated-values"
			} else {
				k += "(raw)"
			}
		}
		seen[k] = true
		for _, x := range d.Drop {
			seen["doc:"+d.Shape+"-without-"+x] = true
		}
		if d.Shape == "pre041" {
			seen["pre041-state:"+d.StateMode] = true
			if d.Prov == provisionedDLQ {
				seen["pre041-dlq-provisioned"] = true
			}
		}
	}
	for k := range res.Flips {
		seen["tolerated-nil-empty-flip:"+k] = true
	}
	return sortedKeys(seen)
}

func TestC17OldFormats(t *testing.T) {
	st := pbt.For(prop)
	defer st.Finish(t)
	for which := range goldenFiles {
		if _, err := readGolden(which); err != nil {
			t.Fatalf("golden document missing: %v", err)
		}
	}
	rapid.Check(t, func(t *rapid.T) {
		c := genOFCase(t)
		pbt.MarkCurrent(prop, map[string]any{"kind": "oldformats", "case": c})
		res := runOldFormats(c)
		// every case holds an older-format document: non-trivial by the rule
		st.Case(pbt.Hash(c), true, append(ofClasses(c, res), featuresOf(c).list()...)...)
		if res.HarnessErr != "" {
			t.Fatalf("harness error: %s", res.HarnessErr)
		}
		if jsonLen(c) < 6000 && st.WantSample() {
			st.Sample(map[string]any{"kind": "oldformats", "case": c})
		}
		reportAll(t, st, res.Viol, map[string]any{"kind": "oldformats", "case": c}, jsonLen(c))
	})
}
