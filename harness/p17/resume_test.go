package p17

// TestC17Resume: "A running pipeline is found again as one to be resumed."
// World A provisions and starts a pipeline (real services + real lifecycle engine,
// fake plugins), records flow, and the store content is copied WITHOUT stopping
// anything - that is the crash. World B is a fresh server on that copy:
// InitServices (processors, connectors, pipelines) then the engine's Init. The
// pipeline must be running again and the source plugin must be opened with exactly
// the position held by the copied store.
//
// Verdicts never depend on timing: lifecycle Init starts pipelines synchronously,
// so "status after Init returned" is decidable; the position comparison is made
// on the src.open event once it exists; if it does not show up within lab.Quiet
// the case is counted inconclusive, not failed.

import (
	"context"
	"encoding/json"
	"fmt"
	"testing"
	"time"

	"github.com/conduitio/conduit/pkg/pipeline"
	"pgregory.net/rapid"
	"verifharness/lab"
	"verifharness/pbt"
)

type resumeCase struct {
	Engine  string `json:"engine"`
	N       int    `json:"n"`
	Batches []int  `json:"batches"`
	Dests   int    `json:"dests"`
	// WaitAcks: how many source acks world A waits for before the store is copied
	WaitAcks int `json:"wait_acks"`
	// StopFirst: world A stops the pipeline gracefully before the copy (control: a
	// pipeline stored as user-stopped must NOT be started by the restarted server)
	StopFirst bool `json:"stop_first,omitempty"`
}

func (r *resumeCase) labCase() *lab.Case {
	c := &lab.Case{
		Engine: r.Engine, PersistDelayMs: 1, PersistBundle: 1,
		Recovery: lab.RecoverySpec{MinMs: 5, MaxMs: 20, Factor: 2, MaxRetries: 0, WindowMs: 1000},
		Sources:  []lab.SourceSpec{{ID: "src0", N: r.N, Batches: append([]int(nil), r.Batches...), ReadFaultAfter: -1, EmptyPosAt: -1, DupPosAt: -1}},
	}
	for i := 0; i < r.Dests; i++ {
		c.Dests = append(c.Dests, lab.DestSpec{ID: fmt.Sprintf("dst%d", i)})
	}
	return c
}

func genResumeCase(t *rapid.T) *resumeCase {
	r := &resumeCase{}
	r.Engine = rapid.SampledFrom([]string{"v1", "v2"}).Draw(t, "engine")
	r.N = rapid.IntRange(1, 300).Draw(t, "n")
	r.Batches = rapid.SliceOfN(rapid.IntRange(1, 7), 1, 3).Draw(t, "batches")
	r.Dests = rapid.IntRange(1, 2).Draw(t, "dests")
	r.WaitAcks = rapid.IntRange(0, r.N).Draw(t, "wait_acks")
	r.StopFirst = rapid.IntRange(0, 3).Draw(t, "stop_first") == 0
	return r
}

type resumeResult struct {
	Viol         []violation
	Inconclusive string
	HarnessErr   string
	StoredPos    string
	OpenPos      string
}

func countEvents(evs []lab.Event, kind, comp string) int {
	n := 0
	for _, e := range evs {
		if e.Kind == kind && e.Comp == comp {
			n++
		}
	}
	return n
}

func waitFor(limit time.Duration, cond func() bool) bool {
	deadline := time.Now().Add(limit)
	for !cond() {
		if time.Now().After(deadline) {
			return false
		}
		time.Sleep(200 * time.Microsecond)
	}
	return true
}

// shutdown stops a world gracefully so that its goroutines end (cleanup only, no verdict).
func shutdown(w *lab.World) {
	done := make(chan struct{})
	go func() {
		defer close(done)
		ctx := context.Background()
		if st, _ := w.Status(); st == pipeline.StatusRunning || st == pipeline.StatusRecovering {
			_ = w.Engine().Stop(ctx, lab.PipelineID, false)
			_ = w.Engine().WaitPipeline(lab.PipelineID)
		}
		w.Connectors.WaitPersisted()
	}()
	select {
	case <-done:
	case <-time.After(20 * time.Second):
	}
}

func storedStatus(snap map[string][]byte) (int, bool) {
	raw, ok := snap[pipePrefix+lab.PipelineID]
	if !ok {
		return 0, false
	}
	var d struct{ Status int }
	if json.Unmarshal(raw, &d) != nil {
		return 0, false
	}
	return d.Status, true
}

func runResume(r *resumeCase) *resumeResult {
	ctx := context.Background()
	res := &resumeResult{}
	fail := func(key, format string, args ...any) {
		res.Viol = append(res.Viol, violation{Key: key, Detail: fmt.Sprintf(format, args...)})
	}

	a := lab.NewWorld(r.labCase(), nil, nil)
	a.Sched.SetFree()
	defer shutdown(a)
	if err := a.Provision(ctx); err != nil {
		res.HarnessErr = "provision: " + err.Error()
		return res
	}
	if err := a.Engine().Start(ctx, lab.PipelineID); err != nil {
		res.HarnessErr = "start in world A: " + err.Error()
		return res
	}
	if !waitFor(lab.Quiet, func() bool {
		st, _ := a.Status()
		return st == pipeline.StatusRunning && countEvents(a.Log.Snapshot(), lab.EvSrcAck, "src0") >= r.WaitAcks
	}) {
		res.Inconclusive = fmt.Sprintf("world A did not reach %d acks within %s", r.WaitAcks, lab.Quiet)
		return res
	}
	if r.StopFirst {
		if err := a.Engine().Stop(ctx, lab.PipelineID, false); err != nil {
			res.HarnessErr = "stop in world A: " + err.Error()
			return res
		}
		_ = a.Engine().WaitPipeline(lab.PipelineID)
		a.Connectors.WaitPersisted()
	}

	// the crash: the durable state is whatever the store holds right now
	snap := a.DB.Current()
	stStored, ok := storedStatus(snap)
	if !ok {
		res.HarnessErr = "no pipeline document in the store copy"
		return res
	}
	wantRunning := pipeline.Status(stStored) == pipeline.StatusRunning
	if wantRunning == r.StopFirst {
		res.Inconclusive = fmt.Sprintf("store copy holds status %s (stop_first=%v)", pipeline.Status(stStored), r.StopFirst)
		return res
	}
	stored, ok := lab.StoredPosition(snap, "src0")
	if !ok {
		res.HarnessErr = "no source connector document in the store copy"
		return res
	}
	res.StoredPos = stored

	b := lab.NewWorld(r.labCase(), nil, lab.NewFaultDBFrom(nil, snap))
	b.Sched.SetFree()
	defer shutdown(b)
	if err := b.InitServices(ctx); err != nil {
		fail(prop+"/resume/init-failed", "restarted services cannot load the store of a crashed server: %v", err)
		return res
	}
	st, _ := b.Status()
	if want := expectedStatus(pipeline.Status(stStored)); st != want {
		fail(prop+"/resume/status-after-load", "pipeline stored as %s was loaded as %s, expected %s", pipeline.Status(stStored), st, want)
		return res
	}
	if err := b.Engine().Init(ctx); err != nil {
		fail(prop+"/resume/lifecycle-init-error/"+r.Engine, "lifecycle Init on the reloaded services failed: %v", err)
		return res
	}
	st, errMsg := b.Status()
	if !wantRunning {
		// control: a pipeline the user stopped stays stopped
		if st != pipeline.Status(stStored) || countEvents(b.Log.Snapshot(), lab.EvSrcOpen, "src0") != 0 {
			fail(prop+"/resume/stopped-pipeline-started/"+r.Engine, "pipeline stored as %s is %s after lifecycle Init (src.open events: %d)",
				pipeline.Status(stStored), st, countEvents(b.Log.Snapshot(), lab.EvSrcOpen, "src0"))
		}
		return res
	}
	if st != pipeline.StatusRunning {
		fail(prop+"/resume/not-restarted/"+r.Engine, "pipeline stored as running is %s (error %q) after lifecycle Init returned without error", st, errMsg)
		return res
	}
	var open *lab.Event
	if !waitFor(lab.Quiet, func() bool {
		for _, e := range b.Log.Snapshot() {
			if e.Kind == lab.EvSrcOpen && e.Comp == "src0" {
				e := e
				open = &e
				return true
			}
		}
		return false
	}) {
		res.Inconclusive = fmt.Sprintf("pipeline is running in world B but the source plugin was not opened within %s", lab.Quiet)
		return res
	}
	res.OpenPos = open.Pos
	if open.Pos != stored {
		fail(prop+"/resume/open-position/"+r.Engine, "source opened with position %q, the store of the crashed server holds %q", open.Pos, stored)
	}
	return res
}

func TestC17Resume(t *testing.T) {
	st := pbt.For(prop)
	defer st.Finish(t)
	rapid.Check(t, func(t *rapid.T) {
		r := genResumeCase(t)
		pbt.MarkCurrent(prop, map[string]any{"kind": "resume", "case": r})
		res := runResume(r)
		cls := []string{"resume:" + r.Engine}
		if r.StopFirst {
			cls = append(cls, "resume:control-user-stopped")
		} else if res.StoredPos == "" {
			cls = append(cls, "resume:crash-before-first-position")
		} else {
			cls = append(cls, "resume:crash-with-stored-position")
		}
		if res.Inconclusive != "" {
			st.Inconcl(res.Inconclusive)
			cls = append(cls, "resume:inconclusive")
		}
		// non-trivial: a running pipeline with a stored position was resumed
		nontrivial := !r.StopFirst && res.StoredPos != "" && res.Inconclusive == ""
		st.Case(pbt.Hash(r), nontrivial, cls...)
		if res.HarnessErr != "" {
			t.Fatalf("harness error: %s", res.HarnessErr)
		}
		if nontrivial && st.WantSample() {
			st.Sample(map[string]any{"kind": "resume", "case": r, "stored_position": res.StoredPos, "opened_with": res.OpenPos})
		}
		reportAll(t, st, res.Viol, map[string]any{"kind": "resume", "case": r}, r.N+len(r.Batches)+r.Dests+r.WaitAcks)
	})
}
