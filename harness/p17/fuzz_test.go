package p17

// Native fuzz targets (thorough tier, run by hand - see NOTES.md):
//
//	go test -tags verif ./p17/ -run '^$' -fuzz '^FuzzC17ConnectorDoc$' -fuzztime 60s
//	go test -tags verif ./p17/ -run '^$' -fuzz '^FuzzC17PipelineDoc$'  -fuzztime 60s
//	go test -tags verif ./p17/ -run '^$' -fuzz '^FuzzC17ProcessorDoc$' -fuzztime 60s
//
// raw bytes -> stored as the document of one entity -> services Init (inside
// recover). For documents IN THE DOMAIN (inFuzzDomain: a complete JSON object
// with a non-empty string "ID" and no duplicate top-level keys - something a
// Conduit version could have written): Init must not panic, and if Init accepts
// the document then load -> re-store through the store's own Set -> load must be
// a fixed point (decode∘encode∘decode == decode).
//
// Documents outside the domain are only classified (fuzz:out-of-domain-panic /
// -rejected / -accepted), never reported. Also skipped: in-domain documents whose
// decoded string fields hold invalid UTF-8 (the encoder replaces it by U+FFFD;
// string fields are only promised for valid UTF-8, see gen_test.go).

import (
	"bytes"
	"context"
	"encoding/base64"
	"encoding/json"
	"reflect"
	"strings"
	"testing"
	"unicode/utf8"

	"github.com/conduitio/conduit/pkg/connector"
	"github.com/conduitio/conduit/pkg/foundation/log"
	"github.com/conduitio/conduit/pkg/pipeline"
	"github.com/conduitio/conduit/pkg/processor"
	"verifharness/lab"
	"verifharness/pbt"
)

func validStrings(v reflect.Value) bool {
	switch v.Kind() {
	case reflect.Ptr, reflect.Interface:
		if v.IsNil() {
			return true
		}
		return validStrings(v.Elem())
	case reflect.Struct:
		for i := 0; i < v.NumField(); i++ {
			if v.Type().Field(i).IsExported() && !validStrings(v.Field(i)) {
				return false
			}
		}
	case reflect.String:
		return utf8.ValidString(v.String())
	case reflect.Slice:
		if v.Type().Elem().Kind() == reflect.Uint8 {
			return true
		}
		for i := 0; i < v.Len(); i++ {
			if !validStrings(v.Index(i)) {
				return false
			}
		}
	case reflect.Map:
		it := v.MapRange()
		for it.Next() {
			if !validStrings(it.Key()) || !validStrings(it.Value()) {
				return false
			}
		}
	}
	return true
}

const fuzzID = "fuzz"

// inFuzzDomain decides whether raw is a document the property speaks about: one
// that some Conduit version could have written. Precisely (decided with
// encoding/json, never with the decoder under test):
//
//  1. the WHOLE input is exactly one valid JSON value (json.Valid: no trailing
//     bytes, no truncated literals such as `nul`);
//  2. that value is an object (not null, not an array/scalar);
//  3. no two top-level keys are equal under Unicode case folding (the decoders
//     match field names case-insensitively; Conduit never writes duplicates);
//  4. it has the member "ID" (exactly this spelling) whose value is a non-empty
//     JSON string - every store's Set refuses an empty id and every encoder
//     writes all exported fields (no omitempty), so ID is always there.
//
// Everything else (`null`, `{}`, `nul`, `{"Status":1}`, `{} garbage` ...) is out
// of the domain: it is still run through Init inside recover, but only counted.
func inFuzzDomain(raw []byte) bool {
	if !json.Valid(raw) {
		return false
	}
	dec := json.NewDecoder(bytes.NewReader(raw))
	tok, err := dec.Token()
	if err != nil || tok != json.Delim('{') {
		return false
	}
	var keys []string
	hasID := false
	for dec.More() {
		kt, err := dec.Token()
		if err != nil {
			return false
		}
		key, ok := kt.(string)
		if !ok {
			return false
		}
		var val json.RawMessage
		if err := dec.Decode(&val); err != nil {
			return false
		}
		for _, k := range keys {
			if strings.EqualFold(k, key) {
				return false
			}
		}
		keys = append(keys, key)
		if key == "ID" {
			var id string
			if json.Unmarshal(val, &id) != nil || id == "" || bytes.Equal(bytes.TrimSpace(val), []byte("null")) {
				return false
			}
			hasID = true
		}
	}
	return hasID
}

// fuzzOne runs one document; it returns the violations (never calls t.Fatal so
// that TestReplayC17 can use it as well) and the class the input fell into.
func fuzzOne(entity string, raw []byte) (viol []violation, class string) {
	ctx := context.Background()
	prefix := map[string]string{"connector": connPrefix, "pipeline": pipePrefix, "processor": procPrefix}[entity]
	db := lab.NewFaultDB(nil)
	if err := db.Set(ctx, prefix+fuzzID, append([]byte{}, raw...)); err != nil {
		return nil, "fuzz:db-set-failed"
	}
	s1 := newServices(db)
	stage, err, panicked := s1.init(ctx) // runs inside recover
	if !inFuzzDomain(raw) {
		// not a document of the property: classified, never reported
		switch {
		case panicked:
			return nil, "fuzz:out-of-domain-panic"
		case err != nil:
			return nil, "fuzz:out-of-domain-rejected"
		}
		return nil, "fuzz:out-of-domain-accepted"
	}
	if panicked {
		return []violation{{prop + "/fuzz/init-panic/" + stage, "Init panics on a stored document: " + truncate(err.Error(), 1500)}}, "fuzz:in-domain-panic"
	}
	if err != nil {
		return nil, "fuzz:in-domain-rejected"
	}
	var inst any
	switch entity {
	case "connector":
		k, err := s1.conns.Get(ctx, fuzzID)
		if err != nil {
			return nil, "fuzz:in-domain-not-loaded"
		}
		inst = k
		if !validStrings(reflect.ValueOf(k)) {
			return nil, "fuzz:in-domain-skipped-invalid-utf8-string"
		}
		if err := connector.NewStore(db, log.Nop()).Set(ctx, fuzzID, k); err != nil {
			return []violation{{prop + "/fuzz/re-store-failed/connector", "a loaded connector cannot be stored again: " + err.Error()}}, "fuzz:in-domain-violation"
		}
	case "pipeline":
		p, err := s1.pipes.Get(ctx, fuzzID)
		if err != nil {
			return nil, "fuzz:in-domain-not-loaded"
		}
		inst = p
		if !validStrings(reflect.ValueOf(p)) {
			return nil, "fuzz:in-domain-skipped-invalid-utf8-string"
		}
		if err := pipeline.NewStore(db).Set(ctx, fuzzID, p); err != nil {
			return []violation{{prop + "/fuzz/re-store-failed/pipeline", "a loaded pipeline cannot be stored again: " + err.Error()}}, "fuzz:in-domain-violation"
		}
	case "processor":
		p, err := s1.procs.Get(ctx, fuzzID)
		if err != nil {
			return nil, "fuzz:in-domain-not-loaded"
		}
		inst = p
		if !validStrings(reflect.ValueOf(p)) {
			return nil, "fuzz:in-domain-skipped-invalid-utf8-string"
		}
		if err := processor.NewStore(db).Set(ctx, fuzzID, p); err != nil {
			return []violation{{prop + "/fuzz/re-store-failed/processor", "a loaded processor cannot be stored again: " + err.Error()}}, "fuzz:in-domain-violation"
		}
	}
	_ = inst
	s2 := newServices(db)
	stage, err, panicked = s2.init(ctx)
	if err != nil {
		key := prop + "/fuzz/reload-failed/" + stage
		if panicked {
			key = prop + "/fuzz/reload-panic/" + stage
		}
		return []violation{{key, "the re-stored document cannot be loaded: " + err.Error()}}, "fuzz:in-domain-violation"
	}
	v, _ := compareServices("fuzz-fixedpoint", s1, s2)
	if len(v) > 0 {
		return v, "fuzz:in-domain-violation"
	}
	return nil, "fuzz:in-domain-fixed-point-checked"
}

func fuzzSeeds(f *testing.F, which ...string) {
	for _, w := range which {
		g, err := readGolden(w)
		if err != nil {
			f.Fatalf("golden seed: %v", err)
		}
		f.Add(g)
		// the same document compacted (what the stores actually write)
		var m any
		if json.Unmarshal(g, &m) == nil {
			if b, err := json.Marshal(m); err == nil {
				f.Add(b)
			}
		}
	}
	// out-of-domain seeds (classified, never reported): see inFuzzDomain and NOTES.md R1/R2
	f.Add([]byte(`{}`))
	f.Add([]byte(`null`))
	f.Add([]byte(`{"Status":1}`))
	f.Add([]byte(`{"ID":"x","Type":1,"State":{"Position":"AP8="},"CreatedAt":"2001-02-03T04:05:06.789+05:45"}`))
	f.Add([]byte(`{"ID":"x","Status":1,"DLQ":{"Settings":{" ":"\u0000"}},"ConnectorIDs":[],"ProcessorIDs":null}`))
}

func fuzzBody(entity string) func(t *testing.T, raw []byte) {
	return func(t *testing.T, raw []byte) {
		viol, class := fuzzOne(entity, raw)
		st := pbt.For(prop)
		st.Class(class, 1)
		for _, v := range viol {
			replay := map[string]any{"kind": "fuzz", "entity": entity, "raw_base64": base64.StdEncoding.EncodeToString(raw)}
			if st.Report(v.Key, v.Detail, len(raw), replay) {
				t.Errorf("%s: %s", v.Key, v.Detail)
			}
		}
	}
}

func FuzzC17ConnectorDoc(f *testing.F) {
	fuzzSeeds(f, "source", "destination")
	f.Fuzz(fuzzBody("connector"))
}

func FuzzC17PipelineDoc(f *testing.F) {
	fuzzSeeds(f, "pipeline")
	f.Fuzz(fuzzBody("pipeline"))
}

func FuzzC17ProcessorDoc(f *testing.F) {
	fuzzSeeds(f, "processor")
	f.Fuzz(fuzzBody("processor"))
}

func truncate(s string, n int) string {
	if len(s) > n {
		return s[:n] + "…"
	}
	return s
}
