package p17

// Native fuzz targets (thorough tier, run by hand - see NOTES.md):
//
//	go test ./p17/ -run '^$' -fuzz '^FuzzC17ConnectorDoc$' -fuzztime 60s
//	go test ./p17/ -run '^$' -fuzz '^FuzzC17PipelineDoc$'  -fuzztime 60s
//	go test ./p17/ -run '^$' -fuzz '^FuzzC17ProcessorDoc$' -fuzztime 60s
//
// raw bytes -> stored as the document of one entity -> services Init. If Init
// accepts the document, then load -> re-store through the store's own Set -> load
// must be a fixed point (decode∘encode∘decode == decode), and nothing may panic.
//
// Out of the domain (skipped, not failed): documents whose decoded string fields
// hold invalid UTF-8 (the encoder replaces it by U+FFFD; string fields are only
// promised for valid UTF-8, see gen_test.go).

import (
	"context"
	"encoding/base64"
	"encoding/json"
	"reflect"
	"strings"
	"testing"
	"unicode/utf8"

	"github.com/conduitio/conduit/pkg/connector"
	"github.com/conduitio/conduit/pkg/foundation/log"
	"github.com/conduitio/conduit/pkg/pipeline"
	"github.com/conduitio/conduit/pkg/processor"
	"verifharness/lab"
	"verifharness/pbt"
)

func validStrings(v reflect.Value) bool {
	switch v.Kind() {
	case reflect.Ptr, reflect.Interface:
		if v.IsNil() {
			return true
		}
		return validStrings(v.Elem())
	case reflect.Struct:
		for i := 0; i < v.NumField(); i++ {
			if v.Type().Field(i).IsExported() && !validStrings(v.Field(i)) {
				return false
			}
		}
	case reflect.String:
		return utf8.ValidString(v.String())
	case reflect.Slice:
		if v.Type().Elem().Kind() == reflect.Uint8 {
			return true
		}
		for i := 0; i < v.Len(); i++ {
			if !validStrings(v.Index(i)) {
				return false
			}
		}
	case reflect.Map:
		it := v.MapRange()
		for it.Next() {
			if !validStrings(it.Key()) || !validStrings(it.Value()) {
				return false
			}
		}
	}
	return true
}

const fuzzID = "fuzz"

// keyPipelineNilInstance: pipeline.Store.decode dereferences the embedded
// *Instance of encodableInstance, which stays nil when the document is `null` or
// an object without any Instance field (NOTES.md, finding F1). Recognised by the
// panicking frame.
const keyPipelineNilInstance = prop + "/fuzz/init-panic/pipeline.Store.decode-nil-instance"

// keyConnectorNullDoc: connector.Store.decode unmarshals into a **Instance, so the
// document `null` sets the pointer to nil and the following conn.State
// dereferences it (NOTES.md, finding F2).
const keyConnectorNullDoc = prop + "/fuzz/init-panic/connector.Store.decode-null-document"

// fuzzOne runs one document; it returns the violations (never calls t.Fatal so
// that TestReplayC17 can use it as well).
func fuzzOne(entity string, raw []byte) (viol []violation, skipped string) {
	ctx := context.Background()
	prefix := map[string]string{"connector": connPrefix, "pipeline": pipePrefix, "processor": procPrefix}[entity]
	db := lab.NewFaultDB(nil)
	if err := db.Set(ctx, prefix+fuzzID, append([]byte{}, raw...)); err != nil {
		return nil, "db.Set failed"
	}
	s1 := newServices(db)
	stage, err, panicked := s1.init(ctx)
	if panicked {
		key := prop + "/fuzz/init-panic/" + stage
		if stage == "pipeline" && strings.Contains(err.Error(), "pipeline.(*Store).decode") && strings.Contains(err.Error(), "nil pointer dereference") {
			key = keyPipelineNilInstance
		}
		if stage == "connector" && strings.Contains(err.Error(), "connector.(*Store).decode") && strings.Contains(err.Error(), "nil pointer dereference") {
			key = keyConnectorNullDoc
		}
		return []violation{{key, "Init panics on a stored document: " + truncate(err.Error(), 1500)}}, ""
	}
	if err != nil {
		return nil, "document rejected by Init"
	}
	var inst any
	switch entity {
	case "connector":
		k, err := s1.conns.Get(ctx, fuzzID)
		if err != nil {
			return nil, "not loaded"
		}
		inst = k
		if !validStrings(reflect.ValueOf(k)) {
			return nil, "invalid UTF-8 in a string field"
		}
		if err := connector.NewStore(db, log.Nop()).Set(ctx, fuzzID, k); err != nil {
			return []violation{{prop + "/fuzz/re-store-failed/connector", "a loaded connector cannot be stored again: " + err.Error()}}, ""
		}
	case "pipeline":
		p, err := s1.pipes.Get(ctx, fuzzID)
		if err != nil {
			return nil, "not loaded"
		}
		inst = p
		if !validStrings(reflect.ValueOf(p)) {
			return nil, "invalid UTF-8 in a string field"
		}
		if err := pipeline.NewStore(db).Set(ctx, fuzzID, p); err != nil {
			return []violation{{prop + "/fuzz/re-store-failed/pipeline", "a loaded pipeline cannot be stored again: " + err.Error()}}, ""
		}
	case "processor":
		p, err := s1.procs.Get(ctx, fuzzID)
		if err != nil {
			return nil, "not loaded"
		}
		inst = p
		if !validStrings(reflect.ValueOf(p)) {
			return nil, "invalid UTF-8 in a string field"
		}
		if err := processor.NewStore(db).Set(ctx, fuzzID, p); err != nil {
			return []violation{{prop + "/fuzz/re-store-failed/processor", "a loaded processor cannot be stored again: " + err.Error()}}, ""
		}
	}
	_ = inst
	s2 := newServices(db)
	stage, err, panicked = s2.init(ctx)
	if err != nil {
		key := prop + "/fuzz/reload-failed/" + stage
		if panicked {
			key = prop + "/fuzz/reload-panic/" + stage
		}
		return []violation{{key, "the re-stored document cannot be loaded: " + err.Error()}}, ""
	}
	v, _ := compareServices("fuzz-fixedpoint", s1, s2)
	return v, ""
}

func fuzzSeeds(f *testing.F, which ...string) {
	for _, w := range which {
		g, err := readGolden(w)
		if err != nil {
			f.Fatalf("golden seed: %v", err)
		}
		f.Add(g)
		// the same document compacted (what the stores actually write)
		var m any
		if json.Unmarshal(g, &m) == nil {
			if b, err := json.Marshal(m); err == nil {
				f.Add(b)
			}
		}
	}
	if which[0] != "pipeline" {
		f.Add([]byte(`{}`)) // for pipelines `{}` is finding F1 (fuzz seeds must pass)
	}
	f.Add([]byte(`{"ID":"x","Type":1,"State":{"Position":"AP8="},"CreatedAt":"2001-02-03T04:05:06.789+05:45"}`))
	f.Add([]byte(`{"ID":"x","Status":1,"DLQ":{"Settings":{" ":"\u0000"}},"ConnectorIDs":[],"ProcessorIDs":null}`))
}

func fuzzBody(entity string) func(t *testing.T, raw []byte) {
	return func(t *testing.T, raw []byte) {
		viol, _ := fuzzOne(entity, raw)
		st := pbt.For(prop)
		for _, v := range viol {
			replay := map[string]any{"kind": "fuzz", "entity": entity, "raw_base64": base64.StdEncoding.EncodeToString(raw)}
			if st.Report(v.Key, v.Detail, len(raw), replay) {
				t.Errorf("%s: %s", v.Key, v.Detail)
			}
		}
	}
}

func FuzzC17ConnectorDoc(f *testing.F) {
	fuzzSeeds(f, "source", "destination")
	f.Fuzz(fuzzBody("connector"))
}

func FuzzC17PipelineDoc(f *testing.F) {
	fuzzSeeds(f, "pipeline")
	f.Fuzz(fuzzBody("pipeline"))
}

func FuzzC17ProcessorDoc(f *testing.F) {
	fuzzSeeds(f, "processor")
	f.Fuzz(fuzzBody("processor"))
}

func truncate(s string, n int) string {
	if len(s) > n {
		return s[:n] + "…"
	}
	return s
}
