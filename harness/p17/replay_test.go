package p17

import (
	"encoding/base64"
	"encoding/json"
	"os"
	"testing"
)

// replayValue is the replay payload written by every part of the check.
type replayValue struct {
	Kind string          `json:"kind"` // roundtrip | oldformats | resume | fuzz
	Case json.RawMessage `json:"case"`
	// fuzz only
	Entity string `json:"entity,omitempty"`
	Raw    string `json:"raw_base64,omitempty"`
}

// TestReplayC17 re-executes the case of a replay file and fails iff the recorded
// violation key shows up again.
func TestReplayC17(t *testing.T) {
	path := os.Getenv("VERIF_REPLAY_FILE")
	if path == "" {
		t.Skip("VERIF_REPLAY_FILE not set")
	}
	raw, err := os.ReadFile(path)
	if err != nil {
		t.Fatalf("read replay file: %v", err)
	}
	var doc struct {
		Property string      `json:"property"`
		Key      string      `json:"key"`
		Detail   string      `json:"detail"`
		Replay   replayValue `json:"replay"`
	}
	if err := json.Unmarshal(raw, &doc); err != nil {
		t.Fatalf("parse replay file: %v", err)
	}
	var viol []violation
	attempts := 1
	if doc.Replay.Kind == "resume" {
		attempts = 5 // the copied store depends on where the crash lands; the case is re-run a few times
	}
	for i := 0; i < attempts && len(viol) == 0; i++ {
		switch doc.Replay.Kind {
		case "roundtrip":
			var c rtCase
			if err := json.Unmarshal(doc.Replay.Case, &c); err != nil {
				t.Fatalf("parse case: %v", err)
			}
			res := runRoundTrip(&c)
			if res.HarnessErr != "" {
				t.Logf("harness error: %s", res.HarnessErr)
			}
			viol = res.Viol
		case "oldformats":
			var c ofCase
			if err := json.Unmarshal(doc.Replay.Case, &c); err != nil {
				t.Fatalf("parse case: %v", err)
			}
			res := runOldFormats(&c)
			if res.HarnessErr != "" {
				t.Logf("harness error: %s", res.HarnessErr)
			}
			viol = res.Viol
		case "resume":
			var c resumeCase
			if err := json.Unmarshal(doc.Replay.Case, &c); err != nil {
				t.Fatalf("parse case: %v", err)
			}
			res := runResume(&c)
			if res.HarnessErr != "" || res.Inconclusive != "" {
				t.Logf("harness error %q inconclusive %q", res.HarnessErr, res.Inconclusive)
			}
			viol = res.Viol
		case "fuzz":
			b, err := base64.StdEncoding.DecodeString(doc.Replay.Raw)
			if err != nil {
				t.Fatalf("parse raw document: %v", err)
			}
			viol, _ = fuzzOne(doc.Replay.Entity, b)
		default:
			t.Fatalf("unknown replay kind %q", doc.Replay.Kind)
		}
	}
	for _, v := range viol {
		t.Logf("observed %s: %s", v.Key, v.Detail)
	}
	for _, v := range viol {
		if v.Key == doc.Key {
			t.Fatalf("REPRODUCED %s: %s", v.Key, v.Detail)
		}
	}
	t.Logf("violation %s did not reproduce", doc.Key)
}
