package p17

import (
	"bytes"
	"context"
	"fmt"
	"reflect"
	"runtime/debug"
	"sort"
	"time"

	sdk "github.com/conduitio/conduit-processor-sdk"
	"github.com/conduitio/conduit/pkg/connector"
	"github.com/conduitio/conduit/pkg/foundation/log"
	"github.com/conduitio/conduit/pkg/pipeline"
	"github.com/conduitio/conduit/pkg/plugin/processor/egress"
	"github.com/conduitio/conduit/pkg/processor"
	"verifharness/lab"
)

const prop = "C17"

// violation is one observed difference between what was stored and what a restarted server reads.
type violation struct {
	Key    string
	Detail string
}

// ---------------------------------------------------------------- services

// procRegistry is a processor.PluginService that knows every plugin name.
type procRegistry struct{}

type nopProc struct{ sdk.UnimplementedProcessor }

func (nopProc) Teardown(context.Context) error { return nil }

func (procRegistry) NewProcessor(context.Context, string, string, egress.Policy) (sdk.Processor, error) {
	return nopProc{}, nil
}

// services is one "server process": the three real services over one store.
type services struct {
	db        *lab.FaultDB
	persister *connector.Persister
	procs     *processor.Service
	conns     *connector.Service
	pipes     *pipeline.Service
}

func newServices(db *lab.FaultDB) *services {
	logger := log.Nop()
	s := &services{db: db}
	s.persister = connector.NewPersister(logger, db, time.Millisecond, 1)
	s.procs = processor.NewService(logger, db, procRegistry{})
	s.conns = connector.NewService(logger, db, s.persister)
	s.pipes = pipeline.NewService(logger, db)
	return s
}

// init loads the services in the order of pkg/conduit/runtime.go: processors, connectors, pipelines.
// A panic is turned into an error naming the stage.
func (s *services) init(ctx context.Context) (stage string, err error, panicked bool) {
	step := func(name string, f func(context.Context) error) (err error, p bool) {
		defer func() {
			if r := recover(); r != nil {
				err, p = fmt.Errorf("panic: %v\n%s", r, debug.Stack()), true
			}
		}()
		return f(ctx), false
	}
	if err, p := step("processor", s.procs.Init); err != nil {
		return "processor", err, p
	}
	if err, p := step("connector", s.conns.Init); err != nil {
		return "connector", err, p
	}
	if err, p := step("pipeline", s.pipes.Init); err != nil {
		return "pipeline", err, p
	}
	return "", nil, false
}

// restart builds fresh services on the same store, or on a copy of its content.
func (s *services) restart(mode string) *services {
	if mode == "copy" {
		return newServices(lab.NewFaultDBFrom(nil, s.db.Current()))
	}
	return newServices(s.db)
}

// ---------------------------------------------------------------- deep comparison

// Fields in which a nil<->empty flip IS a difference, because the services
// behave differently for nil and empty (see NOTES.md "nil vs empty"):
// connector.Source/Destination.triggerLifecycleEvent and OnDelete distinguish a
// nil settings map (never started / deleted) from an empty one.
var strictNil = map[string]bool{
	"connector.Config.Settings":           true,
	"connector.LastActiveConfig.Settings": true,
}

var timeType = reflect.TypeOf(time.Time{})

type differ struct {
	diffs []violation     // path -> detail
	flips map[string]bool // tolerated nil<->empty flips that were observed
}

func (d *differ) add(path, format string, args ...any) {
	d.diffs = append(d.diffs, violation{Key: path, Detail: fmt.Sprintf(format, args...)})
}

func short(v any) string {
	s := fmt.Sprintf("%q", fmt.Sprint(v))
	if len(s) > 160 {
		s = s[:160] + "…"
	}
	return s
}

// value compares want (what the writing services hold in memory) with got (what
// the restarted services loaded) over all exported fields.
func (d *differ) value(path string, want, got reflect.Value) {
	if want.Type() != got.Type() {
		d.add(path+"(type)", "type %s was read back as %s", want.Type(), got.Type())
		return
	}
	switch want.Kind() {
	case reflect.Struct:
		if want.Type() == timeType {
			a, b := want.Interface().(time.Time), got.Interface().(time.Time)
			if !a.Equal(b) {
				d.add(path, "time %s was read back as %s", a.Format(time.RFC3339Nano), b.Format(time.RFC3339Nano))
			}
			return
		}
		for i := 0; i < want.NumField(); i++ {
			f := want.Type().Field(i)
			if !f.IsExported() {
				continue
			}
			d.value(path+"."+f.Name, want.Field(i), got.Field(i))
		}
	case reflect.Interface, reflect.Ptr:
		if want.IsNil() != got.IsNil() {
			d.add(path+"(presence)", "nil=%v was read back as nil=%v", want.IsNil(), got.IsNil())
			return
		}
		if !want.IsNil() {
			d.value(path, want.Elem(), got.Elem())
		}
	case reflect.Slice:
		if want.Len() == 0 && got.Len() == 0 {
			d.nilFlip(path, want.IsNil(), got.IsNil())
			return
		}
		if want.Type().Elem().Kind() == reflect.Uint8 {
			if !bytes.Equal(want.Bytes(), got.Bytes()) {
				d.add(path, "bytes (len %d) %s were read back as (len %d) %s", want.Len(), short(want.Bytes()), got.Len(), short(got.Bytes()))
			}
			return
		}
		if want.Len() != got.Len() {
			d.add(path, "list %s was read back as %s", short(want.Interface()), short(got.Interface()))
			return
		}
		for i := 0; i < want.Len(); i++ {
			d.value(path+"[]", want.Index(i), got.Index(i))
		}
	case reflect.Map:
		if want.Len() == 0 && got.Len() == 0 {
			d.nilFlip(path, want.IsNil(), got.IsNil())
			return
		}
		if want.Len() != got.Len() {
			d.add(path, "map with %d entries was read back with %d entries", want.Len(), got.Len())
		}
		it := want.MapRange()
		for it.Next() {
			gv := got.MapIndex(it.Key())
			if !gv.IsValid() {
				d.add(path+"[key]", "key %s is missing after reload", short(it.Key().Interface()))
				continue
			}
			d.value(path+"[]", it.Value(), gv)
		}
	case reflect.String:
		if want.String() != got.String() {
			d.add(path, "string %s was read back as %s", short(want.String()), short(got.String()))
		}
	case reflect.Int, reflect.Int8, reflect.Int16, reflect.Int32, reflect.Int64:
		if want.Int() != got.Int() {
			d.add(path, "%d was read back as %d", want.Int(), got.Int())
		}
	default:
		if !reflect.DeepEqual(want.Interface(), got.Interface()) {
			d.add(path, "%s was read back as %s", short(want.Interface()), short(got.Interface()))
		}
	}
}

func (d *differ) nilFlip(path string, wantNil, gotNil bool) {
	if wantNil == gotNil {
		return
	}
	if strictNil[path] {
		d.add(path+"(nil-vs-empty)", "nil=%v was read back as nil=%v", wantNil, gotNil)
		return
	}
	if d.flips == nil {
		d.flips = map[string]bool{}
	}
	d.flips[path] = true
}

// expectedStatus is the documented exception of pipeline.Service.Init: a pipeline
// stored as running is loaded as system-stopped (= "to be resumed").
func expectedStatus(stored pipeline.Status) pipeline.Status {
	if stored == pipeline.StatusRunning {
		return pipeline.StatusSystemStopped
	}
	return stored
}

// compareServices compares every instance of prev (in memory) with what next loaded.
// clause is the key segment: "roundtrip" or "regen".
func compareServices(clause string, prev, next *services) (viol []violation, flips map[string]bool) {
	ctx := context.Background()
	flips = map[string]bool{}
	d := &differ{flips: flips}
	emit := func() {
		for _, v := range d.diffs {
			viol = append(viol, violation{Key: prop + "/" + clause + "/" + v.Key, Detail: v.Detail})
		}
		d.diffs = nil
	}
	keys := func(m reflect.Value) []string {
		var out []string
		for _, k := range m.MapKeys() {
			out = append(out, k.String())
		}
		sort.Strings(out)
		return out
	}
	sets := func(entity string, want, got reflect.Value, each func(id string)) {
		for _, id := range keys(want) {
			if !got.MapIndex(reflect.ValueOf(id)).IsValid() {
				viol = append(viol, violation{prop + "/" + clause + "/" + entity + "(missing)", fmt.Sprintf("%s %q is not loaded after restart", entity, id)})
				continue
			}
			each(id)
		}
		for _, id := range keys(got) {
			if !want.MapIndex(reflect.ValueOf(id)).IsValid() {
				viol = append(viol, violation{prop + "/" + clause + "/" + entity + "(extra)", fmt.Sprintf("%s %q appears after restart but was never stored", entity, id)})
			}
		}
	}

	wp, gp := prev.procs.List(ctx), next.procs.List(ctx)
	sets("processor", reflect.ValueOf(wp), reflect.ValueOf(gp), func(id string) {
		d.value("processor", reflect.ValueOf(wp[id]).Elem(), reflect.ValueOf(gp[id]).Elem())
		emit()
	})
	wc, gc := prev.conns.List(ctx), next.conns.List(ctx)
	sets("connector", reflect.ValueOf(wc), reflect.ValueOf(gc), func(id string) {
		d.value("connector", reflect.ValueOf(wc[id]).Elem(), reflect.ValueOf(gc[id]).Elem())
		emit()
	})
	wl, gl := prev.pipes.List(ctx), next.pipes.List(ctx)
	if wl == nil {
		wl = map[string]*pipeline.Instance{}
	}
	if gl == nil {
		gl = map[string]*pipeline.Instance{}
	}
	sets("pipeline", reflect.ValueOf(wl), reflect.ValueOf(gl), func(id string) {
		d.value("pipeline", reflect.ValueOf(wl[id]).Elem(), reflect.ValueOf(gl[id]).Elem())
		emit()
		want, got := expectedStatus(wl[id].GetStatus()), gl[id].GetStatus()
		if want != got {
			key := prop + "/" + clause + "/pipeline.status"
			if wl[id].GetStatus() == pipeline.StatusRunning {
				key = prop + "/" + clause + "/pipeline.status(running-not-resumable)"
			}
			viol = append(viol, violation{key, fmt.Sprintf("pipeline %q stored with status %s was loaded as %s, expected %s", id, wl[id].GetStatus(), got, want)})
		}
	})
	return viol, flips
}

func sortedKeys(m map[string]bool) []string {
	out := make([]string, 0, len(m))
	for k := range m {
		out = append(out, k)
	}
	sort.Strings(out)
	return out
}
