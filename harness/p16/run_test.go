package p16

import (
	"strconv"
	"context"
	"encoding/json"
	"fmt"
	"runtime"
	"sort"
	"strings"
	"sync"
	"sync/atomic"
	"time"

	"github.com/conduitio/conduit-commons/database"
	"github.com/conduitio/conduit/pkg/foundation/cerrors/conduiterr"
	"github.com/conduitio/conduit/pkg/pipeline"
	"github.com/conduitio/conduit/pkg/provisioning"
	"github.com/conduitio/conduit/pkg/provisioning/config"
	"verifharness/lab"
)

const otherID = "lab-other"

// ---------------------------------------------------------------- case

type applyReq struct {
	AtStep   int      `json:"at_step"`
	Kinds    []string `json:"kinds"`
	Desired  pipeM    `json:"desired"`
	HashMode string   `json:"hash_mode"` // fresh | early | other
	Allow    bool     `json:"allow"`
	// Twin: a second ApplyPlanLive issued at the same moment (hashes of both come from
	// Plans made right before the two calls are issued).
	Twin *twinReq `json:"twin,omitempty"`
}

type twinReq struct {
	Other   bool     `json:"other_pipeline,omitempty"` // targets the second (never started) pipeline
	Kinds   []string `json:"kinds"`
	Desired pipeM    `json:"desired"`
	Allow   bool     `json:"allow"`
}

type faultPlan struct {
	Kind   string `json:"kind,omitempty"` // "" | set | commit | src-open | proc-open | stop-flush | proc-slow-open
	Ms     int    `json:"ms,omitempty"`   // proc-slow-open: how long the Open takes
	Index  int    `json:"index,omitempty"`
	Prefix string `json:"prefix,omitempty"` // key prefix of the store writes the set fault counts
	Comp   string `json:"comp,omitempty"`   // the plugin whose Open fails (documentation only, the script is in Lab)
}

type c16Case struct {
	Lab      *lab.Case  `json:"lab"`
	Old      pipeM      `json:"old"`
	OtherOld *pipeM     `json:"other_old,omitempty"`
	Reqs     []applyReq `json:"reqs"`
	Fault    faultPlan  `json:"fault"`
}

// ---------------------------------------------------------------- wrappers that tag the history

type tagKey struct{}

func tagOf(ctx context.Context) string {
	if s, ok := ctx.Value(tagKey{}).(string); ok {
		return s
	}
	return "untagged"
}

// provDB is the database.DB handed to the provisioning service: the world's
// FaultDB plus (a) a history note for every import transaction and (b) the
// scripted import fault, armed exactly when the targeted apply opens its first
// import transaction (so that it cannot hit a status write or a position flush).
type provDB struct {
	*lab.FaultDB
	w *lab.World

	mu       sync.Mutex
	fault    faultPlan
	faultTag string
	prefix   string
	used     bool
	Injected int32 // commit failures injected by the wrapper
}

type provTxn struct {
	database.Transaction
	d          *provDB
	tag        string
	failCommit bool
	armedSet   bool
	finished   bool
}

func (d *provDB) NewTransaction(ctx context.Context, update bool) (database.Transaction, context.Context, error) {
	tag := tagOf(ctx)
	d.w.Log.N(lab.EvNote, tag, 0, "import-txn-begin")
	t := &provTxn{d: d, tag: tag}
	d.mu.Lock()
	if !d.used && tag == d.faultTag {
		switch d.fault.Kind {
		case "set":
			d.used = true
			t.armedSet = true
			d.FaultDB.Arm(lab.Fault{Kind: lab.FaultSet, Index: d.fault.Index, KeyPrefix: d.prefix})
		case "commit":
			d.used = true
			t.failCommit = true
		}
	}
	d.mu.Unlock()
	txn, tctx, err := d.FaultDB.NewTransaction(ctx, update)
	if err != nil {
		return nil, ctx, err
	}
	t.Transaction = txn
	return t, tctx, nil
}

func (t *provTxn) Commit() error {
	if t.armedSet {
		t.d.FaultDB.Disarm()
	}
	if t.finished {
		return nil
	}
	t.finished = true
	if t.failCommit {
		t.Transaction.Discard()
		atomic.AddInt32(&t.d.Injected, 1)
		t.d.w.Log.N(lab.EvNote, t.tag, 0, "import-txn-commit injected-failure")
		return lab.ErrInjected
	}
	err := t.Transaction.Commit()
	if err != nil {
		t.d.w.Log.N(lab.EvNote, t.tag, 0, "import-txn-commit failed")
	} else {
		t.d.w.Log.N(lab.EvNote, t.tag, 0, "import-txn-commit ok")
	}
	return err
}

func (t *provTxn) Discard() {
	if t.armedSet {
		t.d.FaultDB.Disarm()
	}
	if !t.finished {
		t.finished = true
		t.d.w.Log.N(lab.EvNote, t.tag, 0, "import-txn-discard")
	}
	t.Transaction.Discard()
}

// lifeAdapter is the provisioning.LifecycleService: the selected engine plus history notes.
type lifeAdapter struct {
	w   *lab.World
	eng provisioning.LifecycleService
	// failFlush: fault kind "stop-flush"
	failFlush  bool
	flushArmed bool
}

func (l *lifeAdapter) note(ctx context.Context, what string, err error) {
	info := what
	if err != nil {
		info += " err: " + err.Error()
		if len(info) > 300 {
			info = info[:300]
		}
	}
	l.w.Log.N(lab.EvNote, tagOf(ctx), 0, info)
}

func (l *lifeAdapter) Start(ctx context.Context, id string) error {
	l.note(ctx, "life.start.call", nil)
	err := l.eng.Start(ctx, id)
	l.note(ctx, "life.start.ret", err)
	return err
}

func (l *lifeAdapter) Stop(ctx context.Context, id string, force bool) error {
	l.note(ctx, "life.stop.call", nil)
	err := l.eng.Stop(ctx, id, force)
	l.note(ctx, "life.stop.ret", err)
	return err
}

func (l *lifeAdapter) StopAndWait(ctx context.Context, id string) error {
	l.note(ctx, "life.stopandwait.call", nil)
	if l.failFlush && !l.flushArmed && tagOf(ctx) == "apply#0" {
		// scripted failure of the stop: the next position flush of the drain cannot be committed
		l.flushArmed = true
		before := l.w.DB.Fired
		l.w.DB.Arm(lab.Fault{Kind: lab.FaultCommit, Index: 0})
		defer func() {
			l.w.DB.Disarm()
			if l.w.DB.Fired > before {
				l.w.Log.N(lab.EvNote, tagOf(ctx), 0, "stop-flush-fault fired")
			}
		}()
	}
	err := l.eng.StopAndWait(ctx, id)
	l.note(ctx, "life.stopandwait.ret", err)
	return err
}

func (l *lifeAdapter) ReconfigureProcessor(ctx context.Context, id, proc string) error {
	l.note(ctx, "life.reconfigure.call "+proc, nil)
	err := l.eng.ReconfigureProcessor(ctx, id, proc)
	l.note(ctx, "life.reconfigure.ret "+proc, err)
	return err
}

// ---------------------------------------------------------------- observations

// post is the state right after a call returned and no other apply for the same
// pipeline was outstanding.
type post struct {
	Export    string // normalised Export(id), "" if the export failed
	ExportErr string
	Mem       map[string]string // entity -> exported fields, in memory
	Store     map[string][]byte // copy of the store
}

type call struct {
	Tag      string
	Req      int
	Twin     bool
	Pipeline string
	Kinds    []string
	Desired  pipeM
	DesNorm  string
	Allow    bool
	HashMode string
	Hash     string

	// computed by the harness right before the call (no apply outstanding)
	TruthHash    string
	TruthEmpty   bool
	TruthLive    bool
	TruthChanges []provisioning.Change
	StatusBefore pipeline.Status
	ExportBefore string
	DocsBefore   map[string]string
	Overlapped   bool // another apply for the same pipeline was issued at the same moment

	// filled by the call goroutine, readable after done is closed
	done        chan struct{}
	Err         error
	ErrCode     string
	Mode        provisioning.ApplyMode
	StatusAfter pipeline.Status
	Post        *post

	// filled from the history
	CallIdx, RetIdx int
}

func (c *call) returned() bool {
	select {
	case <-c.done:
		return true
	default:
		return false
	}
}

type result struct {
	Case         *c16Case
	World        *lab.World
	Events       []lab.Event
	ProvisionErr error
	StartErr     error
	Calls        []*call
	Wedged       bool
	WedgeInfo    string
	Stacks       string
	Inconclusive string
	FinalStatus  pipeline.Status
	FinalErr     string
	FinalExport  map[string]string // pipeline id -> normalised export at the end
	Steps        int
	FinalStopOK  bool
	Elapsed      time.Duration
}

func isTerminal(st pipeline.Status) bool {
	return st == pipeline.StatusUserStopped || st == pipeline.StatusSystemStopped || st == pipeline.StatusDegraded
}

func isRunningStatus(st pipeline.Status) bool {
	return st == pipeline.StatusRunning || st == pipeline.StatusRecovering || st == pipeline.StatusDegraded
}

// memSnapshot lists the exported fields of every entity of one pipeline held in
// memory by the services of w (no timestamps, no connector state, no status).
func memSnapshot(w *lab.World, id string) map[string]string {
	ctx := context.Background()
	js := func(v any) string { b, _ := json.Marshal(v); return string(b) }
	strs := func(s []string) []string {
		if s == nil {
			return []string{}
		}
		return s
	}
	out := map[string]string{}
	for pid, p := range w.Pipelines.List(ctx) {
		if pid != id {
			continue
		}
		out["pipeline:"+pid] = js(map[string]any{"ID": p.ID, "Name": p.Config.Name, "Description": p.Config.Description,
			"ProvisionedBy": int(p.ProvisionedBy), "DLQPlugin": p.DLQ.Plugin, "DLQSettings": nonNil(p.DLQ.Settings),
			"DLQWin": p.DLQ.WindowSize, "DLQThr": p.DLQ.WindowNackThreshold,
			"ConnectorIDs": strs(p.ConnectorIDs), "ProcessorIDs": strs(p.ProcessorIDs)})
	}
	for cid, c := range w.Connectors.List(ctx) {
		if c.PipelineID != id {
			continue
		}
		out["connector:"+cid] = js(map[string]any{"ID": c.ID, "Type": c.Type.String(), "Name": c.Config.Name, "Settings": nonNil(c.Config.Settings),
			"PipelineID": c.PipelineID, "Plugin": c.Plugin, "ProcessorIDs": strs(c.ProcessorIDs), "ProvisionedBy": int(c.ProvisionedBy)})
	}
	for pid, p := range w.Processors.List(ctx) {
		if !strings.HasPrefix(pid, id+":") {
			continue
		}
		out["processor:"+pid] = js(map[string]any{"ID": p.ID, "Plugin": p.Plugin, "Condition": p.Condition, "ParentID": p.Parent.ID,
			"ParentType": p.Parent.Type.String(), "Settings": nonNil(p.Config.Settings), "Workers": p.Config.Workers, "ProvisionedBy": int(p.ProvisionedBy)})
	}
	return out
}

// configDocs extracts the stored configuration documents of one pipeline from a
// store snapshot: pipeline / connector / processor documents decoded as JSON
// without the fields ordinary record flow and status changes rewrite
// (connector State, pipeline Status/Error, timestamps).
func configDocs(store map[string][]byte, id string) map[string]string {
	out := map[string]string{}
	for k, v := range store {
		var keep bool
		switch {
		case k == "pipeline:instance:"+id:
			keep = true
		case strings.HasPrefix(k, "connector:instance:"+id+":"), strings.HasPrefix(k, "processor:instance:"+id+":"):
			keep = true
		}
		if !keep {
			continue
		}
		var m map[string]any
		if json.Unmarshal(v, &m) != nil {
			out[k] = "undecodable:" + string(v)
			continue
		}
		for _, f := range []string{"State", "Status", "Error", "CreatedAt", "UpdatedAt", "LastActiveConfig"} {
			delete(m, f)
		}
		b, _ := json.Marshal(m)
		out[k] = string(b)
	}
	return out
}

func diffDocs(a, b map[string]string) string {
	keys := map[string]bool{}
	for k := range a {
		keys[k] = true
	}
	for k := range b {
		keys[k] = true
	}
	var ks []string
	for k := range keys {
		ks = append(ks, k)
	}
	sort.Strings(ks)
	var sb strings.Builder
	for _, k := range ks {
		x, inA := a[k]
		y, inB := b[k]
		switch {
		case !inA:
			fmt.Fprintf(&sb, "%s added; ", k)
		case !inB:
			fmt.Fprintf(&sb, "%s removed; ", k)
		case x != y:
			fmt.Fprintf(&sb, "%s: %s -> %s; ", k, trunc(x, 200), trunc(y, 200))
		}
	}
	return sb.String()
}

func trunc(s string, n int) string {
	if len(s) > n {
		return s[:n] + "..."
	}
	return s
}

func errCode(err error) string {
	if err == nil {
		return ""
	}
	if ce, ok := conduiterr.Get(err); ok {
		return ce.Code.Reason()
	}
	return "uncoded"
}

// ---------------------------------------------------------------- the run

type exec struct {
	cs    *c16Case
	w     *lab.World
	prov  *provisioning.Service
	pdb   *provDB
	res   *result
	early map[string]string // tag -> hash planned before the first request was issued

	outstanding int32 // control calls issued by this harness that have not returned
	applies     int32 // outstanding ApplyPlanLive calls (all pipelines)
	mu          sync.Mutex
	posts       map[int]map[string]*post // request -> pipeline id -> state once no apply is outstanding
	groupPids   map[int][]string
}

// callAsync issues a control call on its own goroutine and records call/return in the history
// (lab.Runner.Call is not used for them: it reads the pipeline's error field without a lock,
// which races with a status write of a run that another outstanding call is stopping).
func (x *exec) callAsync(tag string, done chan struct{}, f func(ctx context.Context) error) {
	atomic.AddInt32(&x.outstanding, 1)
	x.w.Log.Add(lab.Event{Kind: lab.EvCtlCall, Comp: tag, Src: -1, Seq: -1})
	go func() {
		err := f(context.Background())
		info := ""
		if err != nil {
			info = trunc(err.Error(), 300)
		}
		x.w.Log.Add(lab.Event{Kind: lab.EvCtlRet, Comp: tag, Src: -1, Seq: -1, OK: err == nil, Info: info})
		atomic.AddInt32(&x.outstanding, -1)
		close(done)
	}()
}

func (x *exec) status() pipeline.Status {
	p, err := x.w.Pipelines.Get(context.Background(), lab.PipelineID)
	if err != nil {
		return 0
	}
	return p.GetStatus()
}

func exportNorm(prov *provisioning.Service, id string) (string, error) {
	cfg, err := prov.Export(context.Background(), id)
	if err != nil {
		return "", err
	}
	return normalise(cfg), nil
}

// prepare computes what the harness knows right before a call is issued.
func (x *exec) prepare(c *call, desired config.Pipeline) error {
	ctx := context.Background()
	truth, err := x.prov.Plan(ctx, desired)
	if err != nil {
		return fmt.Errorf("plan: %w", err)
	}
	c.TruthHash, c.TruthEmpty, c.TruthLive, c.TruthChanges = truth.Hash, truth.Empty(), truth.LiveEligible(), truth.Changes
	if p, err := x.w.Pipelines.Get(ctx, c.Pipeline); err == nil {
		c.StatusBefore = p.GetStatus()
	}
	c.ExportBefore, _ = exportNorm(x.prov, c.Pipeline)
	c.DocsBefore = configDocs(x.w.DB.Current(), c.Pipeline)
	return nil
}

func (x *exec) launch(c *call, desired config.Pipeline) {
	atomic.AddInt32(&x.applies, 1)
	c.done = make(chan struct{})
	x.res.Calls = append(x.res.Calls, c)
	x.callAsync(c.Tag, c.done, func(ctx context.Context) error {
		ctx = context.WithValue(ctx, tagKey{}, c.Tag)
		diff, err := x.prov.ApplyPlanLive(ctx, desired, c.Hash, c.Allow)
		c.Err, c.ErrCode, c.Mode = err, errCode(err), diff.AppliedMode
		if p, gerr := x.w.Pipelines.Get(ctx, c.Pipeline); gerr == nil {
			c.StatusAfter = p.GetStatus()
		}
		if atomic.AddInt32(&x.applies, -1) == 0 {
			// no apply is outstanding any more: look at the state of every pipeline of this request
			x.mu.Lock()
			pids := x.groupPids[c.Req]
			x.mu.Unlock()
			store := x.w.DB.Current()
			got := map[string]*post{}
			for _, pid := range pids {
				p := &post{Store: store}
				exp, eerr := exportNorm(x.prov, pid)
				p.Export = exp
				if eerr != nil {
					p.ExportErr = eerr.Error()
				}
				p.Mem = memSnapshot(x.w, pid)
				got[pid] = p
			}
			x.mu.Lock()
			x.posts[c.Req] = got
			x.mu.Unlock()
		}
		return err
	})
}

// issue issues request i (and its twin).
func (x *exec) issue(i int) error {
	rq := x.cs.Reqs[i]
	ctx := context.Background()
	mk := func(tag, pid string, twin bool, kinds []string, m pipeM, allow bool, mode string) (*call, config.Pipeline, error) {
		d, err := m.toConfig(pid)
		if err != nil {
			return nil, d, err
		}
		c := &call{Tag: tag, Req: i, Twin: twin, Pipeline: pid, Kinds: kinds, Desired: m, DesNorm: normalise(d), Allow: allow, HashMode: mode}
		if err := x.prepare(c, d); err != nil {
			return nil, d, err
		}
		switch mode {
		case "early":
			c.Hash = x.early[tag]
		case "other":
			o := m.clone()
			o.Desc += "-reviewed-elsewhere"
			od, err := o.toConfig(pid)
			if err != nil {
				return nil, d, err
			}
			diff, err := x.prov.Plan(ctx, od)
			if err != nil {
				return nil, d, err
			}
			c.Hash = diff.Hash
		default:
			c.Hash = c.TruthHash
		}
		return c, d, nil
	}
	main, md, err := mk(fmt.Sprintf("apply#%d", i), lab.PipelineID, false, rq.Kinds, rq.Desired, rq.Allow, rq.HashMode)
	if err != nil {
		return err
	}
	var twin *call
	var td config.Pipeline
	if rq.Twin != nil {
		pid := lab.PipelineID
		if rq.Twin.Other {
			pid = otherID
		}
		twin, td, err = mk(fmt.Sprintf("apply#%d-twin", i), pid, true, rq.Twin.Kinds, rq.Twin.Desired, rq.Twin.Allow, "fresh")
		if err != nil {
			return err
		}
		if !rq.Twin.Other {
			main.Overlapped, twin.Overlapped = true, true
		}
	}
	pids := []string{main.Pipeline}
	if twin != nil && twin.Pipeline != main.Pipeline {
		pids = append(pids, twin.Pipeline)
	}
	x.mu.Lock()
	x.groupPids[i] = pids
	x.mu.Unlock()
	// both calls are counted before either can finish, so that the state is looked at only
	// once both have returned
	atomic.AddInt32(&x.applies, 1)
	x.launch(main, md)
	if twin != nil {
		x.launch(twin, td)
	}
	if atomic.AddInt32(&x.applies, -1) == 0 {
		// (both already returned: cannot happen before launch returned the goroutines' results,
		// but keep the invariant that somebody takes the snapshot)
		x.mu.Lock()
		_, ok := x.posts[i]
		x.mu.Unlock()
		if !ok {
			store := x.w.DB.Current()
			got := map[string]*post{}
			for _, pid := range pids {
				p := &post{Store: store}
				p.Export, _ = exportNorm(x.prov, pid)
				p.Mem = memSnapshot(x.w, pid)
				got[pid] = p
			}
			x.mu.Lock()
			x.posts[i] = got
			x.mu.Unlock()
		}
	}
	return nil
}

// planEarly computes, before the first request is issued, the hash of every request's plan.
func (x *exec) planEarly() error {
	for i, rq := range x.cs.Reqs {
		d, err := rq.Desired.toConfig(lab.PipelineID)
		if err != nil {
			return err
		}
		diff, err := x.prov.Plan(context.Background(), d)
		if err != nil {
			return err
		}
		x.early[fmt.Sprintf("apply#%d", i)] = diff.Hash
	}
	return nil
}

func runC16(cs *c16Case, pick func(n int) int) *result {
	begin := time.Now()
	c := cs.Lab
	w := lab.NewWorld(c, nil, nil)
	res := &result{Case: cs, World: w, FinalExport: map[string]string{}}
	ctx := context.Background()

	pdb := &provDB{FaultDB: w.DB, w: w, fault: cs.Fault, faultTag: "apply#0", prefix: cs.Fault.Prefix}
	var eng provisioning.LifecycleService = w.V1
	if c.Engine == "v2" {
		eng = w.V2
	}
	if cs.Fault.Kind == "proc-slow-open" {
		// the Open of one new processor generation takes longer than any time-bounded fall-back
		// around the swap; it succeeds in the end
		slowComp, slowGen, slowFor := cs.Fault.Comp, strconv.Itoa(cs.Fault.Index), time.Duration(cs.Fault.Ms)*time.Millisecond
		w.Hooks.OnProcOpen = func(comp, gen string) {
			if comp == slowComp && gen == slowGen {
				w.Log.Add(lab.Event{Kind: lab.EvNote, Comp: comp, Src: -1, Seq: -1, Gen: gen, Info: "slow-open begins"})
				time.Sleep(slowFor)
				w.Log.Add(lab.Event{Kind: lab.EvNote, Comp: comp, Src: -1, Seq: -1, Gen: gen, Info: "slow-open ends"})
			}
		}
	}
	life := &lifeAdapter{w: w, eng: eng, failFlush: cs.Fault.Kind == "stop-flush"}
	prov := provisioning.NewService(pdb, w.Logger, w.Pipelines, w.Connectors, w.Processors, w.Plugins, life, "")
	x := &exec{cs: cs, w: w, prov: prov, pdb: pdb, res: res, early: map[string]string{}, posts: map[int]map[string]*post{}, groupPids: map[int][]string{}}

	finish := func() *result {
		res.Events = w.Log.Snapshot()
		res.Elapsed = time.Since(begin)
		return res
	}

	// initial import through the provisioning service, before anything runs
	initial := []struct {
		id string
		m  *pipeM
	}{{lab.PipelineID, &cs.Old}, {otherID, cs.OtherOld}}
	for _, in := range initial {
		if in.m == nil {
			continue
		}
		d, err := in.m.toConfig(in.id)
		if err != nil {
			res.ProvisionErr = err
			return finish()
		}
		ictx := context.WithValue(ctx, tagKey{}, "provision")
		diff, err := prov.Plan(ictx, d)
		if err == nil {
			_, err = prov.ApplyPlan(ictx, d, diff.Hash)
		}
		if err != nil {
			res.ProvisionErr = fmt.Errorf("initial import of %s: %w", in.id, err)
			return finish()
		}
	}
	defer w.Close()

	startDone := make(chan struct{})
	var startErr error
	x.callAsync("start", startDone, func(ctx context.Context) error {
		startErr = w.Engine().Start(ctx, lab.PipelineID)
		return startErr
	})
	started := func() bool {
		select {
		case <-startDone:
			return true
		default:
			return false
		}
	}

	idle := 12 * time.Millisecond
	if d := time.Duration(3*c.PersistDelayMs) * time.Millisecond; d > idle {
		idle = d
	}
	// Bounded quiescence (R3): the verdict "never returns" needs a silence far above every engine
	// timer in play. arch-v2 bounds its StopAndWait by DefaultStopAndWaitTimeout (30 s) and then
	// returns a coded error, so only a longer silence proves a wedge there.
	// The default engine's source teardown waits up to connector.DefaultTeardownFlushTimeout (10 s)
	// for a flush; 25 s is above that too.
	quiet := 25 * time.Second
	if c.Engine == "v2" {
		quiet = 40 * time.Second
	}
	if lab.Quiet > quiet {
		quiet = lab.Quiet
	}
	maxSteps := 60*c.TotalRecords() + 800
	next := 0
	earlyDone := false
	finalStops := 0
	silentSince := time.Now()
	lastAct := w.Log.Activity()
	step := 0
	allReturned := func() bool {
		for _, cl := range res.Calls {
			if !cl.returned() {
				return false
			}
		}
		return true
	}
	tryIssue := func() bool {
		if next >= len(cs.Reqs) || !started() || startErr != nil || !allReturned() {
			return false
		}
		if !earlyDone {
			earlyDone = true
			if err := x.planEarly(); err != nil {
				res.Inconclusive = "harness plan failed: " + err.Error()
				next = len(cs.Reqs)
				return false
			}
		}
		if err := x.issue(next); err != nil {
			res.Inconclusive = "harness plan failed: " + err.Error()
			next = len(cs.Reqs)
			return false
		}
		next++
		return true
	}
	for {
		if next < len(cs.Reqs) && cs.Reqs[next].AtStep <= step {
			tryIssue()
		}
		settled := w.Sched.WaitSettled(w.Log, lab.Settle, idle)
		if act := w.Log.Activity(); act != lastAct {
			lastAct = act
			silentSince = time.Now()
		}
		if settled {
			w.Sched.Release(pick)
			step++
			if step > maxSteps {
				res.Inconclusive = fmt.Sprintf("step budget %d exhausted", maxSteps)
				break
			}
			continue
		}
		// idle: nothing pending, nothing logged for `idle`
		st := x.status()
		out := int(atomic.LoadInt32(&x.outstanding))
		if next < len(cs.Reqs) && started() && startErr == nil && allReturned() {
			if tryIssue() {
				silentSince = time.Now()
				continue
			}
		}
		if out == 0 && next >= len(cs.Reqs) || (started() && startErr != nil && out == 0) {
			if started() && startErr != nil && !isTerminal(st) && st != pipeline.StatusRunning && st != pipeline.StatusRecovering {
				break // never started
			}
			if isTerminal(st) {
				break
			}
			if (st == pipeline.StatusRunning || st == pipeline.StatusRecovering) && finalStops < 6 {
				finalStops++
				// end of script: drain the pipeline with a graceful stop
				x.callAsync("stopwait", make(chan struct{}), func(ctx context.Context) error {
					eng := w.Engine()
					if err := eng.Stop(ctx, lab.PipelineID, false); err != nil {
						return err
					}
					err := eng.WaitPipeline(lab.PipelineID)
					w.Connectors.WaitPersisted()
					return err
				})
				silentSince = time.Now()
				continue
			}
		}
		if time.Since(silentSince) > quiet {
			res.Wedged = true
			res.Stacks = conduitStacks()
			res.WedgeInfo = fmt.Sprintf("no event for %s; status=%s outstanding=%d pending=%v", quiet, st, out, w.Sched.PendingLabels())
			break
		}
	}
	res.Steps = step
	c.Choices = w.Sched.Choices
	w.Sched.SetFree()
	if !res.Wedged {
		done := make(chan struct{})
		go func() { w.Connectors.WaitPersisted(); close(done) }()
		select {
		case <-done:
		case <-time.After(2 * time.Second):
		}
	}
	if started() {
		res.StartErr = startErr
	}
	res.FinalStatus = x.status() // (the error text is not read: the field is written without a lock by a run that is still failing)
	if !res.Wedged && atomic.LoadInt32(&x.outstanding) == 0 {
		for _, id := range []string{lab.PipelineID, otherID} {
			if e, err := exportNorm(prov, id); err == nil {
				res.FinalExport[id] = e
			}
		}
	}
	res.Events = w.Log.Snapshot()
	x.mu.Lock()
	for _, cl := range res.Calls {
		if cl.returned() {
			cl.Post = x.posts[cl.Req][cl.Pipeline]
		}
	}
	x.mu.Unlock()
	for _, cl := range res.Calls {
		cl.CallIdx, cl.RetIdx = -1, -1
		for i, e := range res.Events {
			if e.Comp != cl.Tag {
				continue
			}
			if e.Kind == lab.EvCtlCall {
				cl.CallIdx = i
			}
			if e.Kind == lab.EvCtlRet {
				cl.RetIdx = i
			}
		}
	}
	// did the harness' final graceful stop succeed?
	for i, e := range res.Events {
		if e.Kind == lab.EvCtlRet && e.Comp == "stopwait" && e.OK {
			res.FinalStopOK = true
			_ = i
		}
	}
	res.Elapsed = time.Since(begin)
	return res
}

// conduitStacks returns the stacks of all goroutines that are inside Conduit code.
func conduitStacks() string {
	buf := make([]byte, 4<<20)
	n := runtime.Stack(buf, true)
	var out []string
	for _, g := range strings.Split(string(buf[:n]), "\n\n") {
		if strings.Contains(g, "conduitio/conduit/pkg/lifecycle") || strings.Contains(g, "conduitio/conduit/pkg/connector") ||
			strings.Contains(g, "conduitio/conduit/pkg/provisioning") {
			out = append(out, g)
		}
	}
	return strings.Join(out, "\n\n")
}
