package p16

import (
	"context"
	"encoding/json"
	"fmt"
	"runtime"
	"sort"
	"strings"
	"sync"
	"sync/atomic"
	"time"

	"github.com/conduitio/conduit-commons/database"
	"github.com/conduitio/conduit/pkg/foundation/cerrors/conduiterr"
	"github.com/conduitio/conduit/pkg/pipeline"
	"github.com/conduitio/conduit/pkg/provisioning"
	"github.com/conduitio/conduit/pkg/provisioning/config"
	"verifharness/lab"
)

const otherID = "lab-other"

// ---------------------------------------------------------------- case

type applyReq struct {
	AtStep   int      `json:"at_step"`
	Kinds    []string `json:"kinds"`
	Desired  pipeM    `json:"desired"`
	HashMode string   `json:"hash_mode"` // fresh | early | other
	Allow    bool     `json:"allow"`
	// Twin: a second ApplyPlanLive issued at the same moment (hashes of both come from
	// Plans made right before the two calls are issued).
	Twin *twinReq `json:"twin,omitempty"`
}

type twinReq struct {
	Other   bool     `json:"other_pipeline,omitempty"` // targets the second (never started) pipeline
	Kinds   []string `json:"kinds"`
	Desired pipeM    `json:"desired"`
	Allow   bool     `json:"allow"`
}

type faultPlan struct {
	Kind   string `json:"kind,omitempty"` // "" | set | commit | src-open | proc-open
	Index  int    `json:"index,omitempty"`
	Prefix string `json:"prefix,omitempty"` // key prefix of the store writes the set fault counts
	Comp   string `json:"comp,omitempty"`   // the plugin whose Open fails (documentation only, the script is in Lab)
}

type c16Case struct {
	Lab      *lab.Case  `json:"lab"`
	Old      pipeM      `json:"old"`
	OtherOld *pipeM     `json:"other_old,omitempty"`
	Reqs     []applyReq `json:"reqs"`
	Fault    faultPlan  `json:"fault"`
}

// ---------------------------------------------------------------- wrappers that tag the history

type tagKey struct{}

func tagOf(ctx context.Context) string {
	if s, ok := ctx.Value(tagKey{}).(string); ok {
		return s
	}
	return "untagged"
}

// provDB is the database.DB handed to the provisioning service: the world's
// FaultDB plus (a) a history note for every import transaction and (b) the
// scripted import fault, armed exactly when the targeted apply opens its first
// import transaction (so that it cannot hit a status write or a position flush).
type provDB struct {
	*lab.FaultDB
	w *lab.World

	mu       sync.Mutex
	fault    faultPlan
	faultTag string
	prefix   string
	used     bool
	Injected int32 // commit failures injected by the wrapper
}

type provTxn struct {
	database.Transaction
	d          *provDB
	tag        string
	failCommit bool
	armedSet   bool
	finished   bool
}

func (d *provDB) NewTransaction(ctx context.Context, update bool) (database.Transaction, context.Context, error) {
	tag := tagOf(ctx)
	d.w.Log.N(lab.EvNote, tag, 0, "import-txn-begin")
	t := &provTxn{d: d, tag: tag}
	d.mu.Lock()
	if !d.used && tag == d.faultTag {
		switch d.fault.Kind {
		case "set":
			d.used = true
			t.armedSet = true
			d.FaultDB.Arm(lab.Fault{Kind: lab.FaultSet, Index: d.fault.Index, KeyPrefix: d.prefix})
		case "commit":
			d.used = true
			t.failCommit = true
		}
	}
	d.mu.Unlock()
	txn, tctx, err := d.FaultDB.NewTransaction(ctx, update)
	if err != nil {
		return nil, ctx, err
	}
	t.Transaction = txn
	return t, tctx, nil
}

func (t *provTxn) Commit() error {
	if t.armedSet {
		t.d.FaultDB.Disarm()
	}
	if t.finished {
		return nil
	}
	t.finished = true
	if t.failCommit {
		t.Transaction.Discard()
		atomic.AddInt32(&t.d.Injected, 1)
		t.d.w.Log.N(lab.EvNote, t.tag, 0, "import-txn-commit injected-failure")
		return lab.ErrInjected
	}
	err := t.Transaction.Commit()
	if err != nil {
		t.d.w.Log.N(lab.EvNote, t.tag, 0, "import-txn-commit failed")
	} else {
		t.d.w.Log.N(lab.EvNote, t.tag, 0, "import-txn-commit ok")
	}
	return err
}

func (t *provTxn) Discard() {
	if t.armedSet {
		t.d.FaultDB.Disarm()
	}
	if !t.finished {
		t.finished = true
		t.d.w.Log.N(lab.EvNote, t.tag, 0, "import-txn-discard")
	}
	t.Transaction.Discard()
}

// lifeAdapter is the provisioning.LifecycleService: the selected engine plus history notes.
type lifeAdapter struct {
	w   *lab.World
	eng provisioning.LifecycleService
}

func (l *lifeAdapter) note(ctx context.Context, what string, err error) {
	info := what
	if err != nil {
		info += " err: " + err.Error()
		if len(info) > 300 {
			info = info[:300]
		}
	}
	l.w.Log.N(lab.EvNote, tagOf(ctx), 0, info)
}

func (l *lifeAdapter) Start(ctx context.Context, id string) error {
	l.note(ctx, "life.start.call", nil)
	err := l.eng.Start(ctx, id)
	l.note(ctx, "life.start.ret", err)
	return err
}

func (l *lifeAdapter) Stop(ctx context.Context, id string, force bool) error {
	l.note(ctx, "life.stop.call", nil)
	err := l.eng.Stop(ctx, id, force)
	l.note(ctx, "life.stop.ret", err)
	return err
}

func (l *lifeAdapter) StopAndWait(ctx context.Context, id string) error {
	l.note(ctx, "life.stopandwait.call", nil)
	err := l.eng.StopAndWait(ctx, id)
	l.note(ctx, "life.stopandwait.ret", err)
	return err
}

func (l *lifeAdapter) ReconfigureProcessor(ctx context.Context, id, proc string) error {
	l.note(ctx, "life.reconfigure.call "+proc, nil)
	err := l.eng.ReconfigureProcessor(ctx, id, proc)
	l.note(ctx, "life.reconfigure.ret "+proc, err)
	return err
}

// ---------------------------------------------------------------- observations

// post is the state right after a call returned and no other apply for the same
// pipeline was outstanding.
type post struct {
	Export    string            // normalised Export(id), "" if the export failed
	ExportErr string
	Mem       map[string]string // entity -> exported fields, in memory
	Store     map[string][]byte // copy of the store
}

type call struct {
	Tag      string
	Req      int
	Twin     bool
	Pipeline string
	Kinds    []string
	Desired  pipeM
	DesNorm  string
	Allow    bool
	HashMode string
	Hash     string

	// computed by the harness right before the call (no apply outstanding)
	TruthHash    string
	TruthEmpty   bool
	TruthLive    bool
	TruthChanges []provisioning.Change
	StatusBefore pipeline.Status
	ExportBefore string
	DocsBefore   map[string]string
	Overlapped   bool // another apply for the same pipeline was issued at the same moment

	// filled by the call goroutine, readable after done is closed
	done        chan struct{}
	Err         error
	ErrCode     string
	Mode        provisioning.ApplyMode
	StatusAfter pipeline.Status
	Post        *post

	// filled from the history
	CallIdx, RetIdx int
}

func (c *call) returned() bool {
	select {
	case <-c.done:
		return true
	default:
		return false
	}
}

type result struct {
	Case         *c16Case
	World        *lab.World
	Events       []lab.Event
	ProvisionErr error
	StartErr     error
	Calls        []*call
	Wedged       bool
	WedgeInfo    string
	Stacks       string
	Inconclusive string
	FinalStatus  pipeline.Status
	FinalErr     string
	FinalExport  map[string]string // pipeline id -> normalised export at the end
	Steps        int
	FinalStopOK  bool
	Elapsed      time.Duration
}

func isTerminal(st pipeline.Status) bool {
	return st == pipeline.StatusUserStopped || st == pipeline.StatusSystemStopped || st == pipeline.StatusDegraded
}

func isRunningStatus(st pipeline.Status) bool {
	return st == pipeline.StatusRunning || st == pipeline.StatusRecovering || st == pipeline.StatusDegraded
}

// memSnapshot lists the exported fields of every entity of one pipeline held in
// memory by the services of w (no timestamps, no connector state, no status).
func memSnapshot(w *lab.World, id string) map[string]string {
	ctx := context.Background()
	js := func(v any) string { b, _ := json.Marshal(v); return string(b) }
	strs := func(s []string) []string {
		if s == nil {
			return []string{}
		}
		return s
	}
	out := map[string]string{}
	for pid, p := range w.Pipelines.List(ctx) {
		if pid != id {
			continue
		}
		out["pipeline:"+pid] = js(map[string]any{"ID": p.ID, "Name": p.Config.Name, "Description": p.Config.Description,
			"ProvisionedBy": int(p.ProvisionedBy), "DLQPlugin": p.DLQ.Plugin, "DLQSettings": nonNil(p.DLQ.Settings),
			"DLQWin": p.DLQ.WindowSize, "DLQThr": p.DLQ.WindowNackThreshold,
			"ConnectorIDs": strs(p.ConnectorIDs), "ProcessorIDs": strs(p.ProcessorIDs)})
	}
	for cid, c := range w.Connectors.List(ctx) {
		if c.PipelineID != id {
			continue
		}
		out["connector:"+cid] = js(map[string]any{"ID": c.ID, "Type": c.Type.String(), "Name": c.Config.Name, "Settings": nonNil(c.Config.Settings),
			"PipelineID": c.PipelineID, "Plugin": c.Plugin, "ProcessorIDs": strs(c.ProcessorIDs), "ProvisionedBy": int(c.ProvisionedBy)})
	}
	for pid, p := range w.Processors.List(ctx) {
		if !strings.HasPrefix(pid, id+":") {
			continue
		}
		out["processor:"+pid] = js(map[string]any{"ID": p.ID, "Plugin": p.Plugin, "Condition": p.Condition, "ParentID": p.Parent.ID,
			"ParentType": p.Parent.Type.String(), "Settings": nonNil(p.Config.Settings), "Workers": p.Config.Workers, "ProvisionedBy": int(p.ProvisionedBy)})
	}
	return out
}

// configDocs extracts the stored configuration documents of one pipeline from a
// store snapshot: pipeline / connector / processor documents decoded as JSON
// without the fields ordinary record flow and status changes rewrite
// (connector State, pipeline Status/Error, timestamps).
func configDocs(store map[string][]byte, id string) map[string]string {
	out := map[string]string{}
	for k, v := range store {
		var keep bool
		switch {
		case k == "pipeline:instance:"+id:
			keep = true
		case strings.HasPrefix(k, "connector:instance:"+id+":"), strings.HasPrefix(k, "processor:instance:"+id+":"):
			keep = true
		}
		if !keep {
			continue
		}
		var m map[string]any
		if json.Unmarshal(v, &m) != nil {
			out[k] = "undecodable:" + string(v)
			continue
		}
		for _, f := range []string{"State", "Status", "Error", "CreatedAt", "UpdatedAt", "LastActiveConfig"} {
			delete(m, f)
		}
		b, _ := json.Marshal(m)
		out[k] = string(b)
	}
	return out
}

func diffDocs(a, b map[string]string) string {
	keys := map[string]bool{}
	for k := range a {
		keys[k] = true
	}
	for k := range b {
		keys[k] = true
	}
	var ks []string
	for k := range keys {
		ks = append(ks, k)
	}
	sort.Strings(ks)
	var sb strings.Builder
	for _, k := range ks {
		x, inA := a[k]
		y, inB := b[k]
		switch {
		case !inA:
			fmt.Fprintf(&sb, "%s added; ", k)
		case !inB:
			fmt.Fprintf(&sb, "%s removed; ", k)
		case x != y:
			fmt.Fprintf(&sb, "%s: %s -> %s; ", k, trunc(x, 200), trunc(y, 200))
		}
	}
	return sb.String()
}

func trunc(s string, n int) string {
	if len(s) > n {
		return s[:n] + "..."
	}
	return s
}

func errCode(err error) string {
	if err == nil {
		return ""
	}
	if ce, ok := conduiterr.Get(err); ok {
		return ce.Code.Reason()
	}
	return "uncoded"
}

// ---------------------------------------------------------------- the run

type exec struct {
	cs     *c16Case
	w      *lab.World
	prov   *provisioning.Service
	pdb    *provDB
	runner *lab.Runner
	res    *result
	active map[string]*int32 // pipeline id -> outstanding applies
	early  map[string]string // tag -> hash planned before the first request was issued
}

func exportNorm(prov *provisioning.Service, id string) (string, error) {
	cfg, err := prov.Export(context.Background(), id)
	if err != nil {
		return "", err
	}
	return normalise(cfg), nil
}

// prepare computes what the harness knows right before a call is issued.
func (x *exec) prepare(c *call, desired config.Pipeline) error {
	ctx := context.Background()
	truth, err := x.prov.Plan(ctx, desired)
	if err != nil {
		return fmt.Errorf("plan: %w", err)
	}
	c.TruthHash, c.TruthEmpty, c.TruthLive, c.TruthChanges = truth.Hash, truth.Empty(), truth.LiveEligible(), truth.Changes
	if p, err := x.w.Pipelines.Get(ctx, c.Pipeline); err == nil {
		c.StatusBefore = p.GetStatus()
	}
	c.ExportBefore, _ = exportNorm(x.prov, c.Pipeline)
	c.DocsBefore = configDocs(x.w.DB.Current(), c.Pipeline)
	return nil
}

func (x *exec) launch(c *call, desired config.Pipeline) {
	cnt := x.active[c.Pipeline]
	atomic.AddInt32(cnt, 1)
	c.done = make(chan struct{})
	x.res.Calls = append(x.res.Calls, c)
	x.runner.Call(c.Tag, func(ctx context.Context) error {
		ctx = context.WithValue(ctx, tagKey{}, c.Tag)
		diff, err := x.prov.ApplyPlanLive(ctx, desired, c.Hash, c.Allow)
		c.Err, c.ErrCode, c.Mode = err, errCode(err), diff.AppliedMode
		if p, gerr := x.w.Pipelines.Get(ctx, c.Pipeline); gerr == nil {
			c.StatusAfter = p.GetStatus()
		}
		if atomic.AddInt32(cnt, -1) == 0 {
			p := &post{}
			exp, eerr := exportNorm(x.prov, c.Pipeline)
			p.Export = exp
			if eerr != nil {
				p.ExportErr = eerr.Error()
			}
			p.Mem = memSnapshot(x.w, c.Pipeline)
			p.Store = x.w.DB.Current()
			c.Post = p
		}
		close(c.done)
		return err
	})
}

// issue issues request i (and its twin).
func (x *exec) issue(i int) error {
	rq := x.cs.Reqs[i]
	ctx := context.Background()
	mk := func(tag, pid string, twin bool, kinds []string, m pipeM, allow bool, mode string) (*call, config.Pipeline, error) {
		d, err := m.toConfig(pid)
		if err != nil {
			return nil, d, err
		}
		c := &call{Tag: tag, Req: i, Twin: twin, Pipeline: pid, Kinds: kinds, Desired: m, DesNorm: normalise(d), Allow: allow, HashMode: mode}
		if err := x.prepare(c, d); err != nil {
			return nil, d, err
		}
		switch mode {
		case "early":
			c.Hash = x.early[tag]
		case "other":
			o := m.clone()
			o.Desc += "-reviewed-elsewhere"
			od, err := o.toConfig(pid)
			if err != nil {
				return nil, d, err
			}
			diff, err := x.prov.Plan(ctx, od)
			if err != nil {
				return nil, d, err
			}
			c.Hash = diff.Hash
		default:
			c.Hash = c.TruthHash
		}
		return c, d, nil
	}
	main, md, err := mk(fmt.Sprintf("apply#%d", i), lab.PipelineID, false, rq.Kinds, rq.Desired, rq.Allow, rq.HashMode)
	if err != nil {
		return err
	}
	var twin *call
	var td config.Pipeline
	if rq.Twin != nil {
		pid := lab.PipelineID
		if rq.Twin.Other {
			pid = otherID
		}
		twin, td, err = mk(fmt.Sprintf("apply#%d-twin", i), pid, true, rq.Twin.Kinds, rq.Twin.Desired, rq.Twin.Allow, "fresh")
		if err != nil {
			return err
		}
		if !rq.Twin.Other {
			main.Overlapped, twin.Overlapped = true, true
		}
	}
	x.launch(main, md)
	if twin != nil {
		x.launch(twin, td)
	}
	return nil
}

// planEarly computes, before the first request is issued, the hash of every request's plan.
func (x *exec) planEarly() error {
	for i, rq := range x.cs.Reqs {
		d, err := rq.Desired.toConfig(lab.PipelineID)
		if err != nil {
			return err
		}
		diff, err := x.prov.Plan(context.Background(), d)
		if err != nil {
			return err
		}
		x.early[fmt.Sprintf("apply#%d", i)] = diff.Hash
	}
	return nil
}

func runC16(cs *c16Case, pick func(n int) int) *result {
	begin := time.Now()
	c := cs.Lab
	w := lab.NewWorld(c, nil, nil)
	res := &result{Case: cs, World: w, FinalExport: map[string]string{}}
	ctx := context.Background()

	pdb := &provDB{FaultDB: w.DB, w: w, fault: cs.Fault, faultTag: "apply#0", prefix: cs.Fault.Prefix}
	var eng provisioning.LifecycleService = w.V1
	if c.Engine == "v2" {
		eng = w.V2
	}
	life := &lifeAdapter{w: w, eng: eng}
	prov := provisioning.NewService(pdb, w.Logger, w.Pipelines, w.Connectors, w.Processors, w.Plugins, life, "")
	var a1, a2 int32
	x := &exec{cs: cs, w: w, prov: prov, pdb: pdb, res: res, active: map[string]*int32{lab.PipelineID: &a1, otherID: &a2}, early: map[string]string{}}

	finish := func() *result {
		res.Events = w.Log.Snapshot()
		res.Elapsed = time.Since(begin)
		return res
	}

	// initial import through the provisioning service, before anything runs
	initial := []struct {
		id string
		m  *pipeM
	}{{lab.PipelineID, &cs.Old}, {otherID, cs.OtherOld}}
	for _, in := range initial {
		if in.m == nil {
			continue
		}
		d, err := in.m.toConfig(in.id)
		if err != nil {
			res.ProvisionErr = err
			return finish()
		}
		ictx := context.WithValue(ctx, tagKey{}, "provision")
		diff, err := prov.Plan(ictx, d)
		if err == nil {
			_, err = prov.ApplyPlan(ictx, d, diff.Hash)
		}
		if err != nil {
			res.ProvisionErr = fmt.Errorf("initial import of %s: %w", in.id, err)
			return finish()
		}
	}
	defer w.Close()

	r := &lab.Runner{W: w, Pick: pick}
	x.runner = r
	startDone := make(chan struct{})
	var startErr error
	r.Call("start", func(ctx context.Context) error {
		startErr = w.Engine().Start(ctx, lab.PipelineID)
		close(startDone)
		return startErr
	})
	started := func() bool {
		select {
		case <-startDone:
			return true
		default:
			return false
		}
	}

	idle := 12 * time.Millisecond
	if d := time.Duration(3*c.PersistDelayMs) * time.Millisecond; d > idle {
		idle = d
	}
	maxSteps := 60*c.TotalRecords() + 800
	next := 0
	earlyDone := false
	finalStops := 0
	silentSince := time.Now()
	lastAct := w.Log.Activity()
	step := 0
	allReturned := func() bool {
		for _, cl := range res.Calls {
			if !cl.returned() {
				return false
			}
		}
		return true
	}
	tryIssue := func() bool {
		if next >= len(cs.Reqs) || !started() || startErr != nil || !allReturned() {
			return false
		}
		if !earlyDone {
			earlyDone = true
			if err := x.planEarly(); err != nil {
				res.Inconclusive = "harness plan failed: " + err.Error()
				next = len(cs.Reqs)
				return false
			}
		}
		if err := x.issue(next); err != nil {
			res.Inconclusive = "harness plan failed: " + err.Error()
			next = len(cs.Reqs)
			return false
		}
		next++
		return true
	}
	for {
		if next < len(cs.Reqs) && cs.Reqs[next].AtStep <= step {
			tryIssue()
		}
		settled := w.Sched.WaitSettled(w.Log, lab.Settle, idle)
		if act := w.Log.Activity(); act != lastAct {
			lastAct = act
			silentSince = time.Now()
		}
		if settled {
			w.Sched.Release(pick)
			step++
			if step > maxSteps {
				res.Inconclusive = fmt.Sprintf("step budget %d exhausted", maxSteps)
				break
			}
			continue
		}
		// idle: nothing pending, nothing logged for `idle`
		st, _ := w.Status()
		out := r.Outstanding()
		if next < len(cs.Reqs) && started() && startErr == nil && allReturned() {
			if tryIssue() {
				silentSince = time.Now()
				continue
			}
		}
		if out == 0 && next >= len(cs.Reqs) || (started() && startErr != nil && out == 0) {
			if started() && startErr != nil && !isTerminal(st) && st != pipeline.StatusRunning && st != pipeline.StatusRecovering {
				break // never started
			}
			if isTerminal(st) {
				break
			}
			if (st == pipeline.StatusRunning || st == pipeline.StatusRecovering) && finalStops < 6 {
				finalStops++
				r.Issue(lab.ClientAction{Kind: "stopwait"})
				silentSince = time.Now()
				continue
			}
		}
		if time.Since(silentSince) > lab.Quiet {
			res.Wedged = true
			res.Stacks = conduitStacks()
			res.WedgeInfo = fmt.Sprintf("no event for %s; status=%s outstanding=%d pending=%v", lab.Quiet, st, out, w.Sched.PendingLabels())
			break
		}
	}
	res.Steps = step
	c.Choices = w.Sched.Choices
	w.Sched.SetFree()
	if !res.Wedged {
		done := make(chan struct{})
		go func() { w.Connectors.WaitPersisted(); close(done) }()
		select {
		case <-done:
		case <-time.After(2 * time.Second):
		}
	}
	if started() {
		res.StartErr = startErr
	}
	res.FinalStatus, res.FinalErr = w.Status()
	if !res.Wedged && r.Outstanding() == 0 {
		for _, id := range []string{lab.PipelineID, otherID} {
			if e, err := exportNorm(prov, id); err == nil {
				res.FinalExport[id] = e
			}
		}
	}
	res.Events = w.Log.Snapshot()
	for _, cl := range res.Calls {
		cl.CallIdx, cl.RetIdx = -1, -1
		for i, e := range res.Events {
			if e.Comp != cl.Tag {
				continue
			}
			if e.Kind == lab.EvCtlCall {
				cl.CallIdx = i
			}
			if e.Kind == lab.EvCtlRet {
				cl.RetIdx = i
			}
		}
	}
	// did the harness' final graceful stop succeed?
	for i, e := range res.Events {
		if e.Kind == lab.EvCtlRet && e.Comp == "stopwait" && e.OK {
			res.FinalStopOK = true
			_ = i
		}
	}
	res.Elapsed = time.Since(begin)
	return res
}

// conduitStacks returns the stacks of all goroutines that are inside Conduit code.
func conduitStacks() string {
	buf := make([]byte, 4<<20)
	n := runtime.Stack(buf, true)
	var out []string
	for _, g := range strings.Split(string(buf[:n]), "\n\n") {
		if strings.Contains(g, "conduitio/conduit/pkg/lifecycle") || strings.Contains(g, "conduitio/conduit/pkg/connector") ||
			strings.Contains(g, "conduitio/conduit/pkg/provisioning") {
			out = append(out, g)
		}
	}
	return strings.Join(out, "\n\n")
}
