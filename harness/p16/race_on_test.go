//go:build race

package p16

import "runtime"

// raceBuild: the test binary was built with the race detector.
const raceBuild = true

// raceErrors returns the number of data races the detector has reported so far in this process.
func raceErrors() int { return runtime.RaceErrors() }
