package p16

import (
	"encoding/json"
	"fmt"
	"os"
	"testing"

	"verifharness/lab"
)

func TestDebugReplay(t *testing.T) {
	f := os.Getenv("C16_DEBUG_FILE")
	if f == "" {
		t.Skip()
	}
	raw, _ := os.ReadFile(f)
	var doc struct {
		Replay c16Replay `json:"replay"`
	}
	_ = json.Unmarshal(raw, &doc)
	cs := doc.Replay.Case
	res := runC16(cs, lab.ReplayPick(cs.Lab.Choices))
	for _, r := range reportsOf(res) {
		fmt.Printf("call %+v\n", r)
	}
	for _, v := range oracle(res) {
		fmt.Printf("VIOLATION %s\n", v.String())
	}
	fmt.Printf("final=%s wedged=%v %s\n%s", res.FinalStatus, res.Wedged, res.WedgeInfo, lab.Format(res.Events, 60))
}
