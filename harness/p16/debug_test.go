package p16

import (
	"fmt"
	"os"
	"testing"

	"pgregory.net/rapid"
	"verifharness/lab"
)

// temporary: print histories of a few generated cases
func TestDebugC16(t *testing.T) {
	if os.Getenv("C16_DEBUG") == "" {
		t.Skip()
	}
	n := 0
	rapid.Check(t, func(t *rapid.T) {
		cs := genCase(t, genOpts{})
		res := runC16(cs, rapidPick(t))
		vs := oracle(res)
		n++
		fmt.Printf("\n"+"==== case %d engine=%s reqs=%d fault=%+v provErr=%v startErr=%v wedged=%v inconcl=%q final=%s elapsed=%s steps=%d", n, cs.Lab.Engine, len(cs.Reqs), cs.Fault, res.ProvisionErr, res.StartErr, res.Wedged, res.Inconclusive, res.FinalStatus, res.Elapsed, res.Steps)
		for _, r := range reportsOf(res) {
			fmt.Printf("\n"+"  call %+v", r)
		}
		for _, v := range vs {
			fmt.Printf("\n"+"  VIOLATION %s", v.String())
		}
		if os.Getenv("C16_DEBUG") == "full" || len(vs) > 0 {
			fmt.Printf("\n"+"\n%s", lab.Format(res.Events, 0))
		}
	})
}
