package p16

import (
	"fmt"

	"github.com/conduitio/conduit/pkg/provisioning/config"
	"pgregory.net/rapid"
	"verifharness/lab"
)

// Closed vocabulary of change kinds (also the last segment of the violation keys).
var changeKinds = []string{
	"proc-settings", "proc-settings-2", "proc-workers", "conn-settings", "proc-add", "proc-remove",
	"dest-add", "dest-remove", "dlq", "name", "desc", "none", "name+proc-settings", "proc+conn-settings",
}

// aspects a change kind touches; two concurrent applies with different desired
// configurations are generated on disjoint aspects, so that the plan of the second
// one is necessarily different after the first one was applied (see NOTES.md).
var kindAspects = map[string][]string{
	"proc-settings": {"procs"}, "proc-settings-2": {"procs"}, "proc-workers": {"procs"}, "proc-add": {"procs"}, "proc-remove": {"procs"},
	"conn-settings": {"conn"}, "dest-add": {"dests"}, "dest-remove": {"dests"}, "dlq": {"dlq"}, "name": {"name"}, "desc": {"desc"},
	"none": {}, "name+proc-settings": {"name", "procs"}, "proc+conn-settings": {"procs", "conn"},
}

// liveKinds produce a diff that provisioning classifies as live-eligible.
var liveKinds = map[string]bool{"proc-settings": true, "proc-settings-2": true, "name": true, "desc": true, "name+proc-settings": true,
	"proc-plugin-missing": true, "proc-settings+plugin-missing": true}

// c13Kinds: processor-only (live-eligible) changes used by the C13 part of this package. The two
// "plugin-missing" kinds ask for a processor plugin that cannot be dispensed: the replacement can
// not even be built (kind only generated in C13 mode, it is not in changeKinds).
var c13Kinds = []string{"proc-settings", "proc-settings", "proc-settings-2", "name+proc-settings", "proc-plugin-missing", "proc-plugin-missing", "proc-settings+plugin-missing"}

// MissingPlugin is a processor plugin name no registry of the lab knows.
const MissingPlugin = "lab-no-such-processor-plugin"

func kindLabel(kinds []string) string {
	if len(kinds) == 0 {
		return "none"
	}
	return kinds[0]
}

func needsProc(kind string) int {
	switch kind {
	case "proc-settings", "proc-workers", "proc-remove", "name+proc-settings", "proc+conn-settings", "proc-plugin-missing":
		return 1
	case "proc-settings-2", "proc-settings+plugin-missing":
		return 2
	}
	return 0
}

// applyKind returns base changed by one change of the given kind; changed lists
// the (parent, id) of processors whose generation was bumped.
func applyKind(t *rapid.T, base pipeM, kind string) (pipeM, []procRef) {
	m := base.clone()
	var bumped []procRef
	bump := func(n int) {
		all := m.allProcs()
		first := lab.Uniform(t, "bumpproc", len(all))
		for k := 0; k < n && k < len(all); k++ {
			r := all[(first+k)%len(all)]
			r.P.Gen++
			m.setProc(r.Parent, r.P.ID, r.P)
			bumped = append(bumped, r)
		}
	}
	connSetting := func() {
		i := lab.Uniform(t, "setconn", len(m.Conns))
		m.Conns[i].Setting += "x"
	}
	switch kind {
	case "proc-settings":
		bump(1)
	case "proc-settings-2":
		bump(2)
	case "proc-plugin-missing", "proc-settings+plugin-missing":
		// one processor gets a plugin that cannot be dispensed (and new settings); in the second
		// kind another processor gets ordinary new settings in the same apply
		n := 1
		if kind == "proc-settings+plugin-missing" {
			n = 2
		}
		bump(n)
		bad := bumped[lab.Uniform(t, "badproc", len(bumped))]
		for _, r := range m.allProcs() {
			if r.Parent == bad.Parent && r.P.ID == bad.P.ID {
				r.P.Plugin = MissingPlugin
				m.setProc(r.Parent, r.P.ID, r.P)
			}
		}
	case "proc-workers":
		all := m.allProcs()
		r := all[lab.Uniform(t, "wproc", len(all))]
		r.P.Workers = 2
		m.setProc(r.Parent, r.P.ID, r.P)
	case "conn-settings":
		connSetting()
	case "proc-add":
		np := procM{ID: "n0", Gen: 1, Workers: 1}
		where := lab.Uniform(t, "addwhere", len(m.Conns)+1)
		if where == len(m.Conns) {
			if lab.Chance(t, "addfront", 50) {
				m.Procs = append([]procM{np}, m.Procs...)
			} else {
				m.Procs = append(m.Procs, np)
			}
		} else {
			m.Conns[where].Procs = append(m.Conns[where].Procs, np)
		}
	case "proc-remove":
		all := m.allProcs()
		r := all[lab.Uniform(t, "rmproc", len(all))]
		if r.Parent == "" {
			var keep []procM
			for _, p := range m.Procs {
				if p.ID != r.P.ID {
					keep = append(keep, p)
				}
			}
			m.Procs = keep
		} else {
			for ci := range m.Conns {
				if m.Conns[ci].ID != r.Parent {
					continue
				}
				var keep []procM
				for _, p := range m.Conns[ci].Procs {
					if p.ID != r.P.ID {
						keep = append(keep, p)
					}
				}
				m.Conns[ci].Procs = keep
			}
		}
	case "dest-add":
		nc := connM{ID: "dstN", Type: config.TypeDestination, Setting: "a"}
		if lab.Chance(t, "newdestproc", 30) {
			nc.Procs = []procM{{ID: "nd0", Gen: 1, Workers: 1}}
		}
		m.Conns = append(m.Conns, nc)
	case "dest-remove":
		var idx []int
		for i, c := range m.Conns {
			if c.Type == config.TypeDestination {
				idx = append(idx, i)
			}
		}
		k := idx[lab.Uniform(t, "rmdest", len(idx))]
		m.Conns = append(m.Conns[:k:k], m.Conns[k+1:]...)
	case "dlq":
		if lab.Chance(t, "dlqthr", 50) {
			m.DLQThreshold++
		} else {
			m.DLQSetting += "x"
		}
	case "name":
		m.Name += "-renamed"
	case "desc":
		m.Desc += " (edited)"
	case "none":
	case "name+proc-settings":
		m.Name += "-renamed"
		bump(1)
	case "proc+conn-settings":
		bump(1)
		connSetting()
	}
	return m, bumped
}

type genOpts struct {
	Known   func(string) bool
	Exclude func(string)
	// C13: only the default engine, one authorised apply with a fresh hash of a processor-only
	// change (c13Kinds); the only scripted failures are "the new processor cannot be opened" and
	// "the new processor cannot be built"
	C13 bool
	// SlowOpen (with C13): an ordinary settings change whose new processor takes 11.5 s to open
	SlowOpen bool
}

func keyImportNotAtomic(engine string) string {
	return "C16/failed-apply/" + engine + "/import-not-atomic-see-C15"
}

// genCase draws one complete case.
func genCase(t *rapid.T, o genOpts) *c16Case {
	lc := &lab.Case{}
	lc.Engine = []string{"v1", "v2"}[lab.Uniform(t, "engine", 2)]
	lc.PersistDelayMs = []int{1, 1, 2, 5}[rapid.IntRange(0, 3).Draw(t, "pdelay")]
	lc.PersistBundle = []int{1, 2, 5, 1000}[rapid.IntRange(0, 3).Draw(t, "pbundle")]
	lc.Recovery = lab.RecoverySpec{MinMs: 2, MaxMs: 8, Factor: 2, WindowMs: 60000, MaxRetries: 0}
	lc.DLQ = lab.DLQSpec{WindowSize: 0, Threshold: 0, PerRecord: map[string]lab.Outcome{}}

	scenario := []string{"single", "single", "single", "seq-stale", "seq-unauth-then-auth", "concurrent-same", "concurrent-same", "concurrent-other"}[lab.Uniform(t, "scenario", 8)]
	kind := changeKinds[lab.Uniform(t, "kind", len(changeKinds))]
	if o.C13 {
		lc.Engine = "v1"
		scenario = "single"
		kind = c13Kinds[lab.Uniform(t, "c13kind", len(c13Kinds))]
		if o.SlowOpen {
			kind = []string{"proc-settings", "proc-settings-2", "name+proc-settings"}[lab.Uniform(t, "slowkind", 3)]
		}
	}
	if scenario == "concurrent-other" && o.Known != nil && o.Known(keyDataRaceOther) {
		// known defect D2: the services' instance maps are not synchronised
		if o.Exclude != nil {
			o.Exclude(keyDataRaceOther)
		}
		scenario = "concurrent-same"
	}

	// ---- topology of the old configuration
	nsrc := 1
	if lab.Chance(t, "twosrc", 40) {
		nsrc = 2
	}
	ndst := 1
	if lab.Chance(t, "twodst", 50) || kind == "dest-remove" {
		ndst = 2
	}
	old := pipeM{Name: "lab pipeline", Desc: "generated", DLQSetting: "d"}
	pseq := 0
	mkProcs := func(label string, pct, max int) []procM {
		if !lab.Chance(t, label, pct) {
			return nil
		}
		n := rapid.IntRange(1, max).Draw(t, label+".n")
		var out []procM
		for i := 0; i < n; i++ {
			out = append(out, procM{ID: fmt.Sprintf("p%d", pseq), Gen: 1, Workers: 1})
			pseq++
		}
		return out
	}
	for i := 0; i < nsrc; i++ {
		old.Conns = append(old.Conns, connM{ID: fmt.Sprintf("src%d", i), Type: config.TypeSource, Setting: "a", Procs: mkProcs("srcprocs", 30, 2)})
	}
	for i := 0; i < ndst; i++ {
		old.Conns = append(old.Conns, connM{ID: fmt.Sprintf("dst%d", i), Type: config.TypeDestination, Setting: "a", Procs: mkProcs("dstprocs", 30, 2)})
	}
	old.Procs = mkProcs("pipeprocs", 55, 2)
	for len(old.allProcs()) < needsProc(kind) {
		old.Procs = append(old.Procs, procM{ID: fmt.Sprintf("p%d", pseq), Gen: 1, Workers: 1})
		pseq++
	}

	cs := &c16Case{Lab: lc, Old: old}

	// ---- sources / record streams
	total := 0
	for i := 0; i < nsrc; i++ {
		n := rapid.IntRange(3, 12).Draw(t, "n")
		total += n
		nb := rapid.IntRange(1, 3).Draw(t, "nbatch")
		bs := make([]int, nb)
		for j := range bs {
			bs[j] = rapid.IntRange(1, 4).Draw(t, "batch")
		}
		lc.Sources = append(lc.Sources, lab.SourceSpec{ID: connFull(fmt.Sprintf("src%d", i)), N: n, Batches: bs,
			ReadFaultAfter: -1, EmptyPosAt: -1, DupPosAt: -1, Pruning: lab.Chance(t, "pruning", 50)})
	}
	at := func(label string) int { return rapid.IntRange(1, 2*total+6).Draw(t, label) }

	// ---- requests
	desired, bumped := applyKind(t, old, kind)
	main := applyReq{AtStep: at("reqat"), Kinds: []string{kind}, Desired: desired, HashMode: "fresh", Allow: true}
	switch scenario {
	case "single":
		if lab.Chance(t, "otherhash", 22) {
			main.HashMode = "other"
		}
		main.Allow = !lab.Chance(t, "noallow", 25)
		if o.C13 {
			main.HashMode, main.Allow = "fresh", true
		}
		cs.Reqs = []applyReq{main}
	case "seq-stale":
		// A is applied; B presents a hash that was computed before A
		k2 := changeKinds[lab.Uniform(t, "kind2", len(changeKinds))]
		for len(old.allProcs()) < needsProc(k2) || (k2 == "dest-remove" && len(old.dests()) < 2) {
			k2 = "desc"
		}
		d2, _ := applyKind(t, old, k2)
		b := applyReq{AtStep: main.AtStep + rapid.IntRange(0, 8).Draw(t, "gap"), Kinds: []string{k2}, Desired: d2, HashMode: "early", Allow: true}
		cs.Reqs = []applyReq{main, b}
	case "seq-unauth-then-auth":
		a := main
		a.Allow = false
		b := main
		b.AtStep = main.AtStep + rapid.IntRange(0, 8).Draw(t, "gap")
		cs.Reqs = []applyReq{a, b}
	case "concurrent-same":
		tw := &twinReq{Kinds: []string{kind}, Desired: desired.clone(), Allow: !lab.Chance(t, "twinnoallow", 20)}
		if lab.Chance(t, "twindiff", 50) {
			// a different desired configuration on a disjoint aspect
			var cands []string
			for _, k := range []string{"name", "desc", "dlq", "conn-settings", "proc-settings", "dest-add"} {
				disjoint := true
				for _, a := range kindAspects[k] {
					for _, b := range kindAspects[kind] {
						if a == b {
							disjoint = false
						}
					}
				}
				if disjoint && len(old.allProcs()) >= needsProc(k) {
					cands = append(cands, k)
				}
			}
			k2 := cands[lab.Uniform(t, "twinkind", len(cands))]
			d2, _ := applyKind(t, old, k2)
			tw.Kinds, tw.Desired = []string{k2}, d2
		}
		main.Allow = !lab.Chance(t, "noallow", 20)
		main.Twin = tw
		cs.Reqs = []applyReq{main}
	case "concurrent-other":
		oo := pipeM{Name: "other pipeline", Desc: "never started", DLQSetting: "d", Conns: []connM{
			{ID: "src0", Type: config.TypeSource, Setting: "a"}, {ID: "dst0", Type: config.TypeDestination, Setting: "a", Procs: []procM{{ID: "p0", Gen: 1, Workers: 1}}}}}
		cs.OtherOld = &oo
		k2 := []string{"name", "desc", "dlq", "conn-settings", "proc-settings", "proc-add", "dest-add"}[lab.Uniform(t, "otherkind", 7)]
		d2, _ := applyKind(t, oo, k2)
		main.Allow = !lab.Chance(t, "noallow", 15)
		main.Twin = &twinReq{Other: true, Kinds: []string{k2}, Desired: d2, Allow: lab.Chance(t, "otherallow", 50)}
		cs.Reqs = []applyReq{main}
	}

	// ---- lab scripts: every plugin that can ever exist
	configs := []pipeM{old}
	for _, rq := range cs.Reqs {
		configs = append(configs, rq.Desired)
		if rq.Twin != nil && !rq.Twin.Other {
			configs = append(configs, rq.Twin.Desired)
		}
	}
	seenDest, seenProc := map[string]bool{}, map[string]bool{}
	for ci, m := range configs {
		for _, c := range m.Conns {
			full := connFull(c.ID)
			var pids []string
			for _, p := range c.Procs {
				pids = append(pids, procFull(c.ID, p.ID))
			}
			if c.Type == config.TypeSource {
				if ci == 0 {
					for si := range lc.Sources {
						if lc.Sources[si].ID == full {
							lc.Sources[si].Procs = pids
						}
					}
				}
				continue
			}
			if seenDest[full] {
				continue
			}
			seenDest[full] = true
			d := lab.DestSpec{ID: full, PerPiece: map[string]lab.Outcome{}, Procs: pids}
			ng := rapid.IntRange(1, 3).Draw(t, "ngroup")
			for j := 0; j < ng; j++ {
				d.Group = append(d.Group, rapid.IntRange(1, 3).Draw(t, "group"))
			}
			lc.Dests = append(lc.Dests, d)
		}
		for _, r := range m.allProcs() {
			if seenProc[r.full()] {
				continue
			}
			seenProc[r.full()] = true
			parent := ""
			if r.Parent != "" {
				parent = connFull(r.Parent)
			}
			lc.Procs = append(lc.Procs, lab.ProcSpec{ID: r.full(), Parent: parent, Workers: 1, Gen: r.P.Gen, PerRecord: map[string]string{}})
		}
	}

	// ---- scripted failure (only where the first request is expected to try the apply)
	if o.C13 && o.SlowOpen && len(bumped) > 0 {
		r := bumped[lab.Uniform(t, "slowproc", len(bumped))]
		cs.Fault = faultPlan{Kind: "proc-slow-open", Comp: r.full(), Index: r.P.Gen, Ms: 11500}
		return cs
	}
	if (scenario == "single" || scenario == "seq-stale") && cs.Reqs[0].Allow && cs.Reqs[0].HashMode == "fresh" && kind != "none" && lab.Chance(t, "fault", 60) {
		fk := []string{"set", "set", "commit", "src-open", "src-open", "proc-open", "proc-open", "stop-flush", "stop-flush"}[lab.Uniform(t, "faultkind", 9)]
		if len(bumped) > 0 && lab.Chance(t, "preferprocopen", 40) {
			fk = "proc-open"
		}
		if o.C13 {
			fk = "proc-open"
			if kind == "proc-plugin-missing" || kind == "proc-settings+plugin-missing" {
				fk = "none" // the missing plugin is the failure
			}
		}
		if fk == "stop-flush" && lc.Engine == "v1" && o.Known != nil && o.Known(keyFlushSwallowed("v1")) {
			// known defect D3: the failed flush is swallowed by the stop
			if o.Exclude != nil {
				o.Exclude(keyFlushSwallowed("v1"))
			}
			fk = "set"
		}
		if fk == "stop-flush" && lc.Engine == "v2" {
			// arch-v2 answers a failed flush during StopAndWait with its documented 30 s timeout
			// (no violation, see NOTES.md); too slow for a campaign
			fk = "set"
		}
		if fk == "proc-open" && len(bumped) == 0 {
			fk = "src-open"
		}
		if fk == "commit" && o.Known != nil && o.Known(keyImportNotAtomic(lc.Engine)) {
			// known (C15): a failed commit leaves memory at the new configuration
			if o.Exclude != nil {
				o.Exclude(keyImportNotAtomic(lc.Engine))
			}
			fk = "set"
		}
		switch fk {
		case "set":
			cs.Fault = faultPlan{Kind: "set", Index: []int{0, 0, 0, 1, 1, 2, 3}[lab.Uniform(t, "setidx", 7)]}
			if liveKinds[kind] {
				// the import of a live-eligible diff runs while the pipeline does: count the
				// pipeline/processor documents only, the position flushes write connector documents
				cs.Fault.Prefix = "p"
			}
		case "commit":
			cs.Fault = faultPlan{Kind: "commit"}
		case "stop-flush":
			cs.Fault = faultPlan{Kind: "stop-flush"}
		case "src-open":
			si := lab.Uniform(t, "failsrc", len(lc.Sources))
			lc.Sources[si].OpenFailInst = 2 // the first run is instance 1, the restart dispenses instance 2
			cs.Fault = faultPlan{Kind: "src-open", Comp: lc.Sources[si].ID}
		case "proc-open":
			if len(bumped) > 0 {
				r := bumped[lab.Uniform(t, "failproc", len(bumped))]
				onSource := false
				for _, c := range old.Conns {
					if c.ID == r.Parent && c.Type == config.TypeSource {
						onSource = true
					}
				}
				if onSource && lc.Engine == "v2" && o.Known != nil && o.Known(keySourceLeftOpen("v2")) {
					// known defect D1: the failed start leaves the source plugin open
					if o.Exclude != nil {
						o.Exclude(keySourceLeftOpen("v2"))
					}
					break
				}
				for pi := range lc.Procs {
					if lc.Procs[pi].ID == r.full() {
						lc.Procs[pi].OpenFailGen = r.P.Gen
					}
				}
				cs.Fault = faultPlan{Kind: "proc-open", Comp: r.full(), Index: r.P.Gen}
			}
		}
	}
	return cs
}
