package p16

import (
	"encoding/json"
	"fmt"
	"strconv"

	"github.com/conduitio/conduit/pkg/provisioning/config"
	"verifharness/lab"
)

// ---------------------------------------------------------------- configuration model
//
// A pipeM is the harness' own description of one pipeline configuration (short
// ids, as a user writes them in a config file). toConfig turns it into the
// config.Pipeline an API caller hands to Plan/ApplyPlanLive (config.Enrich +
// config.Validate, exactly what pkg/http/api/pipeline_v1.go enrichAndValidate
// does); the lab.Case is built with the ENRICHED ids so that the fake plugins
// find their scripts.

type procM struct {
	ID      string `json:"id"` // short id
	Gen     int    `json:"gen"`
	Workers int    `json:"workers"`
	// Plugin: "" = lab.PluginProc; anything else is a plugin name that cannot be dispensed
	Plugin string `json:"plugin,omitempty"`
}

type connM struct {
	ID      string  `json:"id"`   // short id
	Type    string  `json:"type"` // source | destination
	Setting string  `json:"setting"`
	Procs   []procM `json:"procs,omitempty"`
}

type pipeM struct {
	Name         string  `json:"name"`
	Desc         string  `json:"desc"`
	DLQSetting   string  `json:"dlq_setting"`
	DLQThreshold int     `json:"dlq_threshold"`
	Conns        []connM `json:"conns"`
	Procs        []procM `json:"procs,omitempty"`
}

func (p pipeM) clone() pipeM {
	var out pipeM
	b, _ := json.Marshal(p)
	_ = json.Unmarshal(b, &out)
	return out
}

func connFull(short string) string { return lab.PipelineID + ":" + short }
func procFull(parentShort, short string) string {
	if parentShort == "" {
		return lab.PipelineID + ":" + short
	}
	return lab.PipelineID + ":" + parentShort + ":" + short
}

func procsToConfig(ps []procM) []config.Processor {
	if len(ps) == 0 {
		return nil
	}
	out := make([]config.Processor, len(ps))
	for i, p := range ps {
		plug := lab.PluginProc
		if p.Plugin != "" {
			plug = p.Plugin
		}
		out[i] = config.Processor{ID: p.ID, Plugin: plug, Workers: p.Workers,
			Settings: map[string]string{"gen": strconv.Itoa(p.Gen)}}
	}
	return out
}

// rawConfig is the configuration as a user would write it (short ids).
func (p pipeM) rawConfig(id string) config.Pipeline {
	zero, thr := 0, p.DLQThreshold
	c := config.Pipeline{ID: id, Status: config.StatusRunning, Name: p.Name, Description: p.Desc,
		DLQ:        config.DLQ{Plugin: lab.PluginDLQ, Settings: map[string]string{"k": p.DLQSetting}, WindowSize: &zero, WindowNackThreshold: &thr},
		Processors: procsToConfig(p.Procs)}
	for _, cn := range p.Conns {
		plug := lab.PluginSrc
		if cn.Type == config.TypeDestination {
			plug = lab.PluginDst
		}
		c.Connectors = append(c.Connectors, config.Connector{ID: cn.ID, Type: cn.Type, Plugin: plug, Name: cn.ID,
			Settings: map[string]string{"k": cn.Setting}, Processors: procsToConfig(cn.Procs)})
	}
	return c
}

// toConfig = what the API hands to the provisioning service.
func (p pipeM) toConfig(id string) (config.Pipeline, error) {
	d := config.Enrich(p.rawConfig(id))
	if err := config.Validate(d); err != nil {
		return config.Pipeline{}, fmt.Errorf("generated config is invalid: %w", err)
	}
	return d, nil
}

type procRef struct {
	Parent string // short connector id, "" = pipeline level
	P      procM
}

func (p pipeM) allProcs() []procRef {
	var out []procRef
	for _, c := range p.Conns {
		for _, pr := range c.Procs {
			out = append(out, procRef{c.ID, pr})
		}
	}
	for _, pr := range p.Procs {
		out = append(out, procRef{"", pr})
	}
	return out
}

func (r procRef) full() string { return procFull(r.Parent, r.P.ID) }

// setProc replaces processor (parent, id) by np.
func (p *pipeM) setProc(parent, id string, np procM) {
	if parent == "" {
		for i := range p.Procs {
			if p.Procs[i].ID == id {
				p.Procs[i] = np
			}
		}
		return
	}
	for ci := range p.Conns {
		if p.Conns[ci].ID != parent {
			continue
		}
		for i := range p.Conns[ci].Procs {
			if p.Conns[ci].Procs[i].ID == id {
				p.Conns[ci].Procs[i] = np
			}
		}
	}
}

func (p pipeM) dests() []string {
	var out []string
	for _, c := range p.Conns {
		if c.Type == config.TypeDestination {
			out = append(out, connFull(c.ID))
		}
	}
	return out
}

func (p pipeM) sources() []string {
	var out []string
	for _, c := range p.Conns {
		if c.Type == config.TypeSource {
			out = append(out, connFull(c.ID))
		}
	}
	return out
}

// gens returns full processor id -> configured generation.
func (p pipeM) gens() map[string]int {
	out := map[string]int{}
	for _, r := range p.allProcs() {
		out[r.full()] = r.P.Gen
	}
	return out
}

// path returns, per destination (full id), per source (full id), the full ids of
// the processors a record passes, in order.
func (p pipeM) path(srcShort, dstShort string) []string {
	var out []string
	for _, c := range p.Conns {
		if c.ID == srcShort {
			for _, pr := range c.Procs {
				out = append(out, procFull(c.ID, pr.ID))
			}
		}
	}
	for _, pr := range p.Procs {
		out = append(out, procFull("", pr.ID))
	}
	for _, c := range p.Conns {
		if c.ID == dstShort {
			for _, pr := range c.Procs {
				out = append(out, procFull(c.ID, pr.ID))
			}
		}
	}
	return out
}

// ---------------------------------------------------------------- normal form (as the C15 check compares)

type nProc struct {
	ID       string
	Plugin   string
	Settings map[string]string
	Workers  int
	Cond     string
}
type nConn struct {
	ID, Type, Plugin, Name string
	Settings               map[string]string
	Procs                  []nProc
}
type nPipe struct {
	ID, Name, Desc string
	DLQPlugin      string
	DLQSettings    map[string]string
	DLQWin, DLQThr int
	Conns          []nConn
	Procs          []nProc
}

func nonNil(m map[string]string) map[string]string {
	out := map[string]string{}
	for k, v := range m {
		out[k] = v
	}
	return out
}

func normProcs(ps []config.Processor) []nProc {
	out := make([]nProc, 0, len(ps))
	for _, p := range ps {
		out = append(out, nProc{ID: p.ID, Plugin: p.Plugin, Settings: nonNil(p.Settings), Workers: p.Workers, Cond: p.Condition})
	}
	return out
}

// normalise maps an enriched/exported config to its normal form (nil == empty, status ignored).
func normalise(p config.Pipeline) string {
	ip := func(x *int) int {
		if x == nil {
			return -1
		}
		return *x
	}
	n := nPipe{ID: p.ID, Name: p.Name, Desc: p.Description, DLQPlugin: p.DLQ.Plugin, DLQSettings: nonNil(p.DLQ.Settings),
		DLQWin: ip(p.DLQ.WindowSize), DLQThr: ip(p.DLQ.WindowNackThreshold), Conns: []nConn{}, Procs: normProcs(p.Processors)}
	for _, c := range p.Connectors {
		n.Conns = append(n.Conns, nConn{ID: c.ID, Type: c.Type, Plugin: c.Plugin, Name: c.Name, Settings: nonNil(c.Settings), Procs: normProcs(c.Processors)})
	}
	b, _ := json.Marshal(n)
	return string(b)
}
