package p16

import (
	"encoding/json"
	"fmt"
	"os"
	"strings"
	"testing"

	"pgregory.net/rapid"
	"verifharness/lab"
	"verifharness/pbt"
)

// C13 through its real caller. The lab part of C13 (props/c13_test.go) drives
// lifecycle.Service.ReconfigureProcessor directly; what an operator observes of "the old
// configuration keeps running and the caller gets the error" also depends on what
// provisioning.ApplyPlanLive makes of the answer (roll the stored configuration back and keep
// the run, or fall back to stop + import + start). This part applies a processor-only change to
// a running pipeline of the default engine through the real provisioning.Service and judges the
// statement of C13 on the outcome:
//
//   - the new configuration cannot be opened (scripted Open failure of the new generation) or can
//     not even be built (a plugin that cannot be dispensed): the caller gets an error, the run is
//     left alone (no stop / start / connector stop or teardown caused by the apply, pipeline still
//     running when the call returns), the exported and stored configuration is the old one and
//     every record processed afterwards carries the OLD generation of every processor;
//   - the change is applied: every record is processed by exactly one generation per processor,
//     old* new* per processor and per (destination, source), nothing lost or duplicated (the
//     clauses of the C16 oracle that concern record flow, re-keyed).
//
// All processors are single-worker nodes (the only shape the statement's "without restarting it"
// applies to; a parallel processor legitimately falls back to a restart and is C16's business).

const c13Prefix = "C13/apply/"

// c16KeysForC13: clauses of the C16 oracle that state C13's record-flow guarantees.
var c16KeysForC13 = []string{
	"C16/in-place/stamp-went-back/", "C16/old-configuration-used-after-apply-returned/", "C16/unexpected-generation/",
	"C16/record-path-mismatch", "C16/failed-apply/running-with-new-config/", "C16/after-apply/ack-order", "C16/after-apply/acked-unhandled",
	"C16/in-place-apply-touched-connectors/",
}

func oracleC13(res *result) []lab.Violation {
	if res.ProvisionErr != nil || res.Inconclusive != "" || res.Wedged {
		return nil
	}
	var vs []lab.Violation
	add := func(key, detail string, idx int) {
		vs = append(vs, lab.Violation{Prop: "C13", Key: c13Prefix + key, Detail: detail, Index: idx})
	}
	for _, v := range oracle(res) {
		for _, p := range c16KeysForC13 {
			if strings.HasPrefix(v.Key, p) {
				v.Prop = "C13"
				v.Key = c13Prefix + strings.TrimPrefix(v.Key, "C16/")
				vs = append(vs, v)
				break
			}
		}
	}
	h := newHist(res)
	for _, c := range h.calls {
		if !c.returned() || c.CallIdx < 0 || c.RetIdx < 0 || c.Pipeline != lab.PipelineID {
			return vs
		}
		kind := kindLabel(c.Kinds)
		// only a processor-only change presented with a fresh hash to a healthy running pipeline
		if !isRunningStatus(c.StatusBefore) || !c.TruthLive || c.TruthEmpty || c.Hash != c.TruthHash || !c.Allow {
			continue
		}
		if c.Err == nil {
			continue // applied: judged by the flow clauses above
		}
		// The apply failed. In this campaign the only scripted causes are the new processor's
		// Open failure and a plugin that cannot be dispensed: "the old one keeps running and the
		// caller gets the error".
		stop := h.first(c.Tag, "life.stop", -1) // life.stop.call and life.stopandwait.call
		start := h.first(c.Tag, "life.start.call", -1)
		if stop >= 0 || start >= 0 {
			add("failed-reconfigure-restarted-the-pipeline/"+kind,
				fmt.Sprintf("%s failed (%s) but stopped/started the run (stop@%d start@%d) instead of leaving the old processor running", c.Tag, trunc(c.Err.Error(), 160), stop, start), c.RetIdx)
			continue
		}
		for i := c.CallIdx + 1; i < c.RetIdx; i++ {
			if k := h.ev[i].Kind; k == lab.EvSrcStop || k == lab.EvSrcTeardown || k == lab.EvDstStop || k == lab.EvDstTeardown {
				add("failed-reconfigure-touched-connectors/"+kind,
					fmt.Sprintf("%s failed but between call and return: %s", c.Tag, h.ev[i].String()), i)
				break
			}
		}
		if !isRunningStatus(c.StatusAfter) {
			add("failed-reconfigure-pipeline-not-running/"+kind,
				fmt.Sprintf("%s failed (%s) and the pipeline is %s when the call returns; it was %s before", c.Tag, trunc(c.Err.Error(), 160), c.StatusAfter, c.StatusBefore), c.RetIdx)
		}
	}
	return vs
}

// TestReplayC13Apply re-runs a saved case of this part (schedule between boundary events is not
// reproducible, so it is repeated) and fails iff the oracle reports the saved key again.
func TestReplayC13Apply(t *testing.T) {
	f := os.Getenv("VERIF_REPLAY_FILE")
	if f == "" {
		t.Skip("VERIF_REPLAY_FILE not set")
	}
	raw, err := os.ReadFile(f)
	if err != nil {
		t.Fatal(err)
	}
	var doc struct {
		Key    string    `json:"key"`
		Replay c16Replay `json:"replay"`
	}
	if err := json.Unmarshal(raw, &doc); err != nil {
		t.Fatal(err)
	}
	if doc.Replay.Case == nil || doc.Replay.Case.Lab == nil {
		t.Skip("not a C13 apply replay")
	}
	for i := 0; i < 5; i++ {
		var cs c16Case
		b, _ := json.Marshal(doc.Replay.Case)
		_ = json.Unmarshal(b, &cs)
		res := runC16(&cs, lab.ReplayPick(cs.Lab.Choices))
		if res.ProvisionErr != nil {
			t.Fatalf("provision: %v", res.ProvisionErr)
		}
		for _, v := range oracleC13(res) {
			if doc.Key == "" || v.Key == doc.Key {
				t.Errorf("run %d: %s", i, v.String())
				t.Logf("calls: %+v", reportsOf(res))
				t.Logf("history:\n%s", lab.Format(res.Events, 200))
				return
			}
		}
	}
}

// TestC13Apply: C13 judged through provisioning.ApplyPlanLive (default engine).
func TestC13Apply(t *testing.T) { c13Apply(t, false) }

// TestC13ApplySlow: as TestC13Apply, but the new processor of every case takes 11.5 s to open and
// then opens fine ("every outcome of opening the new processor"): the apply has to wait for it
// and succeed, or fail and leave the OLD processor running - never answer with an error while the
// swap still completes behind the caller's back. Costs wall time, hence few cases.
func TestC13ApplySlow(t *testing.T) { c13Apply(t, true) }

func c13Apply(t *testing.T, slow bool) {
	st := pbt.For("C13")
	defer st.Finish(t)
	rapid.Check(t, func(t *rapid.T) {
		cs := genCase(t, genOpts{C13: true, SlowOpen: slow})
		pbt.MarkCurrent("C13", cs)
		res := runC16(cs, rapidPick(t))
		if res.ProvisionErr != nil {
			t.Fatalf("provision: %v", res.ProvisionErr)
		}
		cls0, inflight := classesOf(res)
		cls := []string{"part=apply"}
		if slow {
			cls = []string{"part=apply-slow"}
		}
		for _, c := range cls0 {
			if strings.HasPrefix(c, "kind=") || strings.HasPrefix(c, "outcome=") || strings.HasPrefix(c, "fault=") || c == "apply-with-records-in-flight" {
				cls = append(cls, "apply:"+c)
			}
		}
		failedWhileRunning := false
		for _, c := range res.Calls {
			if c.returned() && c.Err != nil && isRunningStatus(c.StatusBefore) {
				failedWhileRunning = true
			}
		}
		if failedWhileRunning {
			cls = append(cls, "apply:new-configuration-refused-while-running")
		}
		if res.Inconclusive != "" {
			st.Inconcl(res.Inconclusive)
		}
		// non-trivial: the apply met a running pipeline with records in flight, or the new
		// configuration was refused while the pipeline ran
		nontrivial := inflight || failedWhileRunning
		hashIn := map[string]any{"old": cs.Old, "reqs": cs.Reqs, "fault": cs.Fault, "lab": cs.Lab.Sources, "part": "apply"}
		st.Case(pbt.Hash(hashIn), nontrivial, cls...)
		if nontrivial && st.WantSample() {
			st.Sample(map[string]any{"case": cs, "calls": reportsOf(res), "history_tail": historyLines(tail(res.Events, 40))})
		}
		reportAll(t, st, res, oracleC13(res))
	})
}
