package p16

import (
	"context"
	"fmt"
	"sort"
	"strconv"
	"strings"

	"github.com/conduitio/conduit/pkg/pipeline"
	"github.com/conduitio/conduit/pkg/provisioning"
	"verifharness/lab"
)

// ---------------------------------------------------------------- history index

type note struct {
	Idx  int
	Info string
}

type runStart struct {
	Idx int
	Cfg pipeM
	Tag string // "" = the initial start
}

type hist struct {
	res    *result
	ev     []lab.Event
	eng    string
	notes  map[string][]note // tag -> notes in order
	runs   []runStart        // starts of pipeline runs, in order
	calls  []*call           // calls for the lab pipeline, in issue order
	byTag  map[string]*call
	allDst []string
}

func newHist(res *result) *hist {
	h := &hist{res: res, ev: res.Events, eng: res.Case.Lab.Engine, notes: map[string][]note{}, byTag: map[string]*call{}}
	for _, c := range res.Calls {
		h.byTag[c.Tag] = c
		if c.Pipeline == lab.PipelineID {
			h.calls = append(h.calls, c)
		}
	}
	for i, e := range h.ev {
		if e.Kind == lab.EvNote && (strings.HasPrefix(e.Info, "import-txn-") || strings.HasPrefix(e.Info, "life.") || strings.HasPrefix(e.Info, "stop-flush-fault")) {
			h.notes[e.Comp] = append(h.notes[e.Comp], note{i, e.Info})
		}
		if e.Kind == lab.EvCtlCall && e.Comp == "start" {
			h.runs = append(h.runs, runStart{Idx: i, Cfg: res.Case.Old})
		}
		if e.Kind == lab.EvNote && e.Info == "life.start.call" {
			if c := h.byTag[e.Comp]; c != nil && c.Pipeline == lab.PipelineID {
				h.runs = append(h.runs, runStart{Idx: i, Cfg: c.Desired, Tag: c.Tag})
			}
		}
	}
	for _, d := range res.Case.Lab.Dests {
		h.allDst = append(h.allDst, d.ID)
	}
	return h
}

func (h *hist) commitFaultFired() bool {
	return h.res.Case.Fault.Kind == "commit" && len(h.all("apply#0", "import-txn-commit injected-failure")) > 0
}

// runAt returns the run a plugin instance opened at log index idx belongs to.
func (h *hist) runAt(idx int) *runStart {
	var r *runStart
	for i := range h.runs {
		if h.runs[i].Idx < idx {
			r = &h.runs[i]
		}
	}
	return r
}

func (h *hist) first(tag, prefix string, after int) int {
	for _, n := range h.notes[tag] {
		if n.Idx > after && strings.HasPrefix(n.Info, prefix) {
			return n.Idx
		}
	}
	return -1
}

func (h *hist) all(tag, prefix string) []int {
	var out []int
	for _, n := range h.notes[tag] {
		if strings.HasPrefix(n.Info, prefix) {
			out = append(out, n.Idx)
		}
	}
	return out
}

// storedAt returns the stored position of a source as of log index idx (exclusive).
func (h *hist) storedAt(idx int, srcID string) string {
	last := 0
	for i := 0; i < idx && i < len(h.ev); i++ {
		e := h.ev[i]
		if (e.Kind == lab.EvDBCommit || e.Kind == lab.EvDBSet) && e.OK && e.Snap != 0 {
			last = e.Snap
		}
	}
	if last == 0 {
		return ""
	}
	pos, _ := lab.StoredPosition(h.res.World.DB.Snap(last), srcID)
	return pos
}

func isConnPluginLifecycle(k string) bool {
	switch k {
	case lab.EvSrcOpen, lab.EvSrcStop, lab.EvSrcTeardown, lab.EvDstOpen, lab.EvDstStop, lab.EvDstTeardown:
		return true
	}
	return false
}

func isProcLifecycle(k string) bool { return k == lab.EvProcOpen || k == lab.EvProcTear }

// isStopEvent: plugin events that only a stop (or an import's throw-away processor) produces.
// Open events are not in the list: the default engine opens the plugins of a run after Start
// returned, so an open of the FIRST run may fall into the window of a call issued right after.
func isStopEvent(k string) bool {
	switch k {
	case lab.EvSrcStop, lab.EvSrcTeardown, lab.EvDstStop, lab.EvDstTeardown, lab.EvProcTear:
		return true
	}
	return false
}

// unpaired lists plugin instances opened before idx that were not torn down before idx.
func (h *hist) unpaired(idx int) []string {
	type inst struct {
		comp string
		n    int
	}
	opens, tears := map[inst]int{}, map[inst]int{}
	for i := 0; i < idx && i < len(h.ev); i++ {
		e := h.ev[i]
		switch e.Kind {
		case lab.EvSrcOpen, lab.EvDstOpen, lab.EvProcOpen:
			if e.Info == "" {
				opens[inst{e.Comp, e.Inst}]++
			}
		case lab.EvSrcTeardown, lab.EvDstTeardown, lab.EvProcTear:
			tears[inst{e.Comp, e.Inst}]++
		}
	}
	var out []string
	for k, n := range opens {
		if tears[k] != n {
			out = append(out, fmt.Sprintf("%s/%d opened %d torn down %d", k.comp, k.n, n, tears[k]))
		}
	}
	sort.Strings(out)
	return out
}

// view builds a lab case that contains only the given destinations and no
// processors (all scripts are pass-through), for lab's accounting oracles.
func (h *hist) view(dests []string) (*lab.Case, *lab.History) {
	c := h.res.Case.Lab
	v := &lab.Case{Engine: c.Engine}
	for _, s := range c.Sources {
		s2 := s
		s2.Procs = nil
		v.Sources = append(v.Sources, s2)
	}
	for _, d := range dests {
		v.Dests = append(v.Dests, lab.DestSpec{ID: d})
	}
	return v, lab.NewHistory(v, lab.BuildModel(v), h.ev)
}

func stampsOf(gens string) (ids []string, vals []string) {
	if gens == "" {
		return nil, nil
	}
	for _, part := range strings.Split(gens, ";") {
		i := strings.LastIndexByte(part, '=')
		if i < 0 {
			ids, vals = append(ids, part), append(vals, "")
			continue
		}
		ids, vals = append(ids, part[:i]), append(vals, part[i+1:])
	}
	return
}

func short(full string) string { return strings.TrimPrefix(full, lab.PipelineID+":") }

func statusStopped(st pipeline.Status) bool {
	return st == pipeline.StatusUserStopped || st == pipeline.StatusSystemStopped
}

// ---------------------------------------------------------------- the oracle

func oracle(res *result) []lab.Violation {
	var vs []lab.Violation
	if res.ProvisionErr != nil || res.Inconclusive != "" {
		return nil
	}
	h := newHist(res)
	eng := h.eng
	add := func(key, detail string, idx int) {
		vs = append(vs, lab.Violation{Prop: "C16", Key: "C16/" + key, Detail: detail, Index: idx})
	}

	// bounded quiescence (R3): an apply that never returns while every plugin call returned
	if res.Wedged {
		for _, c := range res.Calls {
			if !c.returned() {
				add("apply-never-returns/"+eng, fmt.Sprintf("%s (%v) did not return: %s", c.Tag, c.Kinds, res.WedgeInfo), len(res.Events))
				return vs
			}
		}
		return nil // a wedge without an outstanding apply is C06/C11's business
	}
	for _, c := range res.Calls {
		if !c.returned() || c.CallIdx < 0 || c.RetIdx < 0 {
			return nil // inconclusive (budget), nothing to judge
		}
	}

	commitFaultFired := h.commitFaultFired()
	failKey := func(c *call, clause string) string {
		if commitFaultFired && c.Tag == "apply#0" {
			return "failed-apply/" + eng + "/import-not-atomic-see-C15"
		}
		return "failed-apply/" + clause + "/" + eng + "/" + kindLabel(c.Kinds)
	}

	// group the calls for the lab pipeline by request
	groups := map[int][]*call{}
	var order []int
	for _, c := range h.calls {
		if _, ok := groups[c.Req]; !ok {
			order = append(order, c.Req)
		}
		groups[c.Req] = append(groups[c.Req], c)
	}

	tagged := func(c *call) []note { return h.notes[c.Tag] }
	untouchedByTag := func(c *call) string {
		if ns := tagged(c); len(ns) > 0 {
			return fmt.Sprintf("%s at #%d", ns[0].Info, ns[0].Idx)
		}
		return ""
	}
	// window events that a refused call must not cause (only judged when no other apply overlaps)
	// After a scripted Open failure of the restarted run the default engine fails the pipeline
	// asynchronously (Start had returned nil): status and plugin events of later calls are then
	// not attributable to those calls.
	unstableAfterFirst := res.Case.Fault.Kind == "src-open" || res.Case.Fault.Kind == "proc-open"
	windowTouch := func(c *call) string {
		if unstableAfterFirst && c.Req > 0 {
			return ""
		}
		for i := c.CallIdx + 1; i < c.RetIdx; i++ {
			e := h.ev[i]
			if !strings.HasPrefix(e.Comp, lab.PipelineID) {
				continue // the second pipeline
			}
			if isStopEvent(e.Kind) || strings.HasPrefix(e.Kind, "status") {
				return e.String()
			}
		}
		return ""
	}

	for _, rq := range order {
		g := groups[rq]
		var P *post
		for _, c := range g {
			if c.Post != nil {
				P = c.Post
			}
		}
		overl := len(g) > 1
		var applied []*call
		for _, c := range g {
			if c.Err == nil && !c.TruthEmpty && c.Mode != provisioning.ApplyModeUnknown {
				applied = append(applied, c)
			}
		}
		if overl {
			// (7) the per-pipeline lock: the blocks of the two calls do not interleave
			a, b := g[0], g[1]
			na, nb := tagged(a), tagged(b)
			if len(na) > 0 && len(nb) > 0 {
				a0, a1, b0, b1 := na[0].Idx, na[len(na)-1].Idx, nb[0].Idx, nb[len(nb)-1].Idx
				if a0 < b1 && b0 < a1 {
					add("concurrent/write-blocks-interleave/"+eng, fmt.Sprintf("%s worked in #%d..#%d and %s in #%d..#%d: the two applies for the same pipeline interleave", a.Tag, a0, a1, b.Tag, b0, b1), max(a0, b0))
				}
			}
			if a.Err == nil && b.Err == nil && !a.TruthEmpty && !b.TruthEmpty && len(na) > 0 && len(nb) > 0 {
				// Both applied. The one that got the lock second must have seen the plan it presented:
				// recompute its plan on the store as the first one left it.
				first, second := a, b
				if nb[0].Idx < na[0].Idx {
					first, second = b, a
				}
				at := h.notes[second.Tag][0].Idx
				if fresh, err := h.planOnStoreAt(at, second); err != nil {
					add("concurrent/both-applied/"+eng, fmt.Sprintf("both concurrent applies returned nil and the plan of the second one cannot be recomputed: %v", err), second.RetIdx)
				} else if fresh != second.Hash {
					add("concurrent/both-applied/"+eng, fmt.Sprintf("both concurrent applies (%s %v first, then %s %v) returned nil, but after the first one the plan of the second has hash %.12s, not the presented %.12s: a stale plan was applied",
						first.Tag, first.Kinds, second.Tag, second.Kinds, fresh, second.Hash), second.RetIdx)
				}
			}
		}

		for _, c := range g {
			kind := kindLabel(c.Kinds)
			stale := c.Hash != c.TruthHash
			running := isRunningStatus(c.StatusBefore)
			code := c.ErrCode
			errStr := ""
			if c.Err != nil {
				errStr = trunc(c.Err.Error(), 300)
			}

			// ---- refusals: nothing may be touched (valid under concurrency too: tagged activity)
			if code == provisioning.CodePlanStale.Reason() || code == provisioning.CodeLiveApplyUnauthorized.Reason() {
				if t := untouchedByTag(c); t != "" {
					k := "stale-plan-touched-something/"
					if code != provisioning.CodePlanStale.Reason() {
						k = "unauthorised-apply-touched-something/"
					}
					add(k+eng+"/"+kind, fmt.Sprintf("%s was refused (%s) but did: %s", c.Tag, code, t), c.RetIdx)
				}
			}
			if overl {
				// what each of two racing calls must answer depends on who got the lock first; only
				// the group as a whole is judged (above and below)
				continue
			}

			switch {
			case stale:
				// (1)
				if code != provisioning.CodePlanStale.Reason() {
					add("stale-plan-not-refused/"+eng+"/"+kind, fmt.Sprintf("%s presented hash %.12s but the current plan hash is %.12s (mode %s); expected %s, got err=%q mode=%q",
						c.Tag, c.Hash, c.TruthHash, c.HashMode, provisioning.CodePlanStale.Reason(), errStr, c.Mode), c.RetIdx)
				}
				h.checkUntouched(add, c, P, "stale-plan-touched-something/"+eng+"/"+kind, windowTouch(c))
			case c.TruthEmpty:
				if c.Err != nil {
					add("empty-plan-not-idempotent/"+eng, fmt.Sprintf("%s: the plan is empty and the hash fresh but the call failed: %s", c.Tag, errStr), c.RetIdx)
				}
				h.checkUntouched(add, c, P, "empty-plan-not-idempotent/"+eng, windowTouch(c))
				if t := untouchedByTag(c); t != "" {
					add("empty-plan-not-idempotent/"+eng, fmt.Sprintf("%s: empty plan but the call did: %s", c.Tag, t), c.RetIdx)
				}
			case running && !c.Allow:
				// (2)
				if code != provisioning.CodeLiveApplyUnauthorized.Reason() {
					add("unauthorised-apply-not-refused/"+eng+"/"+kind, fmt.Sprintf("%s: pipeline %s, plan non-empty, no operator authorisation; expected %s, got err=%q mode=%q",
						c.Tag, c.StatusBefore, provisioning.CodeLiveApplyUnauthorized.Reason(), errStr, c.Mode), c.RetIdx)
				}
				h.checkUntouched(add, c, P, "unauthorised-apply-touched-something/"+eng+"/"+kind, windowTouch(c))
			default:
				if code == provisioning.CodePlanStale.Reason() {
					add("fresh-plan-refused-as-stale/"+eng+"/"+kind, fmt.Sprintf("%s presented the hash of a plan computed right before the call, nothing changed in between: %s", c.Tag, errStr), c.RetIdx)
				}
			}
		}

		// ---- calls that tried the apply
		for _, c := range g {
			kind := kindLabel(c.Kinds)
			code := c.ErrCode
			if code == provisioning.CodePlanStale.Reason() || code == provisioning.CodeLiveApplyUnauthorized.Reason() {
				continue
			}
			if c.TruthEmpty && !overl {
				continue
			}
			// (3) whatever the outcome: a change that is not live-eligible is never imported into a
			// pipeline whose old run has not completely drained
			if begins := h.all(c.Tag, "import-txn-begin"); len(begins) > 0 && !c.TruthLive && (overl || isRunningStatus(c.StatusBefore)) {
				h.drainedAt(add, c, begins[0])
			}
			if c.Err == nil {
				if c.Mode == provisioning.ApplyModeUnknown {
					continue // an idempotent empty re-apply (a twin whose desired state was already reached)
				}
				h.checkSuccess(add, c, P, overl, len(applied))
			} else if P != nil {
				h.checkFailure(add, c, g, P, overl, failKey)
			}
			_ = kind
		}
	}

	// ---- the second, never started pipeline
	for _, c := range res.Calls {
		if c.Pipeline != otherID {
			continue
		}
		if c.Err != nil || c.Mode != provisioning.ApplyModeProvisioned && !c.TruthEmpty {
			add("other-pipeline-apply-disturbed/"+eng, fmt.Sprintf("apply to the stopped pipeline %s concurrently with an apply to %s: err=%v mode=%q", otherID, lab.PipelineID, c.Err, c.Mode), c.RetIdx)
		} else if got, ok := res.FinalExport[otherID]; ok && got != c.DesNorm {
			add("other-pipeline-apply-disturbed/"+eng, fmt.Sprintf("after the apply pipeline %s is not the desired configuration: got %s want %s", otherID, trunc(got, 400), trunc(c.DesNorm, 400)), c.RetIdx)
		}
	}

	vs = append(vs, h.checkFlow()...)
	return vs
}

type addFn func(key, detail string, idx int)

// checkUntouched: a refused call (or an empty plan) leaves the stored configuration, the
// exported configuration, the status and the running plugins alone.
func (h *hist) checkUntouched(add addFn, c *call, P *post, key string, windowEvent string) {
	if windowEvent != "" {
		add(key, fmt.Sprintf("%s must not touch the pipeline but between call and return: %s", c.Tag, windowEvent), c.RetIdx)
	}
	unstable := (h.res.Case.Fault.Kind == "src-open" || h.res.Case.Fault.Kind == "proc-open") && c.Req > 0
	if c.StatusAfter != c.StatusBefore && !unstable {
		add(key, fmt.Sprintf("%s must not touch the pipeline but its status went from %s to %s", c.Tag, c.StatusBefore, c.StatusAfter), c.RetIdx)
	}
	if P == nil {
		return
	}
	if P.Export != c.ExportBefore {
		add(key, fmt.Sprintf("%s must not touch the pipeline but the exported configuration changed: before %s after %s (%s)", c.Tag, trunc(c.ExportBefore, 500), trunc(P.Export, 500), P.ExportErr), c.RetIdx)
	}
	if d := diffDocs(c.DocsBefore, configDocs(P.Store, c.Pipeline)); d != "" {
		add(key, fmt.Sprintf("%s must not touch the pipeline but stored configuration documents changed: %s", c.Tag, trunc(d, 800)), c.RetIdx)
	}
}

// drainedAt checks clause (3) at log index T: the old run has completely ended and its positions are durable.
func (h *hist) drainedAt(add0 addFn, c *call, T int) {
	eng, kind := h.eng, kindLabel(c.Kinds)
	add := add0
	if h.stopFlushFired(c) {
		// one root cause (NOTES.md, D3): the flush failure is swallowed by the stop
		add = func(_ string, detail string, idx int) {
			add0(strings.TrimPrefix(keyFlushSwallowed(eng), "C16/"), detail, idx)
		}
	}
	if un := h.unpaired(T); len(un) > 0 {
		add("import-before-drained/plugin-not-torn-down/"+eng+"/"+kind, fmt.Sprintf("%s started to import at #%d while plugins of the old run were still open: %v", c.Tag, T, un), T)
	}
	lastStatus := ""
	for i := 0; i < T; i++ {
		if h.ev[i].Kind == lab.EvStatus && h.ev[i].Comp == lab.PipelineID {
			lastStatus = h.ev[i].Info
		}
	}
	if !strings.HasPrefix(lastStatus, "UserStopped") && !strings.HasPrefix(lastStatus, "SystemStopped") {
		add("import-before-drained/pipeline-not-stopped/"+eng+"/"+kind, fmt.Sprintf("%s started to import at #%d while the last status written was %q", c.Tag, T, lastStatus), T)
	}
	type wkey struct{ comp, k string }
	written := map[wkey]int{}
	answered := map[wkey]bool{}
	reached := map[[2]int]int{}
	acked := map[[2]int]bool{}
	lastAck := map[int]int{}
	for i := 0; i < T; i++ {
		e := h.ev[i]
		switch e.Kind {
		case lab.EvDstWrite:
			k := wkey{e.Comp, lab.Key(e.Src, e.Seq, e.Piece)}
			if _, ok := written[k]; !ok {
				written[k] = i
			}
			if e.Src >= 0 {
				if _, ok := reached[[2]int{e.Src, e.Seq}]; !ok {
					reached[[2]int{e.Src, e.Seq}] = i
				}
			}
		case lab.EvDstAck:
			answered[wkey{e.Comp, lab.Key(e.Src, e.Seq, e.Piece)}] = true
		case lab.EvSrcAck:
			if e.Src >= 0 {
				acked[[2]int{e.Src, e.Seq}] = true
				if q, ok := lastAck[e.Src]; !ok || e.Seq > q {
					lastAck[e.Src] = e.Seq
				}
			}
		}
	}
	var wk []wkey
	for k := range written {
		wk = append(wk, k)
	}
	sort.Slice(wk, func(i, j int) bool { return written[wk[i]] < written[wk[j]] })
	for _, k := range wk {
		if !answered[k] {
			add("import-before-drained/written-record-unconfirmed/"+eng+"/"+kind, fmt.Sprintf("%s started to import at #%d but %s was written %s at #%d and had not answered yet", c.Tag, T, k.comp, k.k, written[k]), T)
			break
		}
	}
	var rk [][2]int
	for k := range reached {
		rk = append(rk, k)
	}
	sort.Slice(rk, func(i, j int) bool { return reached[rk[i]] < reached[rk[j]] })
	for _, k := range rk {
		if !acked[k] {
			add("import-before-drained/handled-record-not-acked/"+eng+"/"+kind, fmt.Sprintf("%s started to import at #%d but s%d:%d had reached a destination at #%d and its source had not been told", c.Tag, T, k[0], k[1], reached[k]), T)
			break
		}
	}
	for si, s := range h.res.Case.Lab.Sources {
		want := ""
		if q, ok := lastAck[si]; ok {
			want = lab.PosOf(si, q)
		}
		if got := h.storedAt(T, s.ID); got != want {
			add("import-before-drained/stored-position-not-last-ack/"+eng+"/"+kind, fmt.Sprintf("%s started to import at #%d: the store held %q for %s but the last acked position is %q", c.Tag, T, got, s.ID, want), T)
		}
	}
}

func (h *hist) checkSuccess(add addFn, c *call, P *post, overl bool, nApplied int) {
	eng, kind := h.eng, kindLabel(c.Kinds)
	running := isRunningStatus(c.StatusBefore)
	fault := h.res.Case.Fault.Kind
	restartFaulted := fault == "src-open" || fault == "proc-open"

	begins := h.all(c.Tag, "import-txn-begin")
	startCall := h.first(c.Tag, "life.start.call", -1)
	stopCall := h.first(c.Tag, "life.stop", -1)
	connTouched := ""
	for i := c.CallIdx + 1; i < c.RetIdx; i++ {
		if k := h.ev[i].Kind; k == lab.EvSrcStop || k == lab.EvSrcTeardown || k == lab.EvDstStop || k == lab.EvDstTeardown {
			connTouched = h.ev[i].String()
			break
		}
	}
	if running && !overl {
		switch c.Mode {
		case provisioning.ApplyModeInPlace:
			// (4) in place: connectors and the run are left alone
			if connTouched != "" || startCall >= 0 || stopCall >= 0 {
				add("in-place-apply-touched-connectors/"+eng+"/"+kind, fmt.Sprintf("%s reports an in-place apply but between call and return: %s (stop@%d start@%d)", c.Tag, connTouched, stopCall, startCall), c.RetIdx)
			}
			if !c.TruthLive {
				add("in-place-apply-of-restart-class-change/"+eng+"/"+kind, fmt.Sprintf("%s applied %v in place although the plan is not live-eligible", c.Tag, c.Kinds), c.RetIdx)
			}
		case provisioning.ApplyModeRestart:
			// (3) restart class: nothing is imported before the old run is drained and durable
			if len(begins) == 0 {
				add("import-before-drained/no-import-seen/"+eng+"/"+kind, fmt.Sprintf("%s reports a restart apply but no import transaction was opened", c.Tag), c.RetIdx)
				break
			}
			T := -1 // (the not live-eligible case is judged by the caller for every outcome)
			if c.TruthLive {
				// a live-eligible diff is committed first (allowed in place) and falls back to a
				// restart when a processor cannot be swapped: judge the import that precedes the start
				T = -1
				for _, b := range begins {
					if startCall < 0 || b < startCall {
						T = b
					}
				}
			}
			if T >= 0 {
				h.drainedAt(add, c, T)
			}
			if startCall >= 0 {
				// the new run continues from the durable position
				for i := startCall; i < len(h.ev); i++ {
					e := h.ev[i]
					if e.Kind == lab.EvCtlCall || (e.Kind == lab.EvNote && e.Info == "life.start.call" && i > startCall) {
						break
					}
					if e.Kind == lab.EvSrcOpen {
						if want := h.storedAt(i, e.Comp); e.Pos != want {
							key := "restart-not-from-durable-position/" + eng
							if h.stopFlushFired(c) {
								key = strings.TrimPrefix(keyFlushSwallowed(eng), "C16/")
							}
							add(key, fmt.Sprintf("after %s source %s was reopened with %q but the store holds %q", c.Tag, e.Comp, e.Pos, want), i)
						}
					}
				}
			}
		case provisioning.ApplyModeProvisioned:
			add("running-pipeline-applied-as-if-stopped/"+eng+"/"+kind, fmt.Sprintf("%s: the pipeline was %s but the apply imported without stopping it (mode provisioned)", c.Tag, c.StatusBefore), c.RetIdx)
		}
	}
	if !running && !overl && len(begins) > 0 {
		// nothing live to disrupt; still: no import while plugins are open
		if un := h.unpaired(begins[0]); len(un) > 0 {
			add("import-before-drained/plugin-not-torn-down/"+eng+"/"+kind, fmt.Sprintf("%s imported at #%d into a pipeline reported %s while plugins were open: %v", c.Tag, begins[0], c.StatusBefore, un), begins[0])
		}
	}
	// (5) afterwards: the stored configuration is the desired one and the pipeline runs
	if P != nil && nApplied == 1 {
		if P.Export != c.DesNorm {
			add("after-apply/export-differs-from-desired/"+eng+"/"+kind, fmt.Sprintf("%s returned nil (mode %s) but Export is %s, desired %s (%s)", c.Tag, c.Mode, trunc(P.Export, 600), trunc(c.DesNorm, 600), P.ExportErr), c.RetIdx)
		} else if d := diffMem(P.Mem, reloadMem(h.res, P.Store, c.Pipeline)); d != "" {
			add("after-apply/memory-differs-from-store/"+eng+"/"+kind, fmt.Sprintf("%s returned nil (mode %s) but a server restarted on the store would hold something else: %s", c.Tag, c.Mode, trunc(d, 800)), c.RetIdx)
		}
	}
	if running {
		ok := c.StatusAfter == pipeline.StatusRunning
		if restartFaulted && (c.StatusAfter == pipeline.StatusRecovering || c.StatusAfter == pipeline.StatusDegraded) {
			ok = true // the restarted run failed on its own (scripted Open failure): C10's business
		}
		if !ok {
			add("after-apply/not-running/"+eng+"/"+kind, fmt.Sprintf("%s returned nil (mode %s) for a pipeline that was %s, afterwards its status is %s", c.Tag, c.Mode, c.StatusBefore, c.StatusAfter), c.RetIdx)
		}
	}
}

func (h *hist) checkFailure(add addFn, c *call, g []*call, P *post, overl bool, failKey func(*call, string) string) {
	allowed := map[string]bool{c.ExportBefore: true}
	for _, o := range g {
		if len(h.all(o.Tag, "import-txn-begin")) > 0 {
			allowed[o.DesNorm] = true
		}
	}
	errStr := trunc(c.Err.Error(), 300)
	if !allowed[P.Export] {
		add(failKey(c, "export-neither-old-nor-new"), fmt.Sprintf("%s failed (%s) and Export is neither the old nor the new configuration: %s (%s)", c.Tag, errStr, trunc(P.Export, 600), P.ExportErr), c.RetIdx)
		return
	}
	if d := diffMem(P.Mem, reloadMem(h.res, P.Store, c.Pipeline)); d != "" {
		add(failKey(c, "memory-differs-from-store"), fmt.Sprintf("%s failed (%s); memory and a server restarted on the store disagree: %s", c.Tag, errStr, trunc(d, 800)), c.RetIdx)
	}
	if overl {
		return
	}
	switch {
	case c.StatusAfter == pipeline.StatusRunning || c.StatusAfter == pipeline.StatusRecovering:
		if P.Export != c.ExportBefore {
			add(failKey(c, "running-with-new-config"), fmt.Sprintf("%s failed (%s), the pipeline is still %s with its old plugins but the configuration is the new one", c.Tag, errStr, c.StatusAfter), c.RetIdx)
		}
	case statusStopped(c.StatusAfter):
		if un := h.unpaired(c.RetIdx); len(un) > 0 {
			key := failKey(c, "not-cleanly-stopped")
			if h.onlySourcesOfFailedStart(c) {
				key = keySourceLeftOpen(h.eng)
			}
			add(strings.TrimPrefix(key, "C16/"), fmt.Sprintf("%s failed (%s) and left the pipeline %s, but plugins are still open: %v", c.Tag, errStr, c.StatusAfter, un), c.RetIdx)
		}
	case c.StatusAfter == pipeline.StatusDegraded:
		if un := h.unpaired(len(h.ev)); len(un) > 0 {
			add(failKey(c, "not-cleanly-stopped"), fmt.Sprintf("%s failed (%s) and left the pipeline degraded with plugins still open at the end: %v", c.Tag, errStr, un), c.RetIdx)
		}
	}
}

// planOnStoreAt recomputes the plan hash of c's desired configuration on the store as of log index idx.
func (h *hist) planOnStoreAt(idx int, c *call) (string, error) {
	last := 0
	for i := 0; i < idx && i < len(h.ev); i++ {
		e := h.ev[i]
		if (e.Kind == lab.EvDBCommit || e.Kind == lab.EvDBSet) && e.OK && e.Snap != 0 {
			last = e.Snap
		}
	}
	db := lab.NewFaultDBFrom(nil, h.res.World.DB.Snap(last))
	w2 := lab.NewWorld(h.res.Case.Lab, lab.NewLog(), db)
	if err := w2.InitServices(context.Background()); err != nil {
		return "", err
	}
	prov := provisioning.NewService(db, w2.Logger, w2.Pipelines, w2.Connectors, w2.Processors, w2.Plugins, w2.V1, "")
	d, err := c.Desired.toConfig(c.Pipeline)
	if err != nil {
		return "", err
	}
	diff, err := prov.Plan(context.Background(), d)
	return diff.Hash, err
}

// keyFlushSwallowed names one root cause (NOTES.md, D3): a position flush that fails while
// StopAndWait drains the pipeline is swallowed; StopAndWait returns nil and the apply goes on
// although the handled records were never acked and their position is not in the store.
func keyFlushSwallowed(eng string) string {
	return "C16/import-before-drained/" + eng + "/failed-flush-during-stop-swallowed"
}

func (h *hist) stopFlushFired(c *call) bool {
	return len(h.all(c.Tag, "stop-flush-fault fired")) > 0
}

// keySourceLeftOpen names one root cause (see NOTES.md, D1): the restart of the apply failed
// while opening a worker and the source plugin that had already been opened is never torn down.
func keySourceLeftOpen(eng string) string {
	return "C16/failed-apply/not-cleanly-stopped/" + eng + "/source-left-open-by-failed-start"
}

// onlySourcesOfFailedStart: everything still open when c returned is a source plugin that was
// opened by c's own (failed) Start.
func (h *hist) onlySourcesOfFailedStart(c *call) bool {
	start := h.first(c.Tag, "life.start.call", -1)
	if start < 0 {
		return false
	}
	type inst struct {
		comp string
		n    int
	}
	open := map[inst]int{}
	isSrc := map[inst]bool{}
	for i := 0; i < c.RetIdx; i++ {
		e := h.ev[i]
		switch e.Kind {
		case lab.EvSrcOpen, lab.EvDstOpen, lab.EvProcOpen:
			if e.Info == "" {
				open[inst{e.Comp, e.Inst}] = i
				isSrc[inst{e.Comp, e.Inst}] = e.Kind == lab.EvSrcOpen
			}
		case lab.EvSrcTeardown, lab.EvDstTeardown, lab.EvProcTear:
			delete(open, inst{e.Comp, e.Inst})
		}
	}
	if len(open) == 0 {
		return false
	}
	for k, i := range open {
		if !isSrc[k] || i < start {
			return false
		}
	}
	return true
}

// reloadMem boots fresh services on a copy of the store and lists what they hold.
func reloadMem(res *result, store map[string][]byte, id string) map[string]string {
	w2 := lab.NewWorld(res.Case.Lab, lab.NewLog(), lab.NewFaultDBFrom(nil, store))
	if err := w2.InitServices(context.Background()); err != nil {
		return map[string]string{"init-error": err.Error()}
	}
	return memSnapshot(w2, id)
}

func diffMem(mem, rel map[string]string) string {
	return diffDocs(rel, mem)
}

// ---------------------------------------------------------------- record flow over the whole history

// checkFlow: nothing is lost, skipped, processed by the wrong configuration or acked early, over the whole log.
func (h *hist) checkFlow() []lab.Violation {
	var vs []lab.Violation
	eng := h.eng
	add := func(key, detail string, idx int) {
		vs = append(vs, lab.Violation{Prop: "C16", Key: "C16/" + key, Detail: detail, Index: idx})
	}
	res := h.res

	// which configuration does a plugin instance run under?
	type inst struct {
		comp string
		n    int
	}
	openIdx := map[inst]int{}
	for i, e := range h.ev {
		if (e.Kind == lab.EvSrcOpen || e.Kind == lab.EvDstOpen) && e.Info == "" {
			if _, ok := openIdx[inst{e.Comp, e.Inst}]; !ok {
				openIdx[inst{e.Comp, e.Inst}] = i
			}
		}
	}
	cfgOf := func(comp string, n int) *pipeM {
		i, ok := openIdx[inst{comp, n}]
		if !ok {
			return nil
		}
		if r := h.runAt(i); r != nil {
			return &r.Cfg
		}
		return nil
	}

	// C01 per run: acked => every destination of that run's configuration confirmed it
	views := map[string]*lab.History{}
	viewFor := func(dests []string) *lab.History {
		k := strings.Join(dests, ",")
		if v, ok := views[k]; ok {
			return v
		}
		_, hv := h.view(dests)
		views[k] = hv
		return hv
	}
	for i, e := range h.ev {
		if e.Kind != lab.EvSrcAck {
			continue
		}
		if e.Src < 0 {
			add("after-apply/acked-unhandled/"+eng, fmt.Sprintf("source %s was acked position %q which it never produced", e.Comp, e.Pos), i)
			continue
		}
		cfg := cfgOf(e.Comp, e.Inst)
		if cfg == nil {
			continue
		}
		if ok, why := viewFor(cfg.dests()).HandledAt(e.Src, e.Seq, i); !ok {
			add("after-apply/acked-unhandled/"+eng, fmt.Sprintf("source %s (instance %d) acked s%d:%d although %s", e.Comp, e.Inst, e.Src, e.Seq, why), i)
			break
		}
	}
	// destinations present in every configuration that ever ran
	common := map[string]int{}
	for _, r := range h.runs {
		for _, d := range r.Cfg.dests() {
			common[d]++
		}
	}
	var always []string
	for _, d := range h.allDst {
		if common[d] == len(h.runs) && len(h.runs) > 0 {
			always = append(always, d)
		}
	}
	_, hv := h.view(always)
	for _, v := range hv.CheckC04() {
		add("after-apply/ack-order/"+eng, v.Key+": "+v.Detail, v.Index)
	}
	for _, v := range hv.CheckResume("C16") {
		add("after-apply/"+strings.TrimPrefix(v.Key, "C16/"), v.Detail, v.Index)
	}
	if eng == "v1" && res.FinalStopOK && res.FinalStatus == pipeline.StatusUserStopped && hv.AllEmitted() && len(always) > 0 {
		for _, v := range hv.CheckAllHandled("C16") {
			add("after-apply/"+strings.TrimPrefix(v.Key, "C16/"), v.Detail, v.Index)
		}
	}

	// every written record passed exactly the processors of its run's configuration, once each
	for i, e := range h.ev {
		if e.Kind != lab.EvDstWrite || lab.IsDLQ(e.Comp) || e.Src < 0 || e.Src >= len(res.Case.Lab.Sources) {
			continue
		}
		cfg := cfgOf(e.Comp, e.Inst)
		if cfg == nil {
			continue
		}
		want := cfg.path(short(res.Case.Lab.Sources[e.Src].ID), short(e.Comp))
		ids, _ := stampsOf(e.Gen)
		if strings.Join(ids, ",") != strings.Join(want, ",") {
			add("record-path-mismatch/"+eng, fmt.Sprintf("record s%d:%d written to %s/%d carries the stamps %q, the configuration of that run routes it through %v", e.Src, e.Seq, e.Comp, e.Inst, e.Gen, want), i)
			break
		}
	}

	// generations: outside of apply windows every processor runs the configuration in force
	type window struct {
		from, to int
		before   pipeM
		after    *pipeM // nil = unknown
		gens     map[string]map[int]bool
	}
	var wins []window
	cur := res.Case.Old
	curKnown := true
	groups := map[int][]*call{}
	var order []int
	for _, c := range h.calls {
		if _, ok := groups[c.Req]; !ok {
			order = append(order, c.Req)
		}
		groups[c.Req] = append(groups[c.Req], c)
	}
	for _, rq := range order {
		g := groups[rq]
		w := window{from: g[0].CallIdx, to: g[0].RetIdx, before: cur, gens: map[string]map[int]bool{}}
		var P *post
		for _, c := range g {
			w.from, w.to = min(w.from, c.CallIdx), max(w.to, c.RetIdx)
			if c.Post != nil {
				P = c.Post
			}
		}
		allow := func(m pipeM) {
			for id, gn := range m.gens() {
				if w.gens[id] == nil {
					w.gens[id] = map[int]bool{}
				}
				w.gens[id][gn] = true
			}
		}
		allow(cur)
		var after *pipeM
		if P != nil && curKnown {
			if P.Export == g[0].ExportBefore {
				c2 := cur
				after = &c2
			}
			for _, c := range g {
				allow(c.Desired)
				if P.Export == c.DesNorm && !(P.Export == g[0].ExportBefore) {
					d := c.Desired
					after = &d
				}
			}
		}
		if h.commitFaultFired() && g[0].Req == 0 {
			// known (C15): after a failed commit the services hold the new configuration although
			// nothing was stored; what is "in force" is undefined, reported once by the caller
			after = nil
		}
		w.after = after
		wins = append(wins, w)
		if after != nil {
			cur = *after
		} else {
			curKnown = false
		}
	}
	inForce := func(i int) (cfg *pipeM, win *window) {
		c := res.Case.Old
		cfg = &c
		for wi := range wins {
			w := &wins[wi]
			if i >= w.from && i <= w.to {
				return nil, w
			}
			if i > w.to {
				cfg = w.after
			}
		}
		return cfg, nil
	}
	for i, e := range h.ev {
		if e.Kind != lab.EvProcCall {
			continue
		}
		gn, err := strconv.Atoi(e.Gen)
		if err != nil {
			add("unexpected-generation/"+eng, fmt.Sprintf("processor %s processed s%d:%d with generation %q", e.Comp, e.Src, e.Seq, e.Gen), i)
			break
		}
		cfg, win := inForce(i)
		if win != nil {
			if !win.gens[e.Comp][gn] {
				add("unexpected-generation/"+eng, fmt.Sprintf("during an apply processor %s processed s%d:%d with generation %d which is neither the old nor a requested configuration", e.Comp, e.Src, e.Seq, gn), i)
				break
			}
			continue
		}
		if cfg == nil {
			continue
		}
		want, exists := cfg.gens()[e.Comp]
		if !exists {
			add("old-configuration-used-after-apply-returned/"+eng, fmt.Sprintf("processor %s processed s%d:%d at #%d although the configuration in force has no such processor", e.Comp, e.Src, e.Seq, i), i)
			break
		}
		if gn != want {
			add("old-configuration-used-after-apply-returned/"+eng, fmt.Sprintf("processor %s processed s%d:%d at #%d with generation %d, the configuration in force says %d", e.Comp, e.Src, e.Seq, i, gn, want), i)
			break
		}
	}

	// a successful in-place apply never goes back: per processor and per (destination instance, source)
	for _, c := range h.calls {
		if c.Err != nil || c.Mode != provisioning.ApplyModeInPlace || c.Overlapped {
			continue
		}
		oldG := map[string]int{}
		for _, w := range wins {
			if w.from == c.CallIdx {
				oldG = w.before.gens()
			}
		}
		for id, ng := range c.Desired.gens() {
			og, ok := oldG[id]
			if !ok || og == ng {
				continue
			}
			seenNew := false
			for i := c.CallIdx; i < len(h.ev); i++ {
				e := h.ev[i]
				if e.Kind == lab.EvCtlCall && i > c.RetIdx && strings.HasPrefix(e.Comp, "apply#") {
					break
				}
				if e.Kind != lab.EvProcCall || e.Comp != id {
					continue
				}
				if e.Gen == strconv.Itoa(ng) {
					seenNew = true
				} else if seenNew && e.Gen == strconv.Itoa(og) {
					add("in-place/stamp-went-back/"+eng, fmt.Sprintf("processor %s used generation %d for s%d:%d at #%d after it had already used %d", id, og, e.Src, e.Seq, i, ng), i)
					break
				}
			}
			type dk struct {
				comp string
				inst int
				src  int
			}
			newSeen := map[dk]bool{}
			for i := c.CallIdx; i < len(h.ev); i++ {
				e := h.ev[i]
				if e.Kind == lab.EvCtlCall && i > c.RetIdx && strings.HasPrefix(e.Comp, "apply#") {
					break
				}
				if e.Kind != lab.EvDstWrite || lab.IsDLQ(e.Comp) || e.Src < 0 {
					continue
				}
				ids, vals := stampsOf(e.Gen)
				for k := range ids {
					if ids[k] != id {
						continue
					}
					key := dk{e.Comp, e.Inst, e.Src}
					if vals[k] == strconv.Itoa(ng) {
						newSeen[key] = true
					} else if newSeen[key] && vals[k] == strconv.Itoa(og) {
						add("in-place/stamp-went-back/"+eng, fmt.Sprintf("%s/%d: record s%d:%d carries generation %d of %s after a record with %d", e.Comp, e.Inst, e.Src, e.Seq, og, id, ng), i)
					}
				}
			}
		}
	}
	return vs
}

// inFlightAt reports whether records were emitted but not yet acked when the call was issued.
func inFlightAt(ev []lab.Event, idx int) bool {
	emitted, acked := map[int]int{}, map[int]int{}
	for i := 0; i < idx && i < len(ev); i++ {
		e := ev[i]
		if e.Src < 0 {
			continue
		}
		switch e.Kind {
		case lab.EvSrcEmit:
			if e.Seq+1 > emitted[e.Src] {
				emitted[e.Src] = e.Seq + 1
			}
		case lab.EvSrcAck:
			if e.Seq+1 > acked[e.Src] {
				acked[e.Src] = e.Seq + 1
			}
		}
	}
	for s, n := range emitted {
		if n > acked[s] {
			return true
		}
	}
	return false
}
