package p16

import (
	"encoding/json"
	"fmt"
	"os"
	"testing"

	"github.com/conduitio/conduit/pkg/provisioning"
	"pgregory.net/rapid"
	"verifharness/lab"
	"verifharness/pbt"
)

type callReport struct {
	Tag          string   `json:"tag"`
	Pipeline     string   `json:"pipeline"`
	Kinds        []string `json:"kinds"`
	Allow        bool     `json:"allow"`
	HashMode     string   `json:"hash_mode"`
	Stale        bool     `json:"hash_is_stale"`
	PlanEmpty    bool     `json:"plan_empty"`
	LiveEligible bool     `json:"plan_live_eligible"`
	StatusBefore string   `json:"status_before"`
	Returned     bool     `json:"returned"`
	Err          string   `json:"err,omitempty"`
	Code         string   `json:"code,omitempty"`
	Mode         string   `json:"applied_mode,omitempty"`
	StatusAfter  string   `json:"status_after,omitempty"`
	CallIdx      int      `json:"call_idx"`
	RetIdx       int      `json:"ret_idx"`
}

type c16Replay struct {
	Case       *c16Case        `json:"case"`
	Calls      []callReport    `json:"calls"`
	History    []string        `json:"history"`
	Violations []lab.Violation `json:"violations"`
	Status     string          `json:"final_status"`
	StatusErr  string          `json:"final_error,omitempty"`
}

func historyLines(ev []lab.Event) []string {
	out := make([]string, len(ev))
	for i, e := range ev {
		out[i] = e.String()
	}
	return out
}

func tail(ev []lab.Event, n int) []lab.Event {
	if len(ev) > n {
		return ev[len(ev)-n:]
	}
	return ev
}

func reportsOf(res *result) []callReport {
	var out []callReport
	for _, c := range res.Calls {
		r := callReport{Tag: c.Tag, Pipeline: c.Pipeline, Kinds: c.Kinds, Allow: c.Allow, HashMode: c.HashMode, Stale: c.Hash != c.TruthHash,
			PlanEmpty: c.TruthEmpty, LiveEligible: c.TruthLive, StatusBefore: c.StatusBefore.String(), CallIdx: c.CallIdx, RetIdx: c.RetIdx}
		if c.returned() {
			r.Returned = true
			if c.Err != nil {
				r.Err = trunc(c.Err.Error(), 400)
			}
			r.Code, r.Mode, r.StatusAfter = c.ErrCode, string(c.Mode), c.StatusAfter.String()
		}
		out = append(out, r)
	}
	return out
}

func rapidPick(t *rapid.T) func(n int) int {
	return func(n int) int {
		if n <= 1 {
			return 0
		}
		return rapid.IntRange(0, n-1).Draw(t, "pick")
	}
}

// classesOf derives the class labels of a finished case.
func classesOf(res *result) (cls []string, nontrivial bool) {
	cs := res.Case
	cls = append(cls, "engine="+cs.Lab.Engine, fmt.Sprintf("sources=%d", len(cs.Lab.Sources)), "final="+res.FinalStatus.String())
	if cs.Fault.Kind != "" {
		cls = append(cls, "fault="+cs.Fault.Kind)
	}
	if res.Wedged {
		cls = append(cls, "wedged")
	}
	for _, c := range res.Calls {
		if c.Pipeline != lab.PipelineID {
			cls = append(cls, "concurrent-apply-to-other-pipeline")
			continue
		}
		if !c.Twin {
			cls = append(cls, "kind="+kindLabel(c.Kinds))
		}
		if c.Overlapped && c.Twin {
			cls = append(cls, "two-concurrent-applies-same-pipeline")
		}
		if !c.returned() {
			cls = append(cls, "call-not-returned")
			continue
		}
		inflight := c.CallIdx >= 0 && inFlightAt(res.Events, c.CallIdx)
		outcome := "failed"
		switch {
		case c.Err == nil && c.Mode == provisioning.ApplyModeInPlace:
			outcome = "applied-in-place"
		case c.Err == nil && c.Mode == provisioning.ApplyModeRestart:
			outcome = "applied-by-restart"
		case c.Err == nil && c.Mode == provisioning.ApplyModeProvisioned:
			outcome = "applied-while-stopped"
		case c.Err == nil:
			outcome = "empty-plan"
		case c.ErrCode == provisioning.CodePlanStale.Reason():
			outcome = "refused-stale"
		case c.ErrCode == provisioning.CodeLiveApplyUnauthorized.Reason():
			outcome = "refused-unauthorised"
		}
		cls = append(cls, "outcome="+outcome)
		if c.Err != nil && outcome == "failed" && cs.Fault.Kind == "" {
			cls = append(cls, "apply-failed-without-scripted-fault")
		}
		if inflight {
			cls = append(cls, "apply-with-records-in-flight")
		}
		if inflight && !c.TruthEmpty {
			nontrivial = true
		}
	}
	if cs.Fault.Kind == "set" {
		if res.World.DB.Fired > 0 {
			cls = append(cls, "store-fault-fired")
		} else {
			cls = append(cls, "store-fault-not-reached")
		}
	}
	return cls, nontrivial
}

func reportAll(t *rapid.T, st *pbt.Stats, res *result, vs []lab.Violation) {
	if len(vs) == 0 {
		return
	}
	fatal := false
	var first lab.Violation
	for _, v := range vs {
		rp := c16Replay{Case: res.Case, Calls: reportsOf(res), History: historyLines(res.Events), Violations: vs,
			Status: res.FinalStatus.String(), StatusErr: res.FinalErr}
		if st.Report(v.Key, v.Detail, res.Case.Lab.TotalRecords()*1000+len(res.Events), rp) {
			if !fatal {
				first = v
			}
			fatal = true
		}
	}
	if fatal {
		t.Fatalf("%s", first.String())
	}
}

// TestC16: live apply to a running pipeline loses nothing and never applies a stale plan.
func TestC16(t *testing.T) {
	st := pbt.For("C16")
	defer st.Finish(t)
	rapid.Check(t, func(t *rapid.T) {
		cs := genCase(t, genOpts{Known: st.IsKnown, Exclude: st.Exclude})
		pbt.MarkCurrent("C16", cs)
		races0 := raceErrors()
		res := runC16(cs, rapidPick(t))
		if res.ProvisionErr != nil {
			t.Fatalf("provision: %v", res.ProvisionErr)
		}
		cls, nontrivial := classesOf(res)
		if res.Inconclusive != "" {
			st.Inconcl(res.Inconclusive)
		}
		hashIn := map[string]any{"old": cs.Old, "reqs": cs.Reqs, "fault": cs.Fault, "lab": cs.Lab.Sources, "engine": cs.Lab.Engine}
		st.Case(pbt.Hash(hashIn), nontrivial, cls...)
		if nontrivial && st.WantSample() {
			st.Sample(map[string]any{"case": cs, "calls": reportsOf(res), "history_tail": historyLines(tail(res.Events, 40))})
		}
		vs := oracle(res)
		if n := raceErrors() - races0; n > 0 {
			// thorough tier (-race): the detector reported a data race while this case ran
			vs = append(vs, lab.Violation{Prop: "C16", Key: keyDataRace(cs), Index: len(res.Events),
				Detail: fmt.Sprintf("the race detector reported %d data race(s) while this case ran (stacks are in the test output)", n)})
		}
		reportAll(t, st, res, vs)
	})
}

// keyDataRaceOther: two applies to DIFFERENT pipelines run in parallel by design (lock.go) and
// meet in the unsynchronised instance maps of the pipeline/connector/processor services.
const keyDataRaceOther = "C16/concurrent/different-pipelines/data-race-on-service-maps"

func keyDataRace(cs *c16Case) string {
	for _, rq := range cs.Reqs {
		if rq.Twin != nil && rq.Twin.Other {
			return keyDataRaceOther
		}
	}
	return "C16/data-race-reported/" + cs.Lab.Engine
}

// TestReplayC16 re-runs a saved case (the schedule between boundary events is not
// reproducible, R6, so it is repeated a few times) and fails iff the oracle reports
// the saved key again.
func TestReplayC16(t *testing.T) {
	f := os.Getenv("VERIF_REPLAY_FILE")
	if f == "" {
		t.Skip("VERIF_REPLAY_FILE not set")
	}
	raw, err := os.ReadFile(f)
	if err != nil {
		t.Fatal(err)
	}
	var doc struct {
		Key    string    `json:"key"`
		Replay c16Replay `json:"replay"`
	}
	if err := json.Unmarshal(raw, &doc); err != nil {
		t.Fatal(err)
	}
	if doc.Replay.Case == nil || doc.Replay.Case.Lab == nil {
		t.Skip("not a C16 replay")
	}
	for i := 0; i < 5; i++ {
		var cs c16Case
		b, _ := json.Marshal(doc.Replay.Case)
		_ = json.Unmarshal(b, &cs)
		res := runC16(&cs, lab.ReplayPick(cs.Lab.Choices))
		if res.ProvisionErr != nil {
			t.Fatalf("provision: %v", res.ProvisionErr)
		}
		vs := oracle(res)
		hit := false
		for _, v := range vs {
			if doc.Key == "" || v.Key == doc.Key {
				t.Errorf("run %d: %s", i, v.String())
				hit = true
			} else {
				t.Logf("run %d (other key): %s", i, v.String())
			}
		}
		if hit {
			t.Logf("calls: %+v", reportsOf(res))
			t.Logf("history:\n%s", lab.Format(res.Events, 200))
			return
		}
	}
}
