//go:build !race

package p16

const raceBuild = false

func raceErrors() int { return 0 }
