// Package pbt is the small amount of glue every property needs: evidence
// counters, known-finding lookup, replay files and the current-case marker used
// by the driver's crash detector.
package pbt

import (
	"crypto/sha256"
	"encoding/hex"
	"encoding/json"
	"fmt"
	"os"
	"path/filepath"
	"regexp"
	"sort"
	"strconv"
	"strings"
	"sync"
	"testing"
)

// Env returns the value of an environment variable or a default.
func Env(name, def string) string {
	if v := os.Getenv(name); v != "" {
		return v
	}
	return def
}

func EnvInt(name string, def int) int {
	if v := os.Getenv(name); v != "" {
		if n, err := strconv.Atoi(v); err == nil {
			return n
		}
	}
	return def
}

// Tier is "quick" or "thorough".
func Tier() string { return Env("VERIF_TIER", "quick") }

// Scale returns q in the quick tier and th in the thorough tier.
func Scale(q, th int) int {
	if Tier() == "thorough" {
		return th
	}
	return q
}

// Finding is one violation found by a check.
type Finding struct {
	Prop   string `json:"prop"`
	Key    string `json:"key"`
	Detail string `json:"detail"`
	Replay string `json:"replay,omitempty"`
	Known  bool   `json:"known"`
	Size   int    `json:"size"`
}

// Stats accumulates the evidence of one property in one process (shard).
type Stats struct {
	mu           sync.Mutex
	Prop         string         `json:"prop"`
	Shard        string         `json:"shard"`
	Evaluations  int            `json:"evaluations"`
	NonTrivial   map[string]int `json:"nontrivial_hashes"` // hash -> count
	Classes      map[string]int `json:"classes"`
	Samples      []any          `json:"samples"`
	Findings     []Finding      `json:"findings"`
	KnownHits    map[string]int `json:"known_hits"`
	Excluded     map[string]int `json:"excluded_known"`
	Inconclusive int            `json:"inconclusive"`
	Notes        []string       `json:"notes,omitempty"`
	Extra        map[string]any `json:"extra,omitempty"`
	maxSamples   int
	known        map[string]string
}

var (
	registryMu sync.Mutex
	registry   = map[string]*Stats{}
)

// For returns the stats object of a property (one per process).
func For(prop string) *Stats {
	registryMu.Lock()
	defer registryMu.Unlock()
	if s, ok := registry[prop]; ok {
		return s
	}
	s := &Stats{Prop: prop, Shard: Env("VERIF_SHARD", "0"), NonTrivial: map[string]int{}, Classes: map[string]int{},
		KnownHits: map[string]int{}, Excluded: map[string]int{}, Extra: map[string]any{}, maxSamples: 4}
	s.known = loadKnown(prop)
	registry[prop] = s
	return s
}

type knownFile struct {
	Findings []struct {
		Property string `json:"property"`
		Key      string `json:"key"`
		What     string `json:"what"`
		Status   string `json:"status"` // "known" | "fixed"
	} `json:"findings"`
}

func loadKnown(prop string) map[string]string {
	out := map[string]string{}
	path := Env("VERIF_KNOWN", "/verif/known_findings.json")
	raw, err := os.ReadFile(path)
	if err != nil {
		return out
	}
	var kf knownFile
	if json.Unmarshal(raw, &kf) != nil {
		return out
	}
	for _, f := range kf.Findings {
		if f.Property == prop && f.Status != "fixed" {
			out[f.Key] = f.What
		}
	}
	return out
}

// IsKnown reports whether key is a listed (unfixed) known finding of this property.
func (s *Stats) IsKnown(key string) bool {
	_, ok := s.known[key]
	return ok
}

// Hash returns a short stable hash of any JSON-serialisable value.
func Hash(v any) string {
	b, _ := json.Marshal(v)
	h := sha256.Sum256(b)
	return hex.EncodeToString(h[:8])
}

// Case records one executed case.
func (s *Stats) Case(hash string, nontrivial bool, classes ...string) {
	s.mu.Lock()
	defer s.mu.Unlock()
	s.Evaluations++
	if nontrivial {
		s.NonTrivial[hash]++
	}
	for _, c := range classes {
		if c != "" {
			s.Classes[c]++
		}
	}
}

func (s *Stats) Class(c string, n int) {
	s.mu.Lock()
	defer s.mu.Unlock()
	s.Classes[c] += n
}

// Sample keeps up to four samples (preferring non-trivial ones: call it only for those).
func (s *Stats) Sample(v any) {
	s.mu.Lock()
	defer s.mu.Unlock()
	if len(s.Samples) < s.maxSamples {
		s.Samples = append(s.Samples, v)
	}
}

func (s *Stats) WantSample() bool {
	s.mu.Lock()
	defer s.mu.Unlock()
	return len(s.Samples) < s.maxSamples
}

func (s *Stats) Exclude(key string) {
	s.mu.Lock()
	defer s.mu.Unlock()
	s.Excluded[key]++
}

func (s *Stats) Inconcl(note string) {
	s.mu.Lock()
	defer s.mu.Unlock()
	s.Inconclusive++
	if len(s.Notes) < 20 {
		s.Notes = append(s.Notes, note)
	}
}

func (s *Stats) SetExtra(k string, v any) {
	s.mu.Lock()
	defer s.mu.Unlock()
	s.Extra[k] = v
}

var unsafeChars = regexp.MustCompile(`[^A-Za-z0-9._-]+`)

// Report records a violation. For a known finding it returns false (the caller
// continues the search); for a new one it writes/updates the replay file (keeping
// the smallest case per key) and returns true (the caller fails the case).
func (s *Stats) Report(key, detail string, size int, replay any) bool {
	s.mu.Lock()
	defer s.mu.Unlock()
	if _, ok := s.known[key]; ok {
		s.KnownHits[key]++
		return false
	}
	dir := filepath.Join(Env("VERIF_FOUND_DIR", "/verif/replays-found"), s.Prop)
	_ = os.MkdirAll(dir, 0o755)
	name := unsafeChars.ReplaceAllString(strings.TrimPrefix(key, s.Prop+"/"), "_")
	if len(name) > 100 {
		name = name[:100]
	}
	path := filepath.Join(dir, name+"."+s.Shard+".json")
	for i := range s.Findings {
		f := &s.Findings[i]
		if f.Key == key {
			if size < f.Size {
				f.Size, f.Detail = size, detail
				writeReplay(path, s.Prop, key, detail, replay)
			}
			return true
		}
	}
	writeReplay(path, s.Prop, key, detail, replay)
	s.Findings = append(s.Findings, Finding{Prop: s.Prop, Key: key, Detail: detail, Replay: path, Size: size})
	return true
}

func writeReplay(path, prop, key, detail string, replay any) {
	doc := map[string]any{"property": prop, "key": key, "detail": detail, "replay": replay}
	b, err := json.MarshalIndent(doc, "", " ")
	if err != nil {
		b = []byte(fmt.Sprintf(`{"property":%q,"key":%q,"detail":%q}`, prop, key, detail))
	}
	_ = os.WriteFile(path, b, 0o644)
}

// Flush writes the stats file read by the driver.
func (s *Stats) Flush() {
	s.mu.Lock()
	defer s.mu.Unlock()
	dir := os.Getenv("VERIF_STATS_DIR")
	if dir == "" {
		return
	}
	_ = os.MkdirAll(dir, 0o755)
	b, _ := json.Marshal(s)
	_ = os.WriteFile(filepath.Join(dir, s.Prop+"."+s.Shard+".json"), b, 0o644)
}

// Finish is deferred by every property test: it flushes the stats and fails the
// Go test if unknown findings exist (so that plain `go test` is meaningful too).
func (s *Stats) Finish(t *testing.T) {
	s.Flush()
	s.mu.Lock()
	defer s.mu.Unlock()
	keys := make([]string, 0, len(s.Classes))
	for k := range s.Classes {
		keys = append(keys, k)
	}
	sort.Strings(keys)
	var b strings.Builder
	for _, k := range keys {
		fmt.Fprintf(&b, " %s=%d", k, s.Classes[k])
	}
	t.Logf("%s: evaluations=%d nontrivial(distinct)=%d inconclusive=%d known_hits=%v classes:%s",
		s.Prop, s.Evaluations, len(s.NonTrivial), s.Inconclusive, s.KnownHits, b.String())
	for _, f := range s.Findings {
		t.Errorf("FINDING %s: %s (replay %s)", f.Key, f.Detail, f.Replay)
	}
}

// MarkCurrent writes the case about to be executed, for the driver's crash detector.
func MarkCurrent(prop string, v any) {
	dir := os.Getenv("VERIF_STATS_DIR")
	if dir == "" {
		return
	}
	b, _ := json.Marshal(map[string]any{"property": prop, "case": v})
	_ = os.WriteFile(filepath.Join(dir, "current-"+prop+"."+Env("VERIF_SHARD", "0")+".json"), b, 0o644)
}
