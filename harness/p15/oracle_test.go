package p15

import (
	"bytes"
	"context"
	"encoding/json"
	"errors"
	"fmt"
	"os"
	"path/filepath"
	"reflect"
	"sort"
	"strings"
	"time"

	"github.com/conduitio/conduit-commons/opencdc"
	"github.com/conduitio/conduit/pkg/connector"
	"github.com/conduitio/conduit/pkg/foundation/cerrors"
	"github.com/conduitio/conduit/pkg/foundation/log"
	"github.com/conduitio/conduit/pkg/pipeline"
	"github.com/conduitio/conduit/pkg/processor"
	"github.com/conduitio/conduit/pkg/provisioning"
	"github.com/conduitio/conduit/pkg/provisioning/config"
	cyaml "github.com/conduitio/conduit/pkg/provisioning/config/yaml"
	v2 "github.com/conduitio/conduit/pkg/provisioning/config/yaml/v2"
	"github.com/conduitio/yaml/v3"
	"verifharness/lab"
)

// ---------------------------------------------------------------- violation keys (closed vocabulary)

const (
	kFailReorder = "C15/import-failed/connector-processors>=3-reordered"
	kFailOther   = "C15/import-failed/other"

	kNCExport      = "C15/not-converged/export-differs"
	kNCStored      = "C15/not-converged/stored-differs"
	kNCCondChanged = "C15/not-converged/processor-condition-changed"
	kNCCondOther   = "C15/not-converged/processor-condition"
	kNCEntities    = "C15/not-converged/orphan-or-missing-entity"
	kNCLink        = "C15/not-converged/parent-link"

	kPlanCond     = "C15/plan-not-empty/processor-condition"
	kPlanEmptyNil = "C15/plan-not-empty/empty-vs-nil-list"
	kPlanOther    = "C15/plan-not-empty/other"
	kPlanError    = "C15/plan-not-empty/plan-error"

	kIdemFailed  = "C15/not-idempotent/second-import-failed"
	kIdemStore   = "C15/not-idempotent/store-changed"
	kIdemStoreTS = "C15/not-idempotent/store-changed/timestamp-only"
	kIdemExport  = "C15/not-idempotent/export-changed"

	kStateSuccMem   = "C15/state-lost/successful-import/memory"
	kStateSuccStore = "C15/state-lost/successful-import/store"

	kMemStoreSucc   = "C15/memory-vs-store/after-success"
	kMemStoreSuccTS = "C15/memory-vs-store/after-success/timestamp-only"
)

// Failure-path keys are built from closed sets: <txn|notxn> and the fault position.
func kNotAtomicExport(path, pos string) string {
	return "C15/not-atomic/export-differs/" + path + "/" + pos
}
func kNotAtomicStore(path, pos string, tsOnly bool) string {
	return "C15/not-atomic/store-changed/" + path + "/" + pos + tsSuffix(tsOnly)
}
func kNotAtomicMem(path, pos string, tsOnly bool) string {
	return "C15/not-atomic/memory-vs-store/" + path + "/" + pos + tsSuffix(tsOnly)
}

// The next keys name a root cause that does not depend on which later action
// failed: the rollback re-creates an entity the import had deleted, from the
// exported configuration (which has neither the position nor the condition).
func kCondLost(path string) string {
	return "C15/not-atomic/processor-condition-lost/" + path + "/deleted-processor-recreated"
}
func kStateFail(side, path string, recreated bool) string {
	if recreated {
		return "C15/state-lost/failed-import/" + side + "/" + path + "/deleted-connector-recreated"
	}
	return "C15/state-lost/failed-import/" + side + "/" + path + "/other"
}

// A rollback that itself failed (only logged by the code under test).
func kRollbackConnProcs(path string) string {
	return "C15/not-atomic/rollback-failed/connector-processors>=3/" + path
}
func kRollbackOther(path, pos string) string {
	return "C15/not-atomic/rollback-failed/other/" + path + "/" + pos
}

func tsSuffix(ts bool) string {
	if ts {
		return "/timestamp-only"
	}
	return ""
}

var faultPositions = []string{"set-failed", "commit-failed", "newtxn-failed", "procnew-failed", "uninjected"}

type violation struct {
	Key    string `json:"key"`
	Detail string `json:"detail"`
	Step   int    `json:"step"`
}

// ---------------------------------------------------------------- normal form of a configuration

type nDLQ struct {
	Plugin     string
	Settings   map[string]string
	WindowSize int
	Threshold  int
}
type nProc struct {
	ID        string
	Plugin    string
	Settings  map[string]string
	Workers   int
	Condition string
}
type nConn struct {
	ID       string
	Type     string
	Plugin   string
	Name     string
	Settings map[string]string
	Procs    []nProc
}
type nPipe struct {
	ID          string
	Name        string
	Description string
	DLQ         nDLQ
	Conns       []nConn
	Procs       []nProc
}

func nonNilMap(m map[string]string) map[string]string {
	out := map[string]string{}
	for k, v := range m {
		out[k] = v
	}
	return out
}

func normProcs(ps []config.Processor, cond func(id string) string) []nProc {
	out := make([]nProc, 0, len(ps))
	for _, p := range ps {
		c := p.Condition
		if cond != nil {
			c = cond(p.ID)
		}
		out = append(out, nProc{ID: p.ID, Plugin: p.Plugin, Settings: nonNilMap(p.Settings), Workers: p.Workers, Condition: c})
	}
	return out
}

// normalise maps an ENRICHED config to its normal form (nil == empty, status
// ignored: config.PipelineIgnoredFields). cond, if set, supplies processor
// conditions (Export omits them; they are read from the stored instances).
func normalise(p config.Pipeline, cond func(id string) string) nPipe {
	ip := func(x *int) int {
		if x == nil {
			return -1
		}
		return *x
	}
	n := nPipe{ID: p.ID, Name: p.Name, Description: p.Description,
		DLQ:   nDLQ{Plugin: p.DLQ.Plugin, Settings: nonNilMap(p.DLQ.Settings), WindowSize: ip(p.DLQ.WindowSize), Threshold: ip(p.DLQ.WindowNackThreshold)},
		Conns: make([]nConn, 0, len(p.Connectors)), Procs: normProcs(p.Processors, cond)}
	for _, c := range p.Connectors {
		n.Conns = append(n.Conns, nConn{ID: c.ID, Type: c.Type, Plugin: c.Plugin, Name: c.Name,
			Settings: nonNilMap(c.Settings), Procs: normProcs(c.Processors, cond)})
	}
	return n
}

func (n nPipe) withoutConditions() nPipe {
	out := n
	strip := func(ps []nProc) []nProc {
		o := make([]nProc, len(ps))
		for i, p := range ps {
			p.Condition = ""
			o[i] = p
		}
		return o
	}
	out.Procs = strip(n.Procs)
	out.Conns = make([]nConn, len(n.Conns))
	for i, c := range n.Conns {
		c.Procs = strip(c.Procs)
		out.Conns[i] = c
	}
	return out
}

func (n nPipe) conditions() map[string]string {
	out := map[string]string{}
	for _, p := range n.Procs {
		out[p.ID] = p.Condition
	}
	for _, c := range n.Conns {
		for _, p := range c.Procs {
			out[p.ID] = p.Condition
		}
	}
	return out
}

func js(v any) string {
	b, _ := json.Marshal(v) // encoding/json sorts map keys
	return string(b)
}

// firstDiff names the first differing part of two normal forms (for details only).
func firstDiff(got, want nPipe) string {
	if got.ID != want.ID || got.Name != want.Name || got.Description != want.Description {
		return fmt.Sprintf("pipeline fields: got %s/%q/%q want %s/%q/%q", got.ID, got.Name, got.Description, want.ID, want.Name, want.Description)
	}
	if js(got.DLQ) != js(want.DLQ) {
		return fmt.Sprintf("dlq: got %s want %s", js(got.DLQ), js(want.DLQ))
	}
	ids := func(cs []nConn) []string {
		o := []string{}
		for _, c := range cs {
			o = append(o, c.ID)
		}
		return o
	}
	pids := func(ps []nProc) []string {
		o := []string{}
		for _, p := range ps {
			o = append(o, p.ID)
		}
		return o
	}
	if js(ids(got.Conns)) != js(ids(want.Conns)) {
		return fmt.Sprintf("connector list: got %v want %v", ids(got.Conns), ids(want.Conns))
	}
	if js(pids(got.Procs)) != js(pids(want.Procs)) {
		return fmt.Sprintf("pipeline processor list: got %v want %v", pids(got.Procs), pids(want.Procs))
	}
	for i := range got.Procs {
		if js(got.Procs[i]) != js(want.Procs[i]) {
			return fmt.Sprintf("processor: got %s want %s", js(got.Procs[i]), js(want.Procs[i]))
		}
	}
	for i := range got.Conns {
		g, w := got.Conns[i], want.Conns[i]
		if js(pids(g.Procs)) != js(pids(w.Procs)) {
			return fmt.Sprintf("connector %s processor list: got %v want %v", g.ID, pids(g.Procs), pids(w.Procs))
		}
		for j := range g.Procs {
			if js(g.Procs[j]) != js(w.Procs[j]) {
				return fmt.Sprintf("processor: got %s want %s", js(g.Procs[j]), js(w.Procs[j]))
			}
		}
		if js(g) != js(w) {
			g.Procs, w.Procs = nil, nil
			return fmt.Sprintf("connector: got %s want %s", js(g), js(w))
		}
	}
	return "no difference"
}

// ---------------------------------------------------------------- reading a world

var bg = context.Background()

// exportFull is Export plus the stored processor conditions.
func exportFull(w *world) (nPipe, bool, error) {
	cfg, err := w.svc.Export(bg, pipelineID)
	if err != nil {
		if cerrors.Is(err, pipeline.ErrInstanceNotFound) {
			return nPipe{}, false, nil
		}
		return nPipe{}, false, err
	}
	return normalise(cfg, func(id string) string {
		p, err := w.procs.Get(bg, id)
		if err != nil {
			return "<missing>"
		}
		return p.Condition
	}), true, nil
}

type entity struct {
	Content string
	Created time.Time
	Updated time.Time
	State   string
}

func nonNilStrs(s []string) []string {
	if s == nil {
		return []string{}
	}
	return s
}

// snapshot describes every entity held in memory by the services of w.
func snapshot(w *world) map[string]entity {
	out := map[string]entity{}
	for id, p := range w.pls.List(bg) {
		out["pipeline:"+id] = entity{Created: p.CreatedAt, Updated: p.UpdatedAt, Content: js(map[string]any{
			"ID": p.ID, "Name": p.Config.Name, "Description": p.Config.Description, "Error": p.Error, "ProvisionedBy": int(p.ProvisionedBy),
			"DLQ":          nDLQ{Plugin: p.DLQ.Plugin, Settings: nonNilMap(p.DLQ.Settings), WindowSize: p.DLQ.WindowSize, Threshold: p.DLQ.WindowNackThreshold},
			"ConnectorIDs": nonNilStrs(p.ConnectorIDs), "ProcessorIDs": nonNilStrs(p.ProcessorIDs), "Status": p.GetStatus().String(),
		})}
	}
	for id, c := range w.conns.List(bg) {
		out["connector:"+id] = entity{Created: c.CreatedAt, Updated: c.UpdatedAt, State: js(c.State), Content: js(map[string]any{
			"ID": c.ID, "Type": c.Type.String(), "Name": c.Config.Name, "Settings": nonNilMap(c.Config.Settings), "PipelineID": c.PipelineID,
			"Plugin": c.Plugin, "ProcessorIDs": nonNilStrs(c.ProcessorIDs), "ProvisionedBy": int(c.ProvisionedBy),
			"LastActiveName": c.LastActiveConfig.Name, "LastActiveSettings": nonNilMap(c.LastActiveConfig.Settings),
		})}
	}
	for id, p := range w.procs.List(bg) {
		out["processor:"+id] = entity{Created: p.CreatedAt, Updated: p.UpdatedAt, Content: js(map[string]any{
			"ID": p.ID, "Plugin": p.Plugin, "Condition": p.Condition, "ParentID": p.Parent.ID, "ParentType": p.Parent.Type.String(),
			"Settings": nonNilMap(p.Config.Settings), "Workers": p.Config.Workers, "ProvisionedBy": int(p.ProvisionedBy),
		})}
	}
	return out
}

// compareSnapshots returns (content difference, timestamp difference) descriptions ("" = none).
func compareSnapshots(mem, stored map[string]entity) (content, stamps string) {
	keys := map[string]bool{}
	for k := range mem {
		keys[k] = true
	}
	for k := range stored {
		keys[k] = true
	}
	for _, k := range sortedKeys(keys) {
		m, inM := mem[k]
		s, inS := stored[k]
		switch {
		case !inM:
			content += fmt.Sprintf("%s only in store; ", k)
		case !inS:
			content += fmt.Sprintf("%s only in memory; ", k)
		case m.Content != s.Content:
			content += fmt.Sprintf("%s memory %s store %s; ", k, m.Content, s.Content)
		default:
			if !m.Created.Equal(s.Created) {
				stamps += fmt.Sprintf("%s CreatedAt memory %s store %s; ", k, m.Created.UTC().Format(time.RFC3339Nano), s.Created.UTC().Format(time.RFC3339Nano))
			}
			if !m.Updated.Equal(s.Updated) {
				stamps += fmt.Sprintf("%s UpdatedAt memory %s store %s; ", k, m.Updated.UTC().Format(time.RFC3339Nano), s.Updated.UTC().Format(time.RFC3339Nano))
			}
		}
	}
	return content, stamps
}

// dropEmpty maps JSON null, [] and {} to nil, recursively (nil == empty).
func dropEmpty(v any) any {
	switch x := v.(type) {
	case map[string]any:
		if len(x) == 0 {
			return nil
		}
		for k, e := range x {
			x[k] = dropEmpty(e)
		}
		return x
	case []any:
		if len(x) == 0 {
			return nil
		}
		for i, e := range x {
			x[i] = dropEmpty(e)
		}
		return x
	}
	return v
}

// compareStores classifies the difference of two raw store contents. Entries
// that are not byte-identical are compared as JSON (nil == empty) without the
// fields in ignore; a difference only in CreatedAt/UpdatedAt is "stamps".
func compareStores(before, after map[string][]byte, ignore ...string) (content, stamps string, tsKeys []string) {
	keys := map[string]bool{}
	for k := range before {
		keys[k] = true
	}
	for k := range after {
		keys[k] = true
	}
	for _, k := range sortedKeys(keys) {
		b, inB := before[k]
		a, inA := after[k]
		switch {
		case !inB:
			content += fmt.Sprintf("%s added; ", k)
		case !inA:
			content += fmt.Sprintf("%s removed; ", k)
		case bytes.Equal(a, b):
		default:
			var mb, ma map[string]any
			if json.Unmarshal(b, &mb) != nil || json.Unmarshal(a, &ma) != nil {
				content += fmt.Sprintf("%s changed (undecodable); ", k)
				continue
			}
			for _, f := range ignore {
				delete(mb, f)
				delete(ma, f)
			}
			tsDiffer := false
			for _, f := range []string{"CreatedAt", "UpdatedAt"} {
				if !reflect.DeepEqual(mb[f], ma[f]) {
					tsDiffer = true
				}
				delete(mb, f)
				delete(ma, f)
			}
			if reflect.DeepEqual(dropEmpty(mb), dropEmpty(ma)) {
				if tsDiffer {
					stamps += fmt.Sprintf("%s timestamps rewritten; ", k)
					tsKeys = append(tsKeys, k)
				}
			} else {
				content += fmt.Sprintf("%s before %s after %s; ", k, trunc(string(b), 300), trunc(string(a), 300))
			}
		}
	}
	return content, stamps, tsKeys
}

func trunc(s string, n int) string {
	if len(s) > n {
		return s[:n] + "…"
	}
	return s
}

// ---------------------------------------------------------------- runner

// knownFn reports whether a key is treated as a known finding (known_findings.json
// only); exclude counts a generator/oracle exclusion.
type runner struct {
	mode     string
	path     string // txn | notxn
	w        *world
	dir      string
	known    func(string) bool
	exclude  func(string)
	curRaw   *config.Pipeline
	cur      *config.Pipeline // enriched; nil = nothing stored
	stepNo   int
	expState map[string]string // connector id -> js(state) set before the current import
	classes  map[string]bool
	ended    string // why the chain was ended early
	fired    bool   // the fault of the last step fired
	lastDF   diffFacts
}

// lastNonTrivial applies the non-trivial rule to the last executed step: the
// pair changes >= 2 entities or reorders a list of >= 3, or a fault was injected
// (and reached).
func (r *runner) lastNonTrivial(hadOld bool) bool {
	if r.fired {
		return true
	}
	return hadOld && (r.lastDF.Entities >= 2 || r.lastDF.Reorder3)
}

func newRunner(mode, dir string, known func(string) bool, exclude func(string)) (*runner, error) {
	w, err := newWorld(lab.NewFaultDB(nil), dir)
	if err != nil {
		return nil, err
	}
	path := "txn"
	if mode == "import" {
		path = "notxn"
	}
	if known == nil {
		known = func(string) bool { return false }
	}
	if exclude == nil {
		exclude = func(string) {}
	}
	return &runner{mode: mode, path: path, w: w, dir: dir, known: known, exclude: exclude, classes: map[string]bool{}}, nil
}

func (r *runner) class(c string) { r.classes[c] = true }

// desiredOf computes the configuration the import is expected to converge to:
// what the entry point itself does to the raw config (file: the repo's YAML
// parser, then Enrich; API paths: Enrich by the caller), and validates it.
func (r *runner) desiredOf(raw config.Pipeline) (config.Pipeline, []byte, error) {
	var yml []byte
	in := clonePipeline(raw)
	if r.mode == "file" {
		var err error
		yml, err = yaml.Marshal(v2.FromConfig([]config.Pipeline{in}))
		if err != nil {
			return config.Pipeline{}, nil, fmt.Errorf("yaml marshal: %w", err)
		}
		parsed, err := cyaml.NewParser(log.Nop()).Parse(bg, bytes.NewReader(yml))
		if err != nil || len(parsed) != 1 {
			return config.Pipeline{}, nil, fmt.Errorf("yaml parse: %d pipelines, err %v", len(parsed), err)
		}
		in = parsed[0]
	}
	d := config.Enrich(in)
	if err := config.Validate(d); err != nil {
		return config.Pipeline{}, nil, fmt.Errorf("generated config is invalid: %w", err)
	}
	return d, yml, nil
}

// doImport runs one import through the entry point of the mode.
func (r *runner) doImport(desired config.Pipeline, yml []byte, arm func()) error {
	switch r.mode {
	case "file":
		if err := os.WriteFile(filepath.Join(r.dir, "pipeline.yaml"), yml, 0o644); err != nil {
			panic(err)
		}
		arm()
		return r.w.svc.Init(bg)
	case "apply":
		diff, err := r.w.svc.Plan(bg, clonePipeline(desired))
		if err != nil {
			return fmt.Errorf("plan: %w", err)
		}
		arm()
		_, err = r.w.svc.ApplyPlan(bg, clonePipeline(desired), diff.Hash)
		return err
	case "import":
		arm()
		return r.w.svc.Import(bg, clonePipeline(desired))
	}
	panic("unknown mode " + r.mode)
}

func stateFor(step int, c config.Connector) any {
	pos := opencdc.Position(fmt.Sprintf("pos-%d-%s", step, c.ID))
	if c.Type == config.TypeSource {
		return connector.SourceState{Position: pos}
	}
	return connector.DestinationState{Positions: map[string]opencdc.Position{"from-" + c.ID: pos}}
}

// restart replaces the live services by fresh ones loaded from the same store.
func (r *runner) restart() error {
	w, err := newWorld(r.w.db, r.dir)
	if err != nil {
		return err
	}
	r.w = w
	return nil
}

// connProcShape reports the shape of defect §8-3a: a connector that persists with
// the same type (update path) whose stored processor list has >= 3 entries and
// whose processor-id list changes.
func connProcShape(old *config.Pipeline, nw config.Pipeline) bool {
	if old == nil {
		return false
	}
	for _, oc := range old.Connectors {
		for _, nc := range nw.Connectors {
			if oc.ID == nc.ID && oc.Type == nc.Type && len(oc.Processors) >= 3 &&
				fmt.Sprint(procIDs(oc.Processors)) != fmt.Sprint(procIDs(nc.Processors)) {
				return true
			}
		}
	}
	return false
}

func allProcs(p config.Pipeline) map[string]config.Processor {
	out := map[string]config.Processor{}
	for _, pr := range p.Processors {
		out[pr.ID] = pr
	}
	for _, c := range p.Connectors {
		for _, pr := range c.Processors {
			out[pr.ID] = pr
		}
	}
	return out
}

// step executes one import and returns the violations of the property in it.
// cont=false ends the chain (the world no longer matches the model).
func (r *runner) step(s Step) (vs []violation, cont bool, herr error) {
	r.stepNo++
	add := func(key, format string, a ...any) {
		vs = append(vs, violation{Key: key, Detail: fmt.Sprintf("step %d (%s): ", r.stepNo, r.mode) + fmt.Sprintf(format, a...), Step: r.stepNo})
	}
	desired, yml, err := r.desiredOf(s.New)
	if err != nil {
		return nil, false, err
	}
	old := r.cur
	df := diffOf(old, desired)

	// (3) give every stored connector a fresh position before the import
	r.expState = map[string]string{}
	if old != nil {
		for _, c := range old.Connectors {
			st := stateFor(r.stepNo, c)
			if _, err := r.w.conns.SetState(bg, c.ID, st); err != nil {
				return nil, false, fmt.Errorf("SetState %s: %w", c.ID, err)
			}
			r.expState[c.ID] = js(st)
		}
	}
	before := r.w.db.Current()

	firedDB, firedReg := r.w.db.Fired, r.w.reg.Fired
	arm := func() {
		if s.Fault == nil {
			return
		}
		switch s.Fault.Kind {
		case "set":
			r.w.db.Arm(lab.Fault{Kind: lab.FaultSet, Index: s.Fault.Index})
		case "commit":
			r.w.db.Arm(lab.Fault{Kind: lab.FaultCommit, Index: s.Fault.Index})
		case "newtxn":
			r.w.db.Arm(lab.Fault{Kind: lab.FaultNewTxn, Index: s.Fault.Index})
		case "procnew":
			r.w.reg.Arm(s.Fault.Index)
		}
	}
	r.w.provLog.take()
	ierr := r.doImport(desired, yml, arm)
	r.w.db.Disarm()
	r.w.reg.Disarm()
	fired := r.w.db.Fired != firedDB || r.w.reg.Fired != firedReg
	r.fired, r.lastDF = fired, df
	if old != nil {
		switch {
		case df.Identical:
			r.class("pair:identical-reimport")
		case df.Entities >= 2:
			r.class("pair:>=2-entities-changed")
		default:
			r.class("pair:1-entity-changed")
		}
		if df.Reorder3 {
			r.class("pair:reorder-of-list>=3")
		}
		if df.TypeChange {
			r.class("pair:connector-type-change")
		}
		if df.ConnDeleted && fired {
			r.class("pair:connector-deleted+fault")
		}
	} else {
		r.class("pair:first-import")
	}

	if s.Fault != nil {
		if fired {
			r.class("fault-fired:" + s.Fault.Kind)
		} else {
			r.class("fault-armed-not-reached")
		}
	}

	if ierr == nil {
		r.class("import-succeeded")
		if fired {
			r.class("import-succeeded-although-a-fault-fired")
		}
		r.checkSuccess(add, old, desired, yml, df)
		if len(vs) > 0 {
			// continue only if a restarted server holds exactly the desired configuration
			if err := r.restart(); err != nil {
				r.ended = "restart failed after violation: " + err.Error()
				return vs, false, nil
			}
			got, found, err := exportFull(r.w)
			if err != nil || !found || js(got) != js(normalise(desired, nil)) {
				r.ended = "model lost after violation"
				return vs, false, nil
			}
		}
		raw := clonePipeline(s.New)
		r.curRaw, r.cur = &raw, &desired
		return vs, true, nil
	}

	// ---- the import failed
	rollbackErrs := rollbackErrors(r.w.provLog.take())
	injectedForward := fired && (errors.Is(ierr, lab.ErrInjected) || errors.Is(ierr, errInjectedPlugin))
	pos := "uninjected"
	if injectedForward {
		pos = s.Fault.Kind + "-failed"
	}
	r.class("import-failed:" + pos)
	if !injectedForward {
		if connProcShape(old, desired) && cerrors.Is(ierr, connector.ErrProcessorIDNotFound) {
			add(kFailReorder, "import of a valid configuration failed: %v", ierr)
		} else {
			add(kFailOther, "import of a valid configuration failed: %v", ierr)
		}
	}
	switch {
	case fired && !injectedForward:
		// The import failed on its own and the armed fault then hit the rollback: a
		// double fault, outside the quantifier ("every failing action index").
		r.class("fault-consumed-by-rollback-of-an-uninjected-failure")
	case len(rollbackErrs) > 0:
		// the rollback itself failed: the code under test gave up ("state might be corrupted")
		key := kRollbackOther(r.path, pos)
		for _, e := range rollbackErrs {
			if strings.Contains(e, connector.ErrProcessorIDNotFound.Error()) && strings.Contains(e, "update connector") {
				key = kRollbackConnProcs(r.path)
			}
		}
		add(key, "the rollback of a failed import failed, nothing else went wrong: %s", trunc(strings.Join(rollbackErrs, " | "), 1200))
	default:
		r.checkFailure(add, old, desired, before, pos, df)
	}
	if len(vs) > 0 || (fired && !injectedForward) {
		if err := r.restart(); err != nil {
			r.ended = "restart failed after violation: " + err.Error()
			return vs, false, nil
		}
		got, found, err := exportFull(r.w)
		ok := err == nil
		if old == nil {
			ok = ok && !found
		} else {
			ok = ok && found && js(got) == js(normalise(*old, nil))
		}
		if !ok {
			r.ended = "model lost after violation"
			return vs, false, nil
		}
	}
	return vs, true, nil
}

// rollbackErrors extracts the "error rolling back action" entries of the provisioning log.
func rollbackErrors(lines []string) []string {
	var out []string
	for _, l := range lines {
		if !strings.Contains(l, "error rolling back action") {
			continue
		}
		var m map[string]any
		if json.Unmarshal([]byte(l), &m) == nil {
			out = append(out, fmt.Sprintf("%v: %v", m["action"], m["error"]))
		} else {
			out = append(out, strings.TrimSpace(l))
		}
	}
	return out
}

type addFn func(key, format string, a ...any)

// wantEntities lists the entity ids a configuration implies.
func wantEntities(p *config.Pipeline) (conns map[string]string, procs map[string]processor.Parent) {
	conns, procs = map[string]string{}, map[string]processor.Parent{}
	if p == nil {
		return
	}
	for _, pr := range p.Processors {
		procs[pr.ID] = processor.Parent{ID: p.ID, Type: processor.ParentTypePipeline}
	}
	for _, c := range p.Connectors {
		conns[c.ID] = p.ID
		for _, pr := range c.Processors {
			procs[pr.ID] = processor.Parent{ID: c.ID, Type: processor.ParentTypeConnector}
		}
	}
	return
}

// checkEntities: the services hold exactly the entities of the configuration, linked to the right parents.
func checkEntities(w *world, p *config.Pipeline, where string) (missing, link string) {
	conns, procs := wantEntities(p)
	pls := w.pls.List(bg)
	if p == nil && len(pls) != 0 {
		missing += fmt.Sprintf("%s: pipelines %v exist; ", where, sortedKeys(pls))
	}
	if p != nil && (len(pls) != 1 || pls[p.ID] == nil) {
		missing += fmt.Sprintf("%s: pipelines %v, want exactly %s; ", where, sortedKeys(pls), p.ID)
	}
	haveC := w.conns.List(bg)
	for id := range haveC {
		if _, ok := conns[id]; !ok {
			missing += fmt.Sprintf("%s: orphan connector %s; ", where, id)
		}
	}
	for id, pl := range conns {
		c, ok := haveC[id]
		if !ok {
			missing += fmt.Sprintf("%s: connector %s missing; ", where, id)
		} else if c.PipelineID != pl {
			link += fmt.Sprintf("%s: connector %s belongs to pipeline %q; ", where, id, c.PipelineID)
		}
	}
	haveP := w.procs.List(bg)
	for id := range haveP {
		if _, ok := procs[id]; !ok {
			missing += fmt.Sprintf("%s: orphan processor %s; ", where, id)
		}
	}
	for id, par := range procs {
		pr, ok := haveP[id]
		if !ok {
			missing += fmt.Sprintf("%s: processor %s missing; ", where, id)
		} else if pr.Parent != par {
			link += fmt.Sprintf("%s: processor %s has parent %v want %v; ", where, id, pr.Parent, par)
		}
	}
	return
}

// planClass classifies a non-empty plan into the closed key vocabulary. When
// tolerateCond is set, changes of the known shape "processor update, only the
// condition path, desired condition non-empty" are removed first.
func planClass(d provisioning.Diff, desired config.Pipeline, tolerateCond bool) (key string, rest []provisioning.Change, tolerated int) {
	procs := allProcs(desired)
	onlyCond, emptyNil := true, false
	for _, c := range d.Changes {
		isCond := c.Resource == provisioning.ResourceProcessor && c.Action == provisioning.ChangeActionUpdate &&
			len(c.ConfigPaths) == 1 && c.ConfigPaths[0] == "condition" && procs[c.ID].Condition != ""
		if isCond && tolerateCond {
			tolerated++
			continue
		}
		rest = append(rest, c)
		if !isCond {
			onlyCond = false
		}
		if c.Action == provisioning.ChangeActionUpdate && len(c.ConfigPaths) == 0 &&
			(c.Resource == provisioning.ResourcePipeline || c.Resource == provisioning.ResourceConnector) {
			emptyNil = true
		}
	}
	switch {
	case len(rest) == 0:
		return "", nil, tolerated
	case onlyCond:
		return kPlanCond, rest, tolerated
	case emptyNil:
		return kPlanEmptyNil, rest, tolerated
	}
	return kPlanOther, rest, tolerated
}

func hasEmptyNonNilList(p config.Pipeline) bool {
	if p.Connectors != nil && len(p.Connectors) == 0 {
		return true
	}
	if p.Processors != nil && len(p.Processors) == 0 {
		return true
	}
	for _, c := range p.Connectors {
		if c.Processors != nil && len(c.Processors) == 0 {
			return true
		}
	}
	return false
}

func (r *runner) checkSuccess(add addFn, old *config.Pipeline, desired config.Pipeline, yml []byte, df diffFacts) {
	want := normalise(desired, nil)
	rel, err := r.w.reloaded()
	if err != nil {
		add(kNCStored, "the store cannot be loaded after a successful import: %v", err)
		return
	}
	oldProcs := map[string]config.Processor{}
	if old != nil {
		oldProcs = allProcs(*old)
	}
	converged := true
	for _, side := range []struct {
		name string
		w    *world
		key  string
	}{{"memory", r.w, kNCExport}, {"store", rel, kNCStored}} {
		got, found, err := exportFull(side.w)
		if err != nil || !found {
			add(side.key, "%s: export after a successful import: found=%v err=%v", side.name, found, err)
			converged = false
			continue
		}
		if js(got.withoutConditions()) != js(want.withoutConditions()) {
			add(side.key, "%s differs from the imported configuration: %s", side.name, firstDiff(got.withoutConditions(), want.withoutConditions()))
			converged = false
			continue
		}
		gc, wc := got.conditions(), want.conditions()
		for _, id := range sortedKeys(wc) {
			if gc[id] == wc[id] {
				continue
			}
			converged = false
			if op, existed := oldProcs[id]; existed && op.Condition != wc[id] {
				add(kNCCondChanged, "%s: processor %s existed with condition %q, the import changed it to %q and succeeded, the stored condition is %q",
					side.name, id, op.Condition, wc[id], gc[id])
			} else {
				add(kNCCondOther, "%s: processor %s has condition %q, want %q", side.name, id, gc[id], wc[id])
			}
		}
		miss, link := checkEntities(side.w, &desired, side.name)
		if miss != "" {
			add(kNCEntities, "%s", miss)
			converged = false
		}
		if link != "" {
			add(kNCLink, "%s", link)
			converged = false
		}
	}

	// memory and store agree entity by entity
	content, stamps := compareSnapshots(snapshot(r.w), snapshot(rel))
	if content != "" {
		add(kMemStoreSucc, "after a successful import memory and store differ: %s", trunc(content, 1500))
	} else if stamps != "" {
		add(kMemStoreSuccTS, "after a successful import memory and store differ in timestamps only: %s", trunc(stamps, 1500))
	}

	// (3) connectors that persist with the same id and type keep the position
	if old != nil {
		newConns := map[string]config.Connector{}
		for _, c := range desired.Connectors {
			newConns[c.ID] = c
		}
		for _, oc := range old.Connectors {
			nc, ok := newConns[oc.ID]
			if !ok || nc.Type != oc.Type {
				continue
			}
			r.class("state-checked-across-successful-import")
			if c, err := r.w.conns.Get(bg, oc.ID); err == nil && js(c.State) != r.expState[oc.ID] {
				add(kStateSuccMem, "connector %s (same id and type) has state %s in memory after the import, it had %s", oc.ID, js(c.State), r.expState[oc.ID])
			}
			if c, err := rel.conns.Get(bg, oc.ID); err == nil && js(c.State) != r.expState[oc.ID] {
				add(kStateSuccStore, "connector %s (same id and type) has state %s in the store after the import, it had %s", oc.ID, js(c.State), r.expState[oc.ID])
			}
		}
	}

	if !converged {
		return // Plan and the second import would only repeat the divergence
	}

	// Plan(desired) is empty, live and after a restart
	tolerateCond := r.known(kPlanCond)
	condTolerated := false
	for _, side := range []struct {
		name string
		w    *world
	}{{"live", r.w}, {"restarted", rel}} {
		d, err := side.w.svc.Plan(bg, clonePipeline(desired))
		if err != nil {
			add(kPlanError, "%s: Plan after a successful import: %v", side.name, err)
			continue
		}
		key, rest, tol := planClass(d, desired, tolerateCond)
		if tol > 0 {
			condTolerated = true
			if side.name == "live" {
				r.exclude(kPlanCond)
			}
		}
		if key != "" {
			add(key, "%s: Plan of the configuration that was just imported is not empty: %s", side.name, js(rest))
			break
		}
	}

	// importing the same configuration again changes nothing
	bytes0 := r.w.db.Current()
	if err := r.doImport(desired, yml, func() {}); err != nil {
		add(kIdemFailed, "second import of the same configuration failed: %v", err)
		return
	}
	content, stamps, tsKeys := compareStores(bytes0, r.w.db.Current())
	if content != "" {
		add(kIdemStore, "second import of the same configuration changed the store: %s", trunc(content, 1500))
	} else if stamps != "" {
		tolerated := false
		if condTolerated {
			// known consequence of the tolerated plan entries: those processors are "updated" again
			procs := allProcs(desired)
			tolerated = true
			for _, k := range tsKeys {
				id := strings.TrimPrefix(k, "processor:instance:")
				if id == k || procs[id].Condition == "" {
					tolerated = false
				}
			}
		}
		if !tolerated {
			add(kIdemStoreTS, "second import of the same configuration rewrote stored entities (timestamps only): %s", trunc(stamps, 1500))
		}
	}
	got, found, err := exportFull(r.w)
	if err != nil || !found || js(got) != js(want) {
		add(kIdemExport, "after the second import the configuration is no longer the imported one: found=%v err=%v %s", found, err, firstDiff(got, want))
	}
	_ = df
}

func (r *runner) checkFailure(add addFn, old *config.Pipeline, desired config.Pipeline, before map[string][]byte, pos string, df diffFacts) {
	after := r.w.db.Current()
	if r.path == "txn" {
		// a failed transactional import must not reach the store at all
		if content, stamps, _ := compareStores(before, after); content != "" {
			add(kNotAtomicStore(r.path, pos, false), "a failed transactional import changed the store: %s", trunc(content, 1500))
		} else if stamps != "" {
			add(kNotAtomicStore(r.path, pos, true), "a failed transactional import rewrote stored entities (timestamps only): %s", trunc(stamps, 1500))
		}
	}
	rel, err := r.w.reloaded()
	if err != nil {
		add(kNotAtomicStore(r.path, pos, false), "the store cannot be loaded after a failed import: %v", err)
		return
	}
	// Export == old, in memory and from the store
	var want nPipe
	if old != nil {
		want = normalise(*old, nil)
	}
	sideOK, sideCfgOK := map[string]bool{}, map[string]bool{} // full / ignoring processor conditions
	newProcs := allProcs(desired)
	newConns := map[string]config.Connector{}
	for _, c := range desired.Connectors {
		newConns[c.ID] = c
	}
	for _, side := range []struct {
		name string
		w    *world
		key  string
	}{{"memory", r.w, kNotAtomicExport(r.path, pos)}, {"store", rel, kNotAtomicStore(r.path, pos, false)}} {
		got, found, err := exportFull(side.w)
		ok := false
		switch {
		case err != nil:
			add(side.key, "%s: export after a failed import: %v", side.name, err)
		case old == nil && found:
			add(side.key, "%s: a failed first import left a pipeline behind: %s", side.name, js(got))
		case old != nil && !found:
			add(side.key, "%s: the pipeline is gone after a failed import", side.name)
		case old != nil && js(got.withoutConditions()) != js(want.withoutConditions()):
			add(side.key, "%s: after a failed import the configuration is not the previous one: %s", side.name, firstDiff(got.withoutConditions(), want.withoutConditions()))
		case old != nil && js(got) != js(want):
			// only processor conditions differ
			gc, wc := got.conditions(), want.conditions()
			for _, id := range sortedKeys(wc) {
				if gc[id] == wc[id] {
					continue
				}
				if _, kept := newProcs[id]; !kept && gc[id] == "" {
					add(kCondLost(r.path), "%s: processor %s was deleted by the failed import and re-created by its rollback without its condition %q", side.name, id, wc[id])
				} else {
					add(side.key, "%s: after a failed import processor %s has condition %q, it had %q", side.name, id, gc[id], wc[id])
				}
			}
			sideCfgOK[side.name] = true
		default:
			if miss, link := checkEntities(side.w, old, side.name); miss+link != "" {
				add(side.key, "after a failed import: %s%s", miss, link)
			} else {
				ok = true
			}
		}
		sideOK[side.name] = ok
		if ok {
			sideCfgOK[side.name] = true
		}
	}
	if r.path == "notxn" && sideOK["store"] {
		// Service.Import has no transaction: its rollback writes the old entities back.
		// New UpdatedAt/CreatedAt values are unavoidable there and not part of the
		// statement; State is covered by clause (3) below.
		content, stamps, _ := compareStores(before, after, "State")
		if content != "" {
			add(kNotAtomicStore(r.path, pos, false), "a failed import changed the store: %s", trunc(content, 1500))
		} else if stamps != "" {
			r.class("notxn-rollback-rewrote-timestamps")
		}
	}
	// memory == restart (fields Export does not show; then timestamps)
	if sideOK["memory"] && sideOK["store"] {
		content, stamps := compareSnapshots(snapshot(r.w), snapshot(rel))
		if content != "" {
			add(kNotAtomicMem(r.path, pos, false), "after a failed import memory and store differ: %s", trunc(content, 1500))
		} else if stamps != "" {
			add(kNotAtomicMem(r.path, pos, true), "after a failed import memory and store differ in timestamps only: %s", trunc(stamps, 1500))
		}
	}
	// (3) every connector keeps its position
	if old != nil {
		for _, oc := range old.Connectors {
			r.class("state-checked-across-failed-import")
			nc, kept := newConns[oc.ID]
			recreated := !kept || nc.Type != oc.Type // the import deletes (and maybe re-creates) this connector
			if c, err := r.w.conns.Get(bg, oc.ID); sideCfgOK["memory"] && err == nil && js(c.State) != r.expState[oc.ID] {
				add(kStateFail("memory", r.path, recreated && c.State == nil), "connector %s has state %s in memory after a failed import, it had %s", oc.ID, js(c.State), r.expState[oc.ID])
			}
			if c, err := rel.conns.Get(bg, oc.ID); sideCfgOK["store"] && err == nil && js(c.State) != r.expState[oc.ID] {
				add(kStateFail("store", r.path, recreated && c.State == nil), "connector %s has state %s in the store after a failed import, it had %s", oc.ID, js(c.State), r.expState[oc.ID])
			}
		}
	}
	_ = df
}

func sortViolations(vs []violation) {
	sort.SliceStable(vs, func(i, j int) bool { return vs[i].Key < vs[j].Key })
}
