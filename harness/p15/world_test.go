package p15

import (
	"context"
	"fmt"
	"sync"
	"time"

	"github.com/conduitio/conduit-commons/opencdc"
	"github.com/conduitio/conduit-connector-protocol/pconnector"
	sdk "github.com/conduitio/conduit-processor-sdk"
	"github.com/conduitio/conduit/pkg/connector"
	"github.com/conduitio/conduit/pkg/foundation/log"
	"github.com/conduitio/conduit/pkg/pipeline"
	"github.com/conduitio/conduit/pkg/plugin"
	connectorPlugin "github.com/conduitio/conduit/pkg/plugin/connector"
	"github.com/conduitio/conduit/pkg/plugin/connector/builtin"
	"github.com/conduitio/conduit/pkg/plugin/processor/egress"
	"github.com/conduitio/conduit/pkg/processor"
	"github.com/conduitio/conduit/pkg/provisioning"
	"github.com/rs/zerolog"
	"verifharness/lab"
)

// logCapture keeps the warn/error lines of the provisioning service: a failed
// rollback is only logged ("error rolling back action"), never returned.
type logCapture struct {
	mu    sync.Mutex
	lines []string
}

func (c *logCapture) Write(p []byte) (int, error) {
	c.mu.Lock()
	c.lines = append(c.lines, string(p))
	c.mu.Unlock()
	return len(p), nil
}

func (c *logCapture) take() []string {
	c.mu.Lock()
	defer c.mu.Unlock()
	out := c.lines
	c.lines = nil
	return out
}

// Plugin names known to the fakes. The processor service checks a processor
// plugin name on Create (through the registry); connector plugin names are not
// checked on the provisioning path at all.
const (
	procPluginA = "builtin:p15-a"
	procPluginB = "builtin:p15-b"
	connPluginX = "builtin:p15-x"
	connPluginY = "builtin:p15-y"
	dlqPluginZ  = "builtin:p15-dlq"
)

var errInjectedPlugin = fmt.Errorf("p15: injected processor plugin failure")

// procRegistry is the fake processor.PluginService. It knows two plugin names and
// can fail one NewProcessor call (the k-th after arming) - a transient failure,
// one-shot like the store faults, so that a rollback is not hit by the same fault.
type procRegistry struct {
	mu    sync.Mutex
	armed bool
	index int
	seen  int
	Fired int
	Calls int
}

func (r *procRegistry) Arm(k int) {
	r.mu.Lock()
	defer r.mu.Unlock()
	r.armed, r.index, r.seen = true, k, 0
}

func (r *procRegistry) Disarm() {
	r.mu.Lock()
	defer r.mu.Unlock()
	r.armed = false
}

func (r *procRegistry) NewProcessor(_ context.Context, pluginName string, id string, _ egress.Policy) (sdk.Processor, error) {
	r.mu.Lock()
	defer r.mu.Unlock()
	r.Calls++
	if pluginName != procPluginA && pluginName != procPluginB {
		return nil, fmt.Errorf("p15: unknown processor plugin %q", pluginName)
	}
	if r.armed {
		if r.seen == r.index {
			r.armed = false
			r.Fired++
			return nil, errInjectedPlugin
		}
		r.seen++
	}
	return &nopProc{}, nil
}

type nopProc struct{ sdk.UnimplementedProcessor }

func (*nopProc) Specification() (sdk.Specification, error) {
	return sdk.Specification{Name: "p15", Version: "v0"}, nil
}
func (*nopProc) Teardown(context.Context) error { return nil }
func (*nopProc) Process(_ context.Context, recs []opencdc.Record) []sdk.ProcessedRecord {
	out := make([]sdk.ProcessedRecord, len(recs))
	for i, r := range recs {
		out[i] = sdk.SingleRecord(r)
	}
	return out
}

// connPlugins is the fake provisioning.ConnectorPluginService. connector.Service.Delete
// asks it for a dispenser to run the on-deleted hook; the pipelines of this property
// never ran (LastActiveConfig is empty) so the hook returns before dispensing.
type connPlugins struct {
	mu    sync.Mutex
	Calls int
}

type nilSrc struct{ pconnector.SourcePlugin }
type nilDst struct{ pconnector.DestinationPlugin }

func (p *connPlugins) NewDispenser(logger log.CtxLogger, name string, _ string) (connectorPlugin.Dispenser, error) {
	p.mu.Lock()
	p.Calls++
	p.mu.Unlock()
	return builtin.NewDispenser(plugin.FullName(name), logger, nil,
		func() pconnector.SourcePlugin { return nilSrc{} },
		func() pconnector.DestinationPlugin { return nilDst{} }), nil
}

// fakeLifecycle records calls; the pipelines of this property are never running.
type fakeLifecycle struct {
	mu    sync.Mutex
	Calls []string
}

func (l *fakeLifecycle) rec(s string) {
	l.mu.Lock()
	l.Calls = append(l.Calls, s)
	l.mu.Unlock()
}
func (l *fakeLifecycle) Start(_ context.Context, id string) error { l.rec("start " + id); return nil }
func (l *fakeLifecycle) Stop(_ context.Context, id string, _ bool) error {
	l.rec("stop " + id)
	return nil
}
func (l *fakeLifecycle) StopAndWait(_ context.Context, id string) error {
	l.rec("stopandwait " + id)
	return nil
}
func (l *fakeLifecycle) ReconfigureProcessor(_ context.Context, id, proc string) error {
	l.rec("reconfigure " + id + " " + proc)
	return nil
}

// world is one isolated set of real services over one store.
type world struct {
	db      *lab.FaultDB
	logger  log.CtxLogger
	pls     *pipeline.Service
	conns   *connector.Service
	procs   *processor.Service
	reg     *procRegistry
	plugins *connPlugins
	life    *fakeLifecycle
	svc     *provisioning.Service
	dir     string
	provLog *logCapture
}

// newWorld builds services on db and loads them from it (a server start). dir is
// the pipelines directory of the provisioning service (file mode).
func newWorld(db *lab.FaultDB, dir string) (*world, error) {
	w := &world{db: db, dir: dir, logger: log.Nop(), reg: &procRegistry{}, plugins: &connPlugins{}, life: &fakeLifecycle{}}
	persister := connector.NewPersister(w.logger, db, time.Second, 1)
	w.conns = connector.NewService(w.logger, db, persister)
	w.procs = processor.NewService(w.logger, db, w.reg)
	w.pls = pipeline.NewService(w.logger, db)
	ctx := context.Background()
	// same order as the runtime: processors, connectors, pipelines
	if err := w.procs.Init(ctx); err != nil {
		return nil, fmt.Errorf("processors init: %w", err)
	}
	if err := w.conns.Init(ctx); err != nil {
		return nil, fmt.Errorf("connectors init: %w", err)
	}
	if err := w.pls.Init(ctx); err != nil {
		return nil, fmt.Errorf("pipelines init: %w", err)
	}
	w.provLog = &logCapture{}
	provLogger := log.New(zerolog.New(w.provLog).Level(zerolog.WarnLevel))
	w.svc = provisioning.NewService(db, provLogger, w.pls, w.conns, w.procs, w.plugins, w.life, dir)
	return w, nil
}

// reloaded returns a second world started on a copy of the store (a "restart"
// that cannot influence the live one).
func (w *world) reloaded() (*world, error) {
	return newWorld(lab.NewFaultDBFrom(nil, w.db.Current()), w.dir)
}
