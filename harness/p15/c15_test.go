package p15

import (
	"encoding/json"
	"fmt"
	"os"
	"sort"
	"sync"
	"testing"

	"github.com/conduitio/conduit/pkg/provisioning/config"
	"pgregory.net/rapid"
	"verifharness/pbt"
)

// ---------------------------------------------------------------- known shapes

// knownFn: the known-shape exclusions are driven only by the registered known
// findings (pbt.Stats.IsKnown, i.e. VERIF_KNOWN / known_findings.json). Once a
// defect is fixed and no longer listed, its shape is generated again and the
// check verifies the fix. (Collection rounds "behind" a finding use a scratch
// VERIF_KNOWN file.)
func knownFn(st *pbt.Stats) func(string) bool {
	return func(k string) bool { return st != nil && st.IsKnown(k) }
}

// repairConnProcs removes the shape of kFailReorder from a new raw config: a
// connector that persists with the same type keeps its stored processor-id list
// when that list has >= 3 entries (field changes of the members are kept).
func repairConnProcs(cur *config.Pipeline, nw *config.Pipeline) bool {
	changed := false
	for _, oc := range cur.Connectors {
		for i := range nw.Connectors {
			nc := &nw.Connectors[i]
			if oc.ID != nc.ID || oc.Type != nc.Type || len(oc.Processors) < 3 ||
				fmt.Sprint(procIDs(oc.Processors)) == fmt.Sprint(procIDs(nc.Processors)) {
				continue
			}
			byID := map[string]config.Processor{}
			for _, p := range nc.Processors {
				byID[p.ID] = p
			}
			list := make([]config.Processor, 0, len(oc.Processors))
			for _, p := range cloneProcs(oc.Processors) {
				if np, ok := byID[p.ID]; ok {
					p = np
				}
				list = append(list, p)
			}
			nc.Processors = list
			changed = true
		}
	}
	return changed
}

// repairConditions removes the shape of kNCCondChanged: a processor that persists
// (same parent id and processor id) keeps its stored condition.
func repairConditions(cur *config.Pipeline, nw *config.Pipeline) bool {
	changed := false
	fix := func(old, list []config.Processor) {
		for _, op := range old {
			for i := range list {
				if list[i].ID == op.ID && list[i].Condition != op.Condition {
					list[i].Condition = op.Condition
					changed = true
				}
			}
		}
	}
	fix(cur.Processors, nw.Processors)
	for _, oc := range cur.Connectors {
		for i := range nw.Connectors {
			if nw.Connectors[i].ID == oc.ID {
				fix(oc.Processors, nw.Connectors[i].Processors)
			}
		}
	}
	return changed
}

// applyKnownShapes is the generator-side exclusion of known findings: it changes
// the drawn step so that it no longer has exactly the shape of a known finding.
// It is used for the findings that make an import fail or leave the stored
// configuration different from the model (the chain could not continue).
func applyKnownShapes(cur *config.Pipeline, s *Step, path string, known func(string) bool, exclude func(string)) {
	if cur != nil {
		if known(kFailReorder) && repairConnProcs(cur, &s.New) {
			exclude(kFailReorder)
		}
		if known(kNCCondChanged) && repairConditions(cur, &s.New) {
			exclude(kNCCondChanged)
		}
	}
	// Every other known key needs no generator change: pbt.Stats.Report counts it as
	// a known hit, and the runner restarts the services from the store after any
	// violation, so the chain continues from a state that matches the model.
	_ = path
}

// ---------------------------------------------------------------- collection mode

type collected struct {
	Count   int    `json:"count"`
	Size    int    `json:"size"`
	Detail  string `json:"detail"`
	Example *Case  `json:"example"`
}

var (
	collectMode = os.Getenv("C15_COLLECT") == "1"
	collMu      sync.Mutex
	coll        = map[string]*collected{}
)

func collect(v violation, c *Case) {
	collMu.Lock()
	defer collMu.Unlock()
	e := coll[v.Key]
	size := caseSize(c)
	if e == nil {
		e = &collected{Size: 1 << 30}
		coll[v.Key] = e
	}
	e.Count++
	if size < e.Size {
		cp := *c
		cp.Steps = append([]Step(nil), c.Steps...)
		e.Size, e.Detail, e.Example = size, v.Detail, &cp
	}
}

// reproduces reports whether a case still shows a violation with the given key.
func reproduces(c *Case, key string) bool {
	vs, _, _, err := execCase(c, knownFn(nil), nil)
	if err != nil {
		return false
	}
	for _, v := range vs {
		if v.Key == key {
			return true
		}
	}
	return false
}

func cloneCase(c *Case) *Case {
	out := &Case{Mode: c.Mode}
	for _, s := range c.Steps {
		ns := Step{New: clonePipeline(s.New), Edits: s.Edits}
		if s.Fault != nil {
			f := *s.Fault
			ns.Fault = &f
		}
		out.Steps = append(out.Steps, ns)
	}
	return out
}

// shrinkCase greedily simplifies a collected example while its key reproduces
// (collection mode never fails a case, so rapid's shrinker is not involved).
func shrinkCase(c *Case, key string, budget int) *Case {
	best := cloneCase(c)
	try := func(mut func(*Case) bool) bool {
		if budget <= 0 {
			return false
		}
		cand := cloneCase(best)
		if !mut(cand) {
			return false
		}
		budget--
		if reproduces(cand, key) {
			best = cand
			return true
		}
		return false
	}
	procMuts := func(get func(*Case) *[]config.Processor) {
		for i := len(*get(best)) - 1; i >= 0; i-- {
			i := i
			try(func(c *Case) bool { l := get(c); *l = append((*l)[:i:i], (*l)[i+1:]...); return true })
		}
		for i := range *get(best) {
			i := i
			try(func(c *Case) bool {
				p := &(*get(c))[i]
				if len(p.Settings) == 0 && p.Workers == 1 {
					return false
				}
				p.Settings, p.Workers = nil, 1
				return true
			})
			try(func(c *Case) bool {
				p := &(*get(c))[i]
				if p.Condition == "" {
					return false
				}
				p.Condition = ""
				return true
			})
		}
	}
	for changed := true; changed && budget > 0; {
		before := pbt.Hash(best)
		for i := len(best.Steps) - 2; i >= 0; i-- { // drop earlier steps
			i := i
			try(func(c *Case) bool { c.Steps = append(c.Steps[:i:i], c.Steps[i+1:]...); return true })
		}
		for si := range best.Steps {
			si := si
			try(func(c *Case) bool {
				if c.Steps[si].Fault == nil {
					return false
				}
				c.Steps[si].Fault = nil
				return true
			})
			try(func(c *Case) bool {
				f := c.Steps[si].Fault
				if f == nil || f.Index == 0 {
					return false
				}
				f.Index--
				return true
			})
			try(func(c *Case) bool {
				p := &c.Steps[si].New
				if p.Name == "" && p.Description == "" && p.DLQ.Plugin == "" && p.DLQ.Settings == nil && p.DLQ.WindowSize == nil && p.DLQ.WindowNackThreshold == nil {
					return false
				}
				p.Name, p.Description, p.DLQ = "", "", config.DLQ{}
				return true
			})
			for ci := len(best.Steps[si].New.Connectors) - 1; ci >= 0; ci-- {
				ci := ci
				try(func(c *Case) bool {
					l := &c.Steps[si].New.Connectors
					*l = append((*l)[:ci:ci], (*l)[ci+1:]...)
					if len(*l) == 0 {
						*l = nil
					}
					return true
				})
			}
			for ci := range best.Steps[si].New.Connectors {
				ci := ci
				try(func(c *Case) bool {
					cn := &c.Steps[si].New.Connectors[ci]
					if cn.Name == "" && len(cn.Settings) == 0 {
						return false
					}
					cn.Name, cn.Settings = "", nil
					return true
				})
				procMuts(func(c *Case) *[]config.Processor { return &c.Steps[si].New.Connectors[ci].Processors })
			}
			procMuts(func(c *Case) *[]config.Processor { return &c.Steps[si].New.Processors })
		}
		changed = pbt.Hash(best) != before
	}
	return best
}

func flushCollected(t *testing.T) {
	if !collectMode {
		return
	}
	collMu.Lock()
	defer collMu.Unlock()
	for k, e := range coll {
		if e.Example != nil && reproduces(e.Example, k) {
			e.Example = shrinkCase(e.Example, k, 600)
			e.Size = caseSize(e.Example)
			if vs, _, _, err := execCase(e.Example, knownFn(nil), nil); err == nil {
				for _, v := range vs {
					if v.Key == k {
						e.Detail = v.Detail
						break
					}
				}
			}
		}
	}
	name := "/tmp/p15-collected.json"
	if sh := os.Getenv("VERIF_SHARD"); sh != "" {
		name = "/tmp/p15-collected." + sh + ".json"
	}
	b, _ := json.MarshalIndent(coll, "", " ")
	_ = os.WriteFile(name, b, 0o644)
	keys := make([]string, 0, len(coll))
	for k := range coll {
		keys = append(keys, k)
	}
	sort.Strings(keys)
	for _, k := range keys {
		t.Logf("COLLECTED %6d  %s", coll[k].Count, k)
	}
}

// ---------------------------------------------------------------- reporting

// report hands the violations of one step to the stats (or the collector) and
// returns the first one that must fail the case.
func report(st *pbt.Stats, vs []violation, c *Case) *violation {
	var first *violation
	for i := range vs {
		v := vs[i]
		if collectMode {
			collect(v, c)
			continue
		}
		if st.Report(v.Key, v.Detail, caseSize(c), c) && first == nil {
			first = &vs[i]
		}
	}
	return first
}

func caseDir(t interface{ Fatalf(string, ...any) }, mode string) (string, func()) {
	if mode != "file" {
		return "", func() {}
	}
	dir, err := os.MkdirTemp("", "p15-case-")
	if err != nil {
		t.Fatalf("tempdir: %v", err)
	}
	return dir, func() { _ = os.RemoveAll(dir) }
}

var modes = []string{"file", "file", "apply", "apply", "import"}

// ---------------------------------------------------------------- TestC15: chains of imports

// TestC15Chain: a chain of <= 5 imports of one pipeline through one entry point
// (config file + Init, Plan + ApplyPlan, Service.Import), each import an edit of
// the previously stored configuration, optionally with one injected fault.
func TestC15Chain(t *testing.T) {
	st := pbt.For("C15")
	defer st.Finish(t)
	defer flushCollected(t)
	known := knownFn(st)
	rapid.Check(t, func(t *rapid.T) {
		mode := rapid.SampledFrom(modes).Draw(t, "mode")
		dir, cleanup := caseDir(t, mode)
		defer cleanup()
		r, err := newRunner(mode, dir, known, st.Exclude)
		if err != nil {
			t.Fatalf("harness: %v", err)
		}
		n := rapid.SampledFrom([]int{2, 2, 3, 3, 4, 5}).Draw(t, "chain.len")
		c := &Case{Mode: mode}
		o := genOpts{nilEmptyLists: known(kPlanEmptyNil)}
		nontrivial := false
		var fatal *violation
		for i := 0; i < n; i++ {
			var s Step
			fresh := r.curRaw == nil || rapid.IntRange(0, 11).Draw(t, fmt.Sprintf("step%d.fresh", i)) == 0
			if fresh {
				s.New = genPipeline(t, o)
				s.Edits = []string{"fresh-config"}
			} else {
				s.New, s.Edits = genEdit(t, o, *r.curRaw)
			}
			s.Fault = genFault(t, r.path == "notxn", fmt.Sprintf("step%d", i))
			applyKnownShapes(r.curRaw, &s, r.path, known, st.Exclude)
			c.Steps = append(c.Steps, s)
			pbt.MarkCurrent("C15", c)

			hadOld := r.cur != nil
			vs, cont, herr := r.step(s)
			if herr != nil {
				t.Fatalf("harness: %v", herr)
			}
			for _, e := range s.Edits {
				r.class("edit:" + e)
			}
			nontrivial = nontrivial || r.lastNonTrivial(hadOld)
			if fatal = report(st, vs, c); fatal != nil || !cont {
				break
			}
		}
		r.class("mode:" + mode)
		r.class(fmt.Sprintf("chain-imports:%d", len(c.Steps)))
		if r.ended != "" {
			r.class("chain-ended-early")
		}
		st.Case(pbt.Hash(c), nontrivial, sortedKeys(r.classes)...)
		if nontrivial && st.WantSample() {
			st.Sample(c)
		}
		if fatal != nil {
			t.Fatalf("%s: %s", fatal.Key, fatal.Detail)
		}
	})
}

// ---------------------------------------------------------------- TestC15FaultSweep: every failing action index

// execCase runs a recorded case from scratch (no rapid).
func execCase(c *Case, known func(string) bool, exclude func(string)) (vs []violation, r *runner, lastFired bool, err error) {
	dir, cleanup := "", func() {}
	if c.Mode == "file" {
		dir, err = os.MkdirTemp("", "p15-case-")
		if err != nil {
			return nil, nil, false, err
		}
		cleanup = func() { _ = os.RemoveAll(dir) }
	}
	defer cleanup()
	r, err = newRunner(c.Mode, dir, known, exclude)
	if err != nil {
		return nil, nil, false, err
	}
	for _, s := range c.Steps {
		hadOld := r.cur != nil
		v, cont, herr := r.step(s)
		if herr != nil {
			return vs, r, false, herr
		}
		r.lastNonTrivial(hadOld)
		vs = append(vs, v...)
		lastFired = r.fired
		if !cont {
			break
		}
	}
	return vs, r, lastFired, nil
}

// TestC15FaultSweep: for one generated (old, new) pair the import of new is run
// once per failing position: the k-th store write for k = 0,1,... until the
// import no longer reaches k, the k-th processor-plugin call likewise, the commit
// and the transaction start. Every run starts from a fresh world holding old.
func TestC15FaultSweep(t *testing.T) {
	st := pbt.For("C15")
	defer st.Finish(t)
	defer flushCollected(t)
	known := knownFn(st)
	rapid.Check(t, func(t *rapid.T) {
		mode := rapid.SampledFrom(modes).Draw(t, "mode")
		path := "txn"
		if mode == "import" {
			path = "notxn"
		}
		o := genOpts{nilEmptyLists: known(kPlanEmptyNil)}
		oldRaw := genPipeline(t, o)
		newRaw, edits := genEdit(t, o, oldRaw)
		if rapid.IntRange(0, 9).Draw(t, "fresh") == 0 {
			newRaw, edits = genPipeline(t, o), []string{"fresh-config"}
		}
		kinds := []string{"set", "procnew"}
		if path == "txn" {
			kinds = append(kinds, "commit", "newtxn")
		}
		classes := map[string]bool{"mode:" + mode: true, "sweep": true}
		for _, e := range edits {
			classes["edit:"+e] = true
		}
		nontrivial := false
		var fatal *violation
		var last *Case
		runs := 0
	sweep:
		for _, kind := range kinds {
			for k := 0; k < 40; k++ {
				s := Step{New: clonePipeline(newRaw), Fault: &FaultSpec{Kind: kind, Index: k}, Edits: edits}
				applyKnownShapes(&oldRaw, &s, path, known, st.Exclude)
				dropped := s.Fault == nil // this fault kind is a known shape for this pair
				if dropped && runs > 0 {
					break
				}
				c := &Case{Mode: mode, Steps: []Step{{New: clonePipeline(oldRaw)}, s}}
				last = c
				pbt.MarkCurrent("C15", c)
				vs, r, fired, err := execCase(c, known, st.Exclude)
				if err != nil {
					t.Fatalf("harness: %v", err)
				}
				runs++
				for cl := range r.classes {
					classes[cl] = true
				}
				nontrivial = nontrivial || fired
				if fatal = report(st, vs, c); fatal != nil {
					break sweep
				}
				if dropped || !fired || kind == "commit" || kind == "newtxn" {
					break // k is beyond the last operation of this import (or the kind has one position)
				}
			}
		}
		classes[fmt.Sprintf("sweep-runs:%d", (runs/5)*5)] = true
		if last == nil {
			last = &Case{Mode: mode, Steps: []Step{{New: oldRaw}, {New: newRaw}}}
		}
		st.Case(pbt.Hash([]any{mode, oldRaw, newRaw}), nontrivial, sortedKeys(classes)...)
		if fatal != nil {
			t.Fatalf("%s: %s", fatal.Key, fatal.Detail)
		}
	})
}

// ---------------------------------------------------------------- replay

type replayDoc struct {
	Property string `json:"property"`
	Key      string `json:"key"`
	Detail   string `json:"detail"`
	Replay   Case   `json:"replay"`
}

// TestReplayC15 re-executes a saved case and fails iff the recorded key reproduces.
func TestReplayC15(t *testing.T) {
	f := os.Getenv("VERIF_REPLAY_FILE")
	if f == "" {
		t.Skip("VERIF_REPLAY_FILE not set")
	}
	raw, err := os.ReadFile(f)
	if err != nil {
		t.Fatal(err)
	}
	var doc replayDoc
	if err := json.Unmarshal(raw, &doc); err != nil {
		t.Fatal(err)
	}
	if len(doc.Replay.Steps) == 0 {
		t.Fatalf("replay file holds no steps")
	}
	vs, r, _, err := execCase(&doc.Replay, nil, nil)
	if err != nil {
		t.Fatalf("harness: %v", err)
	}
	reproduced := false
	for _, v := range vs {
		if v.Key == doc.Key {
			reproduced = true
			t.Errorf("REPRODUCED %s: %s", v.Key, v.Detail)
		} else {
			t.Logf("other violation %s: %s", v.Key, v.Detail)
		}
	}
	if !reproduced {
		t.Logf("key %s did not reproduce (classes %v)", doc.Key, sortedKeys(r.classes))
	}
}
