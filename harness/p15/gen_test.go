package p15

import (
	"fmt"
	"sort"

	"github.com/conduitio/conduit/pkg/provisioning/config"
	"pgregory.net/rapid"
)

// ---------------------------------------------------------------- case format

// FaultSpec is one injected fault, armed immediately before the import call.
type FaultSpec struct {
	Kind  string `json:"kind"` // set | commit | newtxn | procnew
	Index int    `json:"index"`
}

// Step is one import: the complete raw (not yet enriched) configuration and an
// optional fault. Connector positions are derived from the step number.
type Step struct {
	New   config.Pipeline `json:"new"`
	Fault *FaultSpec      `json:"fault,omitempty"`
	Edits []string        `json:"edits,omitempty"` // informational
}

// Case is a chain of imports of one pipeline through one entry point.
type Case struct {
	Mode  string `json:"mode"` // file | apply | import
	Steps []Step `json:"steps"`
}

const pipelineID = "pl"

var (
	connIDPool   = []string{"c1", "c2", "c3", "c4"}
	procIDPool   = []string{"p1", "p2", "p3", "p4", "p5", "p6"}
	connPlugins_ = []string{connPluginX, connPluginY}
	procPlugins_ = []string{procPluginA, procPluginB}
	settingKeys  = []string{"k1", "k2", "k3"}
	settingVals  = []string{"v1", "v2", "v3", "", "true", "7"}
	conditions   = []string{
		"",
		`{{ eq .Metadata.k "v" }}`,
		`{{ eq .Metadata.k "w" }}`,
		`{{ ne (index .Metadata "x") "1" }}`,
	}
	plNames   = []string{"", "n1", "n2", "name three"}
	plDescs   = []string{"", "d1", "a longer description: with punctuation"}
	connNames = []string{"", "cn1", "cn2"}
	dlqPlugs  = []string{"", dlqPluginZ, "builtin:log"}
)

// genOpts carries the known-shape exclusions that act at generation time.
type genOpts struct {
	nilEmptyLists bool // never produce empty non-nil lists
}

// ---------------------------------------------------------------- deep copies (nil-ness preserved)

func cloneMapSS(m map[string]string) map[string]string {
	if m == nil {
		return nil
	}
	out := make(map[string]string, len(m))
	for k, v := range m {
		out[k] = v
	}
	return out
}

func cloneProcs(ps []config.Processor) []config.Processor {
	if ps == nil {
		return nil
	}
	out := make([]config.Processor, len(ps))
	for i, p := range ps {
		p.Settings = cloneMapSS(p.Settings)
		out[i] = p
	}
	return out
}

func cloneIntPtr(p *int) *int {
	if p == nil {
		return nil
	}
	v := *p
	return &v
}

func clonePipeline(p config.Pipeline) config.Pipeline {
	out := p
	out.Processors = cloneProcs(p.Processors)
	out.DLQ.Settings = cloneMapSS(p.DLQ.Settings)
	out.DLQ.WindowSize = cloneIntPtr(p.DLQ.WindowSize)
	out.DLQ.WindowNackThreshold = cloneIntPtr(p.DLQ.WindowNackThreshold)
	if p.Connectors != nil {
		out.Connectors = make([]config.Connector, len(p.Connectors))
		for i, c := range p.Connectors {
			c.Settings = cloneMapSS(c.Settings)
			c.Processors = cloneProcs(c.Processors)
			out.Connectors[i] = c
		}
	}
	return out
}

// ---------------------------------------------------------------- grammar

func genSettings(t *rapid.T, label string) map[string]string {
	switch rapid.IntRange(0, 5).Draw(t, label+".settings.kind") {
	case 0:
		return nil
	case 1:
		return map[string]string{}
	}
	n := rapid.IntRange(1, 3).Draw(t, label+".settings.n")
	m := map[string]string{}
	for i := 0; i < n; i++ {
		k := rapid.SampledFrom(settingKeys).Draw(t, label+".settings.k")
		m[k] = rapid.SampledFrom(settingVals).Draw(t, label+".settings.v")
	}
	return m
}

func genProcessor(t *rapid.T, id, label string) config.Processor {
	return config.Processor{
		ID:        id,
		Plugin:    rapid.SampledFrom(procPlugins_).Draw(t, label+".plugin"),
		Settings:  genSettings(t, label),
		Workers:   rapid.SampledFrom([]int{1, 1, 1, 2, 3, 0}).Draw(t, label+".workers"), // 0 is enriched to 1
		Condition: rapid.SampledFrom(conditions).Draw(t, label+".condition"),
	}
}

func emptyProcs(t *rapid.T, o genOpts, label string) []config.Processor {
	if !o.nilEmptyLists && rapid.IntRange(0, 4).Draw(t, label+".emptyNonNil") == 0 {
		return []config.Processor{}
	}
	return nil
}

func genProcList(t *rapid.T, o genOpts, label string) []config.Processor {
	n := rapid.SampledFrom([]int{0, 0, 1, 1, 2, 3, 3, 4}).Draw(t, label+".nprocs")
	if n == 0 {
		return emptyProcs(t, o, label)
	}
	ids := rapid.Permutation(procIDPool).Draw(t, label+".procids")[:n]
	out := make([]config.Processor, n)
	for i, id := range ids {
		out[i] = genProcessor(t, id, fmt.Sprintf("%s.proc%d", label, i))
	}
	return out
}

func genConnector(t *rapid.T, o genOpts, id, label string) config.Connector {
	return config.Connector{
		ID:         id,
		Type:       rapid.SampledFrom([]string{config.TypeSource, config.TypeDestination}).Draw(t, label+".type"),
		Plugin:     rapid.SampledFrom(connPlugins_).Draw(t, label+".plugin"),
		Name:       rapid.SampledFrom(connNames).Draw(t, label+".name"),
		Settings:   genSettings(t, label),
		Processors: genProcList(t, o, label),
	}
}

// genDLQ only produces values pipeline.Service.UpdateDLQ accepts (window >= 0,
// threshold >= 0, threshold < window unless window == 0), evaluated on the
// effective (enriched) values.
func genDLQ(t *rapid.T, label string) config.DLQ {
	if rapid.IntRange(0, 2).Draw(t, label+".dlq.zero") == 0 {
		return config.DLQ{}
	}
	d := config.DLQ{
		Plugin:   rapid.SampledFrom(dlqPlugs).Draw(t, label+".dlq.plugin"),
		Settings: genSettings(t, label+".dlq"),
	}
	effWS := 1 // pipeline.DefaultDLQ.WindowSize
	if rapid.Bool().Draw(t, label+".dlq.ws.set") {
		ws := rapid.IntRange(0, 4).Draw(t, label+".dlq.ws")
		d.WindowSize = &ws
		effWS = ws
	}
	if rapid.Bool().Draw(t, label+".dlq.thr.set") {
		maxThr := effWS - 1
		if effWS == 0 {
			maxThr = 3
		}
		thr := rapid.IntRange(0, maxThr).Draw(t, label+".dlq.thr")
		d.WindowNackThreshold = &thr
	}
	return d
}

func genPipeline(t *rapid.T, o genOpts) config.Pipeline {
	p := config.Pipeline{
		ID:          pipelineID,
		Status:      config.StatusStopped,
		Name:        rapid.SampledFrom(plNames).Draw(t, "pl.name"),
		Description: rapid.SampledFrom(plDescs).Draw(t, "pl.desc"),
		DLQ:         genDLQ(t, "pl"),
	}
	nc := rapid.SampledFrom([]int{0, 1, 2, 2, 3, 3}).Draw(t, "pl.nconns")
	if nc == 0 {
		if !o.nilEmptyLists && rapid.IntRange(0, 4).Draw(t, "pl.conns.emptyNonNil") == 0 {
			p.Connectors = []config.Connector{}
		}
	} else {
		ids := rapid.Permutation(connIDPool).Draw(t, "pl.connids")[:nc]
		for i, id := range ids {
			p.Connectors = append(p.Connectors, genConnector(t, o, id, fmt.Sprintf("conn%d", i)))
		}
	}
	p.Processors = genProcList(t, o, "pl")
	return p
}

// ---------------------------------------------------------------- edits

var editKinds = []string{
	"pl-name", "pl-desc", "pl-dlq",
	"conn-add", "conn-remove", "conn-reorder", "conn-type", "conn-plugin", "conn-name", "conn-settings",
	"proc-add", "proc-remove", "proc-reorder", "proc-reorder", "proc-move",
	"proc-settings", "proc-workers", "proc-condition", "proc-plugin",
}

// procListAt returns the processor list of a parent: -1 is the pipeline, i>=0 connector i.
func procListAt(p *config.Pipeline, parent int) *[]config.Processor {
	if parent < 0 {
		return &p.Processors
	}
	return &p.Connectors[parent].Processors
}

func freeID(pool []string, used func(string) bool) []string {
	var out []string
	for _, id := range pool {
		if !used(id) {
			out = append(out, id)
		}
	}
	return out
}

func hasProc(ps []config.Processor, id string) bool {
	for _, p := range ps {
		if p.ID == id {
			return true
		}
	}
	return false
}

// genEdit applies 0..4 random edits to a copy of old. Inapplicable edits are skipped.
func genEdit(t *rapid.T, o genOpts, old config.Pipeline) (config.Pipeline, []string) {
	p := clonePipeline(old)
	n := rapid.SampledFrom([]int{0, 1, 2, 2, 3, 3, 4}).Draw(t, "edit.n")
	var applied []string
	for e := 0; e < n; e++ {
		lbl := fmt.Sprintf("edit%d", e)
		kind := rapid.SampledFrom(editKinds).Draw(t, lbl+".kind")
		pickConn := func() int {
			if len(p.Connectors) == 0 {
				return -1
			}
			return rapid.IntRange(0, len(p.Connectors)-1).Draw(t, lbl+".conn")
		}
		pickParent := func(minProcs int) (int, bool) {
			var cands []int
			for i := -1; i < len(p.Connectors); i++ {
				if len(*procListAt(&p, i)) >= minProcs {
					cands = append(cands, i)
				}
			}
			if len(cands) == 0 {
				return 0, false
			}
			return rapid.SampledFrom(cands).Draw(t, lbl+".parent"), true
		}
		ok := false
		switch kind {
		case "pl-name":
			p.Name, ok = rapid.SampledFrom(plNames).Draw(t, lbl+".v"), true
		case "pl-desc":
			p.Description, ok = rapid.SampledFrom(plDescs).Draw(t, lbl+".v"), true
		case "pl-dlq":
			p.DLQ, ok = genDLQ(t, lbl), true
		case "conn-add":
			if len(p.Connectors) < 3 {
				free := freeID(connIDPool, func(id string) bool {
					for _, c := range p.Connectors {
						if c.ID == id {
							return true
						}
					}
					return false
				})
				id := rapid.SampledFrom(free).Draw(t, lbl+".id")
				c := genConnector(t, o, id, lbl)
				at := rapid.IntRange(0, len(p.Connectors)).Draw(t, lbl+".at")
				p.Connectors = append(p.Connectors[:at:at], append([]config.Connector{c}, p.Connectors[at:]...)...)
				ok = true
			}
		case "conn-remove":
			if i := pickConn(); i >= 0 {
				p.Connectors = append(p.Connectors[:i:i], p.Connectors[i+1:]...)
				if len(p.Connectors) == 0 {
					p.Connectors = nil
					if !o.nilEmptyLists && rapid.IntRange(0, 4).Draw(t, lbl+".emptyNonNil") == 0 {
						p.Connectors = []config.Connector{}
					}
				}
				ok = true
			}
		case "conn-reorder":
			if len(p.Connectors) >= 2 {
				p.Connectors = rapid.Permutation(p.Connectors).Draw(t, lbl+".perm")
				ok = true
			}
		case "conn-type":
			if i := pickConn(); i >= 0 {
				if p.Connectors[i].Type == config.TypeSource {
					p.Connectors[i].Type = config.TypeDestination
				} else {
					p.Connectors[i].Type = config.TypeSource
				}
				ok = true
			}
		case "conn-plugin":
			if i := pickConn(); i >= 0 {
				p.Connectors[i].Plugin, ok = rapid.SampledFrom(connPlugins_).Draw(t, lbl+".v"), true
			}
		case "conn-name":
			if i := pickConn(); i >= 0 {
				p.Connectors[i].Name, ok = rapid.SampledFrom(connNames).Draw(t, lbl+".v"), true
			}
		case "conn-settings":
			if i := pickConn(); i >= 0 {
				p.Connectors[i].Settings, ok = genSettings(t, lbl), true
			}
		case "proc-add":
			if par, found := pickParent(0); found {
				l := procListAt(&p, par)
				if len(*l) < 4 {
					free := freeID(procIDPool, func(id string) bool { return hasProc(*l, id) })
					id := rapid.SampledFrom(free).Draw(t, lbl+".id")
					np := genProcessor(t, id, lbl)
					at := rapid.IntRange(0, len(*l)).Draw(t, lbl+".at")
					*l = append((*l)[:at:at], append([]config.Processor{np}, (*l)[at:]...)...)
					ok = true
				}
			}
		case "proc-remove":
			if par, found := pickParent(1); found {
				l := procListAt(&p, par)
				i := rapid.IntRange(0, len(*l)-1).Draw(t, lbl+".i")
				*l = append((*l)[:i:i], (*l)[i+1:]...)
				if len(*l) == 0 {
					*l = emptyProcs(t, o, lbl)
				}
				ok = true
			}
		case "proc-reorder":
			// prefer lists of >= 3 (the non-trivial reorder), fall back to 2
			par, found := pickParent(3)
			if !found {
				par, found = pickParent(2)
			}
			if found {
				l := procListAt(&p, par)
				*l = rapid.Permutation(*l).Draw(t, lbl+".perm")
				ok = true
			}
		case "proc-move":
			if from, found := pickParent(1); found && len(p.Connectors) > 0 {
				to := rapid.IntRange(-1, len(p.Connectors)-1).Draw(t, lbl+".to")
				fl, tl := procListAt(&p, from), procListAt(&p, to)
				i := rapid.IntRange(0, len(*fl)-1).Draw(t, lbl+".i")
				mv := (*fl)[i]
				if to != from && len(*tl) < 4 && !hasProc(*tl, mv.ID) {
					*fl = append((*fl)[:i:i], (*fl)[i+1:]...)
					if len(*fl) == 0 {
						*fl = emptyProcs(t, o, lbl)
					}
					at := rapid.IntRange(0, len(*tl)).Draw(t, lbl+".at")
					*tl = append((*tl)[:at:at], append([]config.Processor{mv}, (*tl)[at:]...)...)
					ok = true
				}
			}
		case "proc-settings", "proc-workers", "proc-condition", "proc-plugin":
			if par, found := pickParent(1); found {
				l := procListAt(&p, par)
				i := rapid.IntRange(0, len(*l)-1).Draw(t, lbl+".i")
				switch kind {
				case "proc-settings":
					(*l)[i].Settings = genSettings(t, lbl)
				case "proc-workers":
					(*l)[i].Workers = rapid.SampledFrom([]int{1, 2, 3, 4}).Draw(t, lbl+".v")
				case "proc-condition":
					(*l)[i].Condition = rapid.SampledFrom(conditions).Draw(t, lbl+".v")
				case "proc-plugin":
					(*l)[i].Plugin = rapid.SampledFrom(procPlugins_).Draw(t, lbl+".v")
				}
				ok = true
			}
		}
		if ok {
			applied = append(applied, kind)
		}
	}
	return p, applied
}

// genFault draws the fault of one import. notxn: the Service.Import path creates
// no transaction, so only Set and plugin faults exist there.
func genFault(t *rapid.T, notxn bool, label string) *FaultSpec {
	if rapid.IntRange(0, 9).Draw(t, label+".fault.any") >= 5 {
		return nil
	}
	kinds := []string{"set", "set", "set", "set", "procnew", "procnew"}
	if !notxn {
		kinds = append(kinds, "newtxn", "commit", "commit")
	}
	f := &FaultSpec{Kind: rapid.SampledFrom(kinds).Draw(t, label+".fault.kind")}
	switch f.Kind {
	case "set":
		f.Index = rapid.IntRange(0, 14).Draw(t, label+".fault.k")
	case "procnew":
		f.Index = rapid.IntRange(0, 5).Draw(t, label+".fault.k")
	}
	return f
}

// ---------------------------------------------------------------- difference metrics (non-trivial rule, classes)

type diffFacts struct {
	Entities    int  // number of entities (pipeline, connectors, processors) created, deleted or changed
	Reorder3    bool // a list with >= 3 surviving members changed their relative order
	TypeChange  bool
	ConnDeleted bool // a stored connector is deleted or re-created (type change)
	Identical   bool
}

func procKey(parent string, p config.Processor) string { return parent + "/" + p.ID }

func procEqualRaw(a, b config.Processor) bool {
	return a.ID == b.ID && a.Plugin == b.Plugin && a.Workers == b.Workers && a.Condition == b.Condition && mapsEqual(a.Settings, b.Settings)
}

func mapsEqual(a, b map[string]string) bool {
	if len(a) != len(b) {
		return false
	}
	for k, v := range a {
		if w, ok := b[k]; !ok || w != v {
			return false
		}
	}
	return true
}

func reordered(oldIDs, newIDs []string) bool {
	in := map[string]bool{}
	for _, id := range newIDs {
		in[id] = true
	}
	var a []string
	for _, id := range oldIDs {
		if in[id] {
			a = append(a, id)
		}
	}
	in = map[string]bool{}
	for _, id := range oldIDs {
		in[id] = true
	}
	var b []string
	for _, id := range newIDs {
		if in[id] {
			b = append(b, id)
		}
	}
	if len(a) < 3 {
		return false
	}
	for i := range a {
		if a[i] != b[i] {
			return true
		}
	}
	return false
}

func procIDs(ps []config.Processor) []string {
	out := make([]string, len(ps))
	for i, p := range ps {
		out[i] = p.ID
	}
	return out
}

func connIDs(cs []config.Connector) []string {
	out := make([]string, len(cs))
	for i, c := range cs {
		out[i] = c.ID
	}
	return out
}

func dlqEqual(a, b config.DLQ) bool {
	ip := func(p *int, def int) int {
		if p == nil {
			return def
		}
		return *p
	}
	return a.Plugin == b.Plugin && mapsEqual(a.Settings, b.Settings) &&
		ip(a.WindowSize, -1) == ip(b.WindowSize, -1) && ip(a.WindowNackThreshold, -1) == ip(b.WindowNackThreshold, -1)
}

// diffOf compares two ENRICHED configs (old may be nil = nothing stored).
func diffOf(old *config.Pipeline, nw config.Pipeline) diffFacts {
	var f diffFacts
	if old == nil {
		f.Entities = 1 + len(nw.Processors)
		for _, c := range nw.Connectors {
			f.Entities += 1 + len(c.Processors)
		}
		return f
	}
	if old.Name != nw.Name || old.Description != nw.Description || !dlqEqual(old.DLQ, nw.DLQ) ||
		fmt.Sprint(connIDs(old.Connectors)) != fmt.Sprint(connIDs(nw.Connectors)) ||
		fmt.Sprint(procIDs(old.Processors)) != fmt.Sprint(procIDs(nw.Processors)) {
		f.Entities++
	}
	f.Reorder3 = reordered(connIDs(old.Connectors), connIDs(nw.Connectors)) || reordered(procIDs(old.Processors), procIDs(nw.Processors))
	procDiff := func(parent string, a, b []config.Processor) {
		am := map[string]config.Processor{}
		for _, p := range a {
			am[p.ID] = p
		}
		seen := map[string]bool{}
		for _, p := range b {
			seen[p.ID] = true
			if op, ok := am[p.ID]; !ok || !procEqualRaw(op, p) {
				f.Entities++
			}
		}
		for _, p := range a {
			if !seen[p.ID] {
				f.Entities++
			}
		}
	}
	procDiff(nw.ID, old.Processors, nw.Processors)
	oc := map[string]config.Connector{}
	for _, c := range old.Connectors {
		oc[c.ID] = c
	}
	seen := map[string]bool{}
	for _, c := range nw.Connectors {
		seen[c.ID] = true
		o, ok := oc[c.ID]
		if !ok {
			f.Entities += 1 + len(c.Processors)
			continue
		}
		if o.Type != c.Type {
			f.TypeChange, f.ConnDeleted = true, true
		}
		if o.Type != c.Type || o.Plugin != c.Plugin || o.Name != c.Name || !mapsEqual(o.Settings, c.Settings) ||
			fmt.Sprint(procIDs(o.Processors)) != fmt.Sprint(procIDs(c.Processors)) {
			f.Entities++
		}
		if reordered(procIDs(o.Processors), procIDs(c.Processors)) {
			f.Reorder3 = true
		}
		procDiff(c.ID, o.Processors, c.Processors)
	}
	for _, c := range old.Connectors {
		if !seen[c.ID] {
			f.ConnDeleted = true
			f.Entities += 1 + len(c.Processors)
		}
	}
	f.Identical = f.Entities == 0
	return f
}

// caseSize is smaller for smaller cases.
func caseSize(c *Case) int {
	n := 0
	for _, s := range c.Steps {
		n += 100 + len(s.New.Processors)*3
		for _, cn := range s.New.Connectors {
			n += 5 + len(cn.Processors)*3 + len(cn.Settings)
		}
		if s.Fault != nil {
			n += 10 + s.Fault.Index
		}
	}
	return n
}

func sortedKeys[V any](m map[string]V) []string {
	out := make([]string, 0, len(m))
	for k := range m {
		out = append(out, k)
	}
	sort.Strings(out)
	return out
}
