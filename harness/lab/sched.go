package lab

import (
	"context"
	"sort"
	"sync"
	"time"
)

// Action is a pending boundary action: some goroutine of a fake plugin (or of
// the fault store, or a client call) is parked until the scheduler releases it.
type Action struct {
	ID      int
	Label   string
	release chan struct{}
}

// Sched is the boundary scheduler (DESIGN §5). All externally visible
// completions register here; the test goroutine decides which one happens next.
type Sched struct {
	mu      sync.Mutex
	pending []*Action
	seq     int
	regs    uint64
	free    bool // free-running: gates do not block

	// Choices records every draw (index chosen, size of the pending set).
	Choices [][2]int
	// Released counts released actions by label class.
	Steps int
}

func NewSched() *Sched { return &Sched{} }

// SetFree switches the scheduler to free-running mode and releases everything
// pending. Used once a case is over so that leftover goroutines can drain.
func (s *Sched) SetFree() {
	s.mu.Lock()
	s.free = true
	p := s.pending
	s.pending = nil
	s.mu.Unlock()
	for _, a := range p {
		close(a.release)
	}
}

// Gate parks the caller until the scheduler releases it. It returns ctx.Err()
// if ctx ends first (the action then disappears from the pending set).
func (s *Sched) Gate(ctx context.Context, label string) error {
	s.mu.Lock()
	if s.free {
		s.mu.Unlock()
		return ctx.Err()
	}
	s.seq++
	a := &Action{ID: s.seq, Label: label, release: make(chan struct{})}
	s.pending = append(s.pending, a)
	s.regs++
	s.mu.Unlock()

	select {
	case <-a.release:
		return nil
	case <-ctx.Done():
		s.mu.Lock()
		for i, p := range s.pending {
			if p == a {
				s.pending = append(s.pending[:i], s.pending[i+1:]...)
				break
			}
		}
		s.mu.Unlock()
		// It may have been released concurrently; either way the caller
		// observes cancellation.
		return ctx.Err()
	}
}

func (s *Sched) state() (n int, regs uint64) {
	s.mu.Lock()
	defer s.mu.Unlock()
	return len(s.pending), s.regs
}

// PendingLabels returns the sorted labels of the pending actions.
func (s *Sched) PendingLabels() []string {
	s.mu.Lock()
	defer s.mu.Unlock()
	out := make([]string, len(s.pending))
	for i, a := range s.pending {
		out[i] = a.Label
	}
	sort.Strings(out)
	return out
}

// WaitSettled waits until the pending set is non-empty and neither it nor the
// event log changed for `settle`. It returns false if nothing became pending
// for `idle` (the world is quiet) — activity in the log re-arms the idle timer.
func (s *Sched) WaitSettled(log *Log, settle, idle time.Duration) bool {
	const tick = 50 * time.Microsecond
	lastN, lastRegs := s.state()
	lastAct := log.Activity()
	stableSince := time.Now()
	idleSince := time.Now()
	for {
		time.Sleep(tick)
		n, regs := s.state()
		act := log.Activity()
		now := time.Now()
		if n != lastN || regs != lastRegs || act != lastAct {
			lastN, lastRegs, lastAct = n, regs, act
			stableSince = now
			if n > 0 || act != lastAct {
				idleSince = now
			}
			idleSince = now
			continue
		}
		if n > 0 && now.Sub(stableSince) >= settle {
			return true
		}
		if n == 0 && now.Sub(idleSince) >= idle {
			return false
		}
	}
}

// Release releases the k-th pending action in label order (ties by arrival).
// It returns the label released, or "" if nothing is pending.
func (s *Sched) Release(pick func(n int) int) string {
	s.mu.Lock()
	if len(s.pending) == 0 {
		s.mu.Unlock()
		return ""
	}
	sort.SliceStable(s.pending, func(i, j int) bool {
		if s.pending[i].Label != s.pending[j].Label {
			return s.pending[i].Label < s.pending[j].Label
		}
		return s.pending[i].ID < s.pending[j].ID
	})
	n := len(s.pending)
	k := pick(n)
	if k < 0 || k >= n {
		k = ((k % n) + n) % n
	}
	a := s.pending[k]
	s.pending = append(s.pending[:k], s.pending[k+1:]...)
	s.Choices = append(s.Choices, [2]int{k, n})
	s.Steps++
	s.mu.Unlock()
	close(a.release)
	return a.Label
}
