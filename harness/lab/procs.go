package lab

import (
	"context"
	"fmt"
	"strconv"
	"sync"

	"github.com/conduitio/conduit-commons/config"
	"github.com/conduitio/conduit-commons/opencdc"
	sdk "github.com/conduitio/conduit-processor-sdk"
	"github.com/conduitio/conduit/pkg/plugin/processor/egress"
)

const PluginProc = "builtin:lab-proc"

// ProcRegistry implements processor.PluginService with scripted fake processors.
type ProcRegistry struct {
	w  *World
	mu sync.Mutex
	// consumed remembers which ShortAt keys already cut an output (per processor id).
	consumed map[string]map[string]bool
	inst     map[string]int
	// FailNew makes NewProcessor fail for these processor ids (C14/C15 plugin-service failures).
	FailNew map[string]bool
}

func (r *ProcRegistry) NewProcessor(_ context.Context, pluginName string, id string, _ egress.Policy) (sdk.Processor, error) {
	if pluginName != PluginProc {
		return nil, fmt.Errorf("lab: unknown processor plugin %q", pluginName)
	}
	r.mu.Lock()
	defer r.mu.Unlock()
	if r.FailNew[id] {
		return nil, fmt.Errorf("%s: processor plugin for %s unavailable", Marker, id)
	}
	if r.inst == nil {
		r.inst = map[string]int{}
		r.consumed = map[string]map[string]bool{}
	}
	r.inst[id]++
	spec := r.w.Case.Proc(id)
	if spec == nil {
		// Unknown to the script (e.g. created by an API history): behaves as pass-through.
		spec = &ProcSpec{ID: id}
	}
	if r.consumed[id] == nil {
		r.consumed[id] = map[string]bool{}
	}
	return &fakeProc{w: r.w, reg: r, spec: spec, inst: r.inst[id]}, nil
}

type fakeProc struct {
	sdk.UnimplementedProcessor
	w    *World
	reg  *ProcRegistry
	spec *ProcSpec
	inst int
	gen  string
	mu   sync.Mutex
	open int
}

func (p *fakeProc) Specification() (sdk.Specification, error) {
	return sdk.Specification{Name: "lab-proc", Version: "v0"}, nil
}

func (p *fakeProc) Configure(_ context.Context, cfg config.Config) error {
	p.mu.Lock()
	p.gen = cfg["gen"]
	p.mu.Unlock()
	return nil
}

func (p *fakeProc) Open(ctx context.Context) error {
	if h := p.w.Hooks.OnPluginCall; h != nil {
		h(ctx, "proc.open", p.spec.ID)
	}
	p.mu.Lock()
	gen := p.gen
	p.mu.Unlock()
	if h := p.w.Hooks.OnProcOpen; h != nil {
		h(p.spec.ID, gen)
	}
	if p.spec.OpenFailGen != 0 && strconv.Itoa(p.spec.OpenFailGen) == gen {
		p.w.Log.Add(Event{Kind: EvProcOpen, Comp: p.spec.ID, Inst: p.inst, Src: -1, Seq: -1, Gen: gen, Info: "open-fails"})
		return fmt.Errorf("%s: processor %s cannot open gen %s", Marker, p.spec.ID, gen)
	}
	p.mu.Lock()
	p.open++
	p.mu.Unlock()
	p.w.Log.Add(Event{Kind: EvProcOpen, Comp: p.spec.ID, Inst: p.inst, Src: -1, Seq: -1, Gen: gen})
	return nil
}

func (p *fakeProc) Teardown(ctx context.Context) error {
	if h := p.w.Hooks.OnPluginCall; h != nil {
		h(ctx, "proc.teardown", p.spec.ID)
	}
	p.mu.Lock()
	gen := p.gen
	p.mu.Unlock()
	p.w.Log.Add(Event{Kind: EvProcTear, Comp: p.spec.ID, Inst: p.inst, Src: -1, Seq: -1, Gen: gen})
	return nil
}

func stamp(r opencdc.Record, id, gen string) opencdc.Record {
	out := r.Clone()
	if out.Metadata == nil {
		out.Metadata = opencdc.Metadata{}
	}
	s := out.Metadata[MetaGen]
	if s != "" {
		s += ";"
	}
	out.Metadata[MetaGen] = s + id + "=" + gen
	return out
}

func (p *fakeProc) Process(_ context.Context, recs []opencdc.Record) []sdk.ProcessedRecord {
	p.mu.Lock()
	gen := p.gen
	p.mu.Unlock()
	out := make([]sdk.ProcessedRecord, 0, len(recs)+1)
	for i, r := range recs {
		src, seq, piece, _, ok := Origin(r, false)
		key := Key(src, seq, piece)
		kind := KPass
		if ok {
			if k, has := p.spec.PerRecord[key]; has {
				kind = k
			}
		}
		if i > 0 && p.spec.ShortAt[key] {
			p.reg.mu.Lock()
			done := p.reg.consumed[p.spec.ID][key]
			if !done {
				p.reg.consumed[p.spec.ID][key] = true
			}
			p.reg.mu.Unlock()
			if !done {
				p.w.Log.Add(Event{Kind: EvProcCall, Comp: p.spec.ID, Inst: p.inst, Src: src, Seq: seq, Piece: piece, Gen: gen, Info: KShort})
				return out
			}
		}
		p.w.Log.Add(Event{Kind: EvProcCall, Comp: p.spec.ID, Inst: p.inst, Src: src, Seq: seq, Piece: piece, Gen: gen, Info: kind})
		switch kind {
		case KPass:
			out = append(out, sdk.SingleRecord(stamp(r, p.spec.ID, gen)))
		case KModify:
			m := stamp(r, p.spec.ID, gen)
			m.Payload.After = opencdc.RawData("modified-by-" + p.spec.ID)
			out = append(out, sdk.SingleRecord(m))
		case KFilter:
			out = append(out, sdk.FilterRecord{})
		case KError:
			out = append(out, sdk.ErrorRecord{Error: fmt.Errorf("%s: processor %s rejects %s", Marker, p.spec.ID, key)})
		case KSplit2, KSplit3:
			k := 2
			if kind == KSplit3 {
				k = 3
			}
			m := make(sdk.MultiRecord, k)
			for j := 0; j < k; j++ {
				pc := stamp(r, p.spec.ID, gen)
				pc.Metadata[MetaPiece] = strconv.Itoa(j + 1)
				m[j] = pc
			}
			out = append(out, m)
		case KMulti0:
			out = append(out, sdk.MultiRecord{})
		case KMulti1:
			out = append(out, sdk.MultiRecord{stamp(r, p.spec.ID, gen)})
		case KChangePos:
			m := stamp(r, p.spec.ID, gen)
			m.Position = opencdc.Position("changed-" + string(r.Position))
			out = append(out, sdk.SingleRecord(m))
		case KNil:
			out = append(out, nil)
		case KSurplus:
			out = append(out, sdk.SingleRecord(stamp(r, p.spec.ID, gen)), sdk.SingleRecord(stamp(r, p.spec.ID, gen)))
		default:
			out = append(out, sdk.SingleRecord(stamp(r, p.spec.ID, gen)))
		}
	}
	return out
}

// CondTemplate renders the condition of a processor spec ("" if none).
func CondTemplate(mod, rem int) string {
	if mod <= 1 {
		return ""
	}
	return fmt.Sprintf(`{{ eq (mod (atoi (index .Metadata "%s")) %d) %d }}`, MetaMod, mod, rem)
}
