//go:build !verif

package lab

// HooksEnabled reports whether the harness was built with /repo's yield points.
const HooksEnabled = false

func registerYield(any, func(string)) {}
func unregisterYield(any)             {}
