package lab

// The fate model (DESIGN §5): a pure function of the script. Because every
// script is keyed by record identity (R2), the fate of a record does not depend
// on the schedule.

// DestFate is what the model expects for one record at one destination.
type DestFate struct {
	Reaches  bool      // the record (or its pieces) reaches the destination's write stage
	Filtered bool      // filtered by a destination-level processor
	ProcErr  string    // destination-level processor that errors on it ("" none)
	Pieces   []int     // piece indices written, in order (0 = unsplit)
	Outcomes []Outcome // scripted outcome per piece
}

// Fate is what the model expects for one source record.
type Fate struct {
	Src, Seq    int
	FilteredAll bool   // filtered before the fan-out: no destination sees it
	PreNack     string // processor before the fan-out that errors on it ("" none)
	Dests       []DestFate
	// Hostile is set when the script contains a shape whose handling is
	// engine-specific (changed position, nil result, split in v1 ...): the
	// accounting oracles then only apply the clauses that hold regardless.
	Hostile string
	// Stamps[d] is the expected generation-stamp string of the record at destination d
	// for the generations configured at provisioning time (C13 recomputes its own).
	Stamps []string
}

// Rejected reports whether some component rejects the record (nack or processor error).
func (f *Fate) Rejected() bool {
	if f.PreNack != "" {
		return true
	}
	for _, d := range f.Dests {
		if d.ProcErr != "" {
			return true
		}
		for _, o := range d.Outcomes {
			if o == OutNack {
				return true
			}
		}
	}
	return false
}

// HasStreamFault reports whether a destination fails its stream at this record.
func (f *Fate) HasStreamFault() bool {
	for _, d := range f.Dests {
		for _, o := range d.Outcomes {
			if o == OutErr || o == OutHold || o == OutWrongPos || o == OutExtra {
				return true
			}
		}
	}
	return false
}

// Model holds the fates of all records of a case.
type Model struct {
	Case  *Case
	Fates map[[2]int]*Fate
}

func condApplies(p *ProcSpec, seq int) bool {
	if p.CondMod <= 1 {
		return true
	}
	return seq%p.CondMod == p.CondRem
}

// walk runs pieces through a processor chain. It returns the surviving pieces,
// the id of an erroring processor (if any) and a hostile-shape description.
func walk(c *Case, chain []string, src, seq int, pieces []int) (out []int, errProc string, hostile string) {
	out = pieces
	for _, id := range chain {
		p := c.Proc(id)
		if p == nil || !condApplies(p, seq) {
			continue
		}
		var next []int
		for _, pc := range out {
			kind := p.PerRecord[Key(src, seq, pc)]
			switch kind {
			case "", KPass, KModify, KMulti1:
				next = append(next, pc)
			case KFilter, KMulti0:
				// dropped
			case KError:
				return nil, id, hostile
			case KSplit2:
				if pc != 0 {
					hostile = "nested-split"
				}
				next = append(next, 1, 2)
			case KSplit3:
				if pc != 0 {
					hostile = "nested-split"
				}
				next = append(next, 1, 2, 3)
			default:
				hostile = kind
				next = append(next, pc)
			}
			if c.Engine == "v1" && (kind == KSplit2 || kind == KSplit3 || kind == KMulti0 || kind == KMulti1) {
				hostile = "v1-multirecord"
			}
		}
		if p.ShortAt[Key(src, seq, 0)] {
			if c.Engine == "v1" {
				hostile = "v1-short"
			}
		}
		out = next
		if len(out) == 0 {
			return nil, "", hostile
		}
	}
	return out, "", hostile
}

// BuildModel computes the fate of every record of the case.
func BuildModel(c *Case) *Model {
	m := &Model{Case: c, Fates: map[[2]int]*Fate{}}
	pipeProcs := c.PipelineProcs()
	for si, s := range c.Sources {
		for seq := 0; seq < s.N; seq++ {
			f := &Fate{Src: si, Seq: seq}
			m.Fates[[2]int{si, seq}] = f
			if s.EmptyPosAt == seq || (s.DupPosAt == seq && seq > 0) {
				f.Hostile = "hostile-position"
			}
			chain := append(append([]string(nil), s.Procs...), pipeProcs...)
			pieces, errProc, hostile := walk(c, chain, si, seq, []int{0})
			if hostile != "" {
				f.Hostile = hostile
			}
			if errProc != "" {
				f.PreNack = errProc
				continue
			}
			if len(pieces) == 0 {
				f.FilteredAll = true
				continue
			}
			for _, d := range c.Dests {
				df := DestFate{}
				dp, dErr, dHost := walk(c, d.Procs, si, seq, pieces)
				if dHost != "" {
					f.Hostile = dHost
				}
				switch {
				case dErr != "":
					df.ProcErr = dErr
				case len(dp) == 0:
					df.Filtered = true
				default:
					df.Reaches = true
					df.Pieces = dp
					for _, pc := range dp {
						o := d.PerPiece[Key(si, seq, pc)]
						if o == "" {
							o = OutAck
						}
						df.Outcomes = append(df.Outcomes, o)
					}
				}
				f.Dests = append(f.Dests, df)
			}
		}
	}
	return m
}

func (m *Model) Fate(src, seq int) *Fate { return m.Fates[[2]int{src, seq}] }
