// Package lab is the Engine Lab: a world made of Conduit's real services and
// engines in which every externally visible nondeterminism (plugin replies,
// store commits, control calls) is owned by the harness and logged.
package lab

import (
	"fmt"
	"strings"
	"sync"
	"time"
)

// Event kinds. Rule R1 (DESIGN §3): an event that PERMITS something is appended
// before the engine can observe it, an event that REQUIRES a permission is
// appended after it was observed.
const (
	EvSrcNew      = "src.new"      // a source plugin instance was dispensed (before any call on it)
	EvSrcOpen     = "src.open"     // Pos = position the plugin was opened with
	EvSrcEmit     = "src.emit"     // one per record, appended before the batch is handed to the engine
	EvSrcAck      = "src.ack"      // one per position, appended after the plugin received it
	EvSrcStop     = "src.stop"     // plugin Stop call, Pos = returned last position
	EvSrcTeardown = "src.teardown" // plugin Teardown call
	EvSrcGap      = "src.gap"      // pruning upstream opened below what it was told to discard
	EvDstOpen     = "dst.open"
	EvDstWrite    = "dst.write"   // one per record, appended when the plugin received it
	EvDstAck      = "dst.ack"     // one per record, appended BEFORE the response is sent; OK=false ⇒ nack
	EvDstErr      = "dst.err"     // plugin failed its stream with an error
	EvDstStop     = "dst.stop"    // plugin Stop call
	EvDstTeardown = "dst.teardown"
	EvProcOpen    = "proc.open"
	EvProcCall    = "proc.process" // one per input record
	EvProcTear    = "proc.teardown"
	EvDBSet       = "db.set"    // direct (non-transactional) set applied; Snap = snapshot number
	EvDBCommit    = "db.commit" // OK=true: commit applied, Snap = snapshot number (appended BEFORE Commit returns)
	EvStatus      = "status"    // pipeline status write through the lifecycle's PipelineService (appended after the write)
	EvStatusBegin = "status.begin" // appended BEFORE the write: from here on the new status may be visible
	EvCtlCall     = "ctl.call"
	EvCtlRet      = "ctl.ret"
	EvNote        = "note"
)

// Event is one entry of the global, totally ordered history of a case.
type Event struct {
	I     int    `json:"i"`
	Kind  string `json:"k"`
	Comp  string `json:"c,omitempty"`   // connector / processor / pipeline id
	Inst  int    `json:"n,omitempty"`   // plugin instance number (per component, 1-based)
	Src   int    `json:"s"`             // origin source index (-1 if n/a)
	Seq   int    `json:"q"`             // origin sequence number (-1 if n/a)
	Piece int    `json:"p,omitempty"`   // piece index for split records
	Pos   string `json:"pos,omitempty"` // position bytes as string
	OK    bool   `json:"ok,omitempty"`
	Info  string `json:"info,omitempty"`
	Snap  int    `json:"snap,omitempty"`
	Gen   string `json:"gen,omitempty"` // processor generation stamps seen on a written record
	T     int64  `json:"t,omitempty"`   // nanoseconds since the log was created (only used for lower bounds, R3)
}

func (e Event) String() string {
	var b strings.Builder
	fmt.Fprintf(&b, "#%d %s", e.I, e.Kind)
	if e.Comp != "" {
		fmt.Fprintf(&b, " %s", e.Comp)
		if e.Inst != 0 {
			fmt.Fprintf(&b, "/%d", e.Inst)
		}
	}
	if e.Src >= 0 && e.Seq >= 0 {
		fmt.Fprintf(&b, " s%d:%d", e.Src, e.Seq)
		if e.Piece != 0 {
			fmt.Fprintf(&b, ".%d", e.Piece)
		}
	} else if e.Pos != "" {
		fmt.Fprintf(&b, " pos=%q", e.Pos)
	}
	switch e.Kind {
	case EvDstAck, EvDBCommit, EvCtlRet:
		fmt.Fprintf(&b, " ok=%v", e.OK)
	}
	if e.Snap != 0 {
		fmt.Fprintf(&b, " snap=%d", e.Snap)
	}
	if e.Gen != "" {
		fmt.Fprintf(&b, " gen=%s", e.Gen)
	}
	if e.Info != "" {
		fmt.Fprintf(&b, " (%s)", e.Info)
	}
	return b.String()
}

// Log is the append-only global history.
type Log struct {
	mu     sync.Mutex
	start  time.Time
	events []Event
	// activity is bumped on every append; the scheduler uses it for its
	// quiescence detection.
	activity uint64
}

func NewLog() *Log { return &Log{start: time.Now()} }

// Add appends e and returns its index.
func (l *Log) Add(e Event) int {
	l.mu.Lock()
	defer l.mu.Unlock()
	e.I = len(l.events)
	e.T = int64(time.Since(l.start))
	l.events = append(l.events, e)
	l.activity++
	return e.I
}

// N appends an event without record identity.
func (l *Log) N(kind, comp string, inst int, info string) int {
	return l.Add(Event{Kind: kind, Comp: comp, Inst: inst, Src: -1, Seq: -1, Info: info})
}

func (l *Log) Len() int {
	l.mu.Lock()
	defer l.mu.Unlock()
	return len(l.events)
}

func (l *Log) Activity() uint64 {
	l.mu.Lock()
	defer l.mu.Unlock()
	return l.activity
}

// Snapshot returns a copy of the history so far.
func (l *Log) Snapshot() []Event {
	l.mu.Lock()
	defer l.mu.Unlock()
	out := make([]Event, len(l.events))
	copy(out, l.events)
	return out
}

// Format renders (a tail of) the history for replay files and failure messages.
func Format(events []Event, max int) string {
	var b strings.Builder
	start := 0
	if max > 0 && len(events) > max {
		start = len(events) - max
		fmt.Fprintf(&b, "... %d earlier events omitted ...\n", start)
	}
	for _, e := range events[start:] {
		b.WriteString(e.String())
		b.WriteByte('\n')
	}
	return b.String()
}
