package lab

import (
	"context"
	"errors"
	"sort"
	"strings"
	"sync"

	"github.com/conduitio/conduit-commons/database"
)

// ErrInjected is the error returned by every injected store fault.
var ErrInjected = errors.New("lab: injected store fault")

// FaultKind selects which store operation a fault hits.
type FaultKind string

const (
	FaultSet    FaultKind = "set"
	FaultCommit FaultKind = "commit"
	FaultNewTxn FaultKind = "newtxn"
)

// Fault fails the Index-th (0-based, counted from the moment it was armed)
// operation of the given kind. KeyPrefix, if set, restricts FaultSet to keys
// with that prefix (the count then runs over matching keys only).
type Fault struct {
	Kind      FaultKind `json:"kind"`
	Index     int       `json:"index"`
	KeyPrefix string    `json:"key_prefix,omitempty"`
	seen      int
	fired     bool
}

// DBOp is one entry of the store's own operation trace (finer than the event log).
type DBOp struct {
	Op    string // set, txset, newtxn, commit, discard
	Key   string
	Txn   int
	Fail  bool
	Snap  int
	Value []byte
}

// FaultDB is an in-memory database.DB with atomic transactions, scripted
// faults, a snapshot after every state change and optional commit gating.
type FaultDB struct {
	mu      sync.Mutex
	values  map[string][]byte
	snaps   []map[string][]byte // snaps[0] is the initial state
	faults  []*Fault
	ops     []DBOp
	txnSeq  int
	log     *Log
	Fired   int // number of injected faults that fired
	closed  bool
	// CommitGate, if non-nil, is called (without the lock held) before a
	// commit is applied; it may block (boundary scheduler).
	CommitGate func(txn int)
	// NewTxnGate, if non-nil, is called (without the lock held) before a
	// transaction is created; it may block (a store that is slow to respond).
	NewTxnGate func()
	// TraceOps enables the fine-grained op trace (C14/C15).
	TraceOps bool
}

var _ database.DB = (*FaultDB)(nil)

func NewFaultDB(log *Log) *FaultDB {
	d := &FaultDB{values: map[string][]byte{}, log: log}
	d.snaps = append(d.snaps, map[string][]byte{})
	return d
}

// NewFaultDBFrom creates a store holding a copy of snap (a "restart").
func NewFaultDBFrom(log *Log, snap map[string][]byte) *FaultDB {
	d := &FaultDB{values: map[string][]byte{}, log: log}
	for k, v := range snap {
		d.values[k] = v
	}
	d.snaps = append(d.snaps, cloneMap(d.values))
	return d
}

func cloneMap(m map[string][]byte) map[string][]byte {
	out := make(map[string][]byte, len(m))
	for k, v := range m {
		out[k] = v
	}
	return out
}

// Arm adds a fault; its index counts from now.
func (d *FaultDB) Arm(f Fault) {
	d.mu.Lock()
	defer d.mu.Unlock()
	ff := f
	d.faults = append(d.faults, &ff)
}

// Disarm removes all faults that did not fire yet.
func (d *FaultDB) Disarm() {
	d.mu.Lock()
	defer d.mu.Unlock()
	d.faults = nil
}

// hit reports whether an armed fault fires for this operation. Lock held.
func (d *FaultDB) hit(kind FaultKind, key string) bool {
	fire := false
	for _, f := range d.faults {
		if f.fired || f.Kind != kind {
			continue
		}
		if kind == FaultSet && f.KeyPrefix != "" && !strings.HasPrefix(key, f.KeyPrefix) {
			continue
		}
		if f.seen == f.Index {
			f.fired = true
			fire = true
			d.Fired++
		}
		f.seen++
	}
	return fire
}

func (d *FaultDB) snapshotLocked() int {
	d.snaps = append(d.snaps, cloneMap(d.values))
	return len(d.snaps) - 1
}

// SnapCount returns the number of snapshots (last index + 1).
func (d *FaultDB) SnapCount() int {
	d.mu.Lock()
	defer d.mu.Unlock()
	return len(d.snaps)
}

// Snap returns snapshot i (read-only).
func (d *FaultDB) Snap(i int) map[string][]byte {
	d.mu.Lock()
	defer d.mu.Unlock()
	return d.snaps[i]
}

// Current returns a copy of the live content.
func (d *FaultDB) Current() map[string][]byte {
	d.mu.Lock()
	defer d.mu.Unlock()
	return cloneMap(d.values)
}

// Ops returns the op trace.
func (d *FaultDB) Ops() []DBOp {
	d.mu.Lock()
	defer d.mu.Unlock()
	return append([]DBOp(nil), d.ops...)
}

func (d *FaultDB) ResetOps() {
	d.mu.Lock()
	defer d.mu.Unlock()
	d.ops = nil
}

func (d *FaultDB) Ping(context.Context) error { return nil }
func (d *FaultDB) Close() error               { return nil }

type faultTxn struct {
	db      *FaultDB
	id      int
	changes map[string][]byte
	order   []string
	done    bool
}

func (d *FaultDB) NewTransaction(ctx context.Context, _ bool) (database.Transaction, context.Context, error) {
	if gate := d.NewTxnGate; gate != nil {
		gate()
	}
	d.mu.Lock()
	defer d.mu.Unlock()
	d.txnSeq++
	id := d.txnSeq
	if d.hit(FaultNewTxn, "") {
		if d.TraceOps {
			d.ops = append(d.ops, DBOp{Op: "newtxn", Txn: id, Fail: true})
		}
		return nil, ctx, ErrInjected
	}
	if d.TraceOps {
		d.ops = append(d.ops, DBOp{Op: "newtxn", Txn: id})
	}
	t := &faultTxn{db: d, id: id, changes: map[string][]byte{}}
	return t, database.ContextWithTransaction(ctx, t), nil
}

func (d *FaultDB) txnOf(ctx context.Context) *faultTxn {
	t, _ := database.TransactionFromContext(ctx).(*faultTxn)
	if t != nil && t.db != d {
		return nil
	}
	return t
}

func (d *FaultDB) Set(ctx context.Context, key string, value []byte) error {
	t := d.txnOf(ctx)
	d.mu.Lock()
	if d.hit(FaultSet, key) {
		if d.TraceOps {
			d.ops = append(d.ops, DBOp{Op: "set", Key: key, Fail: true})
		}
		d.mu.Unlock()
		if d.log != nil {
			d.log.Add(Event{Kind: EvDBSet, Comp: key, Src: -1, Seq: -1, OK: false, Info: "injected"})
		}
		return ErrInjected
	}
	if t != nil {
		// A write through a finished transaction goes nowhere (same as the
		// repository's inmemory.Txn; badger returns an error instead).
		if _, ok := t.changes[key]; !ok {
			t.order = append(t.order, key)
		}
		t.changes[key] = value
		if d.TraceOps {
			d.ops = append(d.ops, DBOp{Op: "txset", Key: key, Txn: t.id, Value: value})
		}
		d.mu.Unlock()
		return nil
	}
	if value != nil {
		d.values[key] = value
	} else {
		delete(d.values, key)
	}
	snap := d.snapshotLocked()
	if d.TraceOps {
		d.ops = append(d.ops, DBOp{Op: "set", Key: key, Snap: snap, Value: value})
	}
	// Logged under the lock so that log order == application order.
	if d.log != nil {
		d.log.Add(Event{Kind: EvDBSet, Comp: key, Src: -1, Seq: -1, OK: true, Snap: snap})
	}
	d.mu.Unlock()
	return nil
}

func (d *FaultDB) Get(ctx context.Context, key string) ([]byte, error) {
	t := d.txnOf(ctx)
	d.mu.Lock()
	defer d.mu.Unlock()
	if t != nil {
		if v, ok := t.changes[key]; ok {
			if v == nil {
				return nil, database.ErrKeyNotExist
			}
			return v, nil
		}
	}
	v, ok := d.values[key]
	if !ok {
		return nil, database.ErrKeyNotExist
	}
	return v, nil
}

func (d *FaultDB) GetKeys(ctx context.Context, prefix string) ([]string, error) {
	t := d.txnOf(ctx)
	d.mu.Lock()
	defer d.mu.Unlock()
	set := map[string]bool{}
	for k := range d.values {
		if strings.HasPrefix(k, prefix) {
			set[k] = true
		}
	}
	if t != nil {
		for k, v := range t.changes {
			if !strings.HasPrefix(k, prefix) {
				continue
			}
			if v == nil {
				delete(set, k)
			} else {
				set[k] = true
			}
		}
	}
	out := make([]string, 0, len(set))
	for k := range set {
		out = append(out, k)
	}
	sort.Strings(out)
	return out, nil
}

func (t *faultTxn) Commit() error {
	d := t.db
	if gate := d.CommitGate; gate != nil {
		gate(t.id)
	}
	d.mu.Lock()
	defer d.mu.Unlock()
	if t.done {
		return nil
	}
	t.done = true
	if d.hit(FaultCommit, "") {
		if d.TraceOps {
			d.ops = append(d.ops, DBOp{Op: "commit", Txn: t.id, Fail: true})
		}
		if d.log != nil {
			d.log.Add(Event{Kind: EvDBCommit, Src: -1, Seq: -1, OK: false, Info: "injected"})
		}
		return ErrInjected
	}
	for _, k := range t.order {
		v := t.changes[k]
		if v != nil {
			d.values[k] = v
		} else {
			delete(d.values, k)
		}
	}
	snap := d.snapshotLocked()
	if d.TraceOps {
		d.ops = append(d.ops, DBOp{Op: "commit", Txn: t.id, Snap: snap})
	}
	if d.log != nil {
		d.log.Add(Event{Kind: EvDBCommit, Src: -1, Seq: -1, OK: true, Snap: snap, Info: strings.Join(t.order, ",")})
	}
	return nil
}

func (t *faultTxn) Discard() {
	d := t.db
	d.mu.Lock()
	defer d.mu.Unlock()
	if !t.done && d.TraceOps {
		d.ops = append(d.ops, DBOp{Op: "discard", Txn: t.id})
	}
	t.done = true
}
