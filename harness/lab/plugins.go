package lab

import (
	"context"
	"errors"
	"fmt"
	"strconv"
	"strings"
	"sync"
	"time"

	"github.com/conduitio/conduit-commons/opencdc"
	"github.com/conduitio/conduit-connector-protocol/pconnector"
	"github.com/conduitio/conduit/pkg/foundation/log"
	"github.com/conduitio/conduit/pkg/plugin"
	connectorPlugin "github.com/conduitio/conduit/pkg/plugin/connector"
	"github.com/conduitio/conduit/pkg/plugin/connector/builtin"
)

// Metadata keys carried by every lab record.
const (
	MetaOrigin = "lab.o" // "<src>:<seq>"
	MetaPiece  = "lab.p" // piece index of a split record
	MetaGen    = "lab.g" // "<proc>=<gen>;..." stamps in processing order
	MetaMod    = "lab.m" // seq modulo helpers for conditions: "<seq>"
)

const (
	PluginSrc = "builtin:lab-src"
	PluginDst = "builtin:lab-dst"
	PluginDLQ = "builtin:lab-dlq"
)

// ErrInjectedPlugin marks errors injected by fake plugins; Marker is included in messages.
const Marker = "LABFAULT"

// connState is the state of one fake connector shared by all of its plugin
// instances (what the "external system" remembers).
type connState struct {
	mu        sync.Mutex
	instances int
	open      int // currently open plugin instances
	maxOpen   int
	// source: highest acked seq (what a pruning upstream discarded), -1 none
	maxAcked int
	// host-side Send attempts of ack messages (flakyClient)
	sendAttempts int
}

// Plugins implements the lifecycle services' ConnectorPluginService with fakes
// dispensed through the real builtin.Dispenser (adapter + in-memory stream + sandbox).
type Plugins struct {
	w *World
}

func (p *Plugins) NewDispenser(logger log.CtxLogger, name string, connectorID string) (connectorPlugin.Dispenser, error) {
	w := p.w
	switch name {
	case PluginSrc:
		spec, idx := w.sourceSpec(connectorID)
		if spec == nil {
			return nil, fmt.Errorf("lab: unknown source %q", connectorID)
		}
		d := builtin.NewDispenser(plugin.FullName(name), logger, nil,
			func() pconnector.SourcePlugin { return newSrcPlugin(w, spec, idx) }, nil)
		if len(spec.AckSendFail) > 0 || spec.AckSendBreakAtP1 > 0 {
			return &flakyDispenser{Dispenser: d, w: w, spec: spec}, nil
		}
		return d, nil
	case PluginDst:
		spec, idx := w.destSpec(connectorID)
		if spec == nil {
			return nil, fmt.Errorf("lab: unknown destination %q", connectorID)
		}
		return builtin.NewDispenser(plugin.FullName(name), logger, nil, nil,
			func() pconnector.DestinationPlugin { return newDstPlugin(w, connectorID, idx, false, spec) }), nil
	case PluginDLQ:
		return builtin.NewDispenser(plugin.FullName(name), logger, nil, nil,
			func() pconnector.DestinationPlugin { return newDstPlugin(w, connectorID, -1, true, nil) }), nil
	}
	return nil, fmt.Errorf("lab: unknown plugin %q", name)
}

// ---------------------------------------------------------------- transient stream-send failures

// flakyDispenser wraps the real built-in dispenser: the host side of the source stream it hands out
// fails scripted Send calls (ack messages) WITHOUT delivering them, which is what a transient
// failure of the plugin transport looks like to connector.Source.
type flakyDispenser struct {
	connectorPlugin.Dispenser
	w    *World
	spec *SourceSpec
}

func (d *flakyDispenser) DispenseSource() (connectorPlugin.SourcePlugin, error) {
	sp, err := d.Dispenser.DispenseSource()
	if err != nil {
		return nil, err
	}
	st := d.w.conn(d.spec.ID)
	st.mu.Lock()
	inst := st.instances + 1 // the instance the adapter is about to create lazily or has created
	st.mu.Unlock()
	return &flakySrc{SourcePlugin: sp, d: d, instHint: inst}, nil
}

type flakySrc struct {
	connectorPlugin.SourcePlugin
	d        *flakyDispenser
	instHint int
}

func (f *flakySrc) NewStream() pconnector.SourceRunStream {
	return &flakyStream{inner: f.SourcePlugin.NewStream(), f: f}
}

func (f *flakySrc) Run(ctx context.Context, stream pconnector.SourceRunStream) error {
	fs, ok := stream.(*flakyStream)
	if !ok {
		return f.SourcePlugin.Run(ctx, stream)
	}
	return f.SourcePlugin.Run(ctx, fs.inner)
}

type flakyStream struct {
	inner pconnector.SourceRunStream
	f     *flakySrc
}

func (s *flakyStream) Server() pconnector.SourceRunStreamServer { return s.inner.Server() }
func (s *flakyStream) Client() pconnector.SourceRunStreamClient {
	return &flakyClient{SourceRunStreamClient: s.inner.Client(), f: s.f}
}

type flakyClient struct {
	pconnector.SourceRunStreamClient
	f *flakySrc
}

func (c *flakyClient) Send(req pconnector.SourceRunRequest) error {
	d := c.f.d
	st := d.w.conn(d.spec.ID)
	st.mu.Lock()
	k := st.sendAttempts
	st.sendAttempts++
	inst := st.instances
	st.mu.Unlock()
	fail := false
	for _, i := range d.spec.AckSendFail {
		if i == k {
			fail = true
		}
	}
	if d.spec.AckSendBreakAtP1 > 0 && k >= d.spec.AckSendBreakAtP1-1 && inst <= 1 {
		fail = true
	}
	if fail {
		first := ""
		if len(req.AckPositions) > 0 {
			first = string(req.AckPositions[0])
		}
		d.w.Log.Add(Event{Kind: EvNote, Comp: d.spec.ID, Inst: inst, Src: -1, Seq: -1, Pos: first,
			Info: fmt.Sprintf("ack-send-failed attempt=%d n=%d", k, len(req.AckPositions))})
		return fmt.Errorf("%s: source %s stream send failure (attempt %d)", Marker, d.spec.ID, k)
	}
	return c.SourceRunStreamClient.Send(req)
}

// ---------------------------------------------------------------- source

type srcPlugin struct {
	pconnector.SourcePlugin // nil: only exercised methods have bodies
	w                       *World
	spec                    *SourceSpec
	idx                     int
	st                      *connState
	inst                    int

	start int // first seq to emit

	emitMu   sync.Mutex // held while a batch is being handed to the engine
	stopped  bool
	stopCh   chan struct{}
	lastSent int // last seq handed to the engine by this instance, -1 none
	opened   bool
	// ackDone is closed when the ack receiver goroutine has logged everything it received.
	ackDone chan struct{}
}

func newSrcPlugin(w *World, spec *SourceSpec, idx int) *srcPlugin {
	st := w.conn(spec.ID)
	st.mu.Lock()
	st.instances++
	inst := st.instances
	st.mu.Unlock()
	// the instance exists from here on (dispensed for a run that is being built); its Open may be
	// logged much later, even after its Teardown when a force stop hits the start-up
	w.Log.Add(Event{Kind: EvSrcNew, Comp: spec.ID, Inst: inst, Src: -1, Seq: -1})
	return &srcPlugin{w: w, spec: spec, idx: idx, st: st, inst: inst, stopCh: make(chan struct{}), lastSent: -1}
}

func (p *srcPlugin) Configure(context.Context, pconnector.SourceConfigureRequest) (pconnector.SourceConfigureResponse, error) {
	return pconnector.SourceConfigureResponse{}, nil
}

func (p *srcPlugin) LifecycleOnCreated(context.Context, pconnector.SourceLifecycleOnCreatedRequest) (pconnector.SourceLifecycleOnCreatedResponse, error) {
	return pconnector.SourceLifecycleOnCreatedResponse{}, nil
}

func (p *srcPlugin) LifecycleOnUpdated(context.Context, pconnector.SourceLifecycleOnUpdatedRequest) (pconnector.SourceLifecycleOnUpdatedResponse, error) {
	return pconnector.SourceLifecycleOnUpdatedResponse{}, nil
}

func (p *srcPlugin) LifecycleOnDeleted(context.Context, pconnector.SourceLifecycleOnDeletedRequest) (pconnector.SourceLifecycleOnDeletedResponse, error) {
	return pconnector.SourceLifecycleOnDeletedResponse{}, nil
}

func (p *srcPlugin) Open(ctx context.Context, req pconnector.SourceOpenRequest) (pconnector.SourceOpenResponse, error) {
	w := p.w
	if h := w.Hooks.OnPluginCall; h != nil {
		h(ctx, "src.open", p.spec.ID)
	}
	pos := string(req.Position)
	if p.spec.OpenFailInst != 0 && p.spec.OpenFailInst == p.inst {
		w.Log.Add(Event{Kind: EvSrcOpen, Comp: p.spec.ID, Inst: p.inst, Src: p.idx, Seq: -1, Pos: pos, Info: "open-fails"})
		return pconnector.SourceOpenResponse{}, fmt.Errorf("%s: source %s open failure", Marker, p.spec.ID)
	}
	p.start = 0
	seq := -1
	if pos != "" {
		s, q, ok := ParsePos(pos)
		if !ok || s != p.idx {
			w.Log.Add(Event{Kind: EvSrcOpen, Comp: p.spec.ID, Inst: p.inst, Src: p.idx, Seq: -1, Pos: pos, Info: "bad-position"})
			return pconnector.SourceOpenResponse{}, fmt.Errorf("lab: source %s opened with foreign position %q", p.spec.ID, pos)
		}
		seq = q
		p.start = q + 1
	}
	p.st.mu.Lock()
	p.st.open++
	if p.st.open > p.st.maxOpen {
		p.st.maxOpen = p.st.open
	}
	gap := p.spec.Pruning && seq < p.st.maxAcked
	maxAcked := p.st.maxAcked
	p.st.mu.Unlock()
	p.opened = true
	w.Log.Add(Event{Kind: EvSrcOpen, Comp: p.spec.ID, Inst: p.inst, Src: p.idx, Seq: seq, Pos: pos})
	if gap {
		w.Log.Add(Event{Kind: EvSrcGap, Comp: p.spec.ID, Inst: p.inst, Src: p.idx, Seq: seq,
			Info: fmt.Sprintf("opened at %d but upstream discarded through %d", seq, maxAcked)})
	}
	return pconnector.SourceOpenResponse{}, nil
}

func (p *srcPlugin) record(seq int) opencdc.Record {
	pos := PosOf(p.idx, seq)
	if p.spec.EmptyPosAt == seq {
		pos = ""
	}
	if p.spec.DupPosAt == seq && seq > 0 {
		pos = PosOf(p.idx, seq-1)
	}
	return opencdc.Record{
		Position:  opencdc.Position(pos),
		Operation: opencdc.OperationCreate,
		Metadata: opencdc.Metadata{
			MetaOrigin: fmt.Sprintf("%d:%d", p.idx, seq),
			MetaMod:    strconv.Itoa(seq),
		},
		Key:     opencdc.RawData(fmt.Sprintf("k-%d-%d", p.idx, seq)),
		Payload: opencdc.Change{After: opencdc.RawData(fmt.Sprintf("payload-%d-%d", p.idx, seq))},
	}
}

func (p *srcPlugin) Run(ctx context.Context, stream pconnector.SourceRunStream) error {
	w := p.w
	server := stream.Server()

	// ack receiver: runs until the stream ends.
	ackDone := make(chan struct{})
	p.emitMu.Lock()
	p.ackDone = ackDone
	p.emitMu.Unlock()
	go func() {
		defer close(ackDone)
		for {
			req, err := server.Recv()
			if err != nil {
				return
			}
			if w.Case.GateSrcAcks {
				// a plugin that is slow to take its acks: it holds this message (and does not
				// receive the next one) until the scheduler lets it go on
				_ = w.Sched.Gate(ctx, "ack-taken "+p.spec.ID)
			}
			for _, pos := range req.AckPositions {
				s, q, ok := ParsePos(string(pos))
				e := Event{Kind: EvSrcAck, Comp: p.spec.ID, Inst: p.inst, Src: -1, Seq: -1, Pos: string(pos)}
				if ok {
					e.Src, e.Seq = s, q
					p.st.mu.Lock()
					if q > p.st.maxAcked {
						p.st.maxAcked = q
					}
					p.st.mu.Unlock()
				}
				w.Log.Add(e)
			}
		}
	}()

	// gate context: ends when the stream ends or the plugin is asked to stop.
	gctx, cancel := context.WithCancel(ctx)
	defer cancel()
	go func() {
		select {
		case <-p.stopCh:
			cancel()
		case <-gctx.Done():
		}
	}()

	seq := p.start
	bi := 0
	for seq < p.spec.N {
		size := 1
		if len(p.spec.Batches) > 0 {
			size = p.spec.Batches[bi%len(p.spec.Batches)]
			bi++
		}
		if size < 1 {
			size = 1
		}
		if seq+size > p.spec.N {
			size = p.spec.N - seq
		}
		if err := w.Sched.Gate(gctx, fmt.Sprintf("emit %s", p.spec.ID)); err != nil {
			break
		}
		p.emitMu.Lock()
		if p.stopped || ctx.Err() != nil {
			p.emitMu.Unlock()
			break
		}
		recs := make([]opencdc.Record, size)
		for i := range recs {
			recs[i] = p.record(seq + i)
		}
		first := w.Log.Len()
		for i := range recs {
			w.Log.Add(Event{Kind: EvSrcEmit, Comp: p.spec.ID, Inst: p.inst, Src: p.idx, Seq: seq + i, Pos: string(recs[i].Position)})
		}
		err := server.Send(pconnector.SourceRunResponse{Records: recs})
		if err != nil {
			// The engine never received this batch.
			w.Log.Add(Event{Kind: EvNote, Comp: p.spec.ID, Inst: p.inst, Src: p.idx, Seq: seq, Info: fmt.Sprintf("emit-not-delivered from=%d n=%d", first, size)})
			p.emitMu.Unlock()
			break
		}
		p.lastSent = seq + size - 1
		p.emitMu.Unlock()
		seq += size

		if p.spec.ReadFaultAfter >= 0 && p.lastSent >= p.spec.ReadFaultAfter &&
			((p.spec.ReadFaultUpTo > 0 && p.inst <= p.spec.ReadFaultUpTo) ||
				(p.spec.ReadFaultUpTo == 0 && (p.spec.ReadFaultInst == 0 || p.spec.ReadFaultInst == p.inst))) {
			w.Log.Add(Event{Kind: EvNote, Comp: p.spec.ID, Inst: p.inst, Src: p.idx, Seq: p.lastSent, Info: "read-fault"})
			return fmt.Errorf("%s: source %s read failure after seq %d", Marker, p.spec.ID, p.lastSent)
		}
	}
	<-ctx.Done()
	return ctx.Err()
}

func (p *srcPlugin) Stop(ctx context.Context, _ pconnector.SourceStopRequest) (pconnector.SourceStopResponse, error) {
	if h := p.w.Hooks.OnPluginCall; h != nil {
		h(ctx, "src.stop", p.spec.ID)
	}
	p.emitMu.Lock()
	if !p.stopped {
		p.stopped = true
		close(p.stopCh)
	}
	last := p.lastSent
	p.emitMu.Unlock()
	var pos opencdc.Position
	if last >= 0 {
		pos = opencdc.Position(p.record(last).Position)
	}
	p.w.Log.Add(Event{Kind: EvSrcStop, Comp: p.spec.ID, Inst: p.inst, Src: p.idx, Seq: last, Pos: string(pos)})
	return pconnector.SourceStopResponse{LastPosition: pos}, nil
}

func (p *srcPlugin) Teardown(ctx context.Context, _ pconnector.SourceTeardownRequest) (pconnector.SourceTeardownResponse, error) {
	if h := p.w.Hooks.OnPluginCall; h != nil {
		h(ctx, "src.teardown", p.spec.ID)
	}
	p.emitMu.Lock()
	if !p.stopped {
		p.stopped = true
		close(p.stopCh)
	}
	ackDone := p.ackDone
	p.emitMu.Unlock()
	if ackDone != nil {
		// The engine tears the plugin down after it closed the stream. Every ack that was
		// delivered before must be in the log before the teardown event (the receiver logs an
		// ack after it received it), so wait for the receiver to finish.
		select {
		case <-ackDone:
		case <-time.After(2 * time.Second):
			p.w.Log.Add(Event{Kind: EvNote, Comp: p.spec.ID, Inst: p.inst, Src: p.idx, Seq: -1, Info: "teardown-before-stream-end"})
		}
	}
	if p.opened {
		p.st.mu.Lock()
		p.st.open--
		p.st.mu.Unlock()
		p.opened = false
	}
	p.w.Log.Add(Event{Kind: EvSrcTeardown, Comp: p.spec.ID, Inst: p.inst, Src: p.idx, Seq: -1})
	return pconnector.SourceTeardownResponse{}, nil
}

// ---------------------------------------------------------------- destination / DLQ

type dstPlugin struct {
	pconnector.DestinationPlugin
	w     *World
	id    string
	idx   int
	isDLQ bool
	spec  *DestSpec
	st    *connState
	inst  int
	open  bool
}

func newDstPlugin(w *World, id string, idx int, isDLQ bool, spec *DestSpec) *dstPlugin {
	st := w.conn(id)
	st.mu.Lock()
	st.instances++
	inst := st.instances
	st.mu.Unlock()
	return &dstPlugin{w: w, id: id, idx: idx, isDLQ: isDLQ, spec: spec, st: st, inst: inst}
}

func (p *dstPlugin) Configure(context.Context, pconnector.DestinationConfigureRequest) (pconnector.DestinationConfigureResponse, error) {
	return pconnector.DestinationConfigureResponse{}, nil
}

func (p *dstPlugin) LifecycleOnCreated(context.Context, pconnector.DestinationLifecycleOnCreatedRequest) (pconnector.DestinationLifecycleOnCreatedResponse, error) {
	return pconnector.DestinationLifecycleOnCreatedResponse{}, nil
}

func (p *dstPlugin) LifecycleOnUpdated(context.Context, pconnector.DestinationLifecycleOnUpdatedRequest) (pconnector.DestinationLifecycleOnUpdatedResponse, error) {
	return pconnector.DestinationLifecycleOnUpdatedResponse{}, nil
}

func (p *dstPlugin) LifecycleOnDeleted(context.Context, pconnector.DestinationLifecycleOnDeletedRequest) (pconnector.DestinationLifecycleOnDeletedResponse, error) {
	return pconnector.DestinationLifecycleOnDeletedResponse{}, nil
}

func (p *dstPlugin) Open(ctx context.Context, _ pconnector.DestinationOpenRequest) (pconnector.DestinationOpenResponse, error) {
	if h := p.w.Hooks.OnPluginCall; h != nil {
		h(ctx, "dst.open", p.id)
	}
	p.st.mu.Lock()
	p.st.open++
	if p.st.open > p.st.maxOpen {
		p.st.maxOpen = p.st.open
	}
	p.st.mu.Unlock()
	p.open = true
	p.w.Log.Add(Event{Kind: EvDstOpen, Comp: p.id, Inst: p.inst, Src: -1, Seq: -1})
	return pconnector.DestinationOpenResponse{}, nil
}

// Origin extracts (src, seq, piece, gens) from a record as written to a
// destination, or from the original record embedded in a DLQ record.
func Origin(r opencdc.Record, isDLQ bool) (src, seq, piece int, gens string, ok bool) {
	md := map[string]string(r.Metadata)
	if isDLQ {
		md = nil
		if sd, isSD := r.Payload.After.(opencdc.StructuredData); isSD {
			switch m := sd["metadata"].(type) {
			case opencdc.StructuredData:
				md = map[string]string{}
				for k, v := range m {
					if s, isStr := v.(string); isStr {
						md[k] = s
					}
				}
			case map[string]interface{}:
				md = map[string]string{}
				for k, v := range m {
					if s, isStr := v.(string); isStr {
						md[k] = s
					}
				}
			case map[string]string:
				md = m
			case opencdc.Metadata:
				md = m
			}
		}
	}
	o, has := md[MetaOrigin]
	if !has {
		return -1, -1, 0, "", false
	}
	parts := strings.Split(o, ":")
	if len(parts) != 2 {
		return -1, -1, 0, "", false
	}
	src, e1 := strconv.Atoi(parts[0])
	seq, e2 := strconv.Atoi(parts[1])
	if e1 != nil || e2 != nil {
		return -1, -1, 0, "", false
	}
	if ps, hasP := md[MetaPiece]; hasP {
		piece, _ = strconv.Atoi(ps)
	}
	return src, seq, piece, md[MetaGen], true
}

type dstItem struct {
	rec              opencdc.Record
	src, seq, piece  int
	outcome          Outcome
}

func (p *dstPlugin) outcomeFor(src, seq, piece int) Outcome {
	var o Outcome
	if p.isDLQ {
		o = p.w.Case.DLQ.PerRecord[Key(src, seq, 0)]
	} else if p.spec != nil {
		o = p.spec.PerPiece[Key(src, seq, piece)]
	}
	if o == "" {
		o = OutAck
	}
	if o == OutHold && p.inst > 1 {
		// a plugin only hangs in its first run, so that a later restart can finish
		o = OutAck
	}
	if o == OutErr && p.spec != nil && p.spec.ErrInstMax > 0 && p.inst > p.spec.ErrInstMax {
		o = OutAck
	}
	return o
}

func (p *dstPlugin) Run(ctx context.Context, stream pconnector.DestinationRunStream) error {
	w := p.w
	server := stream.Server()

	var (
		mu    sync.Mutex
		queue []dstItem
		wake  = make(chan struct{}, 1)
	)
	recvDone := make(chan error, 1)
	go func() {
		for {
			req, err := server.Recv()
			if err != nil {
				recvDone <- err
				return
			}
			mu.Lock()
			for _, r := range req.Records {
				src, seq, piece, gens, ok := Origin(r, p.isDLQ)
				it := dstItem{rec: r, src: src, seq: seq, piece: piece}
				info := ""
				if !ok {
					info = "untagged"
					if sd, isSD := r.Payload.After.(opencdc.StructuredData); isSD {
						info += fmt.Sprintf(" md=%T", sd["metadata"])
					} else {
						info += fmt.Sprintf(" after=%T", r.Payload.After)
					}
				}
				if p.isDLQ {
					// keep the DLQ metadata for the C07 oracle
					info += " nackerr=" + r.Metadata["conduit.dlq.nack.error"] + " node=" + r.Metadata["conduit.dlq.nack.node.id"]
				}
				it.outcome = p.outcomeFor(src, seq, piece)
				w.Log.Add(Event{Kind: EvDstWrite, Comp: p.id, Inst: p.inst, Src: src, Seq: seq, Piece: piece, Pos: string(r.Position), Gen: gens, Info: info})
				queue = append(queue, it)
			}
			mu.Unlock()
			select {
			case wake <- struct{}{}:
			default:
			}
		}
	}()

	gi := 0
	for {
		mu.Lock()
		n := len(queue)
		mu.Unlock()
		if n == 0 {
			select {
			case <-wake:
				continue
			case <-ctx.Done():
				return ctx.Err()
			case err := <-recvDone:
				return err
			}
		}
		size := 1
		if p.spec != nil && len(p.spec.Group) > 0 {
			size = p.spec.Group[gi%len(p.spec.Group)]
			gi++
		}
		if size < 1 {
			size = 1
		}
		mu.Lock()
		if size > len(queue) {
			size = len(queue)
		}
		items := append([]dstItem(nil), queue[:size]...)
		queue = queue[size:]
		mu.Unlock()

		// A hold or stream error ends the response at that item.
		for i, it := range items {
			if it.outcome == OutHold || it.outcome == OutErr {
				// give back what comes after it (never answered)
				items = items[:i+1]
				break
			}
		}
		last := items[len(items)-1]
		answer := items
		if last.outcome == OutHold || last.outcome == OutErr {
			answer = items[:len(items)-1]
		}

		if err := w.Sched.Gate(ctx, fmt.Sprintf("resp %s", p.id)); err != nil {
			return ctx.Err()
		}
		if len(answer) > 0 {
			acks := make([]pconnector.DestinationRunResponseAck, 0, len(answer)+1)
			for _, it := range answer {
				ack := pconnector.DestinationRunResponseAck{Position: it.rec.Position}
				ok := true
				switch it.outcome {
				case OutNack:
					ack.Error = fmt.Sprintf("%s: %s rejects %d:%d.%d", Marker, p.id, it.src, it.seq, it.piece)
					ok = false
				case OutWrongPos:
					ack.Position = opencdc.Position("bogus-position")
				}
				// R1: a confirmation is logged before the engine can observe it.
				if it.outcome != OutWrongPos {
					w.Log.Add(Event{Kind: EvDstAck, Comp: p.id, Inst: p.inst, Src: it.src, Seq: it.seq, Piece: it.piece, Pos: string(it.rec.Position), OK: ok})
				} else {
					w.Log.Add(Event{Kind: EvNote, Comp: p.id, Inst: p.inst, Src: it.src, Seq: it.seq, Piece: it.piece, Info: "hostile wrong-position ack"})
				}
				acks = append(acks, ack)
				if it.outcome == OutExtra {
					w.Log.Add(Event{Kind: EvNote, Comp: p.id, Inst: p.inst, Src: it.src, Seq: it.seq, Piece: it.piece, Info: "hostile extra ack"})
					acks = append(acks, pconnector.DestinationRunResponseAck{Position: it.rec.Position})
				}
			}
			if err := server.Send(pconnector.DestinationRunResponse{Acks: acks}); err != nil {
				for _, it := range answer {
					w.Log.Add(Event{Kind: EvNote, Comp: p.id, Inst: p.inst, Src: it.src, Seq: it.seq, Piece: it.piece, Info: "response-not-delivered"})
				}
				return err
			}
		}
		switch last.outcome {
		case OutErr:
			if (p.isDLQ && w.Case.DLQ.ErrEOF) || (!p.isDLQ && p.spec != nil && p.spec.ErrEOF) {
				w.Log.Add(Event{Kind: EvDstErr, Comp: p.id, Inst: p.inst, Src: last.src, Seq: last.seq, Piece: last.piece, Info: "eof"})
				return nil
			}
			w.Log.Add(Event{Kind: EvDstErr, Comp: p.id, Inst: p.inst, Src: last.src, Seq: last.seq, Piece: last.piece})
			return fmt.Errorf("%s: destination %s stream failure at %d:%d.%d", Marker, p.id, last.src, last.seq, last.piece)
		case OutHold:
			w.Log.Add(Event{Kind: EvNote, Comp: p.id, Inst: p.inst, Src: last.src, Seq: last.seq, Piece: last.piece, Info: "hold"})
			<-ctx.Done()
			return ctx.Err()
		}
	}
}

func (p *dstPlugin) Stop(ctx context.Context, req pconnector.DestinationStopRequest) (pconnector.DestinationStopResponse, error) {
	if h := p.w.Hooks.OnPluginCall; h != nil {
		h(ctx, "dst.stop", p.id)
	}
	p.w.Log.Add(Event{Kind: EvDstStop, Comp: p.id, Inst: p.inst, Src: -1, Seq: -1, Pos: string(req.LastPosition)})
	return pconnector.DestinationStopResponse{}, nil
}

func (p *dstPlugin) Teardown(ctx context.Context, _ pconnector.DestinationTeardownRequest) (pconnector.DestinationTeardownResponse, error) {
	if h := p.w.Hooks.OnPluginCall; h != nil {
		h(ctx, "dst.teardown", p.id)
	}
	if p.open {
		p.st.mu.Lock()
		p.st.open--
		p.st.mu.Unlock()
		p.open = false
	}
	p.w.Log.Add(Event{Kind: EvDstTeardown, Comp: p.id, Inst: p.inst, Src: -1, Seq: -1})
	return pconnector.DestinationTeardownResponse{}, nil
}

var errNotImplemented = errors.New("lab: not implemented")
