package lab

import (
	"context"
	"encoding/json"
	"fmt"
	"runtime"
	"strings"
	"sync"
	"time"

	"github.com/conduitio/conduit/pkg/pipeline"
)

// Timing knobs. Only QUIET is ever used as a verdict (bounded quiescence, R3);
// the others only shape which schedule is explored.
var (
	Settle = 150 * time.Microsecond
	Quiet  = 14 * time.Second // above every bounded wait of the engines that a lab case can meet (v1 teardown flush / deferred-ack drain: 10 s)
)

// CtlResult is the outcome of one control call.
type CtlResult struct {
	Kind     string `json:"kind"`
	Err      string `json:"err,omitempty"`
	CallIdx  int    `json:"call_idx"`
	RetIdx   int    `json:"ret_idx"`
	Returned bool   `json:"returned"`
	Status   string `json:"status_at_return,omitempty"`
	err      error
}

func (c *CtlResult) Error() error { return c.err }

// Result is everything observed while running one case.
type Result struct {
	Case        *Case
	Events      []Event
	World       *World
	ProvisionErr error
	StartErr    error
	FinalStatus pipeline.Status
	FinalErr    string
	Ctl         []*CtlResult
	Wedged      bool
	WedgeInfo   string
	Inconclusive string
	Steps       int
	FinalStore  map[string][]byte
	Stacks      string // goroutine stacks inside Conduit at the moment a wedge was declared
	Elapsed     time.Duration
}

// Runner drives one world.
type Runner struct {
	W    *World
	Pick func(n int) int
	res  *Result

	mu          sync.Mutex
	outstanding int
	waits       int // outstanding calls that only wait for the pipeline to end
	ctl         []*CtlResult
}

func isTerminal(st pipeline.Status) bool {
	return st == pipeline.StatusUserStopped || st == pipeline.StatusSystemStopped || st == pipeline.StatusDegraded
}

// Call issues a control call asynchronously and records call/return in the log.
func (r *Runner) Call(kind string, f func(ctx context.Context) error) *CtlResult {
	w := r.W
	cr := &CtlResult{Kind: kind}
	r.mu.Lock()
	r.outstanding++
	if kind == "wait" {
		r.waits++
	}
	r.ctl = append(r.ctl, cr)
	r.mu.Unlock()
	cr.CallIdx = w.Log.Add(Event{Kind: EvCtlCall, Comp: kind, Src: -1, Seq: -1})
	go func() {
		err := f(context.Background())
		st, _ := w.Status()
		r.mu.Lock()
		cr.err = err
		if err != nil {
			cr.Err = err.Error()
		}
		cr.Status = st.String()
		cr.RetIdx = w.Log.Add(Event{Kind: EvCtlRet, Comp: kind, Src: -1, Seq: -1, OK: err == nil, Info: truncate(cr.Err, 300)})
		cr.Returned = true
		r.outstanding--
		if kind == "wait" {
			r.waits--
		}
		r.mu.Unlock()
	}()
	return cr
}

func (r *Runner) Outstanding() int {
	r.mu.Lock()
	defer r.mu.Unlock()
	return r.outstanding
}

// OutstandingCalls counts outstanding control calls other than pure waits: control calls are
// issued one at a time per pipeline, waits may overlap (the quantifier of C11).
func (r *Runner) OutstandingCalls() int {
	r.mu.Lock()
	defer r.mu.Unlock()
	return r.outstanding - r.waits
}

func (r *Runner) Issue(a ClientAction) {
	w := r.W
	eng := w.Engine()
	switch a.Kind {
	case "stop":
		r.Call("stop", func(ctx context.Context) error { return eng.Stop(ctx, PipelineID, false) })
	case "stopwait":
		r.Call("stopwait", func(ctx context.Context) error {
			if err := eng.Stop(ctx, PipelineID, false); err != nil {
				return err
			}
			err := eng.WaitPipeline(PipelineID)
			w.Connectors.WaitPersisted()
			return err
		})
	case "stopandwait":
		r.Call("stopandwait", func(ctx context.Context) error { return eng.StopAndWait(ctx, PipelineID) })
	case "forcestop":
		r.Call("forcestop", func(ctx context.Context) error { return eng.Stop(ctx, PipelineID, true) })
	case "stopall":
		r.Call("stopall", func(ctx context.Context) error { w.StopAll(ctx); return nil })
	case "stopallwait":
		// what the runtime does on shutdown: graceful StopAll, wait for the pipelines, wait for the persister
		r.Call("stopallwait", func(ctx context.Context) error {
			w.StopAll(ctx)
			err := eng.WaitPipeline(PipelineID)
			w.Connectors.WaitPersisted()
			return err
		})
	case "start":
		r.Call("start", func(ctx context.Context) error { return eng.Start(ctx, PipelineID) })
	case "wait":
		r.Call("wait", func(ctx context.Context) error { return eng.WaitPipeline(PipelineID) })
	default:
		w.Log.Add(Event{Kind: EvNote, Comp: a.Kind, Src: -1, Seq: -1, Info: "unknown client action"})
	}
}

// RunCase provisions, starts and drives the case to a terminal state.
func RunCase(c *Case, pick func(n int) int) *Result {
	return RunCaseWith(c, pick, nil)
}

// RunCaseWith lets a property customise the world before the pipeline starts.
func RunCaseWith(c *Case, pick func(n int) int, prepare func(*World, *Runner)) *Result {
	return RunCaseOpts(c, pick, RunOpts{Prepare: prepare})
}

// RunOpts customises a run.
type RunOpts struct {
	// Prepare is called after provisioning, before the pipeline is started.
	Prepare func(*World, *Runner)
	// Restart, if non-nil, is a store snapshot: instead of provisioning a fresh
	// pipeline the world "boots" from it (services Init + lifecycle Init), as a
	// server does after a crash.
	Restart map[string][]byte
	// MaxAcked carries over what a pruning upstream was told to discard before the crash.
	MaxAcked map[string]int
	// Ready, if non-nil, is asked before the runner ends an idle, still running pipeline with
	// its final graceful stop: false means "the scenario has not played out yet, keep waiting"
	// (a loaded machine can leave the world silent for longer than the idle window). After
	// Quiet of silence the final stop is issued regardless.
	Ready func(w *World, st pipeline.Status) bool
}

// RunCaseOpts is the general form of RunCase.
func RunCaseOpts(c *Case, pick func(n int) int, o RunOpts) *Result {
	begin := time.Now()
	var w *World
	if o.Restart != nil {
		evlog := NewLog()
		w = NewWorld(c, evlog, NewFaultDBFrom(evlog, o.Restart))
		for id, q := range o.MaxAcked {
			w.conn(id).maxAcked = q
		}
	} else {
		w = NewWorld(c, nil, nil)
	}
	res := &Result{Case: c, World: w}
	r := &Runner{W: w, Pick: pick, res: res}
	ctx := context.Background()
	prepare := o.Prepare

	if o.Restart != nil {
		if err := w.InitServices(ctx); err != nil {
			res.ProvisionErr = err
			res.Events = w.Log.Snapshot()
			return res
		}
	} else if err := w.Provision(ctx); err != nil {
		res.ProvisionErr = err
		res.Events = w.Log.Snapshot()
		return res
	}
	for _, f := range c.StoreFaults {
		w.DB.Arm(f)
	}
	if c.FreeSched {
		w.Sched.SetFree()
	}
	if c.GatePluginCalls && w.Hooks.OnPluginCall == nil {
		w.Hooks.OnPluginCall = func(ctx context.Context, call, comp string) {
			_ = w.Sched.Gate(ctx, call+" "+comp)
		}
	}
	if c.GateCommits {
		w.DB.CommitGate = func(int) { _ = w.Sched.Gate(context.Background(), "commit") }
	}
	if c.GateCallbacks {
		w.GateCallbacks()
	}
	if c.GateStatus && w.Hooks.OnStatus == nil {
		// The lifecycle's status write has returned (the new status is visible) but the caller has
		// not continued yet: exactly the window in which runs publish / clean up their map entries.
		w.Hooks.OnStatus = func(id string, st pipeline.Status, after bool) {
			if after {
				_ = w.Sched.Gate(context.Background(), "status-written "+st.String())
			}
		}
	}
	defer w.Close()
	if prepare != nil {
		prepare(w, r)
	}

	var start *CtlResult
	if o.Restart != nil {
		start = r.Call("init", func(ctx context.Context) error { return w.Engine().Init(ctx) })
	} else {
		start = r.Call("start", func(ctx context.Context) error { return w.Engine().Start(ctx, PipelineID) })
	}

	idle := 12 * time.Millisecond
	if d := time.Duration(3*c.PersistDelayMs) * time.Millisecond; d > idle {
		idle = d
	}
	if d := time.Duration(3*c.Recovery.MaxMs) * time.Millisecond; d > idle && c.Recovery.MaxRetries != 0 {
		idle = d
	}

	client := append([]ClientAction(nil), c.Client...)
	maxSteps := 40*c.TotalRecords() + 400
	finalStops := 0
	runsSeen := 0
	silentSince := time.Now()
	lastAct := w.Log.Activity()
	step := 0
	for {
		for len(client) > 0 && client[0].AtStep <= step {
			if client[0].Kind != "wait" && r.OutstandingCalls() > 0 {
				break // one control call at a time; retried after the next step
			}
			if client[0].Kind == "start" && c.HoldStartInRecovery {
				if st, _ := w.Status(); st == pipeline.StatusRecovering {
					break
				}
			}
			if client[0].Kind == "start" {
				finalStops = 0 // a new run gets its own budget of runner-issued stops
			}
			r.Issue(client[0])
			client = client[1:]
		}
		settled := w.Sched.WaitSettled(w.Log, Settle, idle)
		if act := w.Log.Activity(); act != lastAct {
			lastAct = act
			silentSince = time.Now()
		}
		if settled {
			w.Sched.Release(pick)
			step++
			if step > maxSteps {
				res.Inconclusive = fmt.Sprintf("step budget %d exhausted", maxSteps)
				break
			}
			continue
		}
		// The world is idle: nothing pending, nothing logged for `idle`.
		st, _ := w.Status()
		out := r.OutstandingCalls()
		// every run (also one started by recovery) gets its own budget of runner-issued stops
		if n := runsStarted(w.Log); n != runsSeen {
			runsSeen = n
			finalStops = 0
		}
		if len(client) > 0 {
			if client[0].Kind != "wait" && out > 0 && time.Since(silentSince) <= Quiet {
				continue // the previous control call has not returned yet
			}
			if client[0].Kind == "start" && !isTerminal(st) && time.Since(silentSince) <= Quiet {
				// "started again afterwards": a restart is only meaningful once the run has ended
				if out == 0 && (st == pipeline.StatusRunning || st == pipeline.StatusRecovering) && finalStops < 6 {
					finalStops++
					if c.HasHold() {
						r.Issue(ClientAction{Kind: "forcestop"})
					} else {
						r.Issue(ClientAction{Kind: "stopwait"})
					}
					silentSince = time.Now()
				}
				continue
			}
			if client[0].Kind == "start" {
				finalStops = 0
			}
			r.Issue(client[0])
			client = client[1:]
			continue
		}
		if out == 0 && start.Returned && start.err != nil && !isTerminal(st) && st != pipeline.StatusRunning && st != pipeline.StatusRecovering {
			break // never started
		}
		if out == 0 && isTerminal(st) && r.Outstanding() == 0 {
			break
		}
		if out == 0 && isTerminal(st) && time.Since(silentSince) > Quiet {
			// a wait that never returns although the pipeline has ended
			res.Wedged = true
			res.Stacks = conduitStacks()
			res.WedgeInfo = fmt.Sprintf("pipeline ended (%s) but %d wait call(s) never returned", st, r.Outstanding())
			break
		}
		if out == 0 && (st == pipeline.StatusRunning || st == pipeline.StatusRecovering) && finalStops < 6 {
			if o.Ready != nil && time.Since(silentSince) <= Quiet && !o.Ready(w, st) {
				continue
			}
			// End of script: drain the pipeline with a graceful stop.
			finalStops++
			if finalStops > 1 {
				time.Sleep(time.Duration(finalStops) * 20 * time.Millisecond)
			}
			if c.HasHold() {
				// a plugin that never answers can only be ended by force
				r.Issue(ClientAction{Kind: "forcestop"})
			} else {
				r.Issue(ClientAction{Kind: "stopwait"})
			}
			silentSince = time.Now()
			continue
		}
		if time.Since(silentSince) > Quiet {
			res.Wedged = true
			res.Stacks = conduitStacks()
			res.WedgeInfo = fmt.Sprintf("no event for %s; status=%s outstanding=%d pending=%v", Quiet, st, out, w.Sched.PendingLabels())
			break
		}
	}
	res.Steps = step
	c.Choices = w.Sched.Choices
	w.Sched.SetFree()
	// The in-memory status changes before the status write is applied to the store and logged:
	// let a write that is in flight finish, so that the history ends with the status the loop saw.
	for deadline := time.Now().Add(2 * time.Second); time.Now().Before(deadline); time.Sleep(200 * time.Microsecond) {
		begun, done := 0, 0
		for _, e := range w.Log.Snapshot() {
			switch e.Kind {
			case EvStatusBegin:
				begun++
			case EvStatus:
				done++
			}
		}
		if begun == done {
			break
		}
	}
	if !res.Wedged {
		// let the last flush land so that FinalStore is meaningful
		done := make(chan struct{})
		go func() { w.Connectors.WaitPersisted(); close(done) }()
		select {
		case <-done:
		case <-time.After(2 * time.Second):
		}
	}
	if c.WaitAtEnd && !res.Wedged {
		if st, _ := w.Status(); isTerminal(st) {
			cr := r.Call("wait", func(ctx context.Context) error { return w.Engine().WaitPipeline(PipelineID) })
			for deadline := time.Now().Add(Quiet); time.Now().Before(deadline); time.Sleep(200 * time.Microsecond) {
				r.mu.Lock()
				done := cr.Returned
				r.mu.Unlock()
				if done {
					break
				}
			}
		}
	}
	res.StartErr = start.err
	res.FinalStatus, res.FinalErr = w.Status()
	r.mu.Lock()
	res.Ctl = append([]*CtlResult(nil), r.ctl...)
	r.mu.Unlock()
	res.Events = w.Log.Snapshot()
	res.FinalStore = w.DB.Current()
	res.Elapsed = time.Since(begin)
	return res
}

// conduitStacks returns the stacks of all goroutines that are inside Conduit code.
func conduitStacks() string {
	buf := make([]byte, 4<<20)
	n := runtime.Stack(buf, true)
	var out []string
	for _, g := range strings.Split(string(buf[:n]), "\n\n") {
		if strings.Contains(g, "conduitio/conduit/pkg/lifecycle") || strings.Contains(g, "conduitio/conduit/pkg/connector") {
			out = append(out, g)
		}
	}
	return strings.Join(out, "\n\n")
}

// ReplayPick replays recorded scheduler choices (index modulo the current set size, R8).
func ReplayPick(choices [][2]int) func(n int) int {
	i := 0
	return func(n int) int {
		if i >= len(choices) {
			return 0
		}
		k := choices[i][0]
		i++
		if n <= 0 {
			return 0
		}
		return k % n
	}
}

type storedConn struct {
	State *struct {
		Position []byte
	}
}

func decodeStoredPosition(raw []byte) (string, bool) {
	var sc storedConn
	if err := json.Unmarshal(raw, &sc); err != nil {
		return "", false
	}
	if sc.State == nil {
		return "", true
	}
	return string(sc.State.Position), true
}


// runsStarted counts the successful Running status writes (runs that went live).
func runsStarted(l *Log) int {
	n := 0
	for _, e := range l.Snapshot() {
		if e.Kind == EvStatus && e.OK && strings.HasPrefix(e.Info, "Running") {
			n++
		}
	}
	return n
}
