package lab

import (
	"context"
	"fmt"
	"strconv"
	"sync"
	"time"

	"github.com/conduitio/conduit/pkg/connector"
	"github.com/conduitio/conduit/pkg/foundation/log"
	"github.com/conduitio/conduit/pkg/lifecycle"
	lifecyclev2 "github.com/conduitio/conduit/pkg/lifecycle-poc"
	"github.com/conduitio/conduit/pkg/pipeline"
	"github.com/conduitio/conduit/pkg/processor"
	"github.com/rs/zerolog"
)

const PipelineID = "lab-pipeline"

// Engine is what both lifecycle services have in common.
type Engine interface {
	Init(ctx context.Context) error
	Start(ctx context.Context, pipelineID string) error
	Stop(ctx context.Context, pipelineID string, force bool) error
	StopAndWait(ctx context.Context, pipelineID string) error
	WaitPipeline(id string) error
	Wait(timeout time.Duration) error
}

// Hooks let a property place yields at interesting points (C11).
type Hooks struct {
	// OnPluginCall is called at the start of plugin Open/Stop/Teardown calls.
	OnPluginCall func(ctx context.Context, call, comp string)
	// OnStatus is called before (after=false) and after (after=true) a status write.
	OnStatus func(id string, st pipeline.Status, after bool)
	// OnProcOpen is called inside a processor's Open, before it answers (a slow Open).
	OnProcOpen func(comp, gen string)
}

// World is one isolated instance of Conduit's services around fake plugins.
type World struct {
	Case   *Case
	Log    *Log
	DB     *FaultDB
	Sched  *Sched
	Logger log.CtxLogger
	Hooks  Hooks

	Persister  *connector.Persister
	Connectors *connector.Service
	Processors *processor.Service
	Pipelines  *pipeline.Service
	PipeWrap   *PipelineWrap
	Plugins    *Plugins
	ProcReg    *ProcRegistry

	V1 *lifecycle.Service
	V2 *lifecyclev2.Service

	mu    sync.Mutex
	conns map[string]*connState

	failMu   sync.Mutex
	Failures []error // FailureEvents reported by the engine
}

func (w *World) conn(id string) *connState {
	w.mu.Lock()
	defer w.mu.Unlock()
	st := w.conns[id]
	if st == nil {
		st = &connState{maxAcked: -1}
		w.conns[id] = st
	}
	return st
}

// MaxOpen reports the highest number of simultaneously open plugin instances seen for a connector.
func (w *World) MaxOpen(id string) int {
	st := w.conn(id)
	st.mu.Lock()
	defer st.mu.Unlock()
	return st.maxOpen
}

func (w *World) sourceSpec(id string) (*SourceSpec, int) {
	for i := range w.Case.Sources {
		if w.Case.Sources[i].ID == id {
			return &w.Case.Sources[i], i
		}
	}
	return nil, -1
}

func (w *World) destSpec(id string) (*DestSpec, int) {
	for i := range w.Case.Dests {
		if w.Case.Dests[i].ID == id {
			return &w.Case.Dests[i], i
		}
	}
	return nil, -1
}

// Engine returns the lifecycle service selected by the case.
func (w *World) Engine() Engine {
	if w.Case.Engine == "v2" {
		return v2Engine{w.V2}
	}
	return w.V1
}

type v2Engine struct{ *lifecyclev2.Service }

// StopAll issues the engine's shutdown stop.
func (w *World) StopAll(ctx context.Context) {
	if w.Case.Engine == "v2" {
		_ = w.V2.StopAll(ctx, false)
		return
	}
	w.V1.StopAll(ctx, pipeline.ErrGracefulShutdown)
}

// PipelineWrap is the lifecycle's PipelineService: the real pipeline.Service
// plus a log entry (and optional yield) for every status write.
type PipelineWrap struct {
	w *World
	*pipeline.Service
	mu      sync.Mutex
	writes  int
	lastErr string
}

func (p *PipelineWrap) UpdateStatus(ctx context.Context, id string, st pipeline.Status, errMsg string) error {
	if h := p.w.Hooks.OnStatus; h != nil {
		h(id, st, false)
	}
	p.w.Log.Add(Event{Kind: EvStatusBegin, Comp: id, Src: -1, Seq: -1, Info: st.String()})
	p.mu.Lock()
	n := p.writes
	p.writes++
	p.mu.Unlock()
	for _, k := range p.w.Case.StatusFailAt {
		if k == n {
			// the store write of this status update fails
			p.w.DB.Arm(Fault{Kind: FaultSet, Index: 0, KeyPrefix: "pipeline:instance:"})
		}
	}
	err := p.Service.UpdateStatus(ctx, id, st, errMsg)
	p.mu.Lock()
	p.lastErr = errMsg
	p.mu.Unlock()
	info := st.String()
	if err != nil {
		info += " write-failed: " + err.Error()
	}
	p.w.Log.Add(Event{Kind: EvStatus, Comp: id, Src: -1, Seq: -1, Info: info, OK: err == nil, Pos: truncate(errMsg, 6000)})
	if h := p.w.Hooks.OnStatus; h != nil {
		h(id, st, true)
	}
	return err
}

// slowSink is a log sink that takes d per line (a slow terminal, a blocked pipe).
type slowSink struct{ d time.Duration }

func (s slowSink) Write(p []byte) (int, error) {
	time.Sleep(s.d)
	return len(p), nil
}

func truncate(s string, n int) string {
	if len(s) <= n {
		return s
	}
	return s[:n]
}

// NewWorld wires real services over a FaultDB. If db is nil a fresh store is
// created; otherwise the world "restarts" on the given store.
func NewWorld(c *Case, evlog *Log, db *FaultDB) *World {
	if evlog == nil {
		evlog = NewLog()
	}
	if db == nil {
		db = NewFaultDB(evlog)
	}
	w := &World{Case: c, Log: evlog, DB: db, Sched: NewSched(), conns: map[string]*connState{}}
	w.Logger = log.New(zerolog.Nop())
	if c.LogDelayMs > 0 {
		w.Logger = log.New(zerolog.New(slowSink{d: time.Duration(c.LogDelayMs) * time.Millisecond}).Level(zerolog.WarnLevel))
	}
	w.Plugins = &Plugins{w: w}
	w.ProcReg = &ProcRegistry{w: w}

	delay := time.Duration(c.PersistDelayMs) * time.Millisecond
	if delay <= 0 {
		delay = time.Millisecond
	}
	bundle := c.PersistBundle
	if bundle <= 0 {
		bundle = 1
	}
	w.Persister = connector.NewPersister(w.Logger, db, delay, bundle)
	w.Connectors = connector.NewService(w.Logger, db, w.Persister)
	w.Processors = processor.NewService(w.Logger, db, w.ProcReg)
	w.Pipelines = pipeline.NewService(w.Logger, db)
	w.PipeWrap = &PipelineWrap{w: w, Service: w.Pipelines}

	rec := &lifecycle.ErrRecoveryCfg{
		MinDelay:         time.Duration(c.Recovery.MinMs) * time.Millisecond,
		MaxDelay:         time.Duration(c.Recovery.MaxMs) * time.Millisecond,
		BackoffFactor:    c.Recovery.Factor,
		MaxRetries:       c.Recovery.MaxRetries,
		MaxRetriesWindow: time.Duration(c.Recovery.WindowMs) * time.Millisecond,
	}
	if rec.BackoffFactor < 1 {
		rec.BackoffFactor = 2
	}
	w.V1 = lifecycle.NewService(w.Logger, rec, w.Connectors, w.Processors, w.Plugins, w.PipeWrap)
	w.V1.OnFailure(func(e lifecycle.FailureEvent) {
		w.failMu.Lock()
		w.Failures = append(w.Failures, e.Error)
		w.failMu.Unlock()
	})
	rec2 := *rec
	w.V2 = lifecyclev2.NewService(w.Logger, &rec2, w.Connectors, w.Processors, w.Plugins, w.PipeWrap, true)
	w.V2.OnFailure(func(e lifecyclev2.FailureEvent) {
		w.failMu.Lock()
		w.Failures = append(w.Failures, e.Error)
		w.failMu.Unlock()
	})
	return w
}

// InitServices loads all services from the store (what a server start does before lifecycle Init).
func (w *World) InitServices(ctx context.Context) error {
	if err := w.Processors.Init(ctx); err != nil {
		return err
	}
	if err := w.Connectors.Init(ctx); err != nil {
		return err
	}
	return w.Pipelines.Init(ctx)
}

// GateCallbacks makes the persister's callbacks (run after a commit) a pending
// action of the boundary scheduler (needs the 'verif' build tag hook in /repo).
func (w *World) GateCallbacks() {
	registerYield(w.Persister, func(point string) {
		_ = w.Sched.Gate(context.Background(), point)
	})
}

// Close removes the world's hooks.
func (w *World) Close() { unregisterYield(w.Persister) }

// Provision creates the pipeline, connectors and processors described by the case through the real services.
func (w *World) Provision(ctx context.Context) error {
	c := w.Case
	if _, err := w.Pipelines.Create(ctx, PipelineID, pipeline.Config{Name: PipelineID}, pipeline.ProvisionTypeAPI); err != nil {
		return fmt.Errorf("create pipeline: %w", err)
	}
	if _, err := w.Pipelines.UpdateDLQ(ctx, PipelineID, pipeline.DLQ{
		Plugin:              PluginDLQ,
		Settings:            map[string]string{},
		WindowSize:          c.DLQ.WindowSize,
		WindowNackThreshold: c.DLQ.Threshold,
	}); err != nil {
		return fmt.Errorf("update dlq: %w", err)
	}
	mkProcs := func(parent processor.Parent, ids []string) error {
		for _, id := range ids {
			ps := c.Proc(id)
			if ps == nil {
				return fmt.Errorf("unknown processor %s", id)
			}
			workers := ps.Workers
			if workers < 1 {
				workers = 1
			}
			_, err := w.Processors.Create(ctx, id, PluginProc, parent,
				processor.Config{Settings: map[string]string{"gen": strconv.Itoa(ps.Gen)}, Workers: workers},
				processor.ProvisionTypeAPI, CondTemplate(ps.CondMod, ps.CondRem))
			if err != nil {
				return fmt.Errorf("create processor %s: %w", id, err)
			}
			switch parent.Type {
			case processor.ParentTypePipeline:
				_, err = w.Pipelines.AddProcessor(ctx, parent.ID, id)
			case processor.ParentTypeConnector:
				_, err = w.Connectors.AddProcessor(ctx, parent.ID, id)
			}
			if err != nil {
				return fmt.Errorf("attach processor %s: %w", id, err)
			}
		}
		return nil
	}
	for _, s := range c.Sources {
		if _, err := w.Connectors.Create(ctx, s.ID, connector.TypeSource, PluginSrc, PipelineID,
			connector.Config{Name: s.ID, Settings: map[string]string{}}, connector.ProvisionTypeAPI); err != nil {
			return fmt.Errorf("create source %s: %w", s.ID, err)
		}
		if _, err := w.Pipelines.AddConnector(ctx, PipelineID, s.ID); err != nil {
			return err
		}
		if err := mkProcs(processor.Parent{ID: s.ID, Type: processor.ParentTypeConnector}, s.Procs); err != nil {
			return err
		}
	}
	for _, d := range c.Dests {
		if _, err := w.Connectors.Create(ctx, d.ID, connector.TypeDestination, PluginDst, PipelineID,
			connector.Config{Name: d.ID, Settings: map[string]string{}}, connector.ProvisionTypeAPI); err != nil {
			return fmt.Errorf("create destination %s: %w", d.ID, err)
		}
		if _, err := w.Pipelines.AddConnector(ctx, PipelineID, d.ID); err != nil {
			return err
		}
		if err := mkProcs(processor.Parent{ID: d.ID, Type: processor.ParentTypeConnector}, d.Procs); err != nil {
			return err
		}
	}
	return mkProcs(processor.Parent{ID: PipelineID, Type: processor.ParentTypePipeline}, c.PipelineProcs())
}

// Status returns the in-memory status and error of the lab pipeline.
func (w *World) Status() (pipeline.Status, string) {
	p, err := w.Pipelines.Get(context.Background(), PipelineID)
	if err != nil {
		return 0, err.Error()
	}
	// Instance.Error is written by pipeline.Service.UpdateStatus without a lock: do not read it
	// from here (the race detector would blame the harness); the error text of the last status
	// write that went through the lifecycle's PipelineService is kept by the wrapper.
	w.PipeWrap.mu.Lock()
	msg := w.PipeWrap.lastErr
	w.PipeWrap.mu.Unlock()
	return p.GetStatus(), msg
}

// StoredPosition decodes the position stored for a source connector in a store snapshot ("" if none).
func StoredPosition(snap map[string][]byte, connID string) (string, bool) {
	raw, ok := snap["connector:instance:"+connID]
	if !ok {
		return "", false
	}
	return decodeStoredPosition(raw)
}
