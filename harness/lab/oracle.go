package lab

import (
	"errors"
	"fmt"
	"strings"

	"github.com/conduitio/conduit/pkg/pipeline"
)

// Violation is one failed clause. Key is stable (closed vocabulary) and is what
// known_findings.json matches on.
type Violation struct {
	Prop   string `json:"prop"`
	Key    string `json:"key"`
	Detail string `json:"detail"`
	Index  int    `json:"index"`
}

func (v Violation) String() string {
	return fmt.Sprintf("%s %s @%d: %s", v.Prop, v.Key, v.Index, v.Detail)
}

// IsDLQ reports whether a component id is a DLQ connector of the lab pipeline.
func IsDLQ(comp string) bool { return strings.HasPrefix(comp, PipelineID+"-dlq") }

// History is an indexed view over the event log of one case.
type History struct {
	Case   *Case
	Model  *Model
	Events []Event

	destIdx map[string]int // dest id -> index in Case.Dests
	// confirm[dest][key] = index of the first positive dst.ack for that piece at that destination
	confirm []map[string]int
	// dlqOK[src:seq] = index of first positive DLQ ack for that record
	dlqOK map[[2]int]int
}

func NewHistory(c *Case, m *Model, events []Event) *History {
	h := &History{Case: c, Model: m, Events: events, destIdx: map[string]int{}, dlqOK: map[[2]int]int{}}
	for i, d := range c.Dests {
		h.destIdx[d.ID] = i
		h.confirm = append(h.confirm, map[string]int{})
	}
	for i, e := range events {
		if e.Kind != EvDstAck || !e.OK {
			continue
		}
		if IsDLQ(e.Comp) {
			k := [2]int{e.Src, e.Seq}
			if _, ok := h.dlqOK[k]; !ok && e.Src >= 0 {
				h.dlqOK[k] = i
			}
			continue
		}
		if di, ok := h.destIdx[e.Comp]; ok && e.Src >= 0 {
			k := Key(e.Src, e.Seq, e.Piece)
			if _, seen := h.confirm[di][k]; !seen {
				h.confirm[di][k] = i
			}
		}
	}
	return h
}

// HandledAt returns whether record (src,seq) counts as handled downstream at
// log index i (exclusive), per the statement of C01: every destination has
// positively confirmed every piece derived from it, or the DLQ confirmed it, or
// it was filtered. why explains a negative answer.
func (h *History) HandledAt(src, seq, i int) (ok bool, why string) {
	f := h.Model.Fate(src, seq)
	if f == nil {
		return false, "record was never produced by the source"
	}
	if j, has := h.dlqOK[[2]int{src, seq}]; has && j < i {
		return true, ""
	}
	if f.FilteredAll {
		return true, ""
	}
	if f.PreNack != "" {
		return false, fmt.Sprintf("processor %s rejects it and no DLQ confirmation precedes", f.PreNack)
	}
	if f.Hostile != "" {
		// Engine-specific handling: the only schedule-independent requirement left is
		// "some destination confirmation or the DLQ"; be conservative and accept any
		// full set of confirmations of whatever was written (checked by the caller's
		// written-set variant).
		return h.allWrittenConfirmed(src, seq, i)
	}
	for di, df := range f.Dests {
		if df.ProcErr != "" {
			return false, fmt.Sprintf("destination-level processor %s rejects it and no DLQ confirmation precedes", df.ProcErr)
		}
		if df.Filtered {
			continue
		}
		for _, pc := range df.Pieces {
			j, has := h.confirm[di][Key(src, seq, pc)]
			if !has || j >= i {
				return false, fmt.Sprintf("destination %s has not positively confirmed piece %d", h.Case.Dests[di].ID, pc)
			}
		}
	}
	return true, ""
}

// allWrittenConfirmed: every destination confirmed at least one piece of the record.
func (h *History) allWrittenConfirmed(src, seq, i int) (bool, string) {
	for di := range h.Case.Dests {
		found := false
		for k, j := range h.confirm[di] {
			s, q, _ := ParseKey(k)
			if s == src && q == seq && j < i {
				found = true
				break
			}
		}
		if !found {
			return false, fmt.Sprintf("destination %s confirmed nothing for it", h.Case.Dests[di].ID)
		}
	}
	return true, ""
}

// CheckC01: no source ack before every destination (or the DLQ) confirmed the record.
func (h *History) CheckC01() []Violation {
	var out []Violation
	for i, e := range h.Events {
		if e.Kind != EvSrcAck {
			continue
		}
		if e.Src < 0 {
			if f := h.hostilePositions(); f {
				continue
			}
			out = append(out, Violation{Prop: "C01", Key: "C01/ack-unknown-position", Index: i,
				Detail: fmt.Sprintf("source %s was acked position %q which it never produced", e.Comp, e.Pos)})
			continue
		}
		if ok, why := h.HandledAt(e.Src, e.Seq, i); !ok {
			out = append(out, Violation{Prop: "C01", Key: "C01/ack-before-handled/" + h.Case.Engine, Index: i,
				Detail: fmt.Sprintf("source %s acked s%d:%d although %s", e.Comp, e.Src, e.Seq, why)})
		}
	}
	return out
}

func (h *History) hostilePositions() bool {
	for _, s := range h.Case.Sources {
		if s.EmptyPosAt >= 0 || s.DupPosAt >= 0 {
			return true
		}
	}
	return false
}

// CheckC04: per source plugin instance, acks are exactly a prefix of what it emitted.
func (h *History) CheckC04() []Violation {
	var out []Violation
	if h.hostilePositions() {
		return nil
	}
	type inst struct {
		comp string
		n    int
	}
	next := map[inst]int{}    // next expected seq
	emitted := map[inst]int{} // highest emitted seq
	opened := map[inst]bool{}
	for i, e := range h.Events {
		k := inst{e.Comp, e.Inst}
		switch e.Kind {
		case EvSrcOpen:
			if e.Info != "" {
				continue
			}
			next[k] = e.Seq + 1
			emitted[k] = e.Seq
			opened[k] = true
		case EvSrcEmit:
			if e.Seq > emitted[k] {
				emitted[k] = e.Seq
			}
		case EvSrcAck:
			if e.Src < 0 {
				continue // reported by C01
			}
			if !opened[k] {
				out = append(out, Violation{Prop: "C04", Key: "C04/ack-to-unopened-instance", Index: i,
					Detail: fmt.Sprintf("source %s instance %d received an ack without having been opened", e.Comp, e.Inst)})
				continue
			}
			want := next[k]
			switch {
			case e.Seq == want:
				next[k] = want + 1
			case e.Seq < want:
				out = append(out, Violation{Prop: "C04", Key: "C04/ack-repeated-or-backwards", Index: i,
					Detail: fmt.Sprintf("source %s got ack for seq %d after seq %d had already been acked", e.Comp, e.Seq, want-1)})
			default:
				out = append(out, Violation{Prop: "C04", Key: "C04/ack-gap", Index: i,
					Detail: fmt.Sprintf("source %s got ack for seq %d while seq %d is still unacked (gap)", e.Comp, e.Seq, want)})
				next[k] = e.Seq + 1
			}
			if e.Seq > emitted[k] {
				out = append(out, Violation{Prop: "C04", Key: "C04/ack-not-emitted", Index: i,
					Detail: fmt.Sprintf("source %s got ack for seq %d which this run never emitted (max %d)", e.Comp, e.Seq, emitted[k])})
			}
		}
	}
	return out
}

// CheckC05: per destination instance and source, writes are in source order,
// without duplicates, and only records the model routes there.
func (h *History) CheckC05() []Violation {
	var out []Violation
	type k struct {
		comp string
		inst int
		src  int
	}
	last := map[k][2]int{}
	seen := map[k]bool{}
	for i, e := range h.Events {
		if e.Kind != EvDstWrite || IsDLQ(e.Comp) {
			continue
		}
		di, ok := h.destIdx[e.Comp]
		if !ok {
			continue
		}
		if e.Src < 0 {
			out = append(out, Violation{Prop: "C05", Key: "C05/untagged-record-written", Index: i,
				Detail: fmt.Sprintf("destination %s received a record without origin tag (pos %q)", e.Comp, e.Pos)})
			continue
		}
		kk := k{e.Comp, e.Inst, e.Src}
		cur := [2]int{e.Seq, e.Piece}
		if seen[kk] {
			p := last[kk]
			if cur == p {
				out = append(out, Violation{Prop: "C05", Key: "C05/duplicate-write-in-run", Index: i,
					Detail: fmt.Sprintf("destination %s was written s%d:%d.%d twice in one run", e.Comp, e.Src, e.Seq, e.Piece)})
			} else if cur[0] < p[0] || (cur[0] == p[0] && cur[1] < p[1]) {
				out = append(out, Violation{Prop: "C05", Key: "C05/out-of-order-write", Index: i,
					Detail: fmt.Sprintf("destination %s was written s%d:%d.%d after s%d:%d.%d", e.Comp, e.Src, e.Seq, e.Piece, e.Src, p[0], p[1])})
			}
		}
		seen[kk] = true
		last[kk] = cur

		f := h.Model.Fate(e.Src, e.Seq)
		if f == nil {
			out = append(out, Violation{Prop: "C05", Key: "C05/unknown-record-written", Index: i,
				Detail: fmt.Sprintf("destination %s was written s%d:%d which no source produced", e.Comp, e.Src, e.Seq)})
			continue
		}
		if f.Hostile != "" {
			continue
		}
		reach := !f.FilteredAll && f.PreNack == "" && di < len(f.Dests) && f.Dests[di].Reaches
		if !reach {
			why := "it is filtered"
			if f.PreNack != "" || (di < len(f.Dests) && f.Dests[di].ProcErr != "") {
				why = "a processor rejects it"
			}
			out = append(out, Violation{Prop: "C05", Key: "C05/absent-record-written/" + h.Case.Engine, Index: i,
				Detail: fmt.Sprintf("destination %s was written s%d:%d.%d although %s on the way there", e.Comp, e.Src, e.Seq, e.Piece, why)})
			continue
		}
		okPiece := false
		for _, pc := range f.Dests[di].Pieces {
			if pc == e.Piece {
				okPiece = true
			}
		}
		if !okPiece {
			out = append(out, Violation{Prop: "C05", Key: "C05/unexpected-piece-written", Index: i,
				Detail: fmt.Sprintf("destination %s was written piece %d of s%d:%d, expected pieces %v", e.Comp, e.Piece, e.Src, e.Seq, f.Dests[di].Pieces)})
		}
	}
	return out
}

// wedgeSites is the closed vocabulary used to name where a wedged run is stuck
// (first match in this order wins).
var wedgeSites = []struct{ needle, state, name string }{
	{"pubNodeBase).InjectControlMessage", "", "stop-inject-control-message-vs-node-cleanup"},
	{"parallelNodeCoordinator).Run", "[chan send", "parallel-coordinator-blocked-on-errs"},
	{"OpenMessagesTracker).Wait", "", "open-messages-never-resolved"},
	{"Persister).WaitPendingWrites", "", "persister-wait-pending-writes"},
	{"Persister).triggerFlush", "", "persister-trigger-flush"},
	{"Worker).acquireProcessingLock", "", "funnel-processing-lock"},
	{"funnel.(*Worker).doTask", "", "funnel-do-task"},
	{"Source).Teardown", "", "source-teardown"},
	{"Destination).Teardown", "", "destination-teardown"},
	{"StartWithBackoff", "", "start-with-backoff"},
}

// CheckWedge turns a bounded-quiescence failure (R3) into a C11 violation. The
// caller must make sure the scenario contains no plugin that is scripted to hang.
func CheckWedge(res *Result) []Violation {
	if !res.Wedged {
		return nil
	}
	site := "other"
	blocks := strings.Split(res.Stacks, "\n\n")
outer:
	for _, s := range wedgeSites {
		for _, b := range blocks {
			if strings.Contains(b, s.needle) && (s.state == "" || strings.Contains(strings.SplitN(b, "\n", 2)[0], s.state)) {
				site = s.name
				break outer
			}
		}
	}
	return []Violation{{Prop: "C11", Key: "C11/wedge/" + res.Case.Engine + "/" + site, Index: len(res.Events),
		Detail: "run never ends / control call never returns although every plugin call returned: " + res.WedgeInfo}}
}

// HasHold reports whether the script contains a plugin that never answers.
func (c *Case) HasHold() bool {
	for _, d := range c.Dests {
		for _, o := range d.PerPiece {
			if o == OutHold {
				return true
			}
		}
	}
	for _, o := range c.DLQ.PerRecord {
		if o == OutHold {
			return true
		}
	}
	return false
}

// SnapshotFn gives access to store snapshots by number.
type SnapshotFn func(n int) map[string][]byte

// storedSeq decodes the position stored for source connector id in a snapshot:
// -1 for none/empty, -2 if the stored position is not one the source produced.
func storedSeq(snap map[string][]byte, id string, srcIdx int) (seq int, present bool) {
	pos, ok := StoredPosition(snap, id)
	if !ok {
		return -1, false
	}
	if pos == "" {
		return -1, true
	}
	s, q, okp := ParsePos(pos)
	if !okp || s != srcIdx {
		return -2, true
	}
	return q, true
}

// CheckC02 checks durability-before-ack and monotonicity of stored positions.
func (h *History) CheckC02(snaps SnapshotFn) []Violation {
	var out []Violation
	if h.hostilePositions() {
		return nil
	}
	nsrc := len(h.Case.Sources)
	cur := make([]int, nsrc) // stored seq per source as of the latest applied store change
	for i := range cur {
		cur[i] = -1
	}
	everNonEmpty := make([]bool, nsrc)
	for i, e := range h.Events {
		switch e.Kind {
		case EvDBCommit, EvDBSet:
			if !e.OK || e.Snap == 0 {
				continue
			}
			snap := snaps(e.Snap)
			for si, s := range h.Case.Sources {
				q, present := storedSeq(snap, s.ID, si)
				if !present {
					continue
				}
				if q == -2 {
					out = append(out, Violation{Prop: "C02", Key: "C02/stored-position-foreign", Index: i,
						Detail: fmt.Sprintf("store holds a position for %s that the source never produced", s.ID)})
					continue
				}
				if q < cur[si] {
					key := "C02/stored-position-went-backwards"
					if q == -1 && everNonEmpty[si] {
						key = "C02/stored-position-became-empty"
					}
					out = append(out, Violation{Prop: "C02", Key: key, Index: i,
						Detail: fmt.Sprintf("stored position of %s went from seq %d to %d", s.ID, cur[si], q)})
				}
				if q > cur[si] {
					// clause 4: everything at or before the stored position was handled downstream
					for seq := cur[si] + 1; seq <= q; seq++ {
						if seq < 0 {
							continue
						}
						if ok, why := h.HandledAt(si, seq, i); !ok {
							out = append(out, Violation{Prop: "C02", Key: "C02/position-stored-before-handled/" + h.Case.Engine, Index: i,
								Detail: fmt.Sprintf("commit stores position seq %d of %s although s%d:%d is not handled: %s", q, s.ID, si, seq, why)})
							break
						}
					}
				}
				cur[si] = q
				if q >= 0 {
					everNonEmpty[si] = true
				}
			}
		case EvSrcAck:
			if e.Src < 0 || e.Src >= nsrc {
				continue
			}
			if cur[e.Src] < e.Seq {
				out = append(out, Violation{Prop: "C02", Key: "C02/ack-without-durable-position", Index: i,
					Detail: fmt.Sprintf("source %s was told s%d:%d is acked but the store durably holds seq %d", e.Comp, e.Src, e.Seq, cur[e.Src])})
			}
		}
	}
	return out
}

// statusCertain returns the pipeline status that is certain to be visible during the whole
// log interval [from, to] ("" if a status write begins, or is still in progress, in it).
func (h *History) statusCertain(from, to int) string {
	cur, inProgress := "", false
	for i, e := range h.Events {
		if i > to {
			break
		}
		switch e.Kind {
		case EvStatusBegin:
			if i >= from {
				return ""
			}
			inProgress = true
		case EvStatus:
			inProgress = false
			if strings.Contains(e.Info, " write-failed") {
				// a failed write: whether the old or the new status is visible is not certain
				cur = ""
				break
			}
			cur = e.Info
			if j := strings.IndexByte(cur, ' '); j >= 0 {
				cur = cur[:j]
			}
		}
		if i == from && inProgress {
			return ""
		}
	}
	if inProgress {
		return ""
	}
	return cur
}

// CheckC11Control checks the clauses of C11 that concern control calls and plugin instances.
func (h *History) CheckC11Control(res *Result) []Violation {
	var out []Violation
	eng := h.Case.Engine
	type inst struct {
		comp string
		n    int
	}
	open := map[inst]int{}   // instance -> index of its open event
	live := map[string]int{} // comp -> number of open instances
	isOpen := func(k string) bool { return k == EvSrcOpen || k == EvDstOpen }
	isTear := func(k string) bool { return k == EvSrcTeardown || k == EvDstTeardown }
	openAt := func(idx int) map[inst]bool { // source instances open at log index idx
		m := map[inst]bool{}
		for i, e := range h.Events {
			if i >= idx {
				break
			}
			if e.Kind == EvSrcOpen && e.Info == "" {
				m[inst{e.Comp, e.Inst}] = true
			}
			if e.Kind == EvSrcTeardown {
				delete(m, inst{e.Comp, e.Inst})
			}
		}
		return m
	}
	// shape of the history (closed vocabulary) for the keys below
	shape := "other"
	for _, c := range res.Ctl {
		if c.Kind == "start" && c != res.Ctl[0] {
			if st := h.statusCertain(c.CallIdx, c.CallIdx); st == "Recovering" || st == "" {
				shape = "start-during-recovery"
			}
		}
	}
	// A force stop during start-up can reach a plugin's Teardown while its Open is still in
	// progress: the teardown is then logged before the open of the SAME instance. Such an
	// instance is closed, not live.
	tornEarly := map[inst]bool{}
	for i, e := range h.Events {
		switch {
		case isOpen(e.Kind) && e.Info == "":
			if tornEarly[inst{e.Comp, e.Inst}] {
				continue
			}
			open[inst{e.Comp, e.Inst}] = i
			live[e.Comp]++
			if live[e.Comp] > 1 {
				out = append(out, Violation{Prop: "C11", Key: "C11/two-live-runs/" + eng + "/" + shape, Index: i,
					Detail: fmt.Sprintf("connector %s has %d plugin instances open at the same time", e.Comp, live[e.Comp])})
			}
		case isTear(e.Kind):
			if _, ok := open[inst{e.Comp, e.Inst}]; ok {
				delete(open, inst{e.Comp, e.Inst})
				live[e.Comp]--
			} else {
				tornEarly[inst{e.Comp, e.Inst}] = true
			}
		}
	}
	if !res.Wedged && isTerminalName(res.FinalStatus.String()) {
		allReturned := true
		for _, c := range res.Ctl {
			if !c.Returned {
				allReturned = false
			}
		}
		if allReturned {
			for k := range open {
				out = append(out, Violation{Prop: "C11", Key: "C11/plugin-left-open-after-run-ended/" + eng + "/" + shape, Index: len(h.Events),
					Detail: fmt.Sprintf("plugin instance %s/%d is still open although the pipeline ended as %s", k.comp, k.n, res.FinalStatus)})
				break
			}
		}
	}
	for _, c := range res.Ctl {
		if !c.Returned {
			continue
		}
		st := h.statusCertain(c.CallIdx, c.RetIdx)
		switch c.Kind {
		case "stop", "stopandwait", "stopwait", "forcestop":
			if st == "Running" && c.Error() != nil && errors.Is(c.Error(), pipeline.ErrPipelineNotRunning) {
				// the pipeline was reported running during the whole call, with a live source instance
				liveBefore := openAt(c.CallIdx)
				liveAfter := openAt(c.RetIdx)
				for k := range liveBefore {
					if liveAfter[k] {
						out = append(out, Violation{Prop: "C11", Key: "C11/stop-misses-live-run/" + eng, Index: c.RetIdx,
							Detail: fmt.Sprintf("%s answered %q although the pipeline was reported Running and %s/%d is live", c.Kind, truncate(c.Err, 120), k.comp, k.n)})
						break
					}
				}
			}
		case "wait":
			if st == "Degraded" && c.Err == "" && h.ranBefore(c.CallIdx) {
				out = append(out, Violation{Prop: "C11", Key: "C11/wait-nil-for-failed-run/" + eng, Index: c.RetIdx,
					Detail: "WaitPipeline returned nil although the pipeline's last run ended with an error (status Degraded during the whole call)"})
			}
			if st == "Running" {
				liveBefore := openAt(c.CallIdx)
				liveAfter := openAt(c.RetIdx + 1)
				for k := range liveBefore {
					if liveAfter[k] {
						out = append(out, Violation{Prop: "C11", Key: "C11/wait-returned-before-run-ended/" + eng, Index: c.RetIdx,
							Detail: fmt.Sprintf("WaitPipeline returned (%q) while %s/%d of the run it was issued against is still open", truncate(c.Err, 80), k.comp, k.n)})
						break
					}
				}
			}
		case "start":
			if c.Err != "" && (strings.Contains(c.Err, "connector is running") || strings.Contains(c.Err, "processor already running") || strings.Contains(c.Err, "processor is running")) {
				if isTerminalName(st) {
					out = append(out, Violation{Prop: "C11", Key: "C11/cannot-restart-after-run-ended/" + eng + "/" + shape, Index: c.RetIdx,
						Detail: fmt.Sprintf("Start failed with %q although the previous run had ended (%s)", truncate(c.Err, 160), st)})
				}
			}
		}
	}
	return out
}

// ranBefore reports whether a run went live (a successful Running status write) before idx and
// no Start was issued by a client since: a Start attempt, also a failed one, supersedes the
// recorded result of the previous run, so a later wait has no run to report on.
func (h *History) ranBefore(idx int) bool {
	ran := false
	for i, e := range h.Events {
		if i >= idx {
			break
		}
		if e.Kind == EvStatus && e.OK && strings.HasPrefix(e.Info, "Running") {
			ran = true
		}
		if e.Kind == EvCtlCall && e.Comp == "start" && ran {
			// the Running write of this Start (if it succeeds) comes later and sets ran again
			ran = false
		}
	}
	return ran
}

func isTerminalName(s string) bool {
	return s == "UserStopped" || s == "SystemStopped" || s == "Degraded"
}
