package lab

import (
	"fmt"

	"pgregory.net/rapid"
)

// GenOpts shapes the case generator for one property's campaign.
type GenOpts struct {
	Engines    []string
	MaxSources int
	MaxDests   int
	MaxRecords int // per source
	MaxProcs   int // per chain

	Nacks          bool // destination nacks
	ProcErrors     bool
	Filters        bool
	Splits         bool // v2 only
	Conditions     bool
	Workers        bool // v1 parallel processors
	ReadFaults     bool // transient source failures (recovery)
	StreamErrs     bool // destination stream errors
	DLQFaults      bool // DLQ nack / stream error
	StoreFaults    bool
	DLQDeath       int  // percentage of cases in which the DLQ connector's stream dies at the first dead-lettered record (later records exist)
	AckSendFaults  int  // percentage of cases with transient / permanent failures of the host's ack Send
	AckSendNoBreak bool // only transient failures (bursts below the retry bound), never a broken stream
	GateCommits    bool
	GateAcks       bool // the source plugin takes its acks at scheduler-chosen instants
	Holds          bool // a destination or the DLQ stops answering at some record (first run only)
	Hostile        bool // C09: one hostile reply shape of a connector or processor per case
	FreeSched      int  // percentage of cases that run with the boundary scheduler switched off
	GateCalls      int  // percentage of cases in which plugin Open/Stop/Teardown answer at scheduled instants

	// DLQ window: if Unlimited the window never stops the pipeline.
	UnlimitedDLQ bool

	// Client actions: one of these is drawn (or none) and placed at a drawn step.
	ClientKinds []string
	ClientProb  float64 // probability (0..1) that a client action is scripted

	MaxRetries []int64 // choices
}

func pickStr(t *rapid.T, label string, xs []string) string {
	return xs[Uniform(t, label, len(xs))]
}

// chance is true with probability ~pct/100. rapid's integer generators are
// heavily biased towards small values (IntRange(0,99) < 30 holds for ~62% of the
// draws), so the coin is built from fair bits instead (resolution 1/32).
func chance(t *rapid.T, label string, pct int) bool {
	v := 0
	for i := 0; i < 5; i++ {
		v <<= 1
		if rapid.Bool().Draw(t, label) {
			v |= 1
		}
	}
	return v*100 < pct*32
}

// Uniform draws an (almost) unbiased integer in [0,n) from fair bits.
func Uniform(t *rapid.T, label string, n int) int {
	if n <= 1 {
		return 0
	}
	v := 0
	for i := 0; i < 16; i++ {
		v <<= 1
		if rapid.Bool().Draw(t, label) {
			v |= 1
		}
	}
	return v % n
}

// Chance is the exported form of chance.
func Chance(t *rapid.T, label string, pct int) bool { return chance(t, label, pct) }

// sparseKeys draws a small set of "interesting" record keys (DESIGN §11.1).
func sparseKeys(t *rapid.T, label string, nsrc int, ns []int, max int) [][2]int {
	k := rapid.IntRange(0, max).Draw(t, label+".n")
	var out [][2]int
	for i := 0; i < k; i++ {
		s := rapid.IntRange(0, nsrc-1).Draw(t, label+".s")
		if ns[s] == 0 {
			continue
		}
		q := rapid.IntRange(0, ns[s]-1).Draw(t, label+".q")
		out = append(out, [2]int{s, q})
	}
	return out
}

// GenCase draws a case.
func GenCase(t *rapid.T, o GenOpts) *Case {
	c := &Case{}
	c.Engine = pickStr(t, "engine", o.Engines)
	c.PersistDelayMs = []int{1, 1, 2, 5, 20}[rapid.IntRange(0, 4).Draw(t, "pdelay")]
	c.PersistBundle = []int{1, 2, 5, 1000}[rapid.IntRange(0, 3).Draw(t, "pbundle")]
	retries := o.MaxRetries
	if len(retries) == 0 {
		retries = []int64{0}
	}
	c.Recovery = RecoverySpec{MinMs: 2, MaxMs: 8, Factor: 2, WindowMs: 60000,
		MaxRetries: retries[rapid.IntRange(0, len(retries)-1).Draw(t, "retries")]}
	c.GateCommits = o.GateCommits && chance(t, "gatecommits", 40)
	c.GateSrcAcks = o.GateAcks && chance(t, "gateacks", 35)
	c.FreeSched = o.FreeSched > 0 && chance(t, "freesched", o.FreeSched)
	c.GatePluginCalls = o.GateCalls > 0 && !c.FreeSched && chance(t, "gatecalls", o.GateCalls)
	c.GateCallbacks = o.GateCommits && chance(t, "gatecallbacks", 40)

	nsrc := rapid.IntRange(1, max(1, o.MaxSources)).Draw(t, "nsrc")
	ndst := rapid.IntRange(1, max(1, o.MaxDests)).Draw(t, "ndst")
	ns := make([]int, nsrc)
	procSeq := 0
	newProc := func(parent string) string {
		id := fmt.Sprintf("proc%d", procSeq)
		procSeq++
		ps := ProcSpec{ID: id, Parent: parent, Workers: 1, Gen: 1}
		if o.Workers && c.Engine == "v1" && chance(t, "par", 40) {
			ps.Workers = rapid.IntRange(2, 4).Draw(t, "workers")
		}
		if o.Conditions && chance(t, "cond", 30) {
			ps.CondMod = rapid.IntRange(2, 3).Draw(t, "condmod")
			ps.CondRem = rapid.IntRange(0, ps.CondMod-1).Draw(t, "condrem")
		}
		c.Procs = append(c.Procs, ps)
		return id
	}
	for i := 0; i < nsrc; i++ {
		n := rapid.IntRange(0, o.MaxRecords).Draw(t, "n")
		ns[i] = n
		nb := rapid.IntRange(1, 3).Draw(t, "nbatch")
		bs := make([]int, nb)
		for j := range bs {
			bs[j] = rapid.IntRange(1, 5).Draw(t, "batch")
		}
		s := SourceSpec{ID: fmt.Sprintf("src%d", i), N: n, Batches: bs, ReadFaultAfter: -1, EmptyPosAt: -1, DupPosAt: -1,
			Pruning: chance(t, "pruning", 50)}
		np := rapid.IntRange(0, min(2, o.MaxProcs)).Draw(t, "nsrcproc")
		if !chance(t, "srcprocs", 40) {
			np = 0
		}
		for j := 0; j < np; j++ {
			s.Procs = append(s.Procs, newProc(s.ID))
		}
		c.Sources = append(c.Sources, s)
	}
	for i := 0; i < ndst; i++ {
		d := DestSpec{ID: fmt.Sprintf("dst%d", i), PerPiece: map[string]Outcome{}}
		ng := rapid.IntRange(1, 3).Draw(t, "ngroup")
		for j := 0; j < ng; j++ {
			d.Group = append(d.Group, rapid.IntRange(1, 4).Draw(t, "group"))
		}
		np := rapid.IntRange(0, min(2, o.MaxProcs)).Draw(t, "ndstproc")
		if !chance(t, "dstprocs", 35) {
			np = 0
		}
		for j := 0; j < np; j++ {
			d.Procs = append(d.Procs, newProc(d.ID))
		}
		c.Dests = append(c.Dests, d)
	}
	npp := rapid.IntRange(0, o.MaxProcs).Draw(t, "npipeproc")
	if !chance(t, "pipeprocs", 50) {
		npp = 0
	}
	for j := 0; j < npp; j++ {
		newProc("")
	}

	// processor outcomes
	kinds := []string{KModify}
	if o.Filters {
		kinds = append(kinds, KFilter, KFilter)
	}
	if o.ProcErrors {
		kinds = append(kinds, KError)
	}
	if o.Splits && c.Engine == "v2" {
		kinds = append(kinds, KSplit2, KSplit3)
	}
	splitDone := map[[2]int]bool{}
	for pi := range c.Procs {
		p := &c.Procs[pi]
		p.PerRecord = map[string]string{}
		for _, k := range sparseKeys(t, "prockeys", nsrc, ns, 4) {
			kind := pickStr(t, "kind", kinds)
			if kind == KSplit2 || kind == KSplit3 {
				// at most one split per record on any path (piece numbering, DESIGN §6 C08 lab part)
				if splitDone[k] || p.Workers > 1 {
					continue
				}
				splitDone[k] = true
			}
			p.PerRecord[Key(k[0], k[1], 0)] = kind
		}
	}
	// v2 refuses a split run that is cut at a fan-out by a nack/short in between; the lab
	// campaign keeps splits on destination-level processors or pipelines with one destination
	// unless the property is about the refusal (C08/C09 direct).
	if o.Splits && c.Engine == "v2" && ndst > 1 {
		for pi := range c.Procs {
			p := &c.Procs[pi]
			isDestProc := false
			for _, d := range c.Dests {
				if p.Parent == d.ID {
					isDestProc = true
				}
			}
			if isDestProc {
				continue
			}
			for k, kind := range p.PerRecord {
				if kind == KSplit2 || kind == KSplit3 {
					p.PerRecord[k] = KModify
				}
			}
		}
	}

	// destination outcomes
	if o.Nacks {
		for di := range c.Dests {
			for _, k := range sparseKeys(t, "nackkeys", nsrc, ns, 3) {
				piece := 0
				c.Dests[di].PerPiece[Key(k[0], k[1], piece)] = OutNack
				// also cover pieces of split records
				if chance(t, "nackpiece", 50) {
					c.Dests[di].PerPiece[Key(k[0], k[1], rapid.IntRange(1, 3).Draw(t, "piece"))] = OutNack
				}
			}
		}
	}
	nackRunWindow := false
	// runs of consecutive rejections (they reach the DLQ in one call in arch-v2), optionally with a
	// DLQ failure inside the run
	if o.Nacks && chance(t, "nackrun", 50) {
		di := Uniform(t, "nackrundest", ndst)
		si := Uniform(t, "nackrunsrc", nsrc)
		if ns[si] >= 2 {
			start := Uniform(t, "nackrunstart", ns[si]-1)
			length := 2 + Uniform(t, "nackrunlen", 3)
			if start+length > ns[si] {
				length = ns[si] - start
			}
			for q := start; q < start+length; q++ {
				c.Dests[di].PerPiece[Key(si, q, 0)] = OutNack
			}
			if chance(t, "nackrunbatch", 50) {
				c.Sources[si].Batches = []int{5}
			}
			nackRunWindow = chance(t, "nackrunwindow", 70)
			if o.DLQFaults && length >= 2 && chance(t, "nackrundlq", 70) {
				if c.DLQ.PerRecord == nil {
					c.DLQ.PerRecord = map[string]Outcome{}
				}
				// not the last record of the run: a later one is accepted by the DLQ
				q := start + Uniform(t, "nackrundlqat", length-1)
				c.DLQ.PerRecord[Key(si, q, 0)] = OutNack
				// or the DLQ connector's stream dies at that record, half of the time without an
				// error (io.EOF): every later dead-letter write of the run fails as well
				if chance(t, "nackrundlqerr", 45) {
					c.DLQ.PerRecord[Key(si, q, 0)] = OutErr
					c.DLQ.ErrEOF = chance(t, "nackrundlqeof", 50)
				}
			}
		}
	}
	if o.DLQDeath > 0 && o.Nacks && chance(t, "dlqdeath", o.DLQDeath) {
		si := Uniform(t, "dlqdeathsrc", nsrc)
		if ns[si] >= 3 {
			q := Uniform(t, "dlqdeathat", ns[si]-2)
			di := Uniform(t, "dlqdeathdest", ndst)
			c.Dests[di].PerPiece[Key(si, q, 0)] = OutNack
			if c.DLQ.PerRecord == nil {
				c.DLQ.PerRecord = map[string]Outcome{}
			}
			c.DLQ.PerRecord[Key(si, q, 0)] = OutErr
			c.DLQ.ErrEOF = chance(t, "dlqdeatheof", 60)
			nackRunWindow = true // the window tolerates the rejection: the DLQ write is attempted
		}
	}
	if o.StreamErrs && chance(t, "streamerr", 30) {
		di := rapid.IntRange(0, ndst-1).Draw(t, "errdest")
		for _, k := range sparseKeys(t, "errkeys", nsrc, ns, 1) {
			c.Dests[di].PerPiece[Key(k[0], k[1], 0)] = OutErr
			c.Dests[di].ErrEOF = chance(t, "erreof", 40)
		}
	}

	// DLQ
	if c.DLQ.PerRecord == nil {
		c.DLQ.PerRecord = map[string]Outcome{}
	}
	if o.UnlimitedDLQ || nackRunWindow {
		c.DLQ.WindowSize, c.DLQ.Threshold = 0, 0
	} else {
		// valid configurations only (pipeline.Service.UpdateDLQ): size 0, or threshold < size
		c.DLQ.WindowSize = rapid.IntRange(0, 6).Draw(t, "dlqwin")
		if c.DLQ.WindowSize == 0 {
			c.DLQ.Threshold = rapid.IntRange(0, 3).Draw(t, "dlqthr")
		} else {
			c.DLQ.Threshold = rapid.IntRange(0, c.DLQ.WindowSize-1).Draw(t, "dlqthr")
		}
	}
	if o.DLQFaults && chance(t, "dlqfault", 35) {
		for _, k := range sparseKeys(t, "dlqkeys", nsrc, ns, 2) {
			c.DLQ.PerRecord[Key(k[0], k[1], 0)] = Outcome(pickStr(t, "dlqout", []string{string(OutNack), string(OutErr)}))
			c.DLQ.ErrEOF = chance(t, "dlqerreof", 40)
		}
	}

	if o.Holds && chance(t, "hold", 60) {
		if chance(t, "holddlq", 25) {
			for _, k := range sparseKeys(t, "holdkeys", nsrc, ns, 1) {
				c.DLQ.PerRecord[Key(k[0], k[1], 0)] = OutHold
			}
		} else {
			di := Uniform(t, "holddest", ndst)
			for _, k := range sparseKeys(t, "holdkeys", nsrc, ns, 2) {
				c.Dests[di].PerPiece[Key(k[0], k[1], 0)] = OutHold
			}
		}
	}

	if o.ReadFaults && chance(t, "readfault", 40) {
		si := rapid.IntRange(0, nsrc-1).Draw(t, "rfsrc")
		if ns[si] > 0 {
			c.Sources[si].ReadFaultAfter = rapid.IntRange(0, ns[si]-1).Draw(t, "rfafter")
			c.Sources[si].ReadFaultKind = "plain"
			c.Sources[si].ReadFaultInst = rapid.IntRange(1, 2).Draw(t, "rfinst")
		}
	}
	if o.AckSendFaults > 0 && chance(t, "acksendfault", o.AckSendFaults) {
		si := Uniform(t, "asfsrc", nsrc)
		GenAckSendFaults(t, &c.Sources[si])
		if o.AckSendNoBreak {
			c.Sources[si].AckSendBreakAtP1 = 0
		}
	}
	if o.StoreFaults && chance(t, "storefault", 40) {
		kind := FaultKind(pickStr(t, "sfkind", []string{string(FaultSet), string(FaultCommit), string(FaultNewTxn)}))
		f := Fault{Kind: kind, Index: rapid.IntRange(0, 12).Draw(t, "sfidx")}
		if kind == FaultSet {
			f.KeyPrefix = "connector:instance:"
		}
		c.StoreFaults = append(c.StoreFaults, f)
	}

	if o.Hostile && chance(t, "hostile", 75) {
		si := Uniform(t, "hostsrc", nsrc)
		q := 0
		if ns[si] > 0 {
			q = Uniform(t, "hostseq", ns[si])
		}
		needProc := func() *ProcSpec {
			if len(c.Procs) == 0 {
				c.Procs = append(c.Procs, ProcSpec{ID: "proc0", Parent: "", Workers: 1, Gen: 1, PerRecord: map[string]string{}})
			}
			p := &c.Procs[Uniform(t, "hostproc", len(c.Procs))]
			if p.PerRecord == nil {
				p.PerRecord = map[string]string{}
			}
			return p
		}
		kinds := []string{"dst-wrong-position", "dst-extra-ack", "src-empty-position", "src-duplicate-position",
			"proc-nil-result", "proc-surplus-result", "proc-multi0", "proc-multi1", "proc-changes-position"}
		c.Hostile = kinds[Uniform(t, "hostkind", len(kinds))]
		switch c.Hostile {
		case "dst-wrong-position":
			c.Dests[Uniform(t, "hostdst", ndst)].PerPiece[Key(si, q, 0)] = OutWrongPos
		case "dst-extra-ack":
			c.Dests[Uniform(t, "hostdst", ndst)].PerPiece[Key(si, q, 0)] = OutExtra
		case "src-empty-position":
			c.Sources[si].EmptyPosAt = q
		case "src-duplicate-position":
			if q == 0 && ns[si] > 1 {
				q = 1
			}
			c.Sources[si].DupPosAt = q
		case "proc-nil-result":
			needProc().PerRecord[Key(si, q, 0)] = KNil
		case "proc-surplus-result":
			needProc().PerRecord[Key(si, q, 0)] = KSurplus
		case "proc-multi0":
			needProc().PerRecord[Key(si, q, 0)] = KMulti0
		case "proc-multi1":
			needProc().PerRecord[Key(si, q, 0)] = KMulti1
		case "proc-changes-position":
			needProc().PerRecord[Key(si, q, 0)] = KChangePos
		}
	}

	if len(o.ClientKinds) > 0 && chance(t, "clientp", int(o.ClientProb*100)) {
		total := c.TotalRecords()
		c.Client = append(c.Client, ClientAction{
			Kind:   pickStr(t, "client", o.ClientKinds),
			AtStep: rapid.IntRange(0, 2*total+6).Draw(t, "clientat"),
		})
	}
	return c
}

// GenAckSendFaults scripts failures of the host's ack Send for one source: 1-3 bursts of 1-3
// consecutive failing attempts (always far below the engine's documented retry bound of 12, so
// every such ack must still be delivered, in order), and in a quarter of the cases a stream that
// is broken for good from some attempt on (first plugin instance only).
func GenAckSendFaults(t *rapid.T, s *SourceSpec) {
	nb := 1 + Uniform(t, "asfbursts", 3)
	at := 0
	for b := 0; b < nb; b++ {
		at += Uniform(t, "asfgap", 4)
		l := 1 + Uniform(t, "asflen", 3)
		for i := 0; i < l; i++ {
			s.AckSendFail = append(s.AckSendFail, at)
			at++
		}
		at++ // at least one successful attempt between two bursts
	}
	if chance(t, "asfbreak", 25) {
		s.AckSendBreakAtP1 = 1 + Uniform(t, "asfbreakat", 8)
	}
}
