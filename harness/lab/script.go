package lab

import (
	"fmt"
	"strconv"
	"strings"
)

// Outcome of a destination (or DLQ) for one written record.
type Outcome string

const (
	OutAck      Outcome = "ack"
	OutNack     Outcome = "nack"     // negative ack for that record
	OutErr      Outcome = "err"      // the plugin fails its stream with an error instead of answering
	OutHold     Outcome = "hold"     // never answers; blocks until its context is cancelled
	OutWrongPos Outcome = "wrongpos" // C09: acks a position that was not written
	OutExtra    Outcome = "extra"    // C09: sends one ack more than records written
)

// Processor result kinds for one input record.
const (
	KPass      = "pass"
	KModify    = "modify"
	KFilter    = "filter"
	KError     = "error"
	KSplit2    = "split2"
	KSplit3    = "split3"
	KChangePos = "changepos"
	KNil       = "nil"     // C09: returns a nil ProcessedRecord at that index
	KMulti0    = "multi0"  // MultiRecord{} (documented as filter in v2)
	KMulti1    = "multi1"  // MultiRecord with one record
	KShort     = "short"   // per call: cut the output before this record (retry of the tail)
	KSurplus   = "surplus" // C09: one result more than inputs
)

// Key identifies a record (or a piece of a split record) independent of any schedule.
func Key(src, seq, piece int) string { return fmt.Sprintf("%d:%d:%d", src, seq, piece) }

// ParseKey is the inverse of Key.
func ParseKey(k string) (src, seq, piece int) {
	p := strings.Split(k, ":")
	if len(p) != 3 {
		return -1, -1, 0
	}
	src, _ = strconv.Atoi(p[0])
	seq, _ = strconv.Atoi(p[1])
	piece, _ = strconv.Atoi(p[2])
	return
}

type SourceSpec struct {
	ID      string   `json:"id"`
	N       int      `json:"n"`                 // records available upstream
	Batches []int    `json:"batches"`           // batch sizes, cycled
	Pruning bool     `json:"pruning,omitempty"` // upstream discards what was acked
	Procs   []string `json:"procs,omitempty"`

	// ReadFaultAfter: the plugin's stream fails right after record seq was
	// handed to the engine (-1: never). It applies to plugin instance
	// ReadFaultInst (1 = the first run) only, so a recovery restart can succeed.
	ReadFaultAfter int    `json:"read_fault_after"`
	ReadFaultKind  string `json:"read_fault_kind,omitempty"` // "plain"
	ReadFaultInst  int    `json:"read_fault_inst,omitempty"`
	// ReadFaultUpTo: if > 0 the fault applies to every plugin instance <= ReadFaultUpTo instead.
	ReadFaultUpTo int `json:"read_fault_up_to,omitempty"`

	// C09 hostile shapes.
	EmptyPosAt int `json:"empty_pos_at"` // seq whose position is empty (-1 none)
	DupPosAt   int `json:"dup_pos_at"`   // seq that repeats the previous position (-1 none)

	// OpenFail: Open of plugin instance k fails (0 = never).
	OpenFailInst int `json:"open_fail_inst,omitempty"`

	// AckSendFail: the host's stream.Send of an ack message fails without delivering it at these
	// attempt indices (0-based, counted per connector across plugin instances): transient failures
	// of the plugin stream. AckSendBreakAt >= 0: from that attempt on every Send of plugin
	// instance 1 fails (a broken stream); -1/absent = never. A zero value means "not scripted"
	// for replay files written before the field existed, hence the +1 encoding.
	AckSendFail      []int `json:"ack_send_fail,omitempty"`
	AckSendBreakAtP1 int   `json:"ack_send_break_at_p1,omitempty"`
}

type ProcSpec struct {
	ID      string `json:"id"`
	Parent  string `json:"parent"` // "" = pipeline level, else connector id
	Workers int    `json:"workers"`
	// Cond: if non-empty the processor only runs for records whose origin seq
	// satisfies seq % CondMod == CondRem (expressed as a Go template over metadata).
	CondMod int `json:"cond_mod,omitempty"`
	CondRem int `json:"cond_rem,omitempty"`
	Gen     int `json:"gen"`
	// PerRecord maps Key(src,seq,piece) -> kind; default pass.
	PerRecord map[string]string `json:"per_record,omitempty"`
	// ShortAt: when a Process call contains the record with this key at index>0,
	// the output is cut right before it (once per key).
	ShortAt map[string]bool `json:"short_at,omitempty"`
	// OpenFailGen: Open fails when the processor is configured with this gen (0 = never).
	OpenFailGen int `json:"open_fail_gen,omitempty"`
}

type DestSpec struct {
	ID    string   `json:"id"`
	Procs []string `json:"procs,omitempty"`
	// PerPiece maps Key(src,seq,piece) -> outcome; default ack.
	PerPiece map[string]Outcome `json:"per_piece,omitempty"`
	// Group: how many acks go into one response, cycled (default 1).
	Group []int `json:"group,omitempty"`
	// ErrInstMax: a scripted stream error (OutErr) only fires in plugin instances <= ErrInstMax
	// (0 = every instance), so that a recovery restart can get past it.
	ErrInstMax int `json:"err_inst_max,omitempty"`
	// ErrEOF: a scripted stream error ends the stream WITHOUT an error (the plugin process went
	// away): the engine sees io.EOF instead of a plugin error.
	ErrEOF bool `json:"err_eof,omitempty"`
}

type DLQSpec struct {
	WindowSize int `json:"window_size"`
	Threshold  int `json:"threshold"`
	// PerRecord maps Key(src,seq,0) -> outcome of the DLQ write; default ack.
	PerRecord map[string]Outcome `json:"per_record,omitempty"`
	// ErrEOF: as DestSpec.ErrEOF, for the DLQ connector.
	ErrEOF bool `json:"err_eof,omitempty"`
}

type RecoverySpec struct {
	MinMs      int   `json:"min_ms"`
	MaxMs      int   `json:"max_ms"`
	Factor     int   `json:"factor"`
	MaxRetries int64 `json:"max_retries"`
	WindowMs   int   `json:"window_ms"`
}

// ClientAction is a control call issued by the harness at scheduler step AtStep
// (or when the world is idle, whichever comes first).
type ClientAction struct {
	AtStep int    `json:"at_step"`
	Kind   string `json:"kind"` // stop | forcestop | stopandwait | stopall | start | reconfigure | failsource | wait
	Arg    string `json:"arg,omitempty"`
	Arg2   int    `json:"arg2,omitempty"`
}

// Case is a complete generated scenario (DESIGN §11.1).
type Case struct {
	Engine         string         `json:"engine"` // v1 | v2
	PersistDelayMs int            `json:"persist_delay_ms"`
	PersistBundle  int            `json:"persist_bundle"`
	// GatePluginCalls: Open, Stop and Teardown of the fake connectors and processors answer at
	// scheduler-chosen instants (slow plugin calls; a call whose context is cancelled meanwhile
	// answers right after the engine stopped waiting for it).
	GatePluginCalls bool `json:"gate_plugin_calls,omitempty"`
	// FreeSched: the boundary scheduler is switched off, every plugin answers at once; the
	// interleaving is left to the Go scheduler (reaches windows inside the engine that lie
	// between two plugin boundaries, at the price of a replay that is not schedule-exact).
	FreeSched bool `json:"free_sched,omitempty"`
	// Hostile names the one hostile plugin reply shape scripted in this case ("" = none).
	Hostile string `json:"hostile,omitempty"`
	// HoldStartInRecovery: a scripted Start is not issued while the pipeline reports Recovering
	// (used to keep the search going behind a known finding of that shape).
	HoldStartInRecovery bool `json:"hold_start_in_recovery,omitempty"`
	// WaitAtEnd: once the pipeline has ended and every call has returned, one more WaitPipeline
	// is issued (a waiter that arrives after the run's cleanup).
	WaitAtEnd bool `json:"wait_at_end,omitempty"`
	// StatusFailAt lists the status writes (0 = the first one of the case) whose store write fails.
	StatusFailAt []int `json:"status_fail_at,omitempty"`
	// LogDelayMs > 0: the engine's log sink is slow, every warn/error line takes this long to
	// write (the window between an engine step and the next one that a log call separates).
	LogDelayMs int `json:"log_delay_ms,omitempty"`
	Recovery       RecoverySpec   `json:"recovery"`
	Sources        []SourceSpec   `json:"sources"`
	Procs          []ProcSpec     `json:"procs,omitempty"`
	Dests          []DestSpec     `json:"dests"`
	DLQ            DLQSpec        `json:"dlq"`
	StoreFaults    []Fault        `json:"store_faults,omitempty"`
	GateCommits    bool           `json:"gate_commits,omitempty"`
	// GateSrcAcks: the source plugin holds every ack message it received until the scheduler
	// releases it (a plugin that is slow to take acks).
	GateSrcAcks bool `json:"gate_src_acks,omitempty"`
	GateCallbacks  bool           `json:"gate_callbacks,omitempty"` // persister callbacks are scheduler actions
	GateStatus     bool           `json:"gate_status,omitempty"`    // the return of every pipeline status write is a scheduler action
	Client         []ClientAction `json:"client,omitempty"`
	GoMaxProcs     int            `json:"gomaxprocs,omitempty"`
	// Choices is filled while running: the scheduler's draws (index, set size).
	Choices [][2]int `json:"choices,omitempty"`
}

func (c *Case) Proc(id string) *ProcSpec {
	for i := range c.Procs {
		if c.Procs[i].ID == id {
			return &c.Procs[i]
		}
	}
	return nil
}

// PipelineProcs returns the ids of the pipeline-level processors in order.
func (c *Case) PipelineProcs() []string {
	var out []string
	for _, p := range c.Procs {
		if p.Parent == "" {
			out = append(out, p.ID)
		}
	}
	return out
}

func (c *Case) TotalRecords() int {
	n := 0
	for _, s := range c.Sources {
		n += s.N
	}
	return n
}

// PosOf is the position the fake source gives record seq of source src.
func PosOf(src, seq int) string { return fmt.Sprintf("s%d:%06d", src, seq) }

// ParsePos parses a position produced by PosOf. ok=false for anything else.
func ParsePos(p string) (src, seq int, ok bool) {
	if len(p) < 4 || p[0] != 's' {
		return 0, 0, false
	}
	i := strings.IndexByte(p, ':')
	if i < 2 {
		return 0, 0, false
	}
	a, err1 := strconv.Atoi(p[1:i])
	b, err2 := strconv.Atoi(p[i+1:])
	if err1 != nil || err2 != nil {
		return 0, 0, false
	}
	return a, b, true
}


// Faultless reports whether the script contains nothing that can make the pipeline fail: every
// destination and the DLQ confirm everything, processors only pass, modify, filter or split,
// sources never fail, no store or status faults, no hostile shapes.
func (c *Case) Faultless() bool {
	if len(c.StatusFailAt) > 0 || len(c.DLQ.PerRecord) > 0 {
		return false
	}
	for _, s := range c.Sources {
		if s.ReadFaultAfter >= 0 || s.EmptyPosAt >= 0 || s.DupPosAt >= 0 || s.OpenFailInst != 0 {
			return false
		}
	}
	for _, d := range c.Dests {
		for _, o := range d.PerPiece {
			if o != OutAck {
				return false
			}
		}
	}
	for _, p := range c.Procs {
		if p.OpenFailGen != 0 || len(p.ShortAt) > 0 {
			return false
		}
		for _, k := range p.PerRecord {
			switch k {
			case KPass, KModify, KFilter, KSplit2, KSplit3:
			default:
				return false
			}
		}
	}
	return true
}


// MakeFaultless removes everything from the script that can make the pipeline fail (see Faultless).
func (c *Case) MakeFaultless() {
	c.StatusFailAt = nil
	c.DLQ.PerRecord = map[string]Outcome{}
	for i := range c.Sources {
		c.Sources[i].ReadFaultAfter, c.Sources[i].EmptyPosAt, c.Sources[i].DupPosAt, c.Sources[i].OpenFailInst = -1, -1, -1, 0
	}
	for i := range c.Dests {
		c.Dests[i].PerPiece = map[string]Outcome{}
	}
	for i := range c.Procs {
		c.Procs[i].OpenFailGen = 0
		c.Procs[i].ShortAt = nil
		for k, kind := range c.Procs[i].PerRecord {
			switch kind {
			case KPass, KModify, KFilter, KSplit2, KSplit3:
			default:
				delete(c.Procs[i].PerRecord, k)
			}
		}
	}
}
