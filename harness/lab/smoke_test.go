package lab

import (
	"testing"
)

func simpleCase(engine string) *Case {
	return &Case{
		Engine: engine, PersistDelayMs: 1, PersistBundle: 1,
		Recovery: RecoverySpec{MinMs: 5, MaxMs: 20, Factor: 2, MaxRetries: 0, WindowMs: 1000},
		Sources:  []SourceSpec{{ID: "src0", N: 7, Batches: []int{2, 3}, ReadFaultAfter: -1, EmptyPosAt: -1, DupPosAt: -1}},
		Dests: []DestSpec{
			{ID: "dst0", PerPiece: map[string]Outcome{Key(0, 3, 0): OutNack}},
			{ID: "dst1"},
		},
		DLQ: DLQSpec{WindowSize: 0, Threshold: 0},
	}
}

func TestSmokeLab(t *testing.T) {
	for _, eng := range []string{"v1", "v2"} {
		c := simpleCase(eng)
		k := 0
		res := RunCase(c, func(n int) int { k++; return k % n })
		t.Logf("engine=%s steps=%d status=%s err=%q wedged=%v inconclusive=%q elapsed=%s startErr=%v provErr=%v",
			eng, res.Steps, res.FinalStatus, res.FinalErr, res.Wedged, res.Inconclusive, res.Elapsed, res.StartErr, res.ProvisionErr)
		t.Log("\n" + Format(res.Events, 0))
	}
}
