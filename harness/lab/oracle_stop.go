package lab

import (
	"fmt"
	"strings"
)

// pluginEventKinds are the events produced by plugin activity.
func isPluginEvent(k string) bool {
	switch k {
	case EvSrcOpen, EvSrcEmit, EvSrcAck, EvSrcStop, EvSrcTeardown, EvDstOpen, EvDstWrite, EvDstAck, EvDstStop, EvDstTeardown,
		EvProcOpen, EvProcCall, EvProcTear:
		return true
	}
	return false
}

// storedAt returns the stored seq per source as of log index idx (exclusive).
func (h *History) storedAt(snaps SnapshotFn, idx int) []int {
	cur := make([]int, len(h.Case.Sources))
	for i := range cur {
		cur[i] = -1
	}
	last := 0
	for i, e := range h.Events {
		if i >= idx {
			break
		}
		if (e.Kind == EvDBCommit || e.Kind == EvDBSet) && e.OK && e.Snap != 0 {
			last = e.Snap
		}
	}
	if last == 0 {
		return cur
	}
	snap := snaps(last)
	for si, s := range h.Case.Sources {
		q, present := storedSeq(snap, s.ID, si)
		if present {
			cur[si] = q
		}
	}
	return cur
}

// Healthy reports whether the run never failed: status history is Running then a stopped status only.
func (h *History) Healthy() bool {
	for _, e := range h.Events {
		if e.Kind == EvStatus && (strings.HasPrefix(e.Info, "Degraded") || strings.HasPrefix(e.Info, "Recovering")) {
			return false
		}
		if e.Kind == EvDstErr {
			return false
		}
	}
	return true
}

// CheckC06 checks the state at the instant a graceful stop-and-wait returned nil.
// ctlKind is "stopandwait" or "stopwait".
func (h *History) CheckC06(snaps SnapshotFn, ctl []*CtlResult) []Violation {
	var out []Violation
	var call *CtlResult
	for _, c := range ctl {
		if (c.Kind == "stopandwait" || c.Kind == "stopwait" || c.Kind == "stopallwait") && c.Returned && c.Err == "" {
			call = c
			break
		}
	}
	if call == nil || !h.Healthy() {
		return nil
	}
	ret := call.RetIdx
	eng := h.Case.Engine

	// (d) nothing happens at the plugins after the call returned
	for i := ret + 1; i < len(h.Events); i++ {
		if isPluginEvent(h.Events[i].Kind) {
			out = append(out, Violation{Prop: "C06", Key: "C06/plugin-activity-after-stop-returned/" + eng, Index: i,
				Detail: fmt.Sprintf("%s happened after %s returned nil", h.Events[i].String(), call.Kind)})
			break
		}
	}

	type inst struct {
		comp string
		n    int
	}
	opens, tears := map[inst]int{}, map[inst]int{}
	procOpens, procTears := map[inst]int{}, map[inst]int{}
	srcTear := map[string]int{} // source comp -> index of its (last) teardown
	type wkey struct {
		comp string
		k    string
	}
	written := map[wkey]int{}
	answered := map[wkey]bool{}
	reached := map[[2]int]int{}  // record -> first index of a write to a destination or the DLQ
	ackedAt := map[[2]int]int{}  // record -> index of its src.ack
	lastAck := map[int]int{}     // source idx -> highest acked seq
	for i, e := range h.Events[:ret+1] {
		switch e.Kind {
		case EvSrcOpen, EvDstOpen:
			if e.Info == "" {
				opens[inst{e.Comp, e.Inst}]++
			}
		case EvSrcTeardown, EvDstTeardown:
			tears[inst{e.Comp, e.Inst}]++
			if e.Kind == EvSrcTeardown {
				srcTear[e.Comp] = i
			}
		case EvProcOpen:
			if e.Info == "" {
				procOpens[inst{e.Comp, e.Inst}]++
			}
		case EvProcTear:
			procTears[inst{e.Comp, e.Inst}]++
		case EvDstWrite:
			k := wkey{e.Comp, Key(e.Src, e.Seq, e.Piece)}
			if _, ok := written[k]; !ok {
				written[k] = i
			}
			if e.Src >= 0 {
				rk := [2]int{e.Src, e.Seq}
				if _, ok := reached[rk]; !ok {
					reached[rk] = i
				}
			}
		case EvDstAck:
			answered[wkey{e.Comp, Key(e.Src, e.Seq, e.Piece)}] = true
		case EvSrcAck:
			if e.Src >= 0 {
				ackedAt[[2]int{e.Src, e.Seq}] = i
				if q, ok := lastAck[e.Src]; !ok || e.Seq > q {
					lastAck[e.Src] = e.Seq
				}
			}
		}
	}
	// (a) every record that reached a destination or the DLQ has its final outcome ...
	for k, wi := range written {
		if !answered[k] {
			out = append(out, Violation{Prop: "C06", Key: "C06/written-record-without-outcome/" + eng, Index: wi,
				Detail: fmt.Sprintf("%s was written %s but the stop completed without its confirmation being awaited", k.comp, k.k)})
			break
		}
	}
	// ... and was acked to its source before that source was torn down
	for rk, wi := range reached {
		ai, ok := ackedAt[rk]
		srcID := ""
		if rk[0] < len(h.Case.Sources) {
			srcID = h.Case.Sources[rk[0]].ID
		}
		if !ok {
			out = append(out, Violation{Prop: "C06", Key: "C06/handled-record-not-acked/" + eng, Index: wi,
				Detail: fmt.Sprintf("s%d:%d reached a destination/DLQ but its source was never told it is acked before %s returned", rk[0], rk[1], call.Kind)})
			break
		}
		if ti, torn := srcTear[srcID]; torn && ai > ti {
			out = append(out, Violation{Prop: "C06", Key: "C06/ack-after-source-teardown/" + eng, Index: ai,
				Detail: fmt.Sprintf("s%d:%d was acked after source %s was torn down", rk[0], rk[1], srcID)})
			break
		}
	}
	// (c) stored position == last acked position
	stored := h.storedAt(snaps, ret+1)
	for si, s := range h.Case.Sources {
		want := -1
		if q, ok := lastAck[si]; ok {
			want = q
		}
		if stored[si] != want {
			out = append(out, Violation{Prop: "C06", Key: "C06/stored-position-not-last-ack/" + eng, Index: ret,
				Detail: fmt.Sprintf("when %s returned the store held seq %d for %s but the last acked record is seq %d", call.Kind, stored[si], s.ID, want)})
		}
	}
	// (d) open/teardown pairing
	for k, n := range opens {
		if tears[k] != n {
			out = append(out, Violation{Prop: "C06", Key: "C06/open-teardown-mismatch/connector/" + eng, Index: ret,
				Detail: fmt.Sprintf("plugin %s/%d was opened %d time(s) and torn down %d time(s) when %s returned", k.comp, k.n, n, tears[k], call.Kind)})
			break
		}
	}
	for id, n := range procOpens {
		// a processor instance that was opened (a v1 parallel processor: once per worker on one
		// shared object) is torn down as often; instances that were never opened (the
		// throw-away instance processor.Service.Create builds) are not this clause's concern
		if procTears[id] != n {
			out = append(out, Violation{Prop: "C06", Key: "C06/open-teardown-mismatch/processor/" + eng, Index: ret,
				Detail: fmt.Sprintf("processor %s/%d was opened %d time(s) and torn down %d time(s) when %s returned", id.comp, id.n, n, procTears[id], call.Kind)})
			break
		}
	}
	return out
}

// CheckStopWedge: a graceful stop of a healthy pipeline that never completes.
func CheckStopWedge(res *Result, h *History) []Violation {
	if !res.Wedged || !h.Healthy() || res.Case.HasHold() {
		return nil
	}
	vs := CheckWedge(res)
	for i := range vs {
		vs[i].Prop = "C06"
		vs[i].Key = strings.Replace(vs[i].Key, "C11/wedge/", "C06/stop-never-completes/", 1)
	}
	return vs
}

// CheckC12 checks a force stop: the run ends, the pipeline is degraded by the
// force stop and is not restarted automatically. idx is the ctl result of the force stop.
func (h *History) CheckC12(res *Result) []Violation {
	var out []Violation
	var call *CtlResult
	for _, c := range res.Ctl {
		if c.Kind == "forcestop" && c.Returned && c.Err == "" {
			call = c
			break
		}
	}
	eng := h.Case.Engine
	if res.Wedged {
		// only a run that does not end although a force stop was ACCEPTED is this property's
		// concern (a refused force stop leaves a pipeline whose plugins may hang legitimately)
		if call == nil {
			return nil
		}
		vs := CheckWedge(res)
		for i := range vs {
			vs[i].Prop = "C12"
			vs[i].Key = strings.Replace(vs[i].Key, "C11/wedge/", "C12/run-does-not-terminate/", 1)
		}
		return vs
	}
	if call == nil {
		return nil
	}
	// status after the force stop: the next terminal status write must be Degraded mentioning the force stop
	// The forced run's terminal status is the first status write that BEGINS after the force stop
	// was issued (a start-up's own Running write aside). Its completion can be logged much later,
	// even after a following run (the in-memory status changes when the write begins, the runner
	// may already have issued the scripted Start): the matching completion event is looked up.
	var term *Event
	termIdx := -1
	for i := call.CallIdx; i < len(h.Events); i++ {
		b := h.Events[i]
		if b.Kind != EvStatusBegin || strings.HasPrefix(b.Info, "Running") {
			continue
		}
		for j := i + 1; j < len(h.Events); j++ {
			e := h.Events[j]
			if e.Kind == EvStatus && strings.HasPrefix(e.Info, b.Info) {
				term = &h.Events[j]
				termIdx = i // position of the forced run's end in the history
				break
			}
		}
		break
	}
	if term == nil {
		out = append(out, Violation{Prop: "C12", Key: "C12/no-terminal-status/" + eng, Index: call.RetIdx,
			Detail: "force stop returned nil but the pipeline never reached a terminal status"})
		return out
	}
	// A graceful stop that was accepted before the force stop may complete first: the run then
	// ends as stopped, truthfully. What may never follow an accepted force stop is a run that
	// goes on (Recovering / Running).
	gracefulBefore := false
	for _, c := range res.Ctl {
		if (c.Kind == "stop" || c.Kind == "stopandwait" || c.Kind == "stopwait" || c.Kind == "stopall" || c.Kind == "stopallwait") &&
			c.CallIdx < call.CallIdx && (!c.Returned || c.Err == "") {
			gracefulBefore = true
		}
	}
	// ... unless a destination or the DLQ had already stopped answering (a scripted hold that was
	// engaged before the force stop was issued): that run cannot drain, only the force stop ends it.
	for _, e := range h.Events[:call.CallIdx] {
		if e.Kind == EvNote && e.Info == "hold" {
			gracefulBefore = false
		}
	}
	stoppedGracefully := strings.HasPrefix(term.Info, "UserStopped") || strings.HasPrefix(term.Info, "SystemStopped")
	// The run had already ended by itself when the force stop was issued (its cleanup had begun
	// to write the follow-up status): the stop hits the dead run of the recovery window. Keyed
	// separately (the default engine's documented recovery-window gap).
	endedBefore := false
	for i := call.CallIdx - 1; i >= 0; i-- {
		e := h.Events[i]
		if e.Kind == EvStatus {
			break
		}
		if e.Kind == EvStatusBegin && !strings.HasPrefix(e.Info, "Running") {
			endedBefore = true
			break
		}
	}
	if endedBefore && !(strings.HasPrefix(term.Info, "Degraded") && strings.Contains(term.Pos, "force stop")) {
		out = append(out, Violation{Prop: "C12", Key: "C12/force-stop-lost/" + eng + "/run-already-ended", Index: termIdx,
			Detail: fmt.Sprintf("a force stop accepted while the run's cleanup was already writing its follow-up status is lost: next status %q", term.Info)})
		return out
	}
	if !strings.HasPrefix(term.Info, "Degraded") && !(gracefulBefore && stoppedGracefully) {
		out = append(out, Violation{Prop: "C12", Key: "C12/not-degraded-after-force-stop/" + eng, Index: termIdx,
			Detail: fmt.Sprintf("after a successful force stop the next status is %q, expected Degraded", term.Info)})
	} else if strings.HasPrefix(term.Info, "Degraded") && !strings.Contains(term.Pos, "force stop") {
		out = append(out, Violation{Prop: "C12", Key: "C12/degraded-without-force-stop-cause/" + eng, Index: termIdx,
			Detail: fmt.Sprintf("status error does not name the force stop: %q", truncate(term.Pos, 160))})
	}
	// no automatic restart: no source is opened after the terminal status unless a start was issued
	started := -1
	for _, c := range res.Ctl {
		if c.Kind == "start" && c.CallIdx > call.CallIdx {
			started = c.CallIdx
			break
		}
	}
	// Plugin calls of the forced run can be logged after the terminal status (a force stop during
	// start-up reaches Teardown while Open is still in progress; a slow Open answers late): only
	// the open of an instance that was dispensed AFTER the terminal status is a restart.
	dispensedAfter := map[string]bool{}
	for i := termIdx + 1; i < len(h.Events); i++ {
		if e := h.Events[i]; e.Kind == EvSrcNew {
			dispensedAfter[fmt.Sprintf("%s/%d", e.Comp, e.Inst)] = true
		}
	}
	for i := termIdx + 1; i < len(h.Events); i++ {
		if started >= 0 && i > started {
			break
		}
		e := h.Events[i]
		if e.Kind == EvSrcOpen && !dispensedAfter[fmt.Sprintf("%s/%d", e.Comp, e.Inst)] {
			continue
		}
		if e.Kind == EvSrcOpen || (e.Kind == EvStatus && (strings.HasPrefix(e.Info, "Running") || strings.HasPrefix(e.Info, "Recovering"))) {
			out = append(out, Violation{Prop: "C12", Key: "C12/restarted-after-force-stop/" + eng, Index: i,
				Detail: fmt.Sprintf("%s after the pipeline was force stopped and without a user start", e.String())})
			break
		}
	}
	return out
}

// CheckResume: the position a source is (re)opened with is never past an
// unhandled record, and a pruning upstream is never asked for discarded records.
func (h *History) CheckResume(prop string) []Violation {
	var out []Violation
	if h.hostilePositions() {
		return nil
	}
	for i, e := range h.Events {
		switch e.Kind {
		case EvSrcGap:
			out = append(out, Violation{Prop: prop, Key: prop + "/reopen-below-discarded-upstream/" + h.Case.Engine, Index: i,
				Detail: fmt.Sprintf("pruning source %s: %s", e.Comp, e.Info)})
		case EvSrcOpen:
			if e.Info != "" || e.Src < 0 {
				continue
			}
			for seq := 0; seq <= e.Seq; seq++ {
				if ok, why := h.HandledAt(e.Src, seq, i); !ok {
					out = append(out, Violation{Prop: prop, Key: prop + "/reopen-past-unhandled-record/" + h.Case.Engine, Index: i,
						Detail: fmt.Sprintf("source %s reopened after seq %d but s%d:%d was never handled: %s", e.Comp, e.Seq, e.Src, seq, why)})
					break
				}
			}
		}
	}
	return out
}

// AllEmitted reports whether every source handed all of its records to the engine at least once.
func (h *History) AllEmitted() bool {
	maxEmit := make([]int, len(h.Case.Sources))
	for i := range maxEmit {
		maxEmit[i] = -1
	}
	undelivered := map[[2]int]bool{}
	for _, e := range h.Events {
		if e.Kind == EvSrcEmit && e.Src >= 0 && e.Src < len(maxEmit) && e.Seq > maxEmit[e.Src] {
			maxEmit[e.Src] = e.Seq
		}
		if e.Kind == EvNote && strings.HasPrefix(e.Info, "emit-not-delivered") {
			undelivered[[2]int{e.Src, e.Seq}] = true
		}
	}
	for si, s := range h.Case.Sources {
		if maxEmit[si] != s.N-1 {
			return false
		}
	}
	return true
}

// CheckAllHandled: at the end of a history that ended with a graceful stop after
// every record was read, every record must have been handled (at-least-once union).
func (h *History) CheckAllHandled(prop string) []Violation {
	var out []Violation
	end := len(h.Events)
	for si, s := range h.Case.Sources {
		for seq := 0; seq < s.N; seq++ {
			if ok, why := h.HandledAt(si, seq, end); !ok {
				out = append(out, Violation{Prop: prop, Key: prop + "/record-never-handled/" + h.Case.Engine, Index: end,
					Detail: fmt.Sprintf("s%d:%d was skipped: %s", si, seq, why)})
				return out
			}
		}
	}
	return out
}
