//go:build verif

package lab

import "github.com/conduitio/conduit/pkg/foundation/verifhook"

// HooksEnabled reports whether the harness was built with /repo's yield points.
const HooksEnabled = true

func registerYield(owner any, f func(string)) { verifhook.Register(owner, f) }
func unregisterYield(owner any)               { verifhook.Unregister(owner) }
