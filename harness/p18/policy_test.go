package p18

import (
	"context"
	"fmt"
	"net/netip"
	"sort"
	"strings"
	"sync"
	"testing"
	"time"

	sdk "github.com/conduitio/conduit-processor-sdk"
	"github.com/conduitio/conduit/pkg/foundation/log"
	"github.com/conduitio/conduit/pkg/plugin/processor/egress"
	"github.com/conduitio/conduit/pkg/processor"
	"pgregory.net/rapid"
	"verifharness/pbt"
)

// ---------------------------------------------------------------------------
// Part (c): ResolvePolicy(requested, ceiling) and the processor service path
// (processor.Service.resolveEgressPolicy, reached through MakeRunnableProcessor
// with a capturing plugin registry).
// ---------------------------------------------------------------------------

type ceilingSpec struct {
	Enabled    bool     `json:"enabled"`
	Allow      []string `json:"allow"`
	SecretRefs []string `json:"secret_refs"`
	TimeoutNs  int64    `json:"timeout_ns"`
	MaxBytes   int64    `json:"max_bytes"`
	// KeepFieldsWhenDisabled builds Policy{Enabled:false, <fields set>} instead of
	// DenyAll() (conduit.Config.egressCeiling always produces DenyAll; the doc of
	// ResolvePolicy speaks about "ceiling not enabled" in general).
	KeepFieldsWhenDisabled bool `json:"keep_fields_when_disabled"`
}

type policyCase struct {
	Part     string            `json:"part"` // "policy"
	Settings map[string]string `json:"settings"`
	Ceiling  ceilingSpec       `json:"ceiling"`
	// ZeroTimeout / ZeroMax clear the field on the requested Policy before the
	// direct ResolvePolicy call (a Policy literal without the field, as in the
	// repo's own tests; ResolvePolicy documents the <=0 => default rule).
	ZeroTimeout bool `json:"zero_timeout"`
	ZeroMax     bool `json:"zero_max"`
	ViaService  bool `json:"via_service"`
	Reconfig    bool `json:"reconfigure_path"`
}

// buildCeiling mirrors conduit.Config.egressCeiling (pkg/conduit/config.go).
func buildCeiling(c ceilingSpec) (egress.Policy, error) {
	allow, err := egress.ParseAllowlist(strings.Join(c.Allow, ","))
	if err != nil {
		return egress.DenyAll(), err
	}
	if !c.Enabled && !c.KeepFieldsWhenDisabled {
		return egress.DenyAll(), nil
	}
	var refs map[string]struct{}
	if len(c.SecretRefs) > 0 {
		refs = map[string]struct{}{}
		for _, r := range c.SecretRefs {
			refs[r] = struct{}{}
		}
	}
	return egress.Policy{Enabled: c.Enabled, Allowlist: allow, SecretRefs: refs,
		Timeout: time.Duration(c.TimeoutNs), MaxResponseBytes: c.MaxBytes}, nil
}

var (
	polHosts   = []string{"api.openai.com", "api.voyageai.com", "a.example", "B.Example", "metadata.google.internal", "localhost"}
	polIPs     = []string{"127.0.0.1", "10.0.0.5", "169.254.169.254", "100.64.0.1", "192.168.1.10", "[::1]", "[0:0:0:0:0:0:0:1]", "[fd12::1]", "[::ffff:127.0.0.1]", "8.8.8.8", "[2606:4700:4700::1111]"}
	polPorts   = []string{"", "", "443", "8443", "11434", "80", "6379"}
	polSchemes = []string{"", "", "", "https://", "https://", "http://"}
	polSecrets = []string{"openai_key", "voyage_key", "stolen_key", "k1", "k2"}
	polTimeout = []string{"", "", "150ms", "1s", "5s", "30s", "45s", "2m", "1h"}
	polMax     = []string{"", "", "1", "1024", "1048576", "4194304", "8388608", "1073741824"}
	polBadTO   = []string{"0s", "-1s", "abc", " "}
	polBadMax  = []string{"0", "-5", "x", "1e3"}
	ceilTO     = []int64{0, 0, int64(100 * time.Millisecond), int64(5 * time.Second), int64(30 * time.Second), int64(60 * time.Second), int64(10 * time.Minute)}
	ceilMax    = []int64{0, 0, 1, 512, 1 << 20, 4 << 20, 16 << 20}
)

func genEntryText(t *rapid.T, label string) string {
	host := ""
	isIP := rapid.Bool().Draw(t, label+"-is-ip")
	if isIP {
		host = rapid.SampledFrom(polIPs).Draw(t, label+"-ip")
	} else {
		host = rapid.SampledFrom(polHosts).Draw(t, label+"-host")
	}
	scheme := rapid.SampledFrom(polSchemes).Draw(t, label+"-scheme")
	if scheme == "http://" && (!isIP || strings.HasPrefix(host, "8.") || strings.HasPrefix(host, "[2606")) &&
		rapid.IntRange(0, 9).Draw(t, label+"-keep-bad-http") > 0 {
		scheme = "https://" // http for a hostname / public IP is a parse error: keep those rare
	}
	s := scheme + host
	if p := rapid.SampledFrom(polPorts).Draw(t, label+"-port"); p != "" {
		s += ":" + p
	}
	return s
}

func genSubset(t *rapid.T, pool []string, label string) []string {
	var out []string
	for _, s := range pool {
		if rapid.IntRange(0, 2).Draw(t, label+"-"+s) == 0 {
			out = append(out, s)
		}
	}
	return out
}

func genPolicyCase(t *rapid.T) policyCase {
	c := policyCase{Part: "policy", Settings: map[string]string{}}
	// requested (per-processor settings)
	nReq := rapid.IntRange(0, 9).Draw(t, "n-requested")
	if nReq > 4 {
		nReq -= 5
		if nReq == 0 {
			nReq = 2
		}
	}
	var reqEntries []string
	for i := 0; i < nReq; i++ {
		reqEntries = append(reqEntries, genEntryText(t, fmt.Sprintf("req%d", i)))
	}
	if nReq > 0 || rapid.Bool().Draw(t, "allow-key-present") {
		sep := rapid.SampledFrom([]string{",", ", ", " ", "\n"}).Draw(t, "sep")
		c.Settings[egress.ConfigKeyAllow] = strings.Join(reqEntries, sep)
	}
	if v := rapid.SampledFrom(polTimeout).Draw(t, "req-timeout"); v != "" {
		c.Settings[egress.ConfigKeyTimeout] = v
	}
	if v := rapid.SampledFrom(polMax).Draw(t, "req-max"); v != "" {
		c.Settings[egress.ConfigKeyMaxResponseBytes] = v
	}
	switch rapid.IntRange(0, 39).Draw(t, "malformed-setting") {
	case 17:
		c.Settings[egress.ConfigKeyTimeout] = rapid.SampledFrom(polBadTO).Draw(t, "bad-timeout")
	case 23:
		c.Settings[egress.ConfigKeyMaxResponseBytes] = rapid.SampledFrom(polBadMax).Draw(t, "bad-max")
	}
	if refs := genSubset(t, polSecrets, "req-secret"); len(refs) > 0 {
		c.Settings[egress.ConfigKeySecretRefs] = strings.Join(refs, ", ")
	}
	if rapid.Bool().Draw(t, "other-setting") {
		c.Settings["field"] = ".Payload.After"
	}
	// ceiling
	c.Ceiling.Enabled = rapid.IntRange(0, 4).Draw(t, "ceiling-enabled") > 0
	switch rapid.IntRange(0, 3).Draw(t, "ceiling-hosts") {
	case 0: // unrestricted
	default:
		for i, e := range reqEntries {
			if rapid.Bool().Draw(t, fmt.Sprintf("ceiling-takes-req%d", i)) {
				if _, err := egress.ParseAllowEntry(e); err == nil {
					c.Ceiling.Allow = append(c.Ceiling.Allow, e)
				}
			}
		}
		for i := rapid.IntRange(0, 2).Draw(t, "ceiling-extra"); i > 0; i-- {
			e := genEntryText(t, fmt.Sprintf("ceil%d", i))
			if _, err := egress.ParseAllowEntry(e); err == nil { // a malformed ceiling is a startup error, not a case
				c.Ceiling.Allow = append(c.Ceiling.Allow, e)
			}
		}
	}
	if rapid.Bool().Draw(t, "ceiling-scopes-secrets") {
		c.Ceiling.SecretRefs = genSubset(t, polSecrets, "ceil-secret")
	}
	c.Ceiling.TimeoutNs = rapid.SampledFrom(ceilTO).Draw(t, "ceil-timeout")
	c.Ceiling.MaxBytes = rapid.SampledFrom(ceilMax).Draw(t, "ceil-max")
	if !c.Ceiling.Enabled {
		c.Ceiling.KeepFieldsWhenDisabled = rapid.Bool().Draw(t, "disabled-keeps-fields")
	}
	c.ZeroTimeout = rapid.IntRange(0, 5).Draw(t, "zero-timeout") == 3
	c.ZeroMax = rapid.IntRange(0, 5).Draw(t, "zero-max") == 3
	c.ViaService = rapid.Bool().Draw(t, "via-service")
	if c.ViaService {
		c.Reconfig = rapid.Bool().Draw(t, "reconfigure-path")
	}
	return c
}

type polViolation struct{ Key, Detail string }

func entryID(e egress.AllowEntry) string { return e.Scheme + " " + e.Host + " " + e.Port }

func ipOf(e egress.AllowEntry) (netip.Addr, bool) {
	if e.IP == nil {
		return netip.Addr{}, false
	}
	a, ok := netip.AddrFromSlice(e.IP)
	return a.Unmap(), ok
}

// permits is the semantic "the ceiling lists this destination": same scheme and
// port and either the same hostname or the same IP address (Policy.MatchHostPort).
func permits(ceiling []egress.AllowEntry, e egress.AllowEntry) bool {
	ea, eIsIP := ipOf(e)
	for _, c := range ceiling {
		if c.Scheme != e.Scheme || c.Port != e.Port {
			continue
		}
		ca, cIsIP := ipOf(c)
		if eIsIP != cIsIP {
			continue
		}
		if eIsIP && ea == ca || !eIsIP && c.Host == e.Host {
			return true
		}
	}
	return false
}

func usedTimeout(p egress.Policy) time.Duration {
	if p.Timeout > 0 {
		return p.Timeout
	}
	return egress.DefaultTimeout
}

func usedMax(p egress.Policy) int64 {
	if p.MaxResponseBytes > 0 {
		return p.MaxResponseBytes
	}
	return egress.DefaultMaxResponseBytes
}

func multiset(es []egress.AllowEntry) map[string]int {
	m := map[string]int{}
	for _, e := range es {
		m[entryID(e)]++
	}
	return m
}

// checkEffective is the oracle of part (c). dropped may be nil with
// haveDropped=false (service path: the dropped list is only logged).
func checkEffective(req, ceil, eff egress.Policy, dropped []egress.AllowEntry, haveDropped bool) []polViolation {
	var out []polViolation
	add := func(k, d string) { out = append(out, polViolation{k, d}) }
	if eff.Enabled && !ceil.Enabled {
		add("C18/policy/enabled-under-closed-ceiling", "ceiling is not enabled but the effective policy is enabled")
	}
	if eff.Enabled && !req.Enabled {
		add("C18/policy/enabled-without-opt-in", "the processor did not opt in but the effective policy is enabled")
	}
	if eff.Enabled {
		reqSet := multiset(req.Allowlist)
		for _, e := range eff.Allowlist {
			if reqSet[entryID(e)] == 0 {
				add("C18/policy/host-not-requested", "effective entry "+entryID(e)+" was never requested")
			}
			if len(ceil.Allowlist) > 0 && !permits(ceil.Allowlist, e) {
				add("C18/policy/host-exceeds-ceiling", "effective entry "+entryID(e)+" is not in the restricted ceiling")
			}
		}
		scoped := len(ceil.Allowlist) > 0 || len(ceil.SecretRefs) > 0
		for ref := range eff.SecretRefs {
			if _, ok := req.SecretRefs[ref]; !ok {
				add("C18/policy/secret-not-requested", "effective secret ref "+ref+" was never requested")
			}
			if _, ok := ceil.SecretRefs[ref]; scoped && !ok {
				add("C18/policy/secret-exceeds-ceiling", "effective secret ref "+ref+" is not granted by the ceiling")
			}
		}
		if ceil.Timeout > 0 && usedTimeout(eff) > ceil.Timeout {
			add("C18/policy/timeout-exceeds-ceiling", fmt.Sprintf("effective timeout %s > ceiling %s", usedTimeout(eff), ceil.Timeout))
		}
		if ceil.MaxResponseBytes > 0 && usedMax(eff) > ceil.MaxResponseBytes {
			add("C18/policy/size-exceeds-ceiling", fmt.Sprintf("effective max response %d > ceiling %d", usedMax(eff), ceil.MaxResponseBytes))
		}
		// "a smaller one is kept" / "zero ceiling value means no cap".
		if (ceil.Timeout == 0 || usedTimeout(req) <= ceil.Timeout) && usedTimeout(eff) != usedTimeout(req) {
			add("C18/policy/timeout-not-kept", fmt.Sprintf("requested timeout %s within the ceiling became %s", usedTimeout(req), usedTimeout(eff)))
		}
		if (ceil.MaxResponseBytes == 0 || usedMax(req) <= ceil.MaxResponseBytes) && usedMax(eff) != usedMax(req) {
			add("C18/policy/size-not-kept", fmt.Sprintf("requested max response %d within the ceiling became %d", usedMax(req), usedMax(eff)))
		}
	}
	if haveDropped && req.Enabled {
		want := multiset(req.Allowlist)
		got := map[string]int{}
		if eff.Enabled {
			got = multiset(eff.Allowlist)
		}
		for k, n := range multiset(dropped) {
			got[k] += n
		}
		keys := map[string]bool{}
		for k := range want {
			keys[k] = true
		}
		for k := range got {
			keys[k] = true
		}
		var diff []string
		for k := range keys {
			if want[k] != got[k] {
				diff = append(diff, fmt.Sprintf("%s requested×%d, effective+dropped×%d", k, want[k], got[k]))
			}
		}
		if len(diff) > 0 {
			sort.Strings(diff)
			add("C18/policy/dropped-not-reported", "requested entries are neither effective nor reported as dropped: "+strings.Join(diff, "; "))
		}
	}
	return out
}

// exceeds reports in which dimensions the request goes beyond the ceiling.
func exceeds(req, ceil egress.Policy) []string {
	var dims []string
	if !req.Enabled {
		return nil
	}
	if !ceil.Enabled {
		return []string{"ceiling-closed"}
	}
	if len(ceil.Allowlist) > 0 {
		for _, e := range req.Allowlist {
			if !permits(ceil.Allowlist, e) {
				dims = append(dims, "hosts")
				break
			}
		}
	}
	if len(ceil.Allowlist) > 0 || len(ceil.SecretRefs) > 0 {
		for r := range req.SecretRefs {
			if _, ok := ceil.SecretRefs[r]; !ok {
				dims = append(dims, "secrets")
				break
			}
		}
	}
	if ceil.Timeout > 0 && usedTimeout(req) > ceil.Timeout {
		dims = append(dims, "timeout")
	}
	if ceil.MaxResponseBytes > 0 && usedMax(req) > ceil.MaxResponseBytes {
		dims = append(dims, "size")
	}
	return dims
}

// capturing registry ---------------------------------------------------------

type nopProc struct{ sdk.UnimplementedProcessor }

func (nopProc) Specification() (sdk.Specification, error) {
	return sdk.Specification{Name: "p18-proc", Version: "v0"}, nil
}
func (nopProc) Teardown(context.Context) error { return nil }

type capRegistry struct {
	mu  sync.Mutex
	got []egress.Policy
}

func (r *capRegistry) NewProcessor(_ context.Context, _ string, _ string, p egress.Policy) (sdk.Processor, error) {
	r.mu.Lock()
	r.got = append(r.got, p)
	r.mu.Unlock()
	return nopProc{}, nil
}

type policyResult struct {
	Violations []polViolation
	Classes    []string
	NonTrivial bool
}

func runPolicyCase(c policyCase) policyResult {
	var res policyResult
	ceil, err := buildCeiling(c.Ceiling)
	if err != nil {
		res.Classes = append(res.Classes, "policy:ceiling-malformed(skipped)")
		return res
	}
	req, reqErr := egress.PolicyFromSettings(c.Settings)

	// http entries are only for refused (private/loopback) IP literals (doc of ParseAllowEntry).
	for _, e := range append(append([]egress.AllowEntry{}, req.Allowlist...), ceil.Allowlist...) {
		if e.Scheme == "http" {
			if e.IP == nil {
				res.Violations = append(res.Violations, polViolation{"C18/policy/http-entry-for-hostname", "parsed http entry without IP literal: " + entryID(e)})
			} else if r, _ := egress.Refuse(e.IP); !r {
				res.Violations = append(res.Violations, polViolation{"C18/policy/http-entry-for-public-target", "parsed http entry for a public address: " + entryID(e)})
			}
		}
	}

	if reqErr != nil {
		res.Classes = append(res.Classes, "policy:requested-malformed")
	} else {
		direct := req
		if c.ZeroTimeout && direct.Enabled {
			direct.Timeout = 0
			res.Classes = append(res.Classes, "policy:requested-timeout-unset")
		}
		if c.ZeroMax && direct.Enabled {
			direct.MaxResponseBytes = 0
			res.Classes = append(res.Classes, "policy:requested-size-unset")
		}
		eff, dropped := egress.ResolvePolicy(direct, ceil)
		res.Violations = append(res.Violations, checkEffective(direct, ceil, eff, dropped, true)...)
		dims := exceeds(direct, ceil)
		res.NonTrivial = len(dims) > 0
		for _, d := range dims {
			res.Classes = append(res.Classes, "policy:exceeds-"+d)
		}
		switch {
		case !req.Enabled:
			res.Classes = append(res.Classes, "policy:not-opted-in")
		case !ceil.Enabled:
			res.Classes = append(res.Classes, "policy:ceiling-closed")
		case len(ceil.Allowlist) == 0:
			res.Classes = append(res.Classes, "policy:ceiling-unrestricted")
		default:
			res.Classes = append(res.Classes, "policy:ceiling-restricted")
		}
		if len(dropped) > 0 {
			res.Classes = append(res.Classes, "policy:dropped-reported")
		}
		if eff.Enabled && len(eff.Allowlist) > 0 {
			res.Classes = append(res.Classes, "policy:effective-nonempty")
		}
	}

	if c.ViaService {
		res.Classes = append(res.Classes, "policy:via-processor-service")
		reg := &capRegistry{}
		svc := processor.NewService(log.Nop(), nil, reg, processor.WithEgressCeiling(ceil))
		inst := &processor.Instance{ID: "p18", Plugin: "standalone:p18", Config: processor.Config{Settings: c.Settings, Workers: 1}}
		var mkErr error
		if c.Reconfig {
			_, mkErr = svc.MakeRunnableProcessorForReconfigure(context.Background(), inst)
		} else {
			_, mkErr = svc.MakeRunnableProcessor(context.Background(), inst)
		}
		switch {
		case reqErr != nil:
			if mkErr == nil || len(reg.got) > 0 {
				res.Violations = append(res.Violations, polViolation{"C18/policy/malformed-config-not-rejected",
					fmt.Sprintf("sdk.egress.* settings are malformed (%v) but the processor was built (err=%v, plugin instances=%d)", reqErr, mkErr, len(reg.got))})
			}
		case mkErr == nil:
			if len(reg.got) != 1 {
				res.Violations = append(res.Violations, polViolation{"C18/policy/service-did-not-bind-policy", fmt.Sprintf("NewProcessor called %d times", len(reg.got))})
			} else {
				for _, v := range checkEffective(req, ceil, reg.got[0], nil, false) {
					v.Key = strings.Replace(v.Key, "C18/policy/", "C18/policy/service/", 1)
					res.Violations = append(res.Violations, v)
				}
			}
		}
	}
	return res
}

// TestC18Policy: the effective policy never exceeds the operator's ceiling.
func TestC18Policy(t *testing.T) {
	st := pbt.For("C18")
	defer st.Finish(t)
	rapid.Check(t, func(t *rapid.T) {
		c := genPolicyCase(t)
		pbt.MarkCurrent("C18", c)
		res := runPolicyCase(c)
		if res.NonTrivial {
			res.Classes = append(res.Classes, "policy:nontrivial")
		}
		st.Case(pbt.Hash(c), res.NonTrivial, res.Classes...)
		if res.NonTrivial && st.WantSample() {
			st.Sample(c)
		}
		for _, v := range res.Violations {
			if st.Report(v.Key, v.Detail, len(fmt.Sprint(c)), c) {
				t.Fatalf("%s: %s", v.Key, v.Detail)
			}
		}
	})
}
