package p18

import (
	"bytes"
	"context"
	"fmt"
	"net"
	"net/netip"
	"net/textproto"
	"net/url"
	"os"
	"strconv"
	"strings"
	"sync"
	"testing"
	"time"

	"github.com/conduitio/conduit-processor-sdk/pprocutils"
	"github.com/conduitio/conduit/pkg/foundation/cerrors"
	"github.com/conduitio/conduit/pkg/foundation/log"
	"github.com/conduitio/conduit/pkg/plugin/processor/egress"
	"pgregory.net/rapid"
	"verifharness/pbt"
)

// ---------------------------------------------------------------------------
// Part (b): end to end through the real egress.Service. Real TCP listeners on
// refused addresses record every connection that reaches them.
// ---------------------------------------------------------------------------

const (
	guestMark     = "gUeStMaRk"
	secretMark    = "sEcReT-"
	sentinelMagic = "P18-SENTINEL"
)

// ---- observing listeners ----------------------------------------------------

type obsConn struct {
	Remote string
	Raw    []byte
	done   chan struct{}
	c      net.Conn
}

type obsListener struct {
	ln        net.Listener
	addr      netip.Addr
	port      string
	mode      string // ok | redirect | close | hang | proxy
	status    int
	loc       string
	body      []byte
	mu        sync.Mutex
	conns     []*obsConn
	sentinels map[string]bool // remote addresses of the test's own barrier connections
	accepted  chan struct{}   // poked after every accept
}

func listenObs(ip string, port string) (*obsListener, error) {
	ln, err := net.Listen("tcp", net.JoinHostPort(ip, port))
	if err != nil {
		return nil, err
	}
	ta := ln.Addr().(*net.TCPAddr)
	a, _ := netip.AddrFromSlice(ta.IP)
	l := &obsListener{ln: ln, addr: a.Unmap(), port: strconv.Itoa(ta.Port), mode: "ok",
		sentinels: map[string]bool{}, accepted: make(chan struct{}, 1)}
	go l.acceptLoop()
	return l, nil
}

func (l *obsListener) acceptLoop() {
	for {
		c, err := l.ln.Accept()
		if err != nil {
			return
		}
		oc := &obsConn{Remote: c.RemoteAddr().String(), done: make(chan struct{}), c: c}
		l.mu.Lock()
		l.conns = append(l.conns, oc)
		l.mu.Unlock()
		select {
		case l.accepted <- struct{}{}:
		default:
		}
		go l.handle(oc)
	}
}

func (l *obsListener) handle(oc *obsConn) {
	defer close(oc.done)
	c := oc.c
	_ = c.SetDeadline(time.Now().Add(2 * time.Second))
	buf := make([]byte, 0, 2048)
	tmp := make([]byte, 2048)
	for len(buf) < 16384 {
		n, err := c.Read(tmp)
		buf = append(buf, tmp[:n]...)
		if len(buf) > 0 && buf[0] == 0x16 { // TLS ClientHello
			break
		}
		if bytes.HasPrefix(buf, []byte(sentinelMagic)) && bytes.HasSuffix(buf, []byte("\n")) {
			break
		}
		if bytes.Contains(buf, []byte("\r\n\r\n")) || err != nil {
			break
		}
	}
	l.mu.Lock()
	oc.Raw = buf
	mode, status, loc, body := l.mode, l.status, l.loc, l.body
	l.mu.Unlock()
	if bytes.HasPrefix(buf, []byte(sentinelMagic)) || len(buf) > 0 && buf[0] == 0x16 {
		_ = c.Close()
		return
	}
	_ = c.SetDeadline(time.Now().Add(2 * time.Second))
	switch mode {
	case "ok":
		fmt.Fprintf(c, "HTTP/1.1 200 OK\r\nContent-Type: text/plain\r\nContent-Length: %d\r\nConnection: close\r\n\r\n", len(body))
		_, _ = c.Write(body)
		_ = c.Close()
	case "redirect":
		fmt.Fprintf(c, "HTTP/1.1 %d Redirect\r\nLocation: %s\r\nContent-Length: 0\r\nConnection: close\r\n\r\n", status, loc)
		_ = c.Close()
	case "proxy":
		fmt.Fprintf(c, "HTTP/1.1 502 Bad Gateway\r\nContent-Length: 0\r\nConnection: close\r\n\r\n")
		_ = c.Close()
	case "hang":
		// keep the connection open without answering; closed at teardown
	default:
		_ = c.Close()
	}
}

// barrier makes sure every connection that completed before the call has been
// accepted and handled: the test opens a sentinel connection of its own, which
// queues behind them (the accept queue is FIFO), waits until the accept loop has
// produced it, and then awaits the handlers of everything accepted so far. The
// sentinel is recognised by its (unique) client address, never by timing.
func (l *obsListener) barrier() error {
	c, err := net.DialTimeout("tcp", l.ln.Addr().String(), 5*time.Second)
	if err != nil {
		return fmt.Errorf("sentinel dial %s: %w", l.ln.Addr(), err)
	}
	defer c.Close()
	local := c.LocalAddr().String()
	l.mu.Lock()
	l.sentinels[local] = true
	l.mu.Unlock()
	_, _ = c.Write([]byte(sentinelMagic + "\n")) // lets the handler finish at once
	timeout := time.After(20 * time.Second)
	var upTo []*obsConn
	for upTo == nil {
		l.mu.Lock()
		for i, oc := range l.conns {
			if oc.Remote == local {
				upTo = append([]*obsConn(nil), l.conns[:i+1]...)
			}
		}
		l.mu.Unlock()
		if upTo != nil {
			break
		}
		select {
		case <-l.accepted:
		case <-time.After(50 * time.Millisecond):
		case <-timeout:
			return fmt.Errorf("sentinel on %s not accepted", l.ln.Addr())
		}
	}
	for _, oc := range upTo {
		select {
		case <-oc.done:
		case <-timeout:
			return fmt.Errorf("handler on %s did not finish", l.ln.Addr())
		}
	}
	return nil
}

// take returns the non-sentinel connections observed so far and forgets them.
func (l *obsListener) take() []*obsConn {
	l.mu.Lock()
	defer l.mu.Unlock()
	var out []*obsConn
	for _, oc := range l.conns {
		if !l.sentinels[oc.Remote] {
			out = append(out, oc)
		}
		_ = oc.c.Close()
	}
	l.conns = nil
	l.sentinels = map[string]bool{}
	return out
}

func (l *obsListener) close() {
	_ = l.ln.Close()
	l.mu.Lock()
	for _, oc := range l.conns {
		_ = oc.c.Close()
	}
	l.mu.Unlock()
}

// ---- environment --------------------------------------------------------------

type poolAddr struct {
	IP    string
	Class string
	// TwinOf: this address is an IPv6 form that embeds the IPv4 pool address TwinOf
	TwinOf string
}

var poolCandidates = []poolAddr{
	{IP: "127.0.0.1", Class: "loopback"}, {IP: "127.0.0.2", Class: "loopback"}, {IP: "127.9.8.7", Class: "loopback"}, {IP: "::1", Class: "v6-loopback"},
	{IP: "10.77.0.1", Class: "private"}, {IP: "172.16.5.1", Class: "private"}, {IP: "192.168.77.1", Class: "private"},
	{IP: "169.254.169.254", Class: "metadata-linklocal"}, {IP: "100.64.0.1", Class: "cgnat"}, {IP: "fd12::1", Class: "ula"},
	{IP: "64:ff9b::7f00:1", Class: "embedded-nat64", TwinOf: "127.0.0.1"}, {IP: "2002:7f00:1::1", Class: "embedded-6to4", TwinOf: "127.0.0.1"},
	{IP: "::ffff:0:7f00:1", Class: "embedded-translated", TwinOf: "127.0.0.1"}, {IP: "::7f00:1", Class: "embedded-compatible", TwinOf: "127.0.0.1"},
	{IP: "64:ff9b::a9fe:a9fe", Class: "embedded-nat64", TwinOf: "169.254.169.254"}, {IP: "2002:a9fe:a9fe::1", Class: "embedded-6to4", TwinOf: "169.254.169.254"},
	{IP: "64:ff9b::a4d:1", Class: "embedded-nat64", TwinOf: "10.77.0.1"},
}

func classOfLocal(a netip.Addr) string {
	for _, p := range poolCandidates {
		if netip.MustParseAddr(p.IP) == a {
			return p.Class
		}
	}
	if a.IsLoopback() {
		return "loopback"
	}
	return "other"
}

// detectPool returns the addresses a listener can be bound to right now.
func detectPool() []poolAddr {
	var out []poolAddr
	for _, p := range poolCandidates {
		ln, err := net.Listen("tcp", net.JoinHostPort(p.IP, "0"))
		if err != nil {
			continue
		}
		_ = ln.Close()
		out = append(out, p)
	}
	return out
}

type e2eEnv struct {
	pool    []poolAddr
	proxy   *obsListener
	restore func()
}

var proxyEnvKeys = []string{"HTTP_PROXY", "HTTPS_PROXY", "ALL_PROXY", "http_proxy", "https_proxy", "all_proxy"}

// setupE2E starts the process-wide proxy listener and points every proxy
// environment variable at it. net/http reads these variables once per process,
// so they are set before the first request and stay for the whole test.
func setupE2E() (*e2eEnv, error) {
	env := &e2eEnv{pool: detectPool()}
	if len(env.pool) == 0 {
		return nil, fmt.Errorf("no local address can be bound")
	}
	px, err := listenObs("127.0.0.1", "0")
	if err != nil {
		return nil, err
	}
	px.mu.Lock()
	px.mode = "proxy"
	px.mu.Unlock()
	env.proxy = px
	old := map[string]*string{}
	for _, k := range append(append([]string{}, proxyEnvKeys...), "NO_PROXY", "no_proxy") {
		if v, ok := os.LookupEnv(k); ok {
			vv := v
			old[k] = &vv
		} else {
			old[k] = nil
		}
	}
	for _, k := range proxyEnvKeys {
		_ = os.Setenv(k, "http://127.0.0.1:"+px.port)
	}
	_ = os.Unsetenv("NO_PROXY")
	_ = os.Unsetenv("no_proxy")
	env.restore = func() {
		for k, v := range old {
			if v == nil {
				_ = os.Unsetenv(k)
			} else {
				_ = os.Setenv(k, *v)
			}
		}
		px.close()
	}
	return env, nil
}

// ---- case ---------------------------------------------------------------------

type portRef struct {
	Of  int `json:"of"`  // >=0: port of that listener; -1 redirect target; -2 proxy; -3 literal Lit; -4 omitted (scheme default)
	Lit int `json:"lit"` // literal port for Of == -3
}

type lsnSpec struct {
	Addr      string `json:"addr"`
	SharePort int    `json:"share_port"` // index of an earlier listener whose port is reused, -1 = own port
	Mode      string `json:"mode"`
	Status    int    `json:"status"`
	LocForm   string `json:"loc_form"`
	BodyLen   int    `json:"body_len"`
}

type allowSpec struct {
	Scheme string  `json:"scheme"` // "", "https", "http"
	Host   string  `json:"host"`   // hostname or IP literal (no brackets)
	Port   portRef `json:"port"`
}

type candSpec struct {
	IP   string `json:"ip"`
	As16 bool   `json:"as16"`
}

type reqSpec struct {
	Scheme    string      `json:"scheme"`
	Userinfo  string      `json:"userinfo"`
	Host      string      `json:"host"` // exactly as written in the URL (brackets included)
	Port      portRef     `json:"port"`
	Path      string      `json:"path"`
	Method    string      `json:"method"`
	Headers   [][2]string `json:"headers"`
	Body      string      `json:"body"`
	SecretRef string      `json:"secret_ref"`
}

type e2eCase struct {
	Part           string       `json:"part"` // "e2e"
	Listeners      []lsnSpec    `json:"listeners"`
	RedirAddr      string       `json:"redirect_target_addr"`
	Allow          []allowSpec  `json:"allow"`
	CeilingMode    string       `json:"ceiling_mode"` // none | unrestricted | restricted | disabled
	CeilingKeep    []int        `json:"ceiling_keep"`
	CeilingSecrets []string     `json:"ceiling_secrets"`
	CeilingScoped  bool         `json:"ceiling_scopes_secrets"`
	Secrets        []string     `json:"secrets"`
	SecretBackend  bool         `json:"secret_backend"`
	Answers        [][]candSpec `json:"answers"`
	SystemResolver bool         `json:"system_resolver"`
	Twin           bool         `json:"embedded_twin,omitempty"`
	OtherPort      bool         `json:"same_ip_other_port,omitempty"`
	Reqs           []reqSpec    `json:"requests"`
	TimeoutMs      int          `json:"timeout_ms"`
	MaxBytes       int64        `json:"max_bytes"`
}

var (
	hostnames     = []string{"api.example.com", "rebind.test", "metadata.google.internal", "localhost", "0x7f.0.0.1", "2130706433", "127.1", "0177.0.0.1"}
	oddLoopback   = map[string]bool{"0x7f.0.0.1": true, "2130706433": true, "127.1": true, "0177.0.0.1": true}
	refusedRemote = []string{"10.0.0.1", "192.168.1.1", "172.31.255.254", "0.0.0.0", "::", "224.0.0.1", "255.255.255.255", "fe80::1", "100.100.100.200",
		"64:ff9b::7f00:1", "64:ff9b::a9fe:a9fe", "2002:7f00:1::1", "::127.0.0.1", "::ffff:0:7f00:1", "2001:0:7f00:1::1"}
	publicRemote = []string{"8.8.8.8", "1.1.1.1", "203.0.113.10", "2606:4700:4700::1111", "::ffff:8.8.8.8"}
	userinfos    = []string{"", "", "", "user:pw@", "8.8.8.8@", "api.example.com:443@", "127.0.0.1:80@", "%40@"}
	paths        = []string{"/", "", "/latest/meta-data/", "/v1/embeddings?x=1", "/#@evil", "/a@b", "//x", "/%2e%2e/"}
	methods      = []string{"GET", "GET", "POST", "put", "DELETE", "HEAD", "PATCH"}
	safeHeaders  = []string{"X-Test", "Content-Type", "User-Agent", "Accept", "X-Forwarded-For", "X-Api-Key"}
	reservedHdrs = []string{"Host", "host", "HOST", "Authorization", "authorization", "AUTHORIZATION", "Accept-Encoding", "accept-encoding",
		"Connection", "Proxy-Connection", "Proxy-Authorization", "Transfer-Encoding", "Content-Length", "Upgrade", "Keep-Alive", "Te", "TE", "Trailer", ":authority", ":path"}
	invalidHdrs = []string{"X-A\r\nHost", "X A", "X-A:", "Authorization\r\n", " Host"}
	hdrValues   = []string{guestMark, "Bearer " + guestMark, guestMark + "\r\nAuthorization: Bearer " + guestMark, guestMark + "\nHost: evil." + guestMark, "gzip, " + guestMark, guestMark + "\x00"}
	secretNames = []string{"openai_key", "voyage_key", "stolen_key"}
	// canonical names checked at the listener
	reservedCanon = map[string]bool{"Host": true, "Authorization": true, "Accept-Encoding": true, "Connection": true, "Proxy-Connection": true,
		"Proxy-Authorization": true, "Transfer-Encoding": true, "Content-Length": true, "Upgrade": true, "Keep-Alive": true, "Te": true, "Trailer": true}
)

func altIPText(t *rapid.T, ip string, label string) string {
	a, err := netip.ParseAddr(ip)
	if err != nil {
		return ip
	}
	if a.Is4() {
		b := a.As4()
		switch rapid.IntRange(0, 3).Draw(t, label) {
		case 1:
			return "::ffff:" + ip
		case 2:
			return fmt.Sprintf("0:0:0:0:0:ffff:%02x%02x:%02x%02x", b[0], b[1], b[2], b[3])
		}
		return ip
	}
	switch rapid.IntRange(0, 2).Draw(t, label) {
	case 1:
		return renderV6(a.As16(), "expanded")
	case 2:
		return strings.ToUpper(renderV6(a.As16(), "expanded"))
	}
	return ip
}

func genE2ECase(t *rapid.T, pool []poolAddr) e2eCase {
	c := e2eCase{Part: "e2e"}
	ips := make([]string, len(pool))
	for i, p := range pool {
		ips[i] = p.IP
	}
	nL := rapid.IntRange(1, 4).Draw(t, "n-listeners")
	for i := 0; i < nL; i++ {
		l := lsnSpec{Addr: rapid.SampledFrom(ips).Draw(t, "lsn-addr"), SharePort: -1, Status: 302}
		if i > 0 && rapid.IntRange(0, 2).Draw(t, "share-port") == 0 {
			l.SharePort = rapid.IntRange(0, i-1).Draw(t, "share-with")
			for j := 0; j < i; j++ { // the same (IP, port) cannot be bound twice
				if c.Listeners[j].Addr == l.Addr && (j == l.SharePort || c.Listeners[j].SharePort == l.SharePort) {
					l.SharePort = -1
				}
			}
		}
		switch k := rapid.IntRange(0, 19).Draw(t, "lsn-mode"); {
		case k < 11:
			l.Mode = "ok"
			l.BodyLen = rapid.SampledFrom([]int{2, 0, 64, 1500, 5000}).Draw(t, "body-len")
		case k < 17:
			l.Mode = "redirect"
			l.Status = rapid.SampledFrom([]int{302, 301, 303, 307, 308}).Draw(t, "redir-status")
			l.LocForm = rapid.SampledFrom([]string{"http-ip", "https-ip", "scheme-relative", "http-ip-mapped"}).Draw(t, "loc-form")
		case k < 19:
			l.Mode = "close"
		default:
			l.Mode = "hang"
		}
		c.Listeners = append(c.Listeners, l)
	}
	c.RedirAddr = rapid.SampledFrom(ips).Draw(t, "redir-addr")

	lsnPort := func(label string) portRef {
		return portRef{Of: rapid.IntRange(0, nL-1).Draw(t, label)}
	}
	anyPort := func(label string) portRef {
		switch rapid.IntRange(0, 9).Draw(t, label+"-kind") {
		case 0:
			return portRef{Of: -3, Lit: rapid.SampledFrom([]int{443, 80, 6379, 11434}).Draw(t, label+"-lit")}
		case 1:
			return portRef{Of: -4}
		default:
			return lsnPort(label)
		}
	}

	// allowlist. With "direct" the first entry is the exact http carve-out of
	// listener 0 and the first request addresses it unperturbed, so that the
	// redirect / header / secret / size clauses see traffic often enough.
	direct := rapid.IntRange(0, 9).Draw(t, "direct-carve-out") >= 6
	nA := rapid.IntRange(1, 5).Draw(t, "n-allow")
	if nA == 5 && !direct {
		nA = 0 // no opt-in at all
	}
	for i := 0; i < nA; i++ {
		var a allowSpec
		if direct && i == 0 {
			c.Allow = append(c.Allow, allowSpec{Scheme: "http", Host: c.Listeners[0].Addr, Port: portRef{Of: 0}})
			continue
		}
		switch k := rapid.IntRange(0, 19).Draw(t, "allow-kind"); {
		case k < 7: // hostname entry (https only: ParseAllowEntry refuses http for hostnames)
			a.Host = rapid.SampledFrom(hostnames).Draw(t, "allow-host")
			a.Scheme = rapid.SampledFrom([]string{"", "https"}).Draw(t, "allow-scheme")
			a.Port = anyPort("allow-port")
		case k < 13: // exact carve-out of a listener
			j := rapid.IntRange(0, nL-1).Draw(t, "allow-lsn")
			a.Host = altIPText(t, c.Listeners[j].Addr, "allow-ip-form")
			a.Scheme = rapid.SampledFrom([]string{"http", "http", "https", ""}).Draw(t, "allow-scheme")
			a.Port = portRef{Of: j}
		case k < 16: // a listener's IP with ANOTHER port (carve-outs are (IP, port) pairs)
			j := rapid.IntRange(0, nL-1).Draw(t, "allow-lsn")
			a.Host = altIPText(t, c.Listeners[j].Addr, "allow-ip-form")
			a.Scheme = rapid.SampledFrom([]string{"http", "https", ""}).Draw(t, "allow-scheme")
			a.Port = anyPort("allow-port")
		case k < 18: // some other local address (possibly listening) with a listener's port
			a.Host = rapid.SampledFrom(append(append([]string{}, ips...), "10.0.0.1", "192.168.1.1")).Draw(t, "allow-other-ip")
			a.Scheme = rapid.SampledFrom([]string{"http", "https", ""}).Draw(t, "allow-scheme")
			a.Port = lsnPort("allow-port")
		default: // public IP literal (https only)
			a.Host = rapid.SampledFrom([]string{"8.8.8.8", "203.0.113.10", "2606:4700:4700::1111"}).Draw(t, "allow-public")
			a.Scheme = rapid.SampledFrom([]string{"https", ""}).Draw(t, "allow-scheme")
			a.Port = anyPort("allow-port")
		}
		c.Allow = append(c.Allow, a)
	}
	if rapid.IntRange(0, 1).Draw(t, "redirect-target-allowed") == 0 {
		c.Allow = append(c.Allow, allowSpec{Scheme: "http", Host: c.RedirAddr, Port: portRef{Of: -1}})
	}
	if rapid.IntRange(0, 5).Draw(t, "proxy-allowed") == 0 {
		c.Allow = append(c.Allow, allowSpec{Scheme: "http", Host: "127.0.0.1", Port: portRef{Of: -2}})
	}

	// ceiling
	c.CeilingMode = rapid.SampledFrom([]string{"none", "none", "none", "none", "unrestricted", "unrestricted", "restricted", "restricted", "restricted", "disabled", "none", "none"}).Draw(t, "ceiling-mode")
	if c.CeilingMode == "restricted" {
		for i := range c.Allow {
			if rapid.IntRange(0, 2).Draw(t, "ceiling-keep") > 0 {
				c.CeilingKeep = append(c.CeilingKeep, i)
			}
		}
		if len(c.Allow) > 0 && (len(c.CeilingKeep) == 0 || direct && c.CeilingKeep[0] != 0) {
			c.CeilingKeep = append([]int{0}, c.CeilingKeep...)
		}
	}
	c.Secrets = genSubset(t, secretNames, "secret")
	c.SecretBackend = rapid.IntRange(0, 3).Draw(t, "secret-backend") > 0
	if c.CeilingMode == "restricted" || c.CeilingMode == "unrestricted" {
		c.CeilingScoped = rapid.Bool().Draw(t, "ceiling-scopes-secrets")
		if c.CeilingScoped {
			c.CeilingSecrets = genSubset(t, secretNames, "ceil-secret")
		}
	}

	// resolver answers
	genCand := func() candSpec {
		var ip string
		switch k := rapid.IntRange(0, 19).Draw(t, "cand-kind"); {
		case k < 10:
			ip = c.Listeners[rapid.IntRange(0, nL-1).Draw(t, "cand-lsn")].Addr
			if rapid.IntRange(0, 3).Draw(t, "cand-mapped") == 0 && !strings.Contains(ip, ":") {
				ip = "::ffff:" + ip
			}
		case k < 12:
			ip = rapid.SampledFrom(ips).Draw(t, "cand-local")
		case k < 16:
			ip = rapid.SampledFrom(publicRemote).Draw(t, "cand-public")
		default:
			ip = rapid.SampledFrom(refusedRemote).Draw(t, "cand-refused")
		}
		return candSpec{IP: ip, As16: rapid.Bool().Draw(t, "cand-as16")}
	}
	for i := rapid.IntRange(1, 2).Draw(t, "n-answers"); i > 0; i-- {
		var set []candSpec
		for j := rapid.IntRange(1, 4).Draw(t, "n-cands"); j > 0; j-- {
			set = append(set, genCand())
		}
		c.Answers = append(c.Answers, set)
	}
	c.SystemResolver = rapid.IntRange(0, 29).Draw(t, "system-resolver") == 13

	// requests
	for i := rapid.IntRange(1, 2).Draw(t, "n-requests"); i > 0; i-- {
		var r reqSpec
		if direct && len(c.Reqs) == 0 {
			h := c.Listeners[0].Addr
			r.Scheme, r.Host, r.Port = "http", hostText(h), portRef{Of: 0}
		} else if len(c.Allow) > 0 && rapid.IntRange(0, 9).Draw(t, "req-from-allow") != 7 {
			a := c.Allow[rapid.IntRange(0, len(c.Allow)-1).Draw(t, "req-allow-idx")]
			if a.Port.Of < 0 && a.Port.Of > -3 { // never target the redirect target or the proxy directly
				a = allowSpec{Scheme: "http", Host: c.Listeners[0].Addr, Port: portRef{Of: 0}}
			}
			r.Scheme = a.Scheme
			if r.Scheme == "" {
				r.Scheme = "https"
			}
			host := a.Host
			if _, err := netip.ParseAddr(host); err == nil {
				host = altIPText(t, host, "req-ip-form")
				if strings.Contains(host, ":") {
					host = "[" + host + "]"
				}
			} else if rapid.Bool().Draw(t, "req-host-upper") {
				host = strings.ToUpper(host)
			}
			r.Host, r.Port = host, a.Port
			switch rapid.IntRange(0, 24).Draw(t, "req-perturb") {
			case 11:
				if r.Scheme == "http" {
					r.Scheme = "https"
				} else {
					r.Scheme = "http"
				}
			case 12, 13:
				r.Port = anyPort("req-port")
			case 14:
				r.Host = rapid.SampledFrom(hostnames).Draw(t, "req-other-host")
			case 15:
				r.Scheme = rapid.SampledFrom([]string{"ftp", "file", "gopher", "HTTP", "ws"}).Draw(t, "req-bad-scheme")
			}
		} else {
			r.Scheme = rapid.SampledFrom([]string{"http", "https"}).Draw(t, "req-scheme")
			if rapid.Bool().Draw(t, "req-host-is-ip") {
				h := altIPText(t, rapid.SampledFrom(ips).Draw(t, "req-ip"), "req-ip-form")
				if strings.Contains(h, ":") {
					h = "[" + h + "]"
				}
				r.Host = h
			} else {
				r.Host = rapid.SampledFrom(hostnames).Draw(t, "req-host")
			}
			r.Port = anyPort("req-port")
		}
		r.Userinfo = rapid.SampledFrom(userinfos).Draw(t, "req-userinfo")
		r.Path = rapid.SampledFrom(paths).Draw(t, "req-path")
		r.Method = rapid.SampledFrom(methods).Draw(t, "req-method")
		for j := rapid.IntRange(0, 2).Draw(t, "n-safe-headers"); j > 0; j-- {
			r.Headers = append(r.Headers, [2]string{rapid.SampledFrom(safeHeaders).Draw(t, "hdr-safe"), guestMark})
		}
		// at most ONE hostile header element per request (two would only hide each other)
		switch k := rapid.IntRange(0, 19).Draw(t, "hdr-hostile"); {
		case k < 10:
		case k < 16: // reserved name, harmless value
			r.Headers = append(r.Headers, [2]string{rapid.SampledFrom(reservedHdrs).Draw(t, "hdr-reserved"), rapid.SampledFrom(hdrValues[:2]).Draw(t, "hdr-value")})
		case k < 18: // safe name, header-splitting value
			r.Headers = append(r.Headers, [2]string{rapid.SampledFrom(safeHeaders).Draw(t, "hdr-safe"), rapid.SampledFrom(hdrValues[2:]).Draw(t, "hdr-value")})
		case k < 19: // malformed name
			r.Headers = append(r.Headers, [2]string{rapid.SampledFrom(invalidHdrs).Draw(t, "hdr-invalid"), guestMark})
		default:
			r.Headers = append(r.Headers, [2]string{rapid.SampledFrom(reservedHdrs).Draw(t, "hdr-reserved"), rapid.SampledFrom(hdrValues[2:]).Draw(t, "hdr-value")})
		}
		if rapid.IntRange(0, 3).Draw(t, "req-body") == 0 {
			r.Body = `{"input":"x"}`
		}
		if rapid.IntRange(0, 2).Draw(t, "req-secret") == 0 {
			r.SecretRef = rapid.SampledFrom(secretNames).Draw(t, "req-secret-name")
		}
		c.Reqs = append(c.Reqs, r)
	}
	c.TimeoutMs = rapid.SampledFrom([]int{40, 80, 150}).Draw(t, "timeout-ms")
	c.MaxBytes = rapid.SampledFrom([]int64{1, 16, 1024, 4 << 20}).Draw(t, "max-bytes")

	// "embedded twin": a carved-out refused IPv4 (IP, port) pair, a listener on an IPv6 form that
	// embeds the same IPv4 with the same port number, an allowlisted hostname on that port and a
	// resolver answer that contains the embedded form. The carve-out is for the exact pair only;
	// the embedded form stays refused at connect time (statement: "every IPv6 form that embeds such
	// an IPv4 address" is refused "for every resolved candidate").
	var twins []poolAddr
	for _, p := range pool {
		if p.TwinOf == "" {
			continue
		}
		for _, q := range pool {
			if q.IP == p.TwinOf {
				twins = append(twins, p)
			}
		}
	}
	if len(twins) > 0 && rapid.IntRange(0, 5).Draw(t, "twin-scenario") == 3 {
		tw := rapid.SampledFrom(twins).Draw(t, "twin")
		c.Twin = true
		l0 := lsnSpec{Addr: tw.TwinOf, SharePort: -1, Mode: "ok", Status: 302, BodyLen: 2}
		l1 := lsnSpec{Addr: tw.IP, SharePort: 0, Mode: rapid.SampledFrom([]string{"ok", "close"}).Draw(t, "twin-mode"), Status: 302, BodyLen: 2}
		c.Listeners = []lsnSpec{l0, l1}
		host := rapid.SampledFrom(hostnames[:3]).Draw(t, "twin-host")
		carve := allowSpec{Scheme: rapid.SampledFrom([]string{"http", "https"}).Draw(t, "twin-carve-scheme"),
			Host: altIPText(t, tw.TwinOf, "twin-carve-form"), Port: portRef{Of: 0}}
		hostEntry := allowSpec{Scheme: rapid.SampledFrom([]string{"", "https"}).Draw(t, "twin-host-scheme"), Host: host, Port: portRef{Of: 0}}
		c.Allow = []allowSpec{carve, hostEntry}
		c.CeilingMode = rapid.SampledFrom([]string{"none", "none", "unrestricted", "restricted"}).Draw(t, "twin-ceiling")
		c.CeilingKeep = nil
		if c.CeilingMode == "restricted" {
			c.CeilingKeep = []int{0, 1}
		}
		// answer sets: the embedded form, optionally next to the carved-out address itself and a public one
		set := []candSpec{{IP: tw.IP, As16: true}}
		if rapid.Bool().Draw(t, "twin-with-v4") {
			set = append(set, candSpec{IP: tw.TwinOf, As16: rapid.Bool().Draw(t, "twin-v4-as16")})
		}
		if rapid.Bool().Draw(t, "twin-with-public") {
			set = append([]candSpec{{IP: rapid.SampledFrom(publicRemote).Draw(t, "twin-public")}}, set...)
		}
		if rapid.Bool().Draw(t, "twin-embedded-last") && len(set) > 1 {
			set[0], set[len(set)-1] = set[len(set)-1], set[0]
		}
		c.Answers = [][]candSpec{set}
		c.SystemResolver = false
		r := c.Reqs[0]
		r.Scheme, r.Userinfo, r.Host, r.Port = "https", "", host, portRef{Of: 0}
		if rapid.Bool().Draw(t, "twin-host-upper") {
			r.Host = strings.ToUpper(host)
		}
		// harmless headers only: a hostile header would make the request invalid before any dial
		r.Headers = nil
		c.Reqs = append([]reqSpec{r}, c.Reqs[1:]...)
		for i := 1; i < len(c.Reqs); i++ { // other requests may only refer to the two listeners that exist
			if c.Reqs[i].Port.Of > 1 {
				c.Reqs[i].Port.Of = rapid.IntRange(0, 1).Draw(t, "twin-req-port")
			}
		}
	}
	// "same IP, other port": a request to a carved-out refused (IP, port) pair succeeds first; a
	// second request through the SAME Service then goes to an allowlisted hostname on another port
	// that resolves to the same IP (rebinding / internal DNS), where a listener waits. The
	// carve-out is for the pair, whatever was admitted before.
	if !c.Twin && rapid.IntRange(0, 7).Draw(t, "otherport-scenario") == 5 {
		var v4 []string
		for _, p := range pool {
			if p.TwinOf == "" && !strings.Contains(p.IP, ":") {
				v4 = append(v4, p.IP)
			}
		}
		if len(v4) > 0 {
			a := rapid.SampledFrom(v4).Draw(t, "otherport-ip")
			c.OtherPort = true
			c.Listeners = []lsnSpec{
				{Addr: a, SharePort: -1, Mode: "ok", Status: 302, BodyLen: 2},
				{Addr: a, SharePort: -1, Mode: rapid.SampledFrom([]string{"ok", "close"}).Draw(t, "otherport-mode"), Status: 302, BodyLen: 2}}
			host := rapid.SampledFrom(hostnames[:3]).Draw(t, "otherport-host")
			c.Allow = []allowSpec{{Scheme: "http", Host: a, Port: portRef{Of: 0}}, {Scheme: "https", Host: host, Port: portRef{Of: 1}}}
			c.CeilingMode = rapid.SampledFrom([]string{"none", "none", "unrestricted", "restricted"}).Draw(t, "otherport-ceiling")
			c.CeilingKeep = nil
			if c.CeilingMode == "restricted" {
				c.CeilingKeep = []int{0, 1}
			}
			c.Answers = [][]candSpec{{{IP: a, As16: rapid.Bool().Draw(t, "otherport-as16")}}}
			c.SystemResolver = false
			r0 := c.Reqs[0]
			r0.Scheme, r0.Userinfo, r0.Host, r0.Port, r0.Headers, r0.Method, r0.Path = "http", "", a, portRef{Of: 0}, nil, "GET", "/"
			r1 := r0
			r1.Scheme, r1.Host, r1.Port = "https", host, portRef{Of: 1}
			c.Reqs = []reqSpec{r0, r1}
			if c.TimeoutMs < 80 {
				c.TimeoutMs = 150
			}
			if c.MaxBytes < 16 {
				c.MaxBytes = 1024
			}
		}
	}
	return c
}

// ---- execution ------------------------------------------------------------------

type e2eViolation struct{ Key, Detail string }

type e2eResult struct {
	Violations []e2eViolation
	Classes    []string
	NonTrivial bool
	Inconcl    string
}

type caseResolver struct {
	mu      sync.Mutex
	answers [][]net.IP
	n       int
}

func (r *caseResolver) LookupIP(_ context.Context, host string) ([]net.IP, error) {
	r.mu.Lock()
	defer r.mu.Unlock()
	i := r.n
	if i >= len(r.answers) {
		i = len(r.answers) - 1
	}
	r.n++
	out := append([]net.IP(nil), r.answers[i]...)
	if oddLoopback[strings.ToLower(host)] {
		// what inet_aton / getaddrinfo make of these spellings
		out = append([]net.IP{net.IPv4(127, 0, 0, 1).To4()}, out...)
	}
	return out, nil
}

type markSecrets struct{}

func (markSecrets) Resolve(_ context.Context, name string) (string, error) {
	return "Bearer " + secretMark + name, nil
}

type pair struct {
	IP   netip.Addr
	Port string
}

func hostText(h string) string {
	if strings.Contains(h, ":") {
		return "[" + h + "]"
	}
	return h
}

func (e *e2eEnv) runE2ECase(c e2eCase) (res e2eResult) {
	// listeners
	var lsn []*obsListener
	defer func() {
		for _, l := range lsn {
			l.close()
		}
		e.proxy.take()
	}()
	// The proxy's and the redirect target's port numbers are never used by any
	// other listener (on whatever IP), so that no generated URL can address them.
	taken := map[string]bool{e.proxy.port: true}
	bindFresh := func(addr string) (*obsListener, error) {
		for try := 0; try < 20; try++ {
			l, err := listenObs(addr, "0")
			if err != nil {
				return nil, err
			}
			if taken[l.port] {
				l.close()
				continue
			}
			return l, nil
		}
		return nil, fmt.Errorf("no distinct free port")
	}
	for i, s := range c.Listeners {
		var l *obsListener
		var err error
		if s.SharePort >= 0 && s.SharePort < i {
			if l, err = listenObs(s.Addr, lsn[s.SharePort].port); err != nil {
				res.Classes = append(res.Classes, "e2e:shared-port-busy")
				l = nil
			}
		}
		if l == nil {
			l, err = bindFresh(s.Addr)
		}
		if err != nil {
			res.Inconcl = "cannot listen on " + s.Addr + ": " + err.Error()
			return res
		}
		l.mu.Lock()
		l.mode, l.status = s.Mode, s.Status
		l.body = bytes.Repeat([]byte("r"), s.BodyLen)
		l.mu.Unlock()
		lsn = append(lsn, l)
	}
	for _, l := range lsn {
		taken[l.port] = true
	}
	redir, err := bindFresh(c.RedirAddr)
	if err != nil {
		res.Inconcl = "cannot listen on " + c.RedirAddr + ": " + err.Error()
		return res
	}
	lsn = append(lsn, redir) // closed by the deferred cleanup
	nL := len(c.Listeners)
	for i, s := range c.Listeners {
		ip := redir.addr.String()
		var loc string
		switch s.LocForm {
		case "https-ip":
			loc = "https://" + hostText(ip) + ":" + redir.port + "/redirected"
		case "scheme-relative":
			loc = "//" + hostText(ip) + ":" + redir.port + "/redirected"
		case "http-ip-mapped":
			if redir.addr.Is4() {
				ip = "::ffff:" + ip
			}
			loc = "http://" + hostText(ip) + ":" + redir.port + "/redirected"
		default:
			loc = "http://" + hostText(ip) + ":" + redir.port + "/redirected"
		}
		lsn[i].mu.Lock()
		lsn[i].loc = loc
		lsn[i].mu.Unlock()
	}

	portOf := func(p portRef, scheme string) (port string, explicit bool) {
		switch {
		case p.Of >= 0 && p.Of < nL:
			return lsn[p.Of].port, true
		case p.Of == -1:
			return redir.port, true
		case p.Of == -2:
			return e.proxy.port, true
		case p.Of == -3:
			return strconv.Itoa(p.Lit), true
		}
		if scheme == "http" {
			return "80", false
		}
		return "443", false
	}

	// policy (built the way the engine builds it: settings -> PolicyFromSettings -> ResolvePolicy)
	var entries []string
	reqPairs := map[pair]bool{}
	ceilPairs := map[pair]bool{}
	kept := map[int]bool{}
	for _, i := range c.CeilingKeep {
		kept[i] = true
	}
	for i, a := range c.Allow {
		port, explicit := portOf(a.Port, a.Scheme)
		s := hostText(a.Host)
		if explicit {
			s += ":" + port
		}
		if a.Scheme != "" {
			s = a.Scheme + "://" + s
		}
		entries = append(entries, s)
		if ip, err := netip.ParseAddr(a.Host); err == nil {
			p := pair{ip.Unmap(), port}
			reqPairs[p] = true
			if kept[i] {
				ceilPairs[p] = true
			}
		}
	}
	settings := map[string]string{
		egress.ConfigKeyTimeout:          strconv.Itoa(c.TimeoutMs) + "ms",
		egress.ConfigKeyMaxResponseBytes: strconv.FormatInt(c.MaxBytes, 10),
	}
	if len(entries) > 0 {
		settings[egress.ConfigKeyAllow] = strings.Join(entries, ", ")
	}
	if len(c.Secrets) > 0 {
		settings[egress.ConfigKeySecretRefs] = strings.Join(c.Secrets, ",")
	}
	requested, err := egress.PolicyFromSettings(settings)
	if err != nil {
		res.Classes = append(res.Classes, "e2e:allowlist-rejected(skipped)")
		return res
	}
	effective := requested
	allowed := map[pair]bool{}
	switch c.CeilingMode {
	case "none", "unrestricted":
		allowed = reqPairs
	case "restricted":
		for p := range reqPairs {
			if ceilPairs[p] {
				allowed[p] = true
			}
		}
	}
	if c.CeilingMode != "none" {
		ceil := egress.Policy{Enabled: c.CeilingMode != "disabled"}
		if c.CeilingMode == "restricted" {
			var keep []string
			for i := range entries {
				if kept[i] {
					keep = append(keep, entries[i])
				}
			}
			ceil.Allowlist, err = egress.ParseAllowlist(strings.Join(keep, ","))
			if err != nil {
				res.Classes = append(res.Classes, "e2e:allowlist-rejected(skipped)")
				return res
			}
		}
		if c.CeilingScoped && len(c.CeilingSecrets) > 0 {
			ceil.SecretRefs = map[string]struct{}{}
			for _, s := range c.CeilingSecrets {
				ceil.SecretRefs[s] = struct{}{}
			}
		}
		if c.CeilingMode == "disabled" {
			ceil = egress.DenyAll()
		}
		effective, _ = egress.ResolvePolicy(requested, ceil)
	}
	granted := func(name string) bool {
		in := func(xs []string) bool {
			for _, x := range xs {
				if x == name {
					return true
				}
			}
			return false
		}
		if !in(c.Secrets) {
			return false
		}
		switch c.CeilingMode {
		case "none":
			return true
		case "disabled":
			return false
		case "unrestricted":
			return !c.CeilingScoped || len(c.CeilingSecrets) == 0 || in(c.CeilingSecrets)
		default:
			return c.CeilingScoped && in(c.CeilingSecrets)
		}
	}

	// service
	var opts []egress.Option
	if !c.SystemResolver {
		r := &caseResolver{}
		for _, set := range c.Answers {
			var ips []net.IP
			for _, cd := range set {
				ip := net.ParseIP(cd.IP)
				if v4 := ip.To4(); v4 != nil && !cd.As16 && !strings.Contains(cd.IP, ":") {
					ip = v4
				}
				ips = append(ips, ip)
			}
			r.answers = append(r.answers, ips)
		}
		opts = append(opts, egress.WithResolver(r))
	} else {
		res.Classes = append(res.Classes, "e2e:system-resolver")
	}
	if c.SecretBackend {
		opts = append(opts, egress.WithSecretResolver(markSecrets{}))
	}
	svc := egress.New(effective, log.Nop(), opts...)

	capBytes := c.MaxBytes
	for _, r := range c.Reqs {
		port, explicit := portOf(r.Port, strings.ToLower(r.Scheme))
		u := r.Scheme + "://" + r.Userinfo + r.Host
		if explicit {
			u += ":" + port
		}
		u += r.Path
		hdr := map[string][]string{}
		for _, h := range r.Headers {
			hdr[h[0]] = append(hdr[h[0]], h[1])
			if reservedCanon[textproto.CanonicalMIMEHeaderKey(h[0])] || strings.HasPrefix(h[0], ":") {
				res.Classes = append(res.Classes, "e2e:guest-sets-reserved-header")
			}
		}
		if pu, perr := url.Parse(u); perr == nil && pu.Hostname() != "" {
			h := strings.ToLower(pu.Hostname())
			dport := pu.Port()
			if dport == "" {
				dport = "443"
				if pu.Scheme == "http" {
					dport = "80"
				}
			}
			if effective.Enabled && effective.MatchHostPort(pu.Scheme, h, dport) {
				res.Classes = append(res.Classes, "e2e:stage1-pass")
				var targets []netip.Addr
				if a, err := netip.ParseAddr(h); err == nil {
					targets = append(targets, a.Unmap())
				} else if !c.SystemResolver {
					for _, set := range c.Answers {
						for _, cd := range set {
							if a, err := netip.ParseAddr(cd.IP); err == nil {
								targets = append(targets, a.Unmap())
							}
						}
					}
					if oddLoopback[h] {
						targets = append(targets, netip.MustParseAddr("127.0.0.1"))
					}
				} else if h == "localhost" {
					targets = append(targets, netip.MustParseAddr("127.0.0.1"), netip.MustParseAddr("::1"))
				}
				for _, a := range targets {
					for _, l := range lsn[:nL] {
						if l.addr == a && l.port == dport {
							if allowed[pair{a, dport}] {
								res.Classes = append(res.Classes, "e2e:candidate-is-carved-out-listener")
							} else {
								res.Classes = append(res.Classes, "e2e:gate-alone-protects-a-live-listener")
							}
						}
					}
				}
			}
		}
		resp, derr := svc.Do(context.Background(), pprocutils.HTTPRequest{
			Method: r.Method, URL: u, Headers: hdr, Body: []byte(r.Body), AuthSecretRef: r.SecretRef,
		})
		switch {
		case derr == nil:
			res.Classes = append(res.Classes, "e2e:do-ok")
			if int64(len(resp.Body)) > capBytes {
				res.Violations = append(res.Violations, e2eViolation{"C18/e2e/response-exceeds-cap",
					fmt.Sprintf("Do returned %d body bytes, the processor's cap is %d", len(resp.Body), capBytes)})
			}
		case cerrors.Is(derr, pprocutils.ErrHTTPForbidden):
			res.Classes = append(res.Classes, "e2e:do-forbidden")
		case cerrors.Is(derr, pprocutils.ErrHTTPEgressDisabled):
			res.Classes = append(res.Classes, "e2e:do-disabled")
		case cerrors.Is(derr, pprocutils.ErrHTTPInvalidRequest):
			res.Classes = append(res.Classes, "e2e:do-invalid-request")
		case cerrors.Is(derr, pprocutils.ErrHTTPDNS):
			res.Classes = append(res.Classes, "e2e:do-dns")
		case cerrors.Is(derr, pprocutils.ErrHTTPTimeout):
			res.Classes = append(res.Classes, "e2e:do-timeout")
		case cerrors.Is(derr, pprocutils.ErrHTTPResponseTooLarge):
			res.Classes = append(res.Classes, "e2e:do-too-large")
		default:
			res.Classes = append(res.Classes, "e2e:do-transport-error")
		}
	}

	// observation
	all := append(append([]*obsListener{}, lsn...), e.proxy)
	for _, l := range all {
		if err := l.barrier(); err != nil {
			res.Inconcl = err.Error()
			return res
		}
	}
	checkHeaders := func(l *obsListener, oc *obsConn) {
		if len(oc.Raw) == 0 || oc.Raw[0] == 0x16 {
			return
		}
		head := string(oc.Raw)
		if i := strings.Index(head, "\r\n\r\n"); i >= 0 {
			head = head[:i]
		}
		lines := strings.FieldsFunc(head, func(r rune) bool { return r == '\r' || r == '\n' })
		for _, ln := range lines[min(1, len(lines)):] {
			name, val, ok := strings.Cut(ln, ":")
			if !ok {
				continue
			}
			canon := textproto.CanonicalMIMEHeaderKey(strings.TrimSpace(name))
			if reservedCanon[canon] && strings.Contains(val, guestMark) {
				res.Violations = append(res.Violations, e2eViolation{"C18/e2e/reserved-header-arrived/" + canon,
					fmt.Sprintf("listener %s:%s received guest-controlled %q", l.addr, l.port, ln)})
			}
			if canon == "Authorization" {
				if i := strings.Index(val, secretMark); i >= 0 {
					name := strings.TrimSpace(val[i+len(secretMark):])
					if !granted(name) {
						res.Violations = append(res.Violations, e2eViolation{"C18/e2e/ungranted-secret-injected",
							fmt.Sprintf("listener %s:%s received the host-injected secret %q which the effective policy does not grant", l.addr, l.port, name)})
					}
					res.Classes = append(res.Classes, "e2e:secret-injected")
				}
			}
		}
	}
	for i, l := range lsn {
		conns := l.take()
		if len(conns) == 0 {
			continue
		}
		p := pair{l.addr, l.port}
		isRedir := i == nL
		switch {
		case isRedir:
			k := "C18/e2e/redirect-followed/carved-out-target"
			if !allowed[p] {
				k = "C18/e2e/redirect-followed/refused-target"
			}
			res.Violations = append(res.Violations, e2eViolation{k,
				fmt.Sprintf("redirect target %s:%s received %d connection(s); no request addressed it, redirects must not be followed", l.addr, l.port, len(conns))})
		case !allowed[p]:
			res.Violations = append(res.Violations, e2eViolation{"C18/e2e/connect-not-carved-out/" + classOfLocal(l.addr),
				fmt.Sprintf("listener %s:%s received %d connection(s) but (%s, %s) is not an exact allowlist pair of the effective policy", l.addr, l.port, len(conns), l.addr, l.port)})
		default:
			res.Classes = append(res.Classes, "e2e:carved-out-listener-reached", "e2e:reached:"+classOfLocal(l.addr))
			if l.mode == "redirect" {
				for _, oc := range conns {
					if len(oc.Raw) > 0 && oc.Raw[0] != 0x16 {
						res.Classes = append(res.Classes, "e2e:redirect-served")
						break
					}
				}
			}
		}
		for _, oc := range conns {
			if len(oc.Raw) > 0 && oc.Raw[0] == 0x16 {
				res.Classes = append(res.Classes, "e2e:tls-hello-observed")
			}
			checkHeaders(l, oc)
		}
	}
	var pc []*obsConn
	for _, oc := range e.proxy.take() {
		// A client that uses a proxy speaks first (CONNECT / absolute-URI request).
		// A silent connection on the process-wide proxy listener can only be a
		// left-over of an aborted barrier of an earlier case; it is not evidence.
		if len(oc.Raw) == 0 || bytes.HasPrefix(oc.Raw, []byte(sentinelMagic)) {
			res.Classes = append(res.Classes, "e2e:silent-proxy-connection-ignored")
			continue
		}
		pc = append(pc, oc)
	}
	if len(pc) > 0 {
		first := ""
		if len(pc[0].Raw) > 0 {
			first = strings.SplitN(string(pc[0].Raw), "\r\n", 2)[0]
		}
		k := "C18/e2e/proxy-contacted"
		if allowed[pair{e.proxy.addr, e.proxy.port}] {
			k = "C18/e2e/proxy-contacted/proxy-address-carved-out"
		}
		res.Violations = append(res.Violations, e2eViolation{k,
			fmt.Sprintf("the proxy named by HTTP(S)_PROXY/ALL_PROXY received %d connection(s), first request line %q", len(pc), first)})
	}

	// evidence classes / non-trivial rule
	carve := false
	for p := range reqPairs {
		if r, _ := egress.Refuse(net.IP(p.IP.AsSlice())); r {
			carve = true
		}
	}
	mixed := false
	if !c.SystemResolver {
		for _, set := range c.Answers {
			pub, ref := false, false
			for _, cd := range set {
				if r, _ := egress.Refuse(net.ParseIP(cd.IP)); r {
					ref = true
				} else {
					pub = true
				}
			}
			mixed = mixed || pub && ref
		}
	}
	if carve {
		res.Classes = append(res.Classes, "e2e:carve-out-present")
	}
	if mixed {
		res.Classes = append(res.Classes, "e2e:mixed-public-and-refused-answer")
	}
	res.Classes = append(res.Classes, "e2e:ceiling-"+c.CeilingMode)
	if c.Twin {
		res.Classes = append(res.Classes, "e2e:embedded-twin-of-carved-out-pair")
	}
	if c.OtherPort {
		res.Classes = append(res.Classes, "e2e:same-ip-other-port-after-carved-out-call")
	}
	res.NonTrivial = carve || mixed
	return res
}

func dedup(xs []string) []string {
	seen := map[string]bool{}
	var out []string
	for _, x := range xs {
		if !seen[x] {
			seen[x] = true
			out = append(out, x)
		}
	}
	return out
}

// TestC18E2E: no connection reaches a refused address unless it is an exact
// (IP, port) carve-out; proxies and redirects are never used; guest-set
// reserved headers never arrive.
func TestC18E2E(t *testing.T) {
	st := pbt.For("C18")
	defer st.Finish(t)
	env, err := setupE2E()
	if err != nil {
		st.Inconcl("e2e environment: " + err.Error())
		t.Skip(err)
	}
	defer env.restore()
	if netnsActive {
		st.SetExtra("e2e_private_netns", 1)
	} else {
		st.SetExtra("e2e_loopback_only", 1)
	}
	st.SetExtra("e2e_listener_addresses", len(env.pool))

	rapid.Check(t, func(t *rapid.T) {
		c := genE2ECase(t, env.pool)
		pbt.MarkCurrent("C18", c)
		res := env.runE2ECase(c)
		if res.Inconcl != "" {
			st.Inconcl(res.Inconcl)
		}
		classes := dedup(res.Classes)
		if res.NonTrivial {
			classes = append(classes, "e2e:nontrivial")
		}
		st.Case(pbt.Hash(c), res.NonTrivial, classes...)
		if res.NonTrivial && st.WantSample() {
			st.Sample(c)
		}
		for _, v := range res.Violations {
			if st.Report(v.Key, v.Detail, len(fmt.Sprint(c)), c) {
				t.Fatalf("%s: %s", v.Key, v.Detail)
			}
		}
	})
}
