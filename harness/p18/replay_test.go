package p18

import (
	"encoding/json"
	"os"
	"testing"
)

type replayDoc struct {
	Property string          `json:"property"`
	Key      string          `json:"key"`
	Detail   string          `json:"detail"`
	Replay   json.RawMessage `json:"replay"`
}

// TestReplayC18 re-executes one saved case (any of the three parts) and fails
// iff a violation with the recorded key reproduces.
func TestReplayC18(t *testing.T) {
	f := os.Getenv("VERIF_REPLAY_FILE")
	if f == "" {
		t.Skip("VERIF_REPLAY_FILE not set")
	}
	raw, err := os.ReadFile(f)
	if err != nil {
		t.Fatal(err)
	}
	var doc replayDoc
	if err := json.Unmarshal(raw, &doc); err != nil {
		t.Fatal(err)
	}
	var head struct {
		Part string `json:"part"`
	}
	if err := json.Unmarshal(doc.Replay, &head); err != nil {
		t.Fatal(err)
	}
	hit := func(key, detail string) {
		if doc.Key == "" || key == doc.Key {
			t.Errorf("reproduced %s: %s", key, detail)
		} else {
			t.Logf("other violation %s: %s", key, detail)
		}
	}
	switch head.Part {
	case "addr":
		var c addrCase
		if err := json.Unmarshal(doc.Replay, &c); err != nil {
			t.Fatal(err)
		}
		for _, v := range checkAddrCase(c) {
			hit(v.Key, v.Detail)
		}
	case "policy":
		var c policyCase
		if err := json.Unmarshal(doc.Replay, &c); err != nil {
			t.Fatal(err)
		}
		for _, v := range runPolicyCase(c).Violations {
			hit(v.Key, v.Detail)
		}
	case "e2e":
		var c e2eCase
		if err := json.Unmarshal(doc.Replay, &c); err != nil {
			t.Fatal(err)
		}
		env, err := setupE2E()
		if err != nil {
			t.Skip(err)
		}
		defer env.restore()
		for i := 0; i < 3; i++ { // ports are assigned afresh on every run
			res := env.runE2ECase(c)
			if res.Inconcl != "" {
				t.Logf("run %d inconclusive: %s", i, res.Inconcl)
				continue
			}
			for _, v := range res.Violations {
				hit(v.Key, v.Detail)
			}
			if len(res.Violations) > 0 {
				return
			}
		}
	default:
		t.Skipf("unknown replay part %q", head.Part)
	}
}
