package p18

import (
	"encoding/binary"
	"encoding/hex"
	"fmt"
	"net"
	"net/netip"
	"strconv"
	"strings"
	"testing"

	"github.com/conduitio/conduit/pkg/plugin/processor/egress"
	"pgregory.net/rapid"
	"verifharness/pbt"
)

// ---------------------------------------------------------------------------
// Independent classifier of the DOCUMENTED floor (see NOTES.md for the source
// line of every range). It is deliberately written with integer ranges and
// byte tests, not with net.IPNet, so that it shares nothing with ipguard.go.
// The oracle is one-directional: mustRefuse(ip) => egress.Refuse(ip) refuses.
// ---------------------------------------------------------------------------

type v4range struct {
	Name   string
	Lo, Hi uint32
}

var floorV4 = []v4range{
	{"this-net-0.0.0.0/8", 0x00000000, 0x00ffffff},
	{"private-10/8", 0x0a000000, 0x0affffff},
	{"cgnat-100.64/10", 0x64400000, 0x647fffff},
	{"loopback-127/8", 0x7f000000, 0x7fffffff},
	{"linklocal-169.254/16", 0xa9fe0000, 0xa9feffff},
	{"private-172.16/12", 0xac100000, 0xac1fffff},
	{"private-192.168/16", 0xc0a80000, 0xc0a8ffff},
	{"multicast-224/4", 0xe0000000, 0xefffffff},
	{"reserved-240/4", 0xf0000000, 0xfffffffe},
	{"broadcast", 0xffffffff, 0xffffffff},
}

// mustRefuse4 returns the floor range v belongs to ("" = none, i.e. the floor
// does not demand a refusal).
func mustRefuse4(v uint32) string {
	for i := range floorV4 {
		if v >= floorV4[i].Lo && v <= floorV4[i].Hi {
			return floorV4[i].Name
		}
	}
	return ""
}

func nearBoundary4(v uint32) bool {
	for _, r := range floorV4 {
		for _, e := range [2]uint32{r.Lo, r.Hi} {
			if v == e || v == e+1 || v == e-1 { // uint32 wrap-around is intended
				return true
			}
		}
	}
	return false
}

type v6range struct {
	Name   string
	Lo, Hi [16]byte
}

func pfx(s string) v6range {
	p := netip.MustParsePrefix(s)
	lo := p.Masked().Addr().As16()
	hi := lo
	for bit := p.Bits(); bit < 128; bit++ {
		hi[bit/8] |= 0x80 >> (bit % 8)
	}
	return v6range{Name: s, Lo: lo, Hi: hi}
}

// Native IPv6 floor ranges.
var floorV6 = []v6range{
	func() v6range { r := pfx("::/128"); r.Name = "v6-unspecified"; return r }(),
	func() v6range { r := pfx("::1/128"); r.Name = "v6-loopback"; return r }(),
	func() v6range { r := pfx("fe80::/10"); r.Name = "v6-linklocal-fe80/10"; return r }(),
	func() v6range { r := pfx("fec0::/10"); r.Name = "v6-sitelocal-fec0/10"; return r }(),
	func() v6range { r := pfx("fc00::/7"); r.Name = "v6-ula-fc00/7"; return r }(),
	func() v6range { r := pfx("ff00::/8"); r.Name = "v6-multicast-ff00/8"; return r }(),
}

// Embedded-IPv4 forms the code/doc says it handles.
var embeddedForms = []string{"mapped", "compatible", "translated", "nat64", "6to4", "teredo"}

func be32(b []byte) uint32 { return binary.BigEndian.Uint32(b) }

func allZero(b []byte) bool {
	for _, x := range b {
		if x != 0 {
			return false
		}
	}
	return true
}

// embedded returns the embedded-IPv4 form of a 16-byte address ("" if none)
// and the embedded IPv4 value(s).
func embedded(b [16]byte) (string, []uint32) {
	switch {
	case allZero(b[0:10]) && b[10] == 0xff && b[11] == 0xff:
		return "mapped", []uint32{be32(b[12:16])}
	case allZero(b[0:12]):
		// :: and ::1 are native (unspecified / loopback); the rest of ::/96 is IPv4-compatible.
		v := be32(b[12:16])
		if v == 0 || v == 1 {
			return "", nil
		}
		return "compatible", []uint32{v}
	case allZero(b[0:8]) && b[8] == 0xff && b[9] == 0xff && b[10] == 0 && b[11] == 0:
		return "translated", []uint32{be32(b[12:16])}
	case b[0] == 0x00 && b[1] == 0x64 && b[2] == 0xff && b[3] == 0x9b && allZero(b[4:12]):
		return "nat64", []uint32{be32(b[12:16])}
	case b[0] == 0x20 && b[1] == 0x02:
		return "6to4", []uint32{be32(b[2:6])}
	case b[0] == 0x20 && b[1] == 0x01 && b[2] == 0 && b[3] == 0:
		// Teredo: server IPv4 in bytes 4..7, client IPv4 bit-inverted in bytes 12..15.
		return "teredo", []uint32{be32(b[4:8]), ^be32(b[12:16])}
	}
	return "", nil
}

// mustRefuse16 classifies a 16-byte address against the documented floor.
// It returns the violation-key fragment of the class ("" = floor silent).
func mustRefuse16(b [16]byte) (class string, form string) {
	if f, vals := embedded(b); f != "" {
		for _, v := range vals {
			if r := mustRefuse4(v); r != "" {
				return "embedded-" + f + "/" + r, f
			}
		}
		return "", f
	}
	for i := range floorV6 {
		if cmp16(b, floorV6[i].Lo) >= 0 && cmp16(b, floorV6[i].Hi) <= 0 {
			return floorV6[i].Name, ""
		}
	}
	return "", ""
}

func cmp16(a, b [16]byte) int {
	for i := 0; i < 16; i++ {
		if a[i] != b[i] {
			if a[i] < b[i] {
				return -1
			}
			return 1
		}
	}
	return 0
}

func add16(a [16]byte, d int) [16]byte {
	for i := 15; i >= 0 && d != 0; i-- {
		s := int(a[i]) + d
		switch {
		case s < 0:
			a[i] = byte(s + 256)
			d = -1
		case s > 255:
			a[i] = byte(s - 256)
			d = 1
		default:
			a[i] = byte(s)
			d = 0
		}
	}
	return a
}

func nearBoundary16(b [16]byte) bool {
	for _, r := range floorV6 {
		for _, e := range [2][16]byte{r.Lo, r.Hi} {
			if b == e || b == add16(e, 1) || b == add16(e, -1) {
				return true
			}
		}
	}
	return false
}

// mustRefuseIP applies the floor to a net.IP as the code under test receives it.
func mustRefuseIP(ip net.IP) (class string, form string) {
	switch len(ip) {
	case 4:
		return func() string {
			if r := mustRefuse4(be32(ip)); r != "" {
				return "v4-floor/" + r
			}
			return ""
		}(), ""
	case 16:
		var b [16]byte
		copy(b[:], ip)
		c, f := mustRefuse16(b)
		if c != "" && !strings.HasPrefix(c, "embedded-") {
			c = "v6-floor/" + c
		}
		return c, f
	}
	return "", ""
}

// ---------------------------------------------------------------------------
// Generators
// ---------------------------------------------------------------------------

var specialV4 = []uint32{
	0xa9fea9fe, // 169.254.169.254 cloud metadata
	0x00000000, 0xffffffff, 0x7f000001, 0x7f000035,
	0x646464c8, // 100.100.100.200 (a metadata address inside CGNAT)
	0xa9fe00fe, 0xc0a80001, 0x0a000001, 0xac1f0001, 0xe0000001, 0xe00000fb,
	0x08080808, 0x01010101, 0xcb00710a, // public controls
}

func genV4(t *rapid.T, label string) (uint32, string) {
	switch rapid.IntRange(0, 9).Draw(t, label+"-strategy") {
	case 0, 1, 2, 3:
		r := rapid.SampledFrom(floorV4).Draw(t, label+"-range")
		edge := r.Lo
		if rapid.Bool().Draw(t, label+"-hi") {
			edge = r.Hi
		}
		d := rapid.IntRange(-1, 1).Draw(t, label+"-delta")
		return edge + uint32(d), "boundary"
	case 4, 5, 6:
		r := rapid.SampledFrom(floorV4).Draw(t, label+"-range")
		return rapid.Uint32Range(r.Lo, r.Hi).Draw(t, label+"-inside"), "inside"
	case 7, 8:
		return rapid.Uint32().Draw(t, label+"-uniform"), "uniform"
	default:
		return rapid.SampledFrom(specialV4).Draw(t, label+"-special"), "special"
	}
}

var v6PrefixClasses = []string{
	"mapped", "compatible", "translated", "nat64", "6to4", "teredo-server", "teredo-client",
	"native-boundary", "native-inside", "global-unicast", "uniform",
	"near-mapped", "near-translated", "near-nat64", "near-6to4", "near-teredo",
}

func put32(b []byte, v uint32) { binary.BigEndian.PutUint32(b, v) }

func genTail(t *rapid.T, b []byte, label string) {
	if rapid.Bool().Draw(t, label+"-zero") {
		return
	}
	for i := range b {
		b[i] = rapid.Byte().Draw(t, label)
	}
}

func genV6(t *rapid.T) (b [16]byte, class string) {
	class = rapid.SampledFrom(v6PrefixClasses).Draw(t, "v6-prefix-class")
	switch class {
	case "mapped":
		v, _ := genV4(t, "emb")
		b[10], b[11] = 0xff, 0xff
		put32(b[12:], v)
	case "compatible":
		v, _ := genV4(t, "emb")
		put32(b[12:], v)
	case "translated":
		v, _ := genV4(t, "emb")
		b[8], b[9] = 0xff, 0xff
		put32(b[12:], v)
	case "nat64":
		v, _ := genV4(t, "emb")
		copy(b[:], []byte{0x00, 0x64, 0xff, 0x9b})
		put32(b[12:], v)
	case "6to4":
		v, _ := genV4(t, "emb")
		b[0], b[1] = 0x20, 0x02
		put32(b[2:], v)
		genTail(t, b[6:], "6to4-tail")
	case "teredo-server":
		v, _ := genV4(t, "emb")
		b[0], b[1] = 0x20, 0x01
		put32(b[4:], v)
		genTail(t, b[8:12], "teredo-flags")
		c, _ := genV4(t, "client")
		put32(b[12:], ^c)
	case "teredo-client":
		b[0], b[1] = 0x20, 0x01
		put32(b[4:], rapid.SampledFrom([]uint32{0x08080808, 0x41370e9b, 0x01010101}).Draw(t, "teredo-public-server"))
		v, _ := genV4(t, "emb")
		put32(b[12:], ^v)
	case "native-boundary":
		r := rapid.SampledFrom(floorV6).Draw(t, "v6-range")
		e := r.Lo
		if rapid.Bool().Draw(t, "v6-hi") {
			e = r.Hi
		}
		b = add16(e, rapid.IntRange(-1, 1).Draw(t, "v6-delta"))
	case "native-inside":
		r := rapid.SampledFrom(floorV6).Draw(t, "v6-range")
		for i := 0; i < 16; i++ {
			x := rapid.Byte().Draw(t, "v6-inside")
			mask := r.Lo[i] ^ r.Hi[i] // free bits of this byte
			b[i] = r.Lo[i]&^mask | x&mask
		}
	case "global-unicast":
		for i := range b {
			b[i] = rapid.Byte().Draw(t, "v6-gu")
		}
		b[0] = 0x20 | b[0]&0x1f
	case "uniform":
		for i := range b {
			b[i] = rapid.Byte().Draw(t, "v6-u")
		}
	default: // near-*: the embedded-form prefix with exactly one prefix bit flipped
		v, _ := genV4(t, "emb")
		plen := 96
		switch class {
		case "near-mapped":
			b[10], b[11] = 0xff, 0xff
			put32(b[12:], v)
		case "near-translated":
			b[8], b[9] = 0xff, 0xff
			put32(b[12:], v)
		case "near-nat64":
			copy(b[:], []byte{0x00, 0x64, 0xff, 0x9b})
			put32(b[12:], v)
		case "near-6to4":
			b[0], b[1] = 0x20, 0x02
			put32(b[2:], v)
			plen = 16
		case "near-teredo":
			b[0], b[1] = 0x20, 0x01
			put32(b[4:], v)
			plen = 32
		}
		bit := rapid.IntRange(0, plen-1).Draw(t, "flip-bit")
		b[bit/8] ^= 0x80 >> (bit % 8)
	}
	return b, class
}

// textual encodings -----------------------------------------------------------

var v4TextStyles = []string{"dotted", "mapped-dotted", "mapped-hex", "mapped-expanded", "zero-padded", "upper-mapped"}
var v6TextStyles = []string{"canonical", "expanded", "upper", "mixed-dotted-tail", "zone", "netip-canonical"}

func renderV4(v uint32, style string) string {
	a, b, c, d := byte(v>>24), byte(v>>16), byte(v>>8), byte(v)
	switch style {
	case "dotted":
		return fmt.Sprintf("%d.%d.%d.%d", a, b, c, d)
	case "mapped-dotted":
		return fmt.Sprintf("::ffff:%d.%d.%d.%d", a, b, c, d)
	case "mapped-hex":
		return fmt.Sprintf("::ffff:%x:%x", uint16(v>>16), uint16(v))
	case "mapped-expanded":
		return fmt.Sprintf("0000:0000:0000:0000:0000:ffff:%04x:%04x", uint16(v>>16), uint16(v))
	case "upper-mapped":
		return fmt.Sprintf("0:0:0:0:0:FFFF:%04X:%04X", uint16(v>>16), uint16(v))
	default: // zero-padded: refused by modern parsers (then the nil result must be refused)
		return fmt.Sprintf("%03d.%03d.%03d.%03d", a, b, c, d)
	}
}

func renderV6(b [16]byte, style string) string {
	g := func(i int) uint16 { return uint16(b[2*i])<<8 | uint16(b[2*i+1]) }
	switch style {
	case "expanded":
		return fmt.Sprintf("%04x:%04x:%04x:%04x:%04x:%04x:%04x:%04x", g(0), g(1), g(2), g(3), g(4), g(5), g(6), g(7))
	case "upper":
		return fmt.Sprintf("%X:%X:%X:%X:%X:%X:%X:%X", g(0), g(1), g(2), g(3), g(4), g(5), g(6), g(7))
	case "mixed-dotted-tail":
		return fmt.Sprintf("%x:%x:%x:%x:%x:%x:%d.%d.%d.%d", g(0), g(1), g(2), g(3), g(4), g(5), b[12], b[13], b[14], b[15])
	case "zone":
		return netip.AddrFrom16(b).String() + "%eth0"
	case "netip-canonical":
		return netip.AddrFrom16(b).String()
	default:
		return net.IP(b[:]).String()
	}
}

// addrCase is the replay value of part (a).
type addrCase struct {
	Part      string `json:"part"` // "addr"
	Kind      string `json:"kind"`
	Hex       string `json:"hex"` // address bytes (4 or 16)
	Text      string `json:"text,omitempty"`
	TextStyle string `json:"text_style,omitempty"`
}

type addrViolation struct {
	Key    string
	Detail string
}

func refuses(ip net.IP) (bool, string) {
	r, reason := egress.Refuse(ip)
	return r, fmt.Sprint(reason)
}

// checkIP runs the one-directional oracle on one net.IP value.
func checkIP(ip net.IP, how string) *addrViolation {
	class, _ := mustRefuseIP(ip)
	if class == "" {
		return nil
	}
	if r, _ := refuses(ip); !r {
		return &addrViolation{
			Key:    "C18/addr/" + class,
			Detail: fmt.Sprintf("egress.Refuse(%s) [%d-byte, %s] = allowed, but the documented floor (%s) demands a refusal", ip, len(ip), how, class),
		}
	}
	return nil
}

// checkAddrCase evaluates every representation of the case's address.
func checkAddrCase(c addrCase) []*addrViolation {
	var out []*addrViolation
	raw, _ := hex.DecodeString(c.Hex)
	add := func(v *addrViolation) {
		if v != nil {
			out = append(out, v)
		}
	}
	switch len(raw) {
	case 4:
		add(checkIP(net.IP(raw), "4-byte"))
		add(checkIP(net.IPv4(raw[0], raw[1], raw[2], raw[3]), "16-byte v4-in-v6"))
	case 16:
		add(checkIP(net.IP(raw), "16-byte"))
	}
	if c.Text != "" {
		if ip := net.ParseIP(c.Text); ip != nil {
			add(checkIP(ip, "net.ParseIP("+strconv.Quote(c.Text)+")"))
		} else if r, _ := refuses(nil); !r {
			add(&addrViolation{Key: "C18/addr/unparseable-not-refused", Detail: "egress.Refuse(nil) = allowed (result of net.ParseIP on a rejected text form)"})
		}
		if a, err := netip.ParseAddr(c.Text); err == nil {
			add(checkIP(net.IP(a.AsSlice()), "netip.ParseAddr("+strconv.Quote(c.Text)+").AsSlice"))
		}
	}
	return out
}

const addrBatch = 16

type addrMeta struct {
	classes    []string
	nontrivial bool
}

func genAddrCase(t *rapid.T) (addrCase, addrMeta) {
	var c addrCase
	var m addrMeta
	c.Part = "addr"
	if rapid.IntRange(0, 9).Draw(t, "family") < 4 {
		v, strat := genV4(t, "v4")
		var raw [4]byte
		put32(raw[:], v)
		c.Kind, c.Hex = "v4-"+strat, hex.EncodeToString(raw[:])
		if rapid.Bool().Draw(t, "with-text") {
			c.TextStyle = rapid.SampledFrom(v4TextStyles).Draw(t, "text-style")
			c.Text = renderV4(v, c.TextStyle)
		}
		r := mustRefuse4(v)
		if r == "" {
			r = "outside-floor"
		}
		m.classes = append(m.classes, "addr:v4:"+strat, "addr:v4:"+r)
		m.nontrivial = nearBoundary4(v)
	} else {
		b, pc := genV6(t)
		c.Kind, c.Hex = "v6-"+pc, hex.EncodeToString(b[:])
		if rapid.Bool().Draw(t, "with-text") {
			c.TextStyle = rapid.SampledFrom(v6TextStyles).Draw(t, "text-style")
			c.Text = renderV6(b, c.TextStyle)
		}
		class, form := mustRefuse16(b)
		switch {
		case form != "" && class != "":
			m.classes = append(m.classes, "addr:v6:embedded-"+form+":refused-v4")
		case form != "":
			m.classes = append(m.classes, "addr:v6:embedded-"+form+":public-v4")
		case class != "":
			m.classes = append(m.classes, "addr:v6:"+class)
		default:
			m.classes = append(m.classes, "addr:v6:outside-floor")
		}
		m.classes = append(m.classes, "addr:v6gen:"+pc)
		m.nontrivial = form != "" || nearBoundary16(b)
	}
	if c.TextStyle != "" {
		m.classes = append(m.classes, "addr:text:"+c.TextStyle)
	}
	return c, m
}

var publicSample = []string{"8.8.8.8", "1.1.1.1", "9.9.9.9", "93.184.216.34", "2606:4700:4700::1111", "2001:4860:4860::8888", "2620:fe::fe", "::ffff:8.8.8.8"}

// TestC18Addr: address-classifier differential against the documented floor.
func TestC18Addr(t *testing.T) {
	st := pbt.For("C18")
	defer st.Finish(t)

	// Vacuity guard (statistic only): a classifier that refuses everything would
	// satisfy the one-directional oracle trivially.
	allowed := 0
	for _, s := range publicSample {
		if r, reason := refuses(net.ParseIP(s)); r {
			st.Inconcl("vacuity guard: public address " + s + " is refused (" + reason + ")")
		} else {
			allowed++
		}
	}
	st.SetExtra("addr_public_sample_allowed", allowed)

	rapid.Check(t, func(t *rapid.T) {
		// One rapid case is a batch of addrBatch addresses (the per-case
		// crash-marker file write dominates the cost of a single address).
		batch := make([]addrCase, 0, addrBatch)
		meta := make([]addrMeta, 0, addrBatch)
		for i := 0; i < addrBatch; i++ {
			c, m := genAddrCase(t)
			batch = append(batch, c)
			meta = append(meta, m)
		}
		pbt.MarkCurrent("C18", batch)
		for i, c := range batch {
			m := meta[i]
			if m.nontrivial {
				m.classes = append(m.classes, "addr:nontrivial")
			}
			st.Case(pbt.Hash(c), m.nontrivial, m.classes...)
			if m.nontrivial && st.WantSample() {
				st.Sample(c)
			}
			for _, v := range checkAddrCase(c) {
				if st.Report(v.Key, v.Detail, len(c.Hex)+len(c.Text), c) {
					t.Fatalf("%s: %s", v.Key, v.Detail)
				}
			}
		}
	})

	if pbt.Tier() == "thorough" {
		sweepIPv4(t, st)
	}
}

// shardIndex extracts the numeric suffix of VERIF_SHARD ("<part>-<n>").
func shardIndex() int {
	s := pbt.Env("VERIF_SHARD", "0")
	if i := strings.LastIndexByte(s, '-'); i >= 0 {
		s = s[i+1:]
	}
	n, err := strconv.Atoi(s)
	if err != nil || n < 0 {
		return 0
	}
	return n
}

// sweepIPv4 checks every IPv4 address whose top byte is congruent to this
// shard's index (4-byte form and 16-byte v4-mapped form).
func sweepIPv4(t *testing.T, st *pbt.Stats) {
	shards := pbt.EnvInt("C18_SHARDS", 16)
	if shards < 1 {
		shards = 1
	}
	me := shardIndex() % shards
	var swept, floor, allowed, stricter int64
	reported := map[string]bool{}
	ip4 := make(net.IP, 4)
	ip16 := make(net.IP, 16)
	ip16[10], ip16[11] = 0xff, 0xff
	for top := 0; top < 256; top++ {
		if top%shards != me {
			continue
		}
		base := uint32(top) << 24
		for low := uint32(0); low < 1<<24; low++ {
			v := base | low
			put32(ip4, v)
			put32(ip16[12:], v)
			must := mustRefuse4(v)
			r4, _ := egress.Refuse(ip4)
			r16, _ := egress.Refuse(ip16)
			swept++
			switch {
			case must != "":
				floor++
				for _, bad := range []struct {
					refused bool
					key     string
					ip      net.IP
				}{{r4, "C18/addr/v4-floor/" + must, ip4}, {r16, "C18/addr/embedded-mapped/" + must, ip16}} {
					if bad.refused || reported[bad.key] {
						continue
					}
					reported[bad.key] = true
					st.Report(bad.key, fmt.Sprintf("exhaustive sweep: egress.Refuse(%s) [%d-byte] = allowed, but the address is in %s", bad.ip, len(bad.ip), must),
						8, addrCase{Part: "addr", Kind: "sweep", Hex: hex.EncodeToString(bad.ip)})
				}
			case r4:
				stricter++
			default:
				allowed++
			}
		}
	}
	st.Class("addr:ipv4-exhaustive", int(swept))
	st.SetExtra("ipv4_swept", swept)
	st.SetExtra("ipv4_exhaustive_shard", 1)
	st.SetExtra("ipv4_sweep_in_floor", floor)
	st.SetExtra("ipv4_sweep_allowed", allowed)
	st.SetExtra("ipv4_sweep_refused_beyond_floor", stricter)
	if swept > 0 && allowed == 0 && floor < swept {
		st.Inconcl("vacuity guard: the sweep found no allowed IPv4 address outside the floor in this shard")
	}
}

// FuzzC18Addr: native fuzz target over raw address bytes (4 or 16) and text.
func FuzzC18Addr(f *testing.F) {
	for _, s := range []string{"169.254.169.254", "64:ff9b::a9fe:a9fe", "::ffff:0:a9fe:a9fe", "2002:a9fe:a9fe::1", "100.64.0.0", "100.127.255.255", "fe80::1", "::ffff:127.0.0.1", "8.8.8.8"} {
		ip := net.ParseIP(s)
		f.Add([]byte(ip), s)
		if v4 := ip.To4(); v4 != nil {
			f.Add([]byte(v4), s)
		}
	}
	f.Fuzz(func(t *testing.T, raw []byte, text string) {
		if len(raw) == 4 || len(raw) == 16 {
			if v := checkIP(net.IP(raw), "fuzz bytes"); v != nil {
				t.Fatalf("%s: %s", v.Key, v.Detail)
			}
		}
		if ip := net.ParseIP(text); ip != nil {
			if v := checkIP(ip, "fuzz text"); v != nil {
				t.Fatalf("%s: %s", v.Key, v.Detail)
			}
		}
	})
}
