package p18

import (
	"fmt"
	"net"
	"os"
	"os/exec"
	"os/signal"
	"regexp"
	"runtime"
	"strings"
	"syscall"
	"testing"
)

// The end-to-end part wants real listeners on addresses of every refused class
// (RFC 1918, 169.254.169.254, CGNAT, ULA). Instead of adding aliases to the
// host's lo (shared by all shards and left behind by a crash), the test binary
// re-executes itself inside a PRIVATE network namespace (clone(CLONE_NEWNET),
// available because the sandbox runs as root), brings lo up there and adds the
// aliases to that private lo. The namespace and everything in it disappears with
// the process: nothing can leak and parallel shards cannot disturb each other.
// If the namespace cannot be created or configured the tests run in place with
// loopback-only listeners (recorded in the evidence as e2e_loopback_only=1).

const (
	envInNetns    = "P18_NETNS"
	envNoNetns    = "P18_NO_NETNS"
	netnsSetupErr = 97
)

// aliasAddrs are added to the private lo (one per refused class).
var aliasAddrs = []string{"10.77.0.1", "172.16.5.1", "192.168.77.1", "169.254.169.254", "100.64.0.1", "fd12::1",
	// IPv6 forms that EMBED a refused IPv4 address of the pool ("twins", see poolCandidates): a
	// listener bound to such a form observes a connect that the floor must refuse even when the
	// embedded IPv4 (IP, port) pair itself is carved out
	"64:ff9b::7f00:1", "2002:7f00:1::1", "::ffff:0:7f00:1", "::7f00:1", "64:ff9b::a9fe:a9fe", "2002:a9fe:a9fe::1", "64:ff9b::a4d:1"}

var netnsActive bool

func TestMain(m *testing.M) {
	if os.Getenv(envInNetns) == "1" {
		if err := setupPrivateNetns(); err != nil {
			fmt.Fprintln(os.Stderr, "p18: private netns setup failed:", err)
			os.Exit(netnsSetupErr)
		}
		netnsActive = true
		os.Exit(m.Run())
	}
	if os.Getenv(envNoNetns) == "" && wantNetns(os.Args[1:]) {
		if code, ok := runInPrivateNetns(); ok {
			os.Exit(code)
		}
		fmt.Fprintln(os.Stderr, "p18: no private network namespace available; running with loopback-only listeners")
	}
	os.Exit(m.Run())
}

// wantNetns: only the e2e test and the replay entry point need the namespace;
// fuzzing, listing and benchmarks are left alone.
func wantNetns(args []string) bool {
	run := ""
	for i, a := range args {
		a = strings.TrimLeft(a, "-")
		switch {
		case strings.HasPrefix(a, "test.fuzz=") && a != "test.fuzz=",
			strings.HasPrefix(a, "test.fuzzworker"),
			strings.HasPrefix(a, "test.list"),
			strings.HasPrefix(a, "test.bench=") && a != "test.bench=":
			return false
		}
		if strings.HasPrefix(a, "test.run=") {
			run = strings.TrimPrefix(a, "test.run=")
		} else if a == "test.run" && i+1 < len(args) {
			run = args[i+1]
		}
	}
	if run == "" {
		return true
	}
	top := strings.SplitN(run, "/", 2)[0]
	re, err := regexp.Compile(top)
	if err != nil {
		return true
	}
	return re.MatchString("TestC18E2E") || re.MatchString("TestReplayC18")
}

func runInPrivateNetns() (int, bool) {
	if runtime.GOOS != "linux" {
		return 0, false
	}
	runtime.LockOSThread() // Pdeathsig is tied to the creating thread
	cmd := exec.Command("/proc/self/exe", os.Args[1:]...)
	cmd.Env = append(os.Environ(), envInNetns+"=1")
	cmd.Stdin, cmd.Stdout, cmd.Stderr = os.Stdin, os.Stdout, os.Stderr
	cmd.SysProcAttr = &syscall.SysProcAttr{Cloneflags: syscall.CLONE_NEWNET, Pdeathsig: syscall.SIGKILL}
	if err := cmd.Start(); err != nil {
		return 0, false
	}
	sig := make(chan os.Signal, 4)
	signal.Notify(sig, syscall.SIGINT, syscall.SIGTERM, syscall.SIGQUIT)
	go func() {
		for s := range sig {
			_ = cmd.Process.Signal(s)
		}
	}()
	err := cmd.Wait()
	signal.Stop(sig)
	code := 0
	if err != nil {
		code = 1
		if ee, ok := err.(*exec.ExitError); ok {
			code = ee.ExitCode()
			if code < 0 {
				code = 2 // killed by a signal
			}
		}
	}
	if code == netnsSetupErr {
		return 0, false
	}
	return code, true
}

func setupPrivateNetns() error {
	if out, err := exec.Command("ip", "link", "set", "lo", "up").CombinedOutput(); err != nil {
		return fmt.Errorf("ip link set lo up: %v: %s", err, out)
	}
	for _, a := range aliasAddrs {
		args := []string{"addr", "add", a + "/32", "dev", "lo"}
		if strings.Contains(a, ":") {
			args = []string{"-6", "addr", "add", a + "/128", "dev", "lo", "nodad"}
		}
		// a failing alias only shrinks the listener pool (detected by probing below)
		_, _ = exec.Command("ip", args...).CombinedOutput()
	}
	ln, err := net.Listen("tcp", "127.0.0.1:0")
	if err != nil {
		return fmt.Errorf("loopback unusable in the private namespace: %v", err)
	}
	_ = ln.Close()
	return nil
}
