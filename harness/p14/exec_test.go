package p14

import (
	"bytes"
	"encoding/json"
	"errors"
	"fmt"
	"sort"
	"strings"

	"github.com/conduitio/conduit/pkg/connector"
	"github.com/conduitio/conduit/pkg/orchestrator"
	"github.com/conduitio/conduit/pkg/pipeline"
	"github.com/conduitio/conduit/pkg/processor"
	"verifharness/lab"
)

// Clauses (closed vocabulary, second key segment).
const (
	clNotAtomic   = "not-atomic"                 // (A) the call failed but something changed
	clWrongEffect = "wrong-effect"               // (A) the call succeeded but the state is not the model's post-state
	clReload      = "memory-differs-from-reload" // (B)
	clDangling    = "dangling-reference"         // (C)
	clGuard       = "guard-violated"             // (D)
	clOutcome     = "unexpected-outcome"         // structurally impossible call accepted / well-formed call refused
	clPanic       = "panic"                      // the API call panicked (in the server: the handler goroutine dies)
)

// Extra shapes (besides the diff tags and reference shapes).
const (
	shStoreChanged    = "store-bytes-changed"
	shHookRan         = "on-deleted-hook-ran"
	shStoreUnloadable = "store-unloadable"
	shAccepted        = "accepted"
	shWrongError      = "wrong-error"
	shInvalidAccepted = "impossible-call-accepted"
	shValidRejected   = "well-formed-call-rejected"
	shReturnedWrong   = "returned-instance-wrong"
	shRollbackFailed  = "rollback-failed" // rollback.R.MustExecute: a rollback step itself returned an error
	shOtherPanic      = "other-panic"
	// the entity was updated to a plugin that does not exist (Update does not dispense the
	// plugin, Create does), so the rollback of a later failed delete cannot re-create it
	shRollbackNoPlugin = "rollback-failed-plugin-not-found"
)

// shapesOf lists every last key segment a clause can produce (closed vocabulary).
func shapesOf(clause string) []string {
	switch clause {
	case clNotAtomic:
		out := []string{shStoreChanged, shHookRan, tagTimestampOnly}
		for _, t := range diffTags {
			if t != tagTimestampOnly {
				out = append(out, "memory-"+t)
			}
		}
		return out
	case clWrongEffect:
		return append(append([]string{}, diffTags...), shReturnedWrong)
	case clReload:
		return append(append([]string{}, diffTags...), shStoreUnloadable)
	case clDangling:
		var out []string
		for _, s := range refShapes {
			out = append(out, s+"-in-memory", s+"-in-store")
		}
		return out
	case clGuard:
		return []string{shAccepted, shWrongError}
	case clOutcome:
		return []string{shInvalidAccepted, shValidRejected}
	case clPanic:
		return []string{shRollbackFailed, shRollbackNoPlugin, shOtherPanic}
	}
	return nil
}

var allClauses = []string{clNotAtomic, clWrongEffect, clReload, clDangling, clGuard, clOutcome, clPanic}

// makeKey: C14/<clause>/<operation[+variant]>/<fault position>/<shape>; without a
// fired fault the argument class is part of the position ("no-fault/<class>").
func makeKey(clause, opName, class, pos, shape string) string {
	if pos == posNoFault {
		pos = posNoFault + "/" + class
	}
	return fmt.Sprintf("C14/%s/%s/%s/%s", clause, opName, pos, shape)
}

// keyKind names the operation in keys; for processors.Create* the code path is
// selected by the parent type actually passed, not by the generator's intent.
func keyKind(op Op) string {
	if op.Kind == kProcCreatePl || op.Kind == kProcCreateCn {
		switch op.ParentType {
		case int(processor.ParentTypePipeline):
			return kProcCreatePl
		case int(processor.ParentTypeConnector):
			return kProcCreateCn
		}
	}
	return op.Kind
}

func inSet(s []string, x string) bool {
	for _, y := range s {
		if x == y {
			return true
		}
	}
	return false
}

// inVocabulary reports whether the segments form a key of the closed vocabulary.
func inVocabulary(clause, opName, class, pos, shape string) bool {
	return inSet(allClauses, clause) && inSet(opNames, opName) && inSet(allClasses, class) && inSet(allPositions, pos) && inSet(shapesOf(clause), shape)
}

type violation struct {
	Key    string `json:"key"`
	Detail string `json:"detail"`
}

// opResult is what one executed step contributes to the evidence.
type opResult struct {
	skipped    bool // world step whose precondition did not hold
	class      string
	pos        string // fault position that fired, or no-fault
	armed      bool
	fired      bool
	err        error
	guarded    bool
	violations []violation
	harness    string // non-empty: the simulation itself misbehaved (inconclusive)
	panicked   bool
	trait      string
}

// safeCall performs the API call and converts a panic into a value.
func (w *world) safeCall(r resolved) (id string, err error, panicked any) {
	defer func() {
		if p := recover(); p != nil {
			panicked = p
			err = fmt.Errorf("panic: %v", p)
		}
	}()
	id, err = w.call(r)
	return id, err, nil
}

// call performs the API call; it returns the id of a created instance.
func (w *world) call(r resolved) (string, error) {
	op, ctx := r.op, w.ctx
	switch op.Kind {
	case kPlCreate:
		inst, err := w.orc.Pipelines.Create(ctx, pipeline.Config{Name: r.name, Description: r.desc})
		if err != nil {
			return "", err
		}
		return inst.ID, nil
	case kPlUpdate:
		inst, err := w.orc.Pipelines.Update(ctx, r.id, pipeline.Config{Name: r.name, Description: r.desc})
		if err != nil {
			return "", err
		}
		return inst.ID, nil
	case kPlUpdateDLQ:
		inst, err := w.orc.Pipelines.UpdateDLQ(ctx, r.id, pipeline.DLQ{Plugin: op.Plugin, Settings: op.settings(), WindowSize: op.WindowSize, WindowNackThreshold: op.Threshold})
		if err != nil {
			return "", err
		}
		return inst.ID, nil
	case kPlDelete:
		return "", w.orc.Pipelines.Delete(ctx, r.id)
	case kPlStart:
		return "", w.orc.Pipelines.Start(ctx, r.id)
	case kPlStop:
		return "", w.orc.Pipelines.Stop(ctx, r.id, op.Force)
	case kConnCreate:
		inst, err := w.orc.Connectors.Create(ctx, connector.Type(op.ConnType), op.Plugin, r.id, connector.Config{Name: r.name, Settings: op.settings()})
		if err != nil {
			return "", err
		}
		return inst.ID, nil
	case kConnUpdate:
		inst, err := w.orc.Connectors.Update(ctx, r.id, op.Plugin, connector.Config{Name: r.name, Settings: op.settings()})
		if err != nil {
			return "", err
		}
		return inst.ID, nil
	case kConnDelete:
		return "", w.orc.Connectors.Delete(ctx, r.id)
	case kProcCreatePl, kProcCreateCn:
		inst, err := w.orc.Processors.Create(ctx, op.Plugin, processor.Parent{ID: r.id, Type: processor.ParentType(op.ParentType)},
			processor.Config{Settings: op.settings(), Workers: op.Workers}, op.Cond)
		if err != nil {
			return "", err
		}
		return inst.ID, nil
	case kProcUpdate:
		inst, err := w.orc.Processors.Update(ctx, r.id, op.Plugin, processor.Config{Settings: op.settings(), Workers: op.Workers})
		if err != nil {
			return "", err
		}
		return inst.ID, nil
	case kProcDelete:
		return "", w.orc.Processors.Delete(ctx, r.id)
	}
	return "", fmt.Errorf("p14: unknown op kind %q", op.Kind)
}

func bytesEqualStore(a, b map[string][]byte) bool { return storeDiff(a, b) == "" }

func storeDiff(a, b map[string][]byte) string {
	var out []string
	for _, k := range keysOf(a) {
		if v, ok := b[k]; !ok {
			out = append(out, "removed "+k)
		} else if !bytes.Equal(a[k], v) {
			out = append(out, "changed "+k)
		}
	}
	for _, k := range keysOf(b) {
		if _, ok := a[k]; !ok {
			out = append(out, "added "+k)
		}
	}
	return strings.Join(out, ", ")
}

func opsTrace(ops []lab.DBOp) string {
	var out []string
	for _, o := range ops {
		s := o.Op
		if o.Key != "" {
			s += " " + o.Key
			if o.Value == nil && !o.Fail && (o.Op == "set" || o.Op == "txset") {
				s += "=<deleted>"
			}
		}
		if o.Fail {
			s += " FAILS"
		}
		out = append(out, s)
	}
	return strings.Join(out, " | ")
}

// probeNames: every pipeline name that appeared in this case so far.
func (m *machine) probeNames() []string {
	out := keysOf(m.names)
	sort.Strings(out)
	return out
}

// execSim runs a simulated runtime event.
func (m *machine) execSim(op Op) opResult {
	w := m.w
	v := snapshot(w.ctx, w.svc, nil)
	r := w.resolve(v, op)
	res := opResult{class: "sim", pos: posNoFault}
	var err error
	switch op.Kind {
	case kSimRestart:
		err = w.restart()
	case kSimStart:
		p := v.Pipelines[r.id]
		if p == nil || isRunning(p) {
			res.skipped = true
			return res
		}
		var started bool
		started, err = w.simStart(v, r.id)
		if err == nil && !started {
			res.skipped = true
			return res
		}
	case kSimStop:
		p := v.Pipelines[r.id]
		if p == nil || !isRunning(p) {
			res.skipped = true
			return res
		}
		err = w.simStop(v, r.id, pipeline.Status(op.StopStatus))
	case kSimRan:
		c := v.Connectors[r.id]
		if c == nil || isRunning(plOfConn(v, r.id)) {
			res.skipped = true
			return res
		}
		err = w.simRan(r.id)
	}
	if err != nil {
		res.harness = fmt.Sprintf("%s failed: %v", op.Kind, err)
		return res
	}
	// The simulation writes through the services without faults; if that alone
	// made memory and store disagree, the history is not usable as evidence.
	post := snapshot(w.ctx, w.svc, nil)
	rl, err := w.reload()
	if err != nil {
		res.harness = fmt.Sprintf("reload after %s failed: %v", op.Kind, err)
		return res
	}
	if d := diffViews(post, snapshot(w.ctx, rl, nil), diffOpts{reload: true}); !d.empty() {
		res.harness = fmt.Sprintf("memory != reload after %s: %s", op.Kind, d)
	}
	return res
}

// execAPI runs one API call with the complete oracle.
func (m *machine) execAPI(op Op) opResult {
	w := m.w
	if n := op.name(); n != "" {
		m.names[n] = true
	}
	pre := snapshot(w.ctx, w.svc, m.probeNames())
	w.syncOrder(pre)
	r := w.resolve(pre, op)
	an := analyse(pre, r)
	res := opResult{class: an.class, trait: an.trait, guarded: an.guardConfig || an.guardRunning, armed: op.Fault != nil}
	opName := keyKind(op) + an.variant

	storePre := w.db.Current()
	hooksPre := w.plugins.hookCount()
	firedPre := w.db.Fired
	w.db.ResetOps()
	if op.Fault != nil {
		w.db.Arm(lab.Fault{Kind: lab.FaultKind(op.Fault.Kind), Index: op.Fault.Index})
	}
	newID, err, panicked := w.safeCall(r)
	w.db.Disarm()
	res.err = err
	res.fired = w.db.Fired > firedPre
	res.pos = posNoFault
	if res.fired {
		res.pos = faultPosOf(op.Fault)
	}
	trace := opsTrace(w.db.Ops())

	post := snapshot(w.ctx, w.svc, m.probeNames())
	storePost := w.db.Current()
	w.syncOrder(post)

	add := func(clause, shape, format string, args ...any) {
		detail := fmt.Sprintf(format, args...)
		errS := "<nil>"
		if err != nil {
			errS = err.Error()
			if len(errS) > 200 {
				errS = errS[:200] + "…"
			}
		}
		detail = fmt.Sprintf("%s(%s) class=%s fault=%s returned %s: %s [store ops: %s]", opName, r.id, an.class, res.pos, errS, detail, trace)
		if !inVocabulary(clause, opName, an.class, res.pos, shape) {
			panic(fmt.Sprintf("p14: key outside the closed vocabulary: %s", makeKey(clause, opName, an.class, res.pos, shape)))
		}
		res.violations = append(res.violations, violation{Key: makeKey(clause, opName, an.class, res.pos, shape), Detail: detail})
	}

	if panicked != nil {
		// The deferred rollback.R.MustExecute (or anything else) panicked: in the
		// server this kills the request goroutine mid-rollback. The state is
		// whatever the interrupted rollback left behind; only the panic is keyed.
		res.panicked = true
		msg := fmt.Sprint(panicked)
		shape := shOtherPanic
		if strings.Contains(msg, "rollback failed") {
			shape = shRollbackFailed
			if strings.Contains(msg, "plugin") && strings.Contains(msg, "not found") {
				shape = shRollbackNoPlugin
			}
		}
		d := diffViews(pre, post, diffOpts{})
		add(clPanic, shape, "the call panicked: %s; store changed: %q; memory versus pre-state: %s", msg, storeDiff(storePre, storePost), d)
		return res
	}

	// ---- (A) all or nothing
	reportedA := map[string]bool{}
	if err != nil {
		if sd := storeDiff(storePre, storePost); sd != "" {
			add(clNotAtomic, shStoreChanged, "the call failed but the store changed: %s", sd)
		}
		d := diffViews(pre, post, diffOpts{})
		for _, s := range d.shapes() {
			shape := "memory-" + s
			if s == tagTimestampOnly {
				shape = tagTimestampOnly
			}
			reportedA[s] = true
			add(clNotAtomic, shape, "the call failed but the in-memory state changed: %s", d)
		}
		if h := w.plugins.hookCount() - hooksPre; h > 0 {
			add(clNotAtomic, shHookRan, "the call failed but the plugin's on-deleted lifecycle hook ran %d time(s)", h)
		}
	} else {
		want := pre.clone()
		an.apply(want, newID)
		for n := range want.NamesTaken {
			want.NamesTaken[n] = nameTaken(want, n, "")
		}
		fresh := map[string]bool{}
		if an.creates != "" {
			exists := false
			switch an.creates {
			case "pl":
				_, exists = pre.Pipelines[newID]
			case "conn":
				_, exists = pre.Connectors[newID]
			case "proc":
				_, exists = pre.Processors[newID]
			}
			if newID == "" || exists {
				add(clWrongEffect, shReturnedWrong, "create returned id %q (already existed: %v)", newID, exists)
			}
			fresh[an.creates+":"+newID] = true
		} else if newID != "" && newID != r.id {
			add(clWrongEffect, shReturnedWrong, "call on %q returned instance %q", r.id, newID)
		}
		touched := map[string]bool{}
		for _, k := range an.touched {
			touched[k] = true
		}
		d := diffViews(want, post, diffOpts{touched: touched, fresh: fresh})
		for _, s := range d.shapes() {
			add(clWrongEffect, s, "the call succeeded but the state is not the reference model's post-state (model != actual): %s", d)
		}
	}

	// ---- (B) memory == what a restarted server loads
	rl, rerr := w.reload()
	var rv *View
	if rerr != nil {
		add(clReload, shStoreUnloadable, "fresh services cannot load the store: %v", rerr)
	} else {
		rv = snapshot(w.ctx, rl, m.probeNames())
		d := diffViews(post, rv, diffOpts{reload: true})
		for _, s := range d.shapes() {
			if reportedA[s] && bytesEqualStore(storePre, storePost) {
				// the call failed, the store is untouched and clause (A) already
				// reported this very difference between memory and the pre-state
				// (= the store): one root cause, one key
				continue
			}
			add(clReload, s, "live services differ from services freshly loaded from the store (memory != reload): %s", d)
		}
	}

	// ---- (C) referential integrity, both directions, in memory and in the store
	seen := map[string]bool{}
	for _, p := range checkRefs(post) {
		if !seen[p.shape] {
			seen[p.shape] = true
			add(clDangling, p.shape+"-in-memory", "%s", p.detail)
		}
	}
	if rv != nil {
		seen = map[string]bool{}
		for _, p := range checkRefs(rv) {
			if !seen[p.shape] {
				seen[p.shape] = true
				add(clDangling, p.shape+"-in-store", "%s", p.detail)
			}
		}
	}

	// ---- (D) guards: running / file-provisioned resources are never modified
	if res.guarded {
		if err == nil {
			add(clGuard, shAccepted, "the call targets a resource of a running (%v) or file-provisioned (%v) pipeline and was accepted", an.guardRunning, an.guardConfig)
		} else if !res.fired && (an.class == cConfig || an.class == cRunning) {
			ok := (an.guardConfig && errors.Is(err, orchestrator.ErrImmutableProvisionedByConfig)) ||
				(an.guardRunning && (errors.Is(err, pipeline.ErrPipelineRunning) || errors.Is(err, processor.ErrProcessorRunning)))
			if !ok {
				add(clGuard, shWrongError, "refused, but not with ErrImmutableProvisionedByConfig / ErrPipelineRunning")
			}
		}
		// "byte-identical before/after" is clause (A) applied to the refused call
	}

	// ---- outcome versus the structural expectation
	if an.expect == expFail && err == nil && !res.guarded {
		add(clOutcome, shInvalidAccepted, "the call refers to something that does not exist or still has dependants and was accepted")
	}
	if an.expect == expOK && err != nil && op.Fault == nil {
		add(clOutcome, shValidRejected, "a well-formed call on a mutable resource without any injected fault was refused")
	}
	return res
}

// ---------------------------------------------------------------- replay value

type Replay struct {
	Setup Setup `json:"setup"`
	Ops   []Op  `json:"ops"`
}

func (r Replay) size() int {
	b, _ := json.Marshal(r)
	return len(r.Ops)*100000 + len(b)
}
