package p14

import (
	"encoding/json"
	"fmt"
	"os"
	"path/filepath"
	"sort"
	"strings"
	"sync"
	"testing"

	"github.com/conduitio/conduit/pkg/connector"
	"github.com/conduitio/conduit/pkg/pipeline"
	"github.com/conduitio/conduit/pkg/processor"
	"pgregory.net/rapid"
	"verifharness/lab"
	"verifharness/pbt"
)

const maxOps = 25

// ---------------------------------------------------------------- exclusion of known findings

// excluder answers: would the combination (operation kind, argument class, fault
// position) produce a key that is listed as a known finding? The vocabulary is
// closed, so the answer is found by enumerating clause x shape.
type excluder struct {
	st    *pbt.Stats
	mu    sync.Mutex
	cache map[string]string
}

func (e *excluder) knownKey(kind, class, pos string) string {
	if e == nil || e.st == nil {
		return ""
	}
	ck := kind + "|" + class + "|" + pos
	e.mu.Lock()
	defer e.mu.Unlock()
	if k, ok := e.cache[ck]; ok {
		return k
	}
	found := ""
	for _, cl := range allClauses {
		for _, sh := range shapesOf(cl) {
			if k := makeKey(cl, kind, class, pos, sh); e.st.IsKnown(k) {
				found = k
				break
			}
		}
		if found != "" {
			break
		}
	}
	e.cache[ck] = found
	return found
}

// ---------------------------------------------------------------- crash marker

// markCurrent does what pbt.MarkCurrent does (same file, same content) but keeps
// the file open: a history is only known step by step, so the marker is rewritten
// before every API call, and open/close per call made the check 7x slower.
var marker struct {
	once sync.Once
	f    *os.File
}

func markCurrent(v any) {
	dir := os.Getenv("VERIF_STATS_DIR")
	if dir == "" {
		return
	}
	marker.once.Do(func() {
		_ = os.MkdirAll(dir, 0o755)
		f, err := os.OpenFile(filepath.Join(dir, "current-C14."+pbt.Env("VERIF_SHARD", "0")+".json"), os.O_CREATE|os.O_WRONLY|os.O_TRUNC, 0o644)
		if err == nil {
			marker.f = f
		}
	})
	if marker.f == nil {
		pbt.MarkCurrent("C14", v)
		return
	}
	b, err := json.Marshal(map[string]any{"property": "C14", "case": v})
	if err != nil {
		return
	}
	if _, err := marker.f.WriteAt(b, 0); err == nil {
		_ = marker.f.Truncate(int64(len(b)))
	}
}

// ---------------------------------------------------------------- collect mode

type collected struct {
	Key     string `json:"key"`
	Count   int    `json:"count"`
	Detail  string `json:"detail"`
	Size    int    `json:"size"`
	Example Replay `json:"example"`
}

type collector struct {
	mu   sync.Mutex
	byID map[string]*collected
}

func (c *collector) add(v violation, rp Replay) {
	c.mu.Lock()
	defer c.mu.Unlock()
	e := c.byID[v.Key]
	if e == nil {
		e = &collected{Key: v.Key, Size: 1 << 60}
		c.byID[v.Key] = e
	}
	e.Count++
	if s := rp.size(); s < e.Size {
		e.Size, e.Detail, e.Example = s, v.Detail, rp
	}
}

// minimise greedily shortens a collected example while it still produces key
// (collect mode does not fail the rapid case, so rapid does not shrink it).
func minimise(key string, rp Replay) Replay {
	reproduces := func(r Replay) bool {
		got, _, err := runReplay(r)
		return err == nil && got[key] != ""
	}
	if !reproduces(rp) {
		return rp
	}
	for n := 1; n < len(rp.Ops); n++ {
		if cut := (Replay{Setup: rp.Setup, Ops: rp.Ops[:n]}); reproduces(cut) {
			rp = cut
			break
		}
	}
	for i := len(rp.Ops) - 2; i >= 0; i-- {
		cand := Replay{Setup: rp.Setup, Ops: append(append([]Op{}, rp.Ops[:i]...), rp.Ops[i+1:]...)}
		if reproduces(cand) {
			rp = cand
		}
	}
	for i := 0; i < len(rp.Ops)-1; i++ {
		if rp.Ops[i].Fault != nil {
			cand := Replay{Setup: rp.Setup, Ops: append([]Op{}, rp.Ops...)}
			cand.Ops[i].Fault = nil
			if reproduces(cand) {
				rp = cand
			}
		}
	}
	if len(rp.Setup.Config) > 0 {
		cand := rp
		cand.Setup.Config = nil
		if reproduces(cand) {
			rp = cand
		}
	}
	return rp
}

func (c *collector) write(path string) error {
	c.mu.Lock()
	defer c.mu.Unlock()
	var out []*collected
	for _, k := range keysOf(c.byID) {
		e := c.byID[k]
		e.Example = minimise(k, e.Example)
		if got, _, err := runReplay(e.Example); err == nil && got[k] != "" {
			e.Detail = got[k]
		}
		e.Size = len(e.Example.Ops)
		out = append(out, e)
	}
	b, err := json.MarshalIndent(out, "", " ")
	if err != nil {
		return err
	}
	return os.WriteFile(path, b, 0o644)
}

// ---------------------------------------------------------------- the state machine

type machine struct {
	w     *world
	setup Setup
	ops   []Op // executed steps (skipped simulation steps are not recorded)
	names map[string]bool
	excl  *excluder
	st    *pbt.Stats // nil in replay
	done  bool       // the history ended (violation found, or the simulation misbehaved)

	// evidence
	apiOps             int
	okMutations        int
	failedAfterSuccess bool
	faultFired         bool
	classes            map[string]bool
	violations         []violation
	harness            string
}

func newMachine(setup Setup, st *pbt.Stats, excl *excluder) (*machine, error) {
	m := &machine{w: newWorld(setup.UUIDSeed), setup: setup, names: map[string]bool{}, excl: excl, st: st, classes: map[string]bool{}}
	if err := m.w.applySetup(setup); err != nil {
		return nil, err
	}
	v := snapshot(m.w.ctx, m.w.svc, nil)
	m.w.syncOrder(v)
	for _, p := range v.Pipelines {
		m.names[p.Name] = true
	}
	// The file-provisioned entities were written through the services, not the
	// API. If that alone leaves memory, store and references inconsistent, no API
	// call is to blame: the case is inconclusive, not a finding.
	if rl, err := m.w.reload(); err != nil {
		m.harness, m.done = fmt.Sprintf("reload after set-up failed: %v", err), true
	} else if d := diffViews(v, snapshot(m.w.ctx, rl, nil), diffOpts{reload: true}); !d.empty() {
		m.harness, m.done = "memory != reload right after the set-up: "+d.String(), true
	} else if probs := checkRefs(v); len(probs) > 0 {
		m.harness, m.done = "set-up leaves references inconsistent: "+probs[0].detail, true
	}
	for _, n := range namePool {
		m.names[n] = true
	}
	return m, nil
}

// prefabOps is the scripted, fault-free prefix that populates Setup.Prefab pipelines.
func prefabOps(n int) []Op {
	var ops []Op
	base := Op{NameFrom: -1, Pref: "api-idle"}
	for i := 0; i < n; i++ {
		o := base
		o.Kind, o.Name = kPlCreate, fmt.Sprintf("prefab-%d", i)
		ops = append(ops, o)
		for j := 0; j < 2; j++ {
			o = base
			o.Kind, o.Target, o.Name, o.Plugin, o.ConnType, o.Settings = kConnCreate, i, fmt.Sprintf("conn-%d-%d", i, j), connPluginA, 1+j, map[string]string{"k": "prefab"}
			ops = append(ops, o)
		}
		for j := 0; j < 2; j++ {
			o = base
			o.Kind, o.Target, o.ParentType, o.Plugin, o.Workers = kProcCreatePl, i, int(processor.ParentTypePipeline), procPluginA, 1
			ops = append(ops, o)
		}
		for j := 0; j < 2; j++ {
			o = base
			o.Kind, o.Target, o.ParentType, o.Plugin, o.Workers = kProcCreateCn, 2*i, int(processor.ParentTypeConnector), procPluginA, 1
			ops = append(ops, o)
		}
	}
	return ops
}

// replayValue: the executed steps. Warm-up, prefab and exclusion are already
// applied to the recorded steps, so the replay set-up carries none of them.
func (m *machine) replayValue() Replay {
	s := m.setup
	s.Warmup, s.Prefab, s.ProbeKnown = 0, 0, true
	return Replay{Setup: s, Ops: append([]Op(nil), m.ops...)}
}

// step executes one generated step. It returns the violations of that step.
func (m *machine) step(op Op) []violation {
	if m.done || len(m.ops) >= maxOps {
		return nil
	}
	if !isAPI(op.Kind) {
		op.Fault = nil
		m.w.syncOrder(snapshot(m.w.ctx, m.w.svc, nil))
		res := m.execSim(op)
		if res.skipped {
			return nil
		}
		m.ops = append(m.ops, op)
		m.classes["op:"+op.Kind] = true
		if res.harness != "" {
			m.harness, m.done = res.harness, true
		}
		return nil
	}
	if m.apiOps < m.setup.Warmup {
		op.Fault = nil
	}
	m.apiOps++
	// Known findings: do not generate the shape again, so that the search
	// continues behind it. The class is a function of the current state.
	// In a ProbeKnown case nothing is skipped (a known violation is tolerated and
	// followed by a restart instead).
	if m.excl != nil && !m.setup.ProbeKnown {
		v := snapshot(m.w.ctx, m.w.svc, nil)
		m.w.syncOrder(v)
		an := analyse(v, m.w.resolve(v, op))
		class, opName := an.class, keyKind(op)+an.variant
		if k := m.excl.knownKey(opName, class, posNoFault); k != "" {
			m.st.Exclude(k)
			return nil
		}
		if op.Fault != nil {
			if k := m.excl.knownKey(opName, class, faultPosOf(op.Fault)); k != "" {
				m.st.Exclude(k)
				op.Fault = nil
			}
		}
	}
	m.ops = append(m.ops, op)
	markCurrent(m.replayValue())
	res := m.execAPI(op)
	m.classes["op:"+op.Kind] = true
	m.classes["class:"+res.class] = true
	if res.fired {
		m.faultFired = true
		m.classes["fault:"+strings.SplitN(res.pos, "#", 2)[0]] = true
	} else if res.armed {
		m.classes["fault:armed-not-reached"] = true
	}
	if res.guarded {
		m.classes["guarded-target"] = true
	}
	if res.panicked {
		m.classes["panic"] = true
	}
	if res.trait != "" {
		m.classes[res.trait] = true
	}
	if res.err != nil {
		m.classes["outcome:error"] = true
		if m.okMutations > 0 {
			m.failedAfterSuccess = true
		}
	} else {
		m.classes["outcome:ok"] = true
		if op.Kind != kPlStart && op.Kind != kPlStop {
			m.okMutations++
		}
	}
	if len(res.violations) > 0 {
		// Memory and store may now disagree and everything after this point would
		// be attributed to the wrong call. If the history is to continue (known
		// finding, collect mode, replay) it continues after a server restart:
		// fresh services loaded from the store, which is the pre-state.
		m.violations = append(m.violations, res.violations...)
		m.classes["restart-after-violation"] = true
		if err := m.w.restart(); err != nil {
			m.done = true
		}
	}
	return res.violations
}

func (m *machine) nontrivial() bool { return m.failedAfterSuccess || m.faultFired }

// ---------------------------------------------------------------- generators

var namePool = []string{"a", "b", "c", "d"}

var settingsPool = []map[string]string{
	{"k": "1"}, {"k": "2", "x": "y"}, {}, {"url": "s3://bucket", "k": "3"},
}

func genSetup(t *rapid.T) Setup {
	s := Setup{UUIDSeed: rapid.Uint64().Draw(t, "uuidSeed")}
	s.Warmup = rapid.SampledFrom([]int{0, 0, 2, 4, 6, 8, 10}).Draw(t, "warmup")
	s.ProbeKnown = rapid.IntRange(0, 2).Draw(t, "probeKnown") == 0
	s.Prefab = rapid.SampledFrom([]int{0, 0, 1, 1, 1, 2}).Draw(t, "prefab")
	n := rapid.SampledFrom([]int{0, 1, 1, 2}).Draw(t, "configPipelines")
	for i := 0; i < n; i++ {
		cp := CfgPipeline{Procs: rapid.IntRange(0, 1).Draw(t, "cfgProcs")}
		nc := rapid.IntRange(0, 2).Draw(t, "cfgConns")
		for j := 0; j < nc; j++ {
			cp.Conns = append(cp.Conns, CfgConn{Dest: rapid.Bool().Draw(t, "dest"), Procs: rapid.IntRange(0, 1).Draw(t, "cfgConnProcs")})
		}
		s.Config = append(s.Config, cp)
	}
	return s
}

func genTarget(t *rapid.T, op *Op) {
	op.Target = rapid.IntRange(0, 5).Draw(t, "target")
	op.Pref = rapid.SampledFrom([]string{"", "api-idle", "api-idle", "api-idle", "api-idle", "running", "running", "config"}).Draw(t, "pref")
	switch rapid.IntRange(0, 19).Draw(t, "targetClass") {
	case 0:
		op.Target = -1
	case 1:
		op.Target = -2
	case 2:
		op.Target = -3
	}
}

func genName(t *rapid.T, op *Op, limit int) {
	op.Name = rapid.SampledFrom(namePool).Draw(t, "name")
	switch rapid.IntRange(0, 11).Draw(t, "nameClass") {
	case 0:
		op.Name = ""
	case 1:
		op.NameFrom = rapid.IntRange(0, 5).Draw(t, "nameFrom")
	case 2:
		op.Name, op.NameRepeat = "", limit+1
	case 3:
		op.Name, op.NameRepeat = "", limit // exactly at the limit: valid
	}
}

func genSettings(t *rapid.T, op *Op) {
	i := rapid.IntRange(-1, len(settingsPool)).Draw(t, "settings")
	switch {
	case i < 0:
		op.NilSetting = true
	case i == len(settingsPool):
		op.Settings = map[string]string{invalidSettingKey: "1", "k": "1"}
	default:
		op.Settings = cloneSS(settingsPool[i])
	}
}

func genConnPlugin(t *rapid.T) string {
	return rapid.SampledFrom([]string{connPluginA, connPluginA, connPluginA, connPluginB, connPluginB, "builtin:p14-nope", ""}).Draw(t, "plugin")
}

func genProcPlugin(t *rapid.T) string {
	return rapid.SampledFrom([]string{procPluginA, procPluginA, procPluginA, procPluginB, procPluginB, "builtin:p14-nope", ""}).Draw(t, "plugin")
}

func genFault(t *rapid.T, op *Op) {
	switch rapid.SampledFrom([]string{"", "", "", "", "newtxn", "set", "set", "set", "commit", "commit"}).Draw(t, "fault") {
	case "newtxn":
		op.Fault = &FaultSpec{Kind: string(lab.FaultNewTxn)}
	case "commit":
		op.Fault = &FaultSpec{Kind: string(lab.FaultCommit)}
	case "set":
		op.Fault = &FaultSpec{Kind: string(lab.FaultSet), Index: rapid.SampledFrom([]int{0, 0, 0, 0, 1, 1, 1, 2, 2, 3, 4, 5, 6}).Draw(t, "faultIndex")}
	}
}

// genOp draws the arguments of one step of the given kind. The draws do not
// depend on the current state; targets and copied names are resolved at execution.
func genOp(t *rapid.T, kind string) Op {
	op := Op{Kind: kind, NameFrom: -1}
	switch kind {
	case kPlCreate:
		genName(t, &op, pipeline.NameLengthLimit)
		if rapid.IntRange(0, 19).Draw(t, "longDesc") == 0 {
			op.DescRepeat = pipeline.DescriptionLengthLimit + 1
		} else {
			op.DescRepeat = rapid.IntRange(0, 3).Draw(t, "desc")
		}
	case kPlUpdate:
		genTarget(t, &op)
		genName(t, &op, pipeline.NameLengthLimit)
		op.DescRepeat = rapid.IntRange(0, 3).Draw(t, "desc")
	case kPlUpdateDLQ:
		genTarget(t, &op)
		op.Plugin = genConnPlugin(t)
		genSettings(t, &op)
		op.WindowSize = rapid.SampledFrom([]int{0, 1, 2, 5, 5, 10, -1}).Draw(t, "window")
		op.Threshold = rapid.SampledFrom([]int{0, 0, 1, 2, 4, 5, 7, -1}).Draw(t, "threshold")
	case kPlDelete, kPlStart:
		genTarget(t, &op)
	case kPlStop:
		genTarget(t, &op)
		op.Force = rapid.Bool().Draw(t, "force")
	case kConnCreate:
		genTarget(t, &op)
		genName(t, &op, connector.NameLengthLimit)
		op.NameFrom = -1 // connector names need not be unique
		op.Plugin = genConnPlugin(t)
		genSettings(t, &op)
		op.ConnType = rapid.SampledFrom([]int{1, 1, 1, 2, 2, 2, 0, 7}).Draw(t, "connType")
	case kConnUpdate:
		genTarget(t, &op)
		genName(t, &op, connector.NameLengthLimit)
		op.NameFrom = -1
		op.Plugin = genConnPlugin(t)
		genSettings(t, &op)
	case kConnDelete, kProcDelete:
		genTarget(t, &op)
	case kProcCreatePl, kProcCreateCn:
		genTarget(t, &op)
		op.ParentType = int(processor.ParentTypePipeline)
		other := int(processor.ParentTypeConnector)
		if kind == kProcCreateCn {
			op.ParentType, other = other, op.ParentType
		}
		switch rapid.IntRange(0, 14).Draw(t, "parentClass") {
		case 0:
			op.ParentType = other // an id of the wrong kind for this parent type
		case 1:
			op.ParentType = rapid.SampledFrom([]int{0, 3, -1}).Draw(t, "badParentType")
		}
		op.Plugin = genProcPlugin(t)
		genSettings(t, &op)
		op.Workers = rapid.SampledFrom([]int{0, 1, 1, 2, 4, -1}).Draw(t, "workers")
		op.Cond = rapid.SampledFrom([]string{"", "", "{{ true }}", `{{ eq .Metadata.k "v" }}`}).Draw(t, "cond")
	case kProcUpdate:
		genTarget(t, &op)
		op.Plugin = genProcPlugin(t)
		genSettings(t, &op)
		op.Workers = rapid.SampledFrom([]int{0, 1, 1, 2, 4, -1}).Draw(t, "workers")
	case kSimStart:
		op.Target = rapid.IntRange(0, 5).Draw(t, "target")
		op.Pref = rapid.SampledFrom([]string{"api-idle", "api-idle", "config", ""}).Draw(t, "pref")
	case kSimStop:
		op.Target = rapid.IntRange(0, 5).Draw(t, "target")
		op.Pref = "running"
		op.StopStatus = rapid.SampledFrom([]int{int(pipeline.StatusUserStopped), int(pipeline.StatusUserStopped), int(pipeline.StatusDegraded)}).Draw(t, "stopStatus")
	case kSimRan:
		op.Target = rapid.IntRange(0, 5).Draw(t, "target")
		op.Pref = rapid.SampledFrom([]string{"api-idle", "api-idle", ""}).Draw(t, "pref")
	}
	if isAPI(kind) {
		genFault(t, &op)
	}
	return op
}

// actionWeights: how many action slots each kind gets in t.Repeat.
var actionWeights = map[string]int{
	kPlCreate: 3, kPlUpdate: 2, kPlUpdateDLQ: 2, kPlDelete: 1, kPlStart: 1, kPlStop: 1,
	kConnCreate: 3, kConnUpdate: 2, kConnDelete: 2,
	kProcCreatePl: 2, kProcCreateCn: 2, kProcUpdate: 2, kProcDelete: 2,
	kSimStart: 2, kSimStop: 1, kSimRan: 1, kSimRestart: 1,
}

// ---------------------------------------------------------------- the property

func collectMode() bool { return os.Getenv("C14_COLLECT") == "1" }

func TestC14(t *testing.T) {
	st := pbt.For("C14")
	defer st.Finish(t)
	for _, n := range exportedFieldCheck() {
		st.Inconcl(n)
	}
	excl := &excluder{st: st, cache: map[string]string{}}
	var coll *collector
	if collectMode() {
		coll = &collector{byID: map[string]*collected{}}
		defer func() {
			path := pbt.Env("C14_COLLECT_FILE", "/tmp/p14-collected.json")
			if err := coll.write(path); err != nil {
				t.Errorf("collect: %v", err)
			}
			t.Logf("C14 collect mode: %d distinct keys written to %s", len(coll.byID), path)
		}()
	}
	steps := 0
	rapid.Check(t, func(t *rapid.T) {
		setup := genSetup(t)
		m, err := newMachine(setup, st, excl)
		if err != nil {
			t.Fatalf("set-up of file-provisioned entities failed: %v", err)
		}
		fatal := ""
		report := func(vs []violation) {
			rp := m.replayValue()
			for _, v := range vs {
				if coll != nil {
					coll.add(v, rp)
					continue
				}
				if !st.IsKnown(v.Key) {
					// rapid shrinks the draws; on top of that drop every recorded
					// step that is not needed to reproduce this key
					rp = minimise(v.Key, m.replayValue())
				}
				if st.Report(v.Key, v.Detail, rp.size(), rp) && fatal == "" {
					fatal = v.Key + ": " + v.Detail
					m.done = true
				}
			}
		}
		m.setup.Warmup += 7 * setup.Prefab
		for _, op := range prefabOps(setup.Prefab) {
			report(m.step(op))
		}
		actions := map[string]func(*rapid.T){}
		for kind, wgt := range actionWeights {
			kind := kind
			for i := 0; i < wgt; i++ {
				name := kind
				if i > 0 {
					name = fmt.Sprintf("%s/%d", kind, i+1)
				}
				actions[name] = func(t *rapid.T) {
					if m.done || len(m.ops) >= maxOps {
						return // the history is complete; remaining steps are no-ops
					}
					op := genOp(t, kind)
					vs := m.step(op)
					steps++
					report(vs)
				}
			}
		}
		t.Repeat(actions)
		finishCase(st, m)
		if fatal != "" {
			t.Fatalf("%s", fatal)
		}
	})
	st.SetExtra("api_and_sim_steps", steps)
}

func finishCase(st *pbt.Stats, m *machine) {
	rp := m.replayValue()
	if m.harness != "" {
		st.Inconcl("simulation: " + m.harness)
	}
	cls := keysOf(m.classes)
	n := len(m.ops)
	switch {
	case n == 0:
		cls = append(cls, "len:0")
	case n <= 5:
		cls = append(cls, "len:1-5")
	case n <= 15:
		cls = append(cls, "len:6-15")
	default:
		cls = append(cls, "len:16-25")
	}
	if len(m.setup.Config) > 0 {
		cls = append(cls, "with-file-provisioned-entities")
	}
	if len(m.violations) > 0 {
		cls = append(cls, "had-violation")
	}
	nt := m.nontrivial()
	st.Case(pbt.Hash(rp), nt, cls...)
	if nt && st.WantSample() {
		st.Sample(rp)
	}
}

// ---------------------------------------------------------------- replay

// runReplay executes a recorded history and returns every violation key it produces.
func runReplay(rp Replay) (map[string]string, string, error) {
	m, err := newMachine(rp.Setup, nil, nil)
	if err != nil {
		return nil, "", err
	}
	out := map[string]string{}
	for _, op := range rp.Ops {
		for _, v := range m.step(op) {
			out[v.Key] = v.Detail
		}
	}
	return out, m.harness, nil
}

func TestReplayC14(t *testing.T) {
	path := os.Getenv("VERIF_REPLAY_FILE")
	if path == "" {
		t.Skip("VERIF_REPLAY_FILE not set")
	}
	raw, err := os.ReadFile(path)
	if err != nil {
		t.Fatalf("read replay file: %v", err)
	}
	var doc struct {
		Property string `json:"property"`
		Key      string `json:"key"`
		Detail   string `json:"detail"`
		Replay   Replay `json:"replay"`
	}
	if err := json.Unmarshal(raw, &doc); err != nil {
		t.Fatalf("decode replay file: %v", err)
	}
	got, harness, err := runReplay(doc.Replay)
	if err != nil {
		t.Fatalf("replay set-up: %v", err)
	}
	if harness != "" {
		t.Logf("simulation note: %s", harness)
	}
	keys := keysOf(got)
	sort.Strings(keys)
	if d, ok := got[doc.Key]; ok {
		t.Fatalf("violation reproduces: %s: %s", doc.Key, d)
	}
	t.Logf("violation %s does not reproduce (keys produced: %v)", doc.Key, keys)
}
